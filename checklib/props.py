"""Per-property configuration of ./check: Lean modules, audit file, anchored functions whose
normalised inventory must match the expectation, correspondence/oracle streams and budgets."""

DECODE_FUNCS = [
    "packet.basicValidation", "packet.requestMessageID", "packet.controlPacket", "packet.requestPacket",
    "packet.requestType", "packet.modifyParameters", "packet.extendedOperationName",
    "packet.simpleBindParameters", "packet.addParameters", "packet.searchParmeters", "packet.assert",
    "packet.assertApplicationRequest", "packet.deleteParameters", "decodeAttribute", "decodeControl",
    "newMessage", "newRequest", "conn.readRequest", "conn.readPacket",
]

BER_TRUST = ["asn1-ber v1.5.5 ReadPacket modelled byte-for-byte (Ber/Parse.lean) and diffed against the real reader in stream `ber`; Real / GeneralizedTime content validation is a parameter",
             "go-ldap DecompileFilter is a parameter of the model; its answer is supplied per case by the harness"]

PROPS = {
    "C01": {
        "lean": ["GldapModel.Props.C01"],
        "audit": "GldapModel/Audit/C01.lean",
        "inventory": DECODE_FUNCS,
        "streams": [
            {"stream": "decode-valid", "n_quick": 20000, "n_thorough": 400000},
        ],
        "trusted": BER_TRUST,
        "assumptions": ["filters are compared semantically: the delivered filter string must recompile to the client's filter bytes"],
    },
    "C02": {
        "lean": ["GldapModel.Props.C02"],
        "audit": "GldapModel/Audit/C02.lean",
        "inventory": DECODE_FUNCS,
        "streams": [
            {"stream": "decode-hostile", "n_quick": 30000, "n_thorough": 600000},
            {"stream": "ber", "n_quick": 10000, "n_thorough": 200000},
        ],
        "trusted": BER_TRUST,
        "assumptions": ["stack exhaustion in asn1-ber's recursive reader on deeply nested input is outside the model (see C07)"],
    },
}
