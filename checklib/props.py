"""Per-property configuration of ./check: Lean modules, audit file, anchored functions whose
normalised inventory must match the expectation, correspondence/oracle streams and budgets."""

DECODE_FUNCS = [
    "packet.basicValidation", "packet.requestMessageID", "packet.controlPacket", "packet.requestPacket",
    "packet.requestType", "packet.modifyParameters", "packet.extendedOperationName",
    "packet.simpleBindParameters", "packet.addParameters", "packet.searchParmeters", "packet.assert",
    "packet.assertApplicationRequest", "packet.deleteParameters", "decodeAttribute", "decodeControl",
    "newMessage", "newRequest", "conn.readRequest", "conn.readPacket", "decodeFilterDNAttributes",
]

BER_TRUST = ["asn1-ber v1.5.5 ReadPacket modelled byte-for-byte (Ber/Parse.lean) and diffed against the real reader in stream `ber`; Real / GeneralizedTime content validation is a parameter",
             "go-ldap v3.4.6 DecompileFilter / EscapeFilter modelled byte for byte (Gldap/Filter.lean: tag-only dispatch, recovered panics as errors, the dnAttributes flag as gldap decodes it); every case of the decode, mux, session and tddir streams that reaches a search filter compares the model's string with the real one, incl. hostile filter trees"]

CONTROL_FUNCS = [
    "decodeControl", "encodeControls", "ControlString.Encode", "ControlManageDsaIT.Encode", "ControlPaging.Encode",
    "ControlBeheraPasswordPolicy.Encode", "ControlVChuPasswordMustChange.Encode", "ControlVChuPasswordWarning.Encode",
    "ControlMicrosoftNotification.Encode", "ControlMicrosoftShowDeleted.Encode", "ControlMicrosoftServerLinkTTL.Encode",
    "NewControlBeheraPasswordPolicy", "NewControlString", "NewControlPaging", "NewControlManageDsaIT",
    "ControlPaging.SetCookie", "WithGraceAuthNsRemaining", "WithSecondsBeforeExpiration", "WithErrorCode",
    "WithCriticality", "WithControlValue", "controlDefaults", "getControlOpts",
    "ControlBeheraPasswordPolicy.Grace", "ControlBeheraPasswordPolicy.Expire", "ControlBeheraPasswordPolicy.ErrorCode",
    "BindResponse.SetControls", "SearchResponseDone.SetControls", "packet.controlPacket",
]

RESPONSE_FUNCS = [
    "Request.NewResponse", "Request.NewExtendedResponse", "Request.NewBindResponse", "Request.NewSearchDoneResponse",
    "Request.NewSearchResponseEntry", "Request.NewModifyResponse", "ResponseWriter.Write", "beginResponse",
    "addOptionalResponseChildren", "baseResponse.SetResultCode", "baseResponse.SetDiagnosticMessage",
    "baseResponse.SetMatchedDN", "ExtendedResponse.packet", "BindResponse.packet", "BindResponse.SetControls",
    "GeneralResponse.packet", "SearchResponseDone.packet", "SearchResponseDone.SetControls",
    "SearchResponseEntry.packet", "SearchResponseEntry.AddAttribute", "EntryAttribute.encode", "NewEntryAttribute",
    "responseDefaults", "getResponseOpts", "WithDiagnosticMessage", "WithMatchedDN", "WithResponseCode",
    "WithApplicationCode", "WithAttributes", "applyOpts", "encodeControls", "intPtr",
]

HELPER_FUNCS = [
    "ConvertString", "readLength", "SIDBytes", "SIDBytesToString", "NewEntry", "NewEntryAttribute",
    "EntryAttribute.AddValue", "Request.NewModifyResponse", "Request.NewResponse", "NewControlString",
    "NewControlManageDsaIT", "NewControlPaging", "NewControlBeheraPasswordPolicy", "NewControlMicrosoftNotification",
    "NewControlMicrosoftServerLinkTTL", "NewControlMicrosoftShowDeleted", "Mux.Bind", "Mux.Unbind", "Mux.Search",
    "Mux.ExtendedOperation", "Mux.Modify", "Mux.Add", "Mux.Delete", "Mux.DefaultRoute", "NewMux",
]

LIFECYCLE_FUNCS = ["Server.Run", "Server.Stop", "Server.Ready", "conn.close", "conn.serveRequests", "newConn",
                   "conn.initConn", "NewServer", "Server.Router",
                   # cross-cutting: every deadline setter, go statement, recover and wait-group operation of the packages
                   "sites.deadline", "sites.go", "sites.recover", "sites.waitgroup"]
RUNTIME_TRUST = ["sync.Mutex / sync.WaitGroup / context cancellation / go statement: standard interleaving semantics",
                 "Go's panic rule (an unrecovered panic on any goroutine kills the process), net.Listener / net.Conn behaviour",
                 "hook placement rule: acquire-like points after the operation, release-like points before it"]

PROPS = {
    "C01": {
        "inventory_closure": True,
        "lean": ["GldapModel.Props.C01", "GldapModel.Props.Filter", "GldapModel.Props.FilterSession", "GldapModel.Props.Session"],
        "audit": ["GldapModel/Audit/C01.lean", "GldapModel/Audit/Filter.lean", "GldapModel/Audit/Session.lean"],
        "inventory": DECODE_FUNCS + ["conn.serveRequests", "conn.readRequest", "conn.readPacket"],
        "streams": [
            {"stream": "decode-valid", "n_quick": 20000, "n_thorough": 2000000},
            {"stream": "clientwire", "n_quick": 1500, "n_thorough": 100000},
            {"stream": "c13", "n_quick": 8, "n_thorough": 100, "timeout_quick": 900, "timeout_thorough": 6000},
            {"stream": "session", "n_quick": 400, "n_thorough": 40000, "timeout_quick": 900, "timeout_thorough": 6000},
        ],
        "trusted": BER_TRUST,
        "assumptions": ["filters: the theorem gives the RFC 4515 string of the client's filter tree (C01_filter_roundtrip) and that this string determines the tree (C01_filter_faithful, for filters within the RFC grammar); that go-ldap's CompileFilter maps that string back to the same bytes is checked per generated filter by the harness, not proved"],
    },
    "C03": {
        "lean": ["GldapModel.Props.C03", "GldapModel.Props.Session", "GldapModel.Props.FilterSession"],
        "audit": ["GldapModel/Audit/C03.lean", "GldapModel/Audit/Session.lean", "GldapModel/Audit/Filter.lean"],
        "inventory": ["Mux.serve", "responseApplicationCode", "Mux.Bind", "Mux.Unbind", "Mux.Search", "Mux.ExtendedOperation",
                      "Mux.Modify", "Mux.Add", "Mux.Delete", "Mux.DefaultRoute", "NewMux", "baseRoute.handler", "baseRoute.op",
                      "baseRoute.match", "deleteRoute.match", "addRoute.match", "modifyRoute.match", "simpleBindRoute.match",
                      "extendedRoute.match", "searchRoute.match", "newRequest", "WithBaseDN", "WithFilter", "WithScope",
                      "getRouteOpts", "routeDefaults", "conn.serveRequests", "Request.NewResponse", "NewServer", "Server.Router", "newConn"],
        "streams": [
            {"stream": "mux", "n_quick": 30000, "n_thorough": 1500000},
            {"stream": "c06", "n_quick": 12, "n_thorough": 300, "timeout_quick": 900, "timeout_thorough": 6000},
            {"stream": "session", "n_quick": 600, "n_thorough": 60000, "timeout_quick": 900, "timeout_thorough": 6000},
        ],
        "trusted": BER_TRUST + ["strings.EqualFold modelled for ASCII only (criteria alphabets are ASCII)"],
        "assumptions": ["route criteria and request strings are ASCII in the theorems' EqualFold model; tables with non-ASCII search criteria (case variants where lower-casing and case folding differ) are generated too, skipped by the model and judged by the reference oracle (strings.EqualFold) alone"],
    },
    "C04": {
        "inventory_closure": True,
        "lean": ["GldapModel.Props.C04", "GldapModel.Props.Session"],
        "audit": ["GldapModel/Audit/C04.lean", "GldapModel/Audit/Session.lean"],
        "inventory": RESPONSE_FUNCS,
        "streams": [
            {"stream": "resp", "n_quick": 20000, "n_thorough": 2000000},
            {"stream": "session", "n_quick": 600, "n_thorough": 60000, "timeout_quick": 900, "timeout_thorough": 6000},
        ],
        "trusted": BER_TRUST + ["bufio.Writer into a bytes.Buffer (Write+Flush delivers exactly the bytes written)"],
        "assumptions": ["WithAttributes maps are restricted to at most one key in the byte-exact stream, because Go map iteration order is random; multi-key maps are covered by the newentry stream and by the multiset oracle"],
    },
    "C16": {
        "inventory_closure": True,
        "lean": ["GldapModel.Props.C16"],
        "audit": "GldapModel/Audit/C16.lean",
        "inventory": HELPER_FUNCS,
        "streams": [
            {"stream": "convert", "n_quick": 10000, "n_thorough": 500000},
            {"stream": "sid", "n_quick": 6000, "n_thorough": 500000},
            {"stream": "newentry", "n_quick": 4000, "n_thorough": 250000},
            {"stream": "resp", "n_quick": 8000, "n_thorough": 100000},
            {"stream": "behera-ctor", "n_quick": 3000, "n_thorough": 50000},
            {"stream": "mux", "n_quick": 5000, "n_thorough": 100000},
        ],
        "trusted": ["encoding/binary, sort.Strings, fmt %d re-implemented at byte level in the model and diffed against the real ones"],
        "assumptions": [],
    },
    "C19": {
        "lean": ["GldapModel.Props.C19", "GldapModel.Props.BindSession"],
        "audit": ["GldapModel/Audit/C19.lean", "GldapModel/Audit/BindSession.lean"],
        "inventory": ["td.Directory.handleBind", "Entry.GetAttributeValues", "Request.GetSimpleBindMessage", "Request.NewBindResponse",
                      "td.Directory.SetAllowAnonymousBind", "td.Directory.SetUsers", "td.Directory.SetControls", "BindResponse.SetControls", "td.Start", "td.WithDefaults", "td.getOpts", "td.applyOpts", "td.defaults", "Request.StartTLS", "td.Directory.handleStartTLS",
                      "newMessage", "newRequest"],
        "streams": [
            {"stream": "tdbind", "n_quick": 20000, "n_thorough": 1500000},
            {"stream": "tdbindwire", "n_quick": 10000, "n_thorough": 800000},
            {"stream": "tdlive", "n_quick": 300, "n_thorough": 6000, "timeout_quick": 900, "timeout_thorough": 6000},
            # "over plain, TLS and StartTLS connections": binds inside upgraded sessions, also ones that were idle for 11 s (corpus)
            {"stream": "c13", "n_quick": 4, "n_thorough": 60, "timeout_quick": 900, "timeout_thorough": 6000},
            # binds while other clients add / modify / delete and the application calls Set*: every bind is answered
            {"stream": "tdrace", "n_quick": 2, "n_thorough": 20, "timeout_quick": 900, "timeout_thorough": 6000},
        ],
        "trusted": BER_TRUST,
        "assumptions": ["plain / TLS / StartTLS transports deliver the same bind request to the handler (C13, C18); this check drives the handler in-process through the directory's own mux"],
    },
    "C20": {
        "lean": ["GldapModel.Props.C20", "GldapModel.Props.StoreSession", "GldapModel.Props.FilterSession"],
        "audit": ["GldapModel/Audit/C20.lean", "GldapModel/Audit/StoreSession.lean", "GldapModel/Audit/Filter.lean"],
        "inventory": ["td.Directory.handleAdd", "td.Directory.handleModify", "td.Directory.handleDelete", "td.Directory.handleSearchUsers",
                      "td.Directory.handleSearchGroups", "td.Directory.handleSearchGeneric", "td.Directory.findMembers", "td.find", "td.match",
                      "td.Directory.SetUsers", "td.Directory.SetGroups", "NewEntry", "NewEntryAttribute", "EntryAttribute.AddValue", "Entry.GetAttributeValues",
                      # the directory on a connection (Directory.dirSession): the registrations, the remaining handlers, the response constructors
                      "td.Start", "td.Directory.handleNotFound", "td.Directory.handleBind", "Request.NewResponse", "Request.NewSearchDoneResponse",
                      "Request.NewSearchResponseEntry", "Request.NewModifyResponse", "SearchResponseEntry.AddAttribute", "Mux.serve", "searchRoute.match"],
        "streams": [
            {"stream": "tdstore", "n_quick": 3000, "n_thorough": 300000},
            {"stream": "tddir", "n_quick": 3000, "n_thorough": 300000},
        ],
        "trusted": BER_TRUST + ["regexp `\\((.*?)\\)`, strings.ReplaceAll/Trim/TrimSpace/Contains re-implemented at byte level in the model; checked against the real functions by the tdstore stream (including a hostile DN class)"],
        "assumptions": ["several clients issue one operation at a time (the directory serialises on d.mu, C15); StartTLS and token-group searches are outside Directory.dirSession"],
    },
    "C05": {
        "lean": ["GldapModel.Props.C05"],
        "audit": "GldapModel/Audit/C05.lean",
        "inventory": ["ResponseWriter.Write", "newResponseWriter", "conn.serveRequests", "conn.initConn", "sites.connwriter", "sites.go",
                      # what a frame is made of, up to the bytes handed to the connection's writer
                      "SearchResponseEntry.packet", "SearchResponseDone.packet", "BindResponse.packet", "GeneralResponse.packet",
                      "ExtendedResponse.packet", "EntryAttribute.encode", "encodeControls", "beginResponse", "addOptionalResponseChildren"],
        "streams": [
            {"stream": "c05", "n_quick": 60, "n_thorough": 3000, "timeout_quick": 600, "timeout_thorough": 6000},
        ],
        "trusted": ["bufio.Writer modelled with non-atomic Write/Flush halves and arbitrary spill; sync.Mutex as mutual exclusion",
                    "real memory corruption from a data race is visible only to the race detector (C15)"],
        "assumptions": ["partial: the theorem speaks about the modelled bufio; TLS record layer and kernel socket buffers are trusted to preserve the byte stream"],
    },
    "C06": {
        "lean": ["GldapModel.Props.C06"], "audit": "GldapModel/Audit/C06.lean",
        "inventory": ["conn.serveRequests", "conn.readRequest", "newRequest", "Request.ConnectionID", "Mux.serve", "conn.initConn", "sites.go",
                      "Request.StartTLS", "sites.waitgroup"],
        "streams": [{"stream": "c06", "n_quick": 40, "n_thorough": 2000, "timeout_quick": 900, "timeout_thorough": 6000},
                    # an earlier handler that stays blocked across a StartTLS upgrade until a request inside the tunnel is dispatched (corpus)
                    {"stream": "c13", "n_quick": 4, "n_thorough": 60, "timeout_quick": 900, "timeout_thorough": 6000}],
        "trusted": RUNTIME_TRUST,
        "assumptions": ["partial: that the Go scheduler actually runs a spawned goroutine is observed only by the rendezvous oracle"],
    },
    "C07": {
        "lean": ["GldapModel.Props.C07"], "audit": "GldapModel/Audit/C07.lean",
        "inventory": LIFECYCLE_FUNCS + ["Mux.serve", "ResponseWriter.Write"],
        "streams": [{"stream": "c07", "n_quick": 23, "n_thorough": 460, "timeout_quick": 900, "timeout_thorough": 6000}],
        "trusted": RUNTIME_TRUST,
        "assumptions": ["partial: stack exhaustion in the third-party BER reader on deeply nested input is a fatal error no recover can catch; it is outside the model and recorded as a known finding"],
    },
    "C08": {
        "lean": ["GldapModel.Props.C08"], "audit": "GldapModel/Audit/C08.lean",
        "inventory": LIFECYCLE_FUNCS + ["Request.StartTLS", "ResponseWriter.Write", "sites.connwriter"],
        "streams": [{"stream": "c08", "n_quick": 40, "n_thorough": 2000, "timeout_quick": 900, "timeout_thorough": 6000},
                    # connections whose handlers are stuck writing when the read loop has ended (corpus) and Stop comes
                    {"stream": "c11", "n_quick": 8, "n_thorough": 100, "timeout_quick": 900, "timeout_thorough": 6000},
                    # the Unbind ending with a slow unbind handler (corpus) and its variations
                    {"stream": "c10", "n_quick": 6, "n_thorough": 200, "timeout_quick": 900, "timeout_thorough": 6000}],
        "trusted": RUNTIME_TRUST,
        "assumptions": ["partial: goroutine and descriptor accounting is observed by the oracle only"],
    },
    "C09": {
        "lean": ["GldapModel.Props.C09"], "audit": "GldapModel/Audit/C09.lean",
        "inventory": ["Server.Run", "newConn", "Request.ConnectionID", "Request.StartTLS", "conn.initConn"],
        "streams": [{"stream": "c08", "n_quick": 40, "n_thorough": 2000, "timeout_quick": 900, "timeout_thorough": 6000},
                    # requests before and after a StartTLS upgrade report one ConnectionID
                    {"stream": "c13", "n_quick": 6, "n_thorough": 100, "timeout_quick": 900, "timeout_thorough": 6000}],
        "trusted": RUNTIME_TRUST,
        "assumptions": ["scope: one Run per Server (the counter is local to Run)"],
    },
    "C10": {
        "lean": ["GldapModel.Props.C10", "GldapModel.Props.Session"],
        "audit": ["GldapModel/Audit/C10.lean", "GldapModel/Audit/Session.lean"],
        "inventory": ["conn.serveRequests", "conn.close", "Mux.Unbind", "baseRoute.handler", "sites.go"],
        "streams": [{"stream": "c10", "n_quick": 40, "n_thorough": 2000, "timeout_quick": 900, "timeout_thorough": 6000},
                    {"stream": "session", "n_quick": 400, "n_thorough": 40000, "timeout_quick": 900, "timeout_thorough": 6000}],
        "trusted": RUNTIME_TRUST, "assumptions": [],
    },
    "C11": {
        "lean": ["GldapModel.Props.C11"], "audit": "GldapModel/Audit/C11.lean",
        "inventory": LIFECYCLE_FUNCS + ["Request.StartTLS", "ResponseWriter.Write", "Mux.serve"],
        "streams": [{"stream": "c11", "n_quick": 24, "n_thorough": 600, "timeout_quick": 900, "timeout_thorough": 6000},
                    # Router() called while Stop waits for a busy connection, a request of that connection between its read and
                    # its dispatch (corpus)
                    {"stream": "c08", "n_quick": 4, "n_thorough": 100, "timeout_quick": 900, "timeout_thorough": 6000}],
        "trusted": RUNTIME_TRUST,
        "assumptions": ["partial: the theorem is progress (a server-only step is always enabled while a Stop is in progress); seconds are measured by the oracle; handlers are assumed to return once their I/O fails"],
    },
    "C12": {
        "lean": ["GldapModel.Props.C12"], "audit": "GldapModel/Audit/C12.lean",
        "inventory": LIFECYCLE_FUNCS,
        "streams": [{"stream": "c12", "n_quick": 30, "n_thorough": 1500, "timeout_quick": 900, "timeout_thorough": 6000},
                    # every ending of a connection with handlers in flight, incl. clients that reuse one message id (corpus): at
                    # the end of each scenario the server is stopped and must be quiescent
                    {"stream": "c08", "n_quick": 8, "n_thorough": 200, "timeout_quick": 900, "timeout_thorough": 6000}],
        "trusted": RUNTIME_TRUST, "assumptions": [],
    },
    "C17": {
        "lean": ["GldapModel.Props.C17", "GldapModel.Props.Addr"],
        "audit": ["GldapModel/Audit/C17.lean", "GldapModel/Audit/Addr.lean"],
        "inventory": ["Server.Run", "Server.Ready", "validateAddrPort", "last"],
        "streams": [{"stream": "c17", "n_quick": 30, "n_thorough": 1000, "timeout_quick": 900, "timeout_thorough": 6000},
                    # a moment of descriptor exhaustion at accept (corpus): Ready was true, Stop was not called, so a client that
                    # connects afterwards is served
                    {"stream": "c07", "n_quick": 1, "n_thorough": 1, "timeout_quick": 900, "timeout_thorough": 6000},  # (not the whole fault list: the recorded C07 finding is C07's)
                    {"stream": "addr", "n_quick": 800, "n_thorough": 40000}],
        "trusted": RUNTIME_TRUST,
        "assumptions": ["partial: that a connection attempt to a bound, listening socket succeeds is the kernel's backlog behaviour, observed by the oracle"],
    },
    "C13": {
        "lean": ["GldapModel.Props.C13"], "audit": "GldapModel/Audit/C13.lean",
        "inventory": ["conn.serveRequests", "conn.initConn", "Request.StartTLS", "conn.readPacket", "newResponseWriter", "ResponseWriter.Write", "Mux.serve",
                      "sites.connwriter", "sites.deadline", "sites.go"],
        "streams": [{"stream": "c13", "n_quick": 30, "n_thorough": 1000, "timeout_quick": 900, "timeout_thorough": 6000}],
        "trusted": RUNTIME_TRUST + ["crypto/tls: after a successful handshake every byte on the connection is TLS-protected"],
        "assumptions": ["partial: the theorem covers gldap's plumbing (the StartTLS handler runs on the connection goroutine, nothing is read meanwhile, writers are created per iteration after the swap); scope: no earlier handler is still in flight when StartTLS is read (RFC 4511 4.14.1 forbids outstanding operations)"],
    },
    "C18": {
        "lean": ["GldapModel.Props.C18"], "audit": "GldapModel/Audit/C18.lean",
        "inventory": ["Server.Run", "td.GetTLSConfig", "WithTLSConfig", "td.WithMTLS", "newConn", "conn.initConn", "getConfigOpts", "sites.go"],
        "streams": [{"stream": "c18", "n_quick": 30, "n_thorough": 1000, "timeout_quick": 900, "timeout_thorough": 6000}],
        "trusted": RUNTIME_TRUST + ["crypto/tls: a read yields plaintext only after a handshake satisfying the tls.Config (`beh` in the model)"],
        "assumptions": ["partial: the handshake verdict is crypto/tls's; the model covers the plumbing (listener wrapped before the accept loop, loop accepts on the wrapped listener, WithMTLS sets RequireAndVerifyClientCert and the CA pool)"],
    },
    "C15": {
        "lean": ["GldapModel.Props.C15"], "audit": "GldapModel/Audit/C15.lean",
        "inventory": LIFECYCLE_FUNCS + ["ResponseWriter.Write", "Mux.serve", "td.Directory.handleBind", "td.Directory.handleAdd",
                                        "td.Directory.handleModify", "td.Directory.handleDelete", "td.Directory.handleSearchUsers",
                                        "td.Directory.handleSearchGroups", "td.Directory.handleSearchGeneric", "td.Directory.SetUsers",
                                        "td.Directory.SetGroups", "td.Directory.SetControls", "td.Directory.SetTokenGroups",
                                        "td.Directory.SetAllowAnonymousBind", "td.Directory.Users", "td.Directory.Groups",
                                        "td.Directory.Controls", "td.Directory.TokenGroups", "td.Directory.AllowAnonymousBind"],
        "streams": [
            {"stream": "tdrace", "race": True, "n_quick": 3, "n_thorough": 30, "timeout_quick": 900, "timeout_thorough": 6000},
            {"stream": "c05", "race": True, "n_quick": 8, "n_thorough": 100, "timeout_quick": 900, "timeout_thorough": 6000},
            {"stream": "c06", "race": True, "n_quick": 8, "n_thorough": 80, "timeout_quick": 900, "timeout_thorough": 6000},
            {"stream": "c08", "race": True, "n_quick": 10, "n_thorough": 100, "timeout_quick": 900, "timeout_thorough": 6000},
            {"stream": "c10", "race": True, "n_quick": 6, "n_thorough": 60, "timeout_quick": 900, "timeout_thorough": 6000},
            {"stream": "c12", "race": True, "n_quick": 8, "n_thorough": 80, "timeout_quick": 900, "timeout_thorough": 6000},
            {"stream": "c13", "race": True, "n_quick": 5, "n_thorough": 50, "timeout_quick": 900, "timeout_thorough": 6000},
            {"stream": "c11", "race": True, "n_quick": 6, "n_thorough": 60, "timeout_quick": 900, "timeout_thorough": 6000},
            # the same scenarios without the tracer (its mutex would order the instrumentation points and hide races
            # between them): only a race report or a crash counts
            {"stream": "c05", "race": True, "notrace": True, "n_quick": 8, "n_thorough": 100, "timeout_quick": 900, "timeout_thorough": 6000},
            {"stream": "c06", "race": True, "notrace": True, "n_quick": 8, "n_thorough": 80, "timeout_quick": 900, "timeout_thorough": 6000},
            {"stream": "c08", "race": True, "notrace": True, "n_quick": 10, "n_thorough": 100, "timeout_quick": 900, "timeout_thorough": 6000},
            {"stream": "c10", "race": True, "notrace": True, "n_quick": 6, "n_thorough": 60, "timeout_quick": 900, "timeout_thorough": 6000},
            {"stream": "c13", "race": True, "notrace": True, "n_quick": 6, "n_thorough": 60, "timeout_quick": 900, "timeout_thorough": 6000},
        ],
        "trusted": RUNTIME_TRUST + ["Go's race detector (happens-before analysis of each observed execution)",
                                    "the classical DRF result relating the lockset/confinement discipline to happens-before races is cited, not re-proved"],
        "assumptions": ["partial: the access table is extracted syntactically (receiver-variable heuristics, intraprocedural lock sets plus caller-holds propagation); accesses through closures handed to other packages or reflection are invisible to it; the memory model itself is only exercised by the race detector"],
    },
    "C14": {
        "inventory_closure": True,
        "lean": ["GldapModel.Props.C14"],
        "audit": "GldapModel/Audit/C14.lean",
        "inventory": CONTROL_FUNCS + ["newRequest", "newMessage", "BindResponse.SetControls", "SearchResponseDone.SetControls"],
        "streams": [
            {"stream": "ctrl-encode", "n_quick": 20000, "n_thorough": 1500000},
            {"stream": "behera-ctor", "n_quick": 8000, "n_thorough": 500000},
            # whole requests with 0..20 controls of every kind in every order (what one control leaves behind must not reach the next)
            {"stream": "decode-valid", "n_quick": 8000, "n_thorough": 400000},
        ],
        "trusted": BER_TRUST + ["go-ldap v3.4.6 DecodeControl is the second, independent reader in the harness; it nil-dereferences on a valueless Behera control, which is therefore read only by the RFC-based Lean reader"],
        "assumptions": ["strconv.FormatInt/ParseInt are modelled at byte level (Proofs/Decimal.lean)"],
    },
    "C02": {
        "inventory_closure": True,
        "lean": ["GldapModel.Props.C02"],
        "audit": "GldapModel/Audit/C02.lean",
        "inventory": DECODE_FUNCS,
        "streams": [
            {"stream": "decode-hostile", "n_quick": 30000, "n_thorough": 3000000},
            {"stream": "ber", "n_quick": 10000, "n_thorough": 1000000},
            {"stream": "hostile-live", "n_quick": 20, "n_thorough": 400, "timeout_quick": 900, "timeout_thorough": 6000},
        ],
        "trusted": BER_TRUST,
        "assumptions": ["stack exhaustion in asn1-ber's recursive reader on deeply nested input is outside the model (see C07)"],
    },
}
