TEXT = {
 "C01": {
  "level": "Machine-checked proof (Lean 4): for every well-formed request of the seven operations - unbounded ids, strings, numbers of attributes/changes/values/controls - gldap's decode model applied to the RFC 4511 encoding (tree level, and byte level through the BER reader model with the unbounded parse/serialise round trip) yields exactly the client's fields; and over ALL trees a delivered message has the kind of its protocolOp tag and a delivered Bind has version 3. The model is tied to the source by regenerated constants/guard flags, a normalised inventory of the decode functions, and a differential run of real gldap vs the compiled model with an independent field-equality oracle.",
  "design": "5 C01", "technique": "Lean 4 proof (round trip + kind theorems) + regenerated constants + differential correspondence",
  "note": "Trusted: Lean kernel; extractor; harness; asn1-ber reader modelled (validated in stream `ber`); go-ldap filter (de)compiler is a parameter, filters compared by recompilation."},
 "C02": {
  "level": "Machine-checked proof (Lean 4): with the guard flags regenerated from the current source, no byte string and no BER tree makes the decode model return `panic`; each guard has a kernel-checked witness tree that panics if the guard is dropped. Tied to the source by flags + inventory + differential run over structured mutations and random bytes (panic = oracle failure).",
  "design": "5 C02", "technique": "Lean 4 totality proof over all trees + guard-flag extraction + mutation-based correspondence",
  "note": "Trusted: as C01. Stack exhaustion in the third-party recursive reader is outside the model (C07)."},
 "C14": {
  "level": "Machine-checked proof (Lean 4): for every control value of the nine exported types (page sizes < 2^32, any cookie, grace/expire < 2^63, error 0..8, any int64 VChu expiry via a proved FormatInt/ParseInt round trip, any non-typed OID, both criticalities) gldap's Encode() equals the RFC encoding, gldap's decodeControl returns the same control (tree and wire level, lists in order), and an independent strict RFC reader recovers the same fields; for ALL uint arguments the Behera constructor yields at most one of grace/expire/error and an error in -1..8 (with a kernel-checked counterexample for the pre-fix code). Tied to the source by regenerated OIDs/flags, inventory of the Encode/constructor functions, byte-exact differential run of Encode() vs the model, and decode-back oracles through gldap and go-ldap.",
  "design": "5 C14", "technique": "Lean 4 proof (encode/decode round trips, constructor arithmetic) + byte-exact differential correspondence",
  "note": "Trusted: as C01; go-ldap DecodeControl used as second reader (nil-deref on valueless Behera noted)."},
}
NOT_APPLICABLE = {p: "check not built yet in this round (planned, see DESIGN.md section 5)" for p in
                  ["C%02d" % i for i in range(1, 21)]}
