TEXT = {
 "C01": {
  "level": "Machine-checked proof (Lean 4): for every well-formed request of the seven operations - unbounded ids, strings, numbers of attributes/changes/values/controls - gldap's decode model applied to the RFC 4511 encoding (tree level, and byte level through the BER reader model with the unbounded parse/serialise round trip) yields exactly the client's fields; and over ALL trees a delivered message has the kind of its protocolOp tag and a delivered Bind has version 3. The model is tied to the source by regenerated constants/guard flags, a normalised inventory of the decode functions, and a differential run of real gldap vs the compiled model with an independent field-equality oracle.",
  "design": "5 C01", "technique": "Lean 4 proof (round trip + kind theorems) + regenerated constants + differential correspondence",
  "note": "Trusted: Lean kernel; extractor; harness; asn1-ber reader modelled (validated in stream `ber`); go-ldap filter (de)compiler is a parameter, filters compared by recompilation."},
 "C02": {
  "level": "Machine-checked proof (Lean 4): with the guard flags regenerated from the current source, no byte string and no BER tree makes the decode model return `panic`; each guard has a kernel-checked witness tree that panics if the guard is dropped. Tied to the source by flags + inventory + differential run over structured mutations and random bytes (panic = oracle failure).",
  "design": "5 C02", "technique": "Lean 4 totality proof over all trees + guard-flag extraction + mutation-based correspondence",
  "note": "Trusted: as C01. Stack exhaustion in the third-party recursive reader is outside the model (C07)."},
}
NOT_APPLICABLE = {p: "check not built yet in this round (planned, see DESIGN.md section 5)" for p in
                  ["C%02d" % i for i in range(1, 21)]}
