#!/usr/bin/env python3
"""Regenerates MANIFEST.json from checklib/props.py + the per-property texts below."""
import json, os, sys
sys.path.insert(0, os.path.dirname(os.path.abspath(__file__)))
from props import PROPS
from manifest_text import TEXT, NOT_APPLICABLE

VERIF = os.path.dirname(os.path.dirname(os.path.abspath(__file__)))
checks = []
for pid in sorted(PROPS):
    t = TEXT[pid]
    checks.append({
        "property_id": pid,
        "quick_cmd": "./check %s quick" % pid,
        "thorough_cmd": "./check %s thorough" % pid,
        "evidence_file": "/verif/evidence/%s.json" % pid,
        "replay_cmd_template": "./check %s quick --replay {path}" % pid,
        "engine": "lean-proof+correspondence",
        "level_claimed": {"category": PROPS[pid].get("level", "proof"), "text": t["level"], "design_ref": t["design"]},
        "level_note": t["note"],
        "technique": t["technique"],
    })
m = {
    "version": 1,
    "setup_cmd": "./setup.sh",
    "hooks": {
        "guard": "verif",
        "enable": "go build -tags verif (harness module replaces github.com/jimlambrt/gldap => /repo)",
        "baseline_off_cmd": "cd /repo && go test -vet=off -count=1 -timeout 25m ./...",
        "source_commits": json.load(open(os.path.join(VERIF, "checklib", "hook_commits.json"))),
        "add_only": True,
    },
    "engines": [
        {"name": "lean-proof+correspondence", "path": "/verif/check",
         "serves_properties": sorted(PROPS),
         "kind_free_text": "Lean 4 theorems over a hand-written model parametrised by facts/constants regenerated from /repo by a go/ast extractor; compiled Lean driver diffed against the real gldap by a Go harness; direct property oracle on the implementation"},
    ],
    "checks": checks,
    "not_applicable": [{"property_id": k, "reason": v} for k, v in sorted(NOT_APPLICABLE.items()) if k not in PROPS],
    "notes": "See DESIGN.md. KNOWN_FINDINGS.json lists recorded findings and fixed defects.",
}
json.dump(m, open(os.path.join(VERIF, "MANIFEST.json"), "w"), indent=1)
print("MANIFEST.json:", len(checks), "checks,", len(m["not_applicable"]), "not yet claimed")
