#!/bin/sh
# run every registered check (quick tier by default) and summarise
tier=${1:-quick}
cd "$(dirname "$0")"
for p in $(python3 -c "import json;print(' '.join(c['property_id'] for c in json.load(open('MANIFEST.json'))['checks']))"); do
  ./check $p $tier 2>&1 | grep -E "^(OK|VIOLATION|KNOWN-FINDING)" 
done
