#!/bin/sh
# Build everything the checks need from files on disk only (offline).
set -e
cd "$(dirname "$0")"
export GOFLAGS=-mod=mod GOPROXY=off GOSUMDB=off GOTOOLCHAIN=local
mkdir -p work/bin generated evidence replays
(cd go/extract && go build -o ../../work/bin/verifextract .)
rm -f lean/GldapModel/Generated/*.lean
work/bin/verifextract -repo "${VERIF_REPO:-/repo}" -lean lean/GldapModel/Generated -inventory generated/inventory.txt
(cd lean && lake build)
cp "${VERIF_REPO:-/repo}/go.sum" go/harness/go.sum
if [ "${VERIF_REPO:-/repo}" = /repo ]; then
  (cd go/harness && go build -tags verif -o ../../work/bin/verifharness . && go build -tags verif -race -o ../../work/bin/verifharness-race .)
fi  # otherwise the checks build the harness against the snapshot on first use
# the server-trace replay (driver code, not proved) on hand-written traces: legal ones are accepted, illegal ones rejected
if ! lean/.lake/build/bin/gmodel < lean/Driver/selftest/server_traces.txt | cut -c1-40 | cmp -s - lean/Driver/selftest/server_traces.expect; then
  echo "WARNING: server-trace replay self-test differs from lean/Driver/selftest/server_traces.expect" >&2
fi
echo setup-ok
