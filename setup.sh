#!/bin/sh
# Build everything the checks need from files on disk only (offline).
set -e
cd "$(dirname "$0")"
export GOFLAGS=-mod=mod GOPROXY=off GOSUMDB=off GOTOOLCHAIN=local
mkdir -p work/bin generated evidence replays
(cd go/extract && go build -o ../../work/bin/verifextract .)
rm -f lean/GldapModel/Generated/*.lean
work/bin/verifextract -repo "${VERIF_REPO:-/repo}" -lean lean/GldapModel/Generated -inventory generated/inventory.txt
(cd lean && lake build)
cp "${VERIF_REPO:-/repo}/go.sum" go/harness/go.sum
if [ "${VERIF_REPO:-/repo}" = /repo ]; then
  (cd go/harness && go build -tags verif -o ../../work/bin/verifharness . && go build -tags verif -race -o ../../work/bin/verifharness-race .)
fi  # otherwise the checks build the harness against the snapshot on first use
echo setup-ok
