package main

import (
	"fmt"
	"math/rand"
	"net"
	"sort"
	"strings"
	"sync"
	"sync/atomic"
	"time"

	"github.com/jimlambrt/gldap"
)

// opFrame builds one request of the given kind with the given message id.
func opFrame(kind string, id int64) []byte {
	r := Req{Kind: kind, ID: id, DN: "cn=x,dc=example,dc=org", Pass: "pw", Scope: 2, Filter: "(cn=x)", Name: "1.3.6.1.4.1.4203.1.11.3"}
	if kind == "starttls" {
		r.Kind, r.Name = "extended", "1.3.6.1.4.1.1466.20037"
	}
	n, err := r.Node()
	if err != nil {
		panic(err)
	}
	return n.Ser()
}

// answer writes the final response belonging to the request's operation.
func answer(w *gldap.ResponseWriter, r *gldap.Request) { answerCode(w, r, 0) }

// answerCode: the same with a result code of the handler's choosing (applications use codes of their own too).
func answerCode(w *gldap.ResponseWriter, r *gldap.Request, code int) {
	// an application builds its option values once and uses them for every response, from every handler goroutine
	rc := sharedCodeOpt(code)
	switch r.VerifRouteOp() {
	case "bind":
		_ = w.Write(r.NewBindResponse(rc))
	case "search":
		_ = w.Write(r.NewSearchDoneResponse(rc))
	case "modify":
		_ = w.Write(r.NewModifyResponse(rc))
	case "add":
		_ = w.Write(r.NewResponse(sharedAddOpt, rc))
	case "delete":
		_ = w.Write(r.NewResponse(sharedDelOpt, rc))
	default:
		_ = w.Write(r.NewExtendedResponse(rc))
	}
}

var (
	sharedCodeOpts sync.Map // result code -> the one gldap.Option value made for it
	sharedAddOpt   = gldap.WithApplicationCode(gldap.ApplicationAddResponse)
	sharedDelOpt   = gldap.WithApplicationCode(gldap.ApplicationDelResponse)
)

func sharedCodeOpt(code int) gldap.Option {
	if o, ok := sharedCodeOpts.Load(code); ok {
		return o.(gldap.Option)
	}
	o, _ := sharedCodeOpts.LoadOrStore(code, gldap.WithResponseCode(code))
	return o.(gldap.Option)
}

type entryRec struct {
	conn, reqID int
	msgID       int64
	seq         int
	req         *gldap.Request // kept by the application after its handler has returned (a watcher, an audit trail)
}

type recorder struct {
	mu      sync.Mutex
	entries []entryRec
	exits   []entryRec
	seq     int
}

func (rc *recorder) enter(r *gldap.Request) {
	rc.mu.Lock()
	rc.seq++
	rc.entries = append(rc.entries, entryRec{r.ConnectionID(), r.ID, r.VerifMessage().GetID(), rc.seq, r})
	rc.mu.Unlock()
}

// stale: every request the handlers were given still reports the connection and number it reported then, however
// many requests have been served since on this and on other connections ("" if so).
func (rc *recorder) stale() string {
	rc.mu.Lock()
	defer rc.mu.Unlock()
	for _, e := range rc.entries {
		if e.req == nil {
			continue
		}
		if c, n := e.req.ConnectionID(), e.req.ID; c != e.conn || n != e.reqID {
			return fmt.Sprintf("the request that arrived as %d/%d (connection/number) now reports ConnectionID %d and ID %d", e.conn, e.reqID, c, n)
		}
	}
	return ""
}

func (rc *recorder) exit(r *gldap.Request) {
	rc.mu.Lock()
	rc.seq++
	rc.exits = append(rc.exits, entryRec{r.ConnectionID(), r.ID, r.VerifMessage().GetID(), rc.seq, nil})
	rc.mu.Unlock()
}

func (rc *recorder) tick() int {
	rc.mu.Lock()
	defer rc.mu.Unlock()
	rc.seq++
	return rc.seq
}

// allRoutes registers h for every operation kind (and the unbind route when withUnbind).
var allRoutesCalls int64

func allRoutes(h gldap.HandlerFunc, tlsH gldap.HandlerFunc, unbindH gldap.HandlerFunc) *gldap.Mux {
	mux, _ := gldap.NewMux()
	// every second table registers the StartTLS route LAST, behind the other extended operations: where a route
	// stands in the table has nothing to do with how its request is dispatched
	tlsLast := atomic.AddInt64(&allRoutesCalls, 1)%2 == 0
	if tlsH != nil && !tlsLast {
		_ = mux.ExtendedOperation(tlsH, gldap.ExtendedOperationStartTLS)
	}
	_ = mux.Bind(h)
	_ = mux.Search(h)
	_ = mux.Modify(h)
	_ = mux.Add(h)
	_ = mux.Delete(h)
	_ = mux.ExtendedOperation(h, gldap.ExtendedOperationWhoAmI)
	if tlsH != nil && tlsLast {
		_ = mux.ExtendedOperation(h, gldap.ExtendedOperationName("1.3.6.1.4.1.4203.1.11.1"))
		_ = mux.ExtendedOperation(tlsH, gldap.ExtendedOperationStartTLS)
	}
	if unbindH != nil {
		_ = mux.Unbind(unbindH)
	}
	return mux
}

var opKinds = []string{"bind", "search", "modify", "add", "delete", "extended"}

// ---- stream "c06": numbering and concurrent dispatch ---------------------------------------------

type c06Stream struct{}

func (c06Stream) Name() string               { return "c06" }
func (c06Stream) CaseTimeout() time.Duration { return 60 * time.Second }
func (c06Stream) Rule() string {
	return "K simultaneous connections (1..8; plain / TLS / StartTLS), each pipelining N requests (1..256) of a random mix of the six dispatched operations in one write, routed by per-operation routes, all by the default route, or by nothing at all (a server whose Router was never called: every request must be refused with its operation's response type); also: a server with a read timeout, a handler that outlives it and requests sent afterwards (whatever is served carries its arrival number); a route registered on the live mux while a handler blocks (requests sent afterwards must still be dispatched); a handler stuck inside Write because its client does not read a large result yet (the requests behind it must still reach their handlers); every handler blocks until ALL handlers of ALL connections have started (rendezvous), so the scenario only completes if no dispatch waits for an earlier handler; oracle: the rendezvous completes, and on every connection Request.ID is 1..N in arrival (message id) order and ConnectionID is constant; the hook trace of every connection is replayed through the Lean connection automaton; non-trivial = N >= 2, distinct by scenario"
}

func (c06Stream) Generate(rng *rand.Rand, n int, thorough bool) []Case {
	var cs []Case
	for len(cs) < n {
		k := []int{1, 1, 2, 3, 8}[rng.Intn(5)]
		np := []int{1, 2, 3, 5, 16, 64}[rng.Intn(6)]
		if rng.Intn(5) == 0 {
			// the long pipelines of the quantifier (up to 256): any fixed bound on in-flight requests shows here
			np = []int{65, 100, 129, 200, 255, 256}[rng.Intn(6)]
			k = 1 + rng.Intn(2)
		}
		switch rng.Intn(12) {
		case 0:
			// a server with a read timeout, a handler that outlives it, and requests sent after it: whatever is served
			// carries its arrival number
			cs = append(cs, Case{Line: fmt.Sprintf("c06 conns=1 n=3 mode=plain seed=%d routes=all rt=%d", rng.Intn(1<<30), 250+rng.Intn(200)), Kind: "readtimeout"})
			continue
		case 1:
			// a route is registered while a handler is blocked; requests sent afterwards must still be dispatched
			cs = append(cs, Case{Line: fmt.Sprintf("c06 conns=2 n=2 mode=plain seed=%d routes=all latereg=1", rng.Intn(1<<30)), Kind: "latereg"})
			continue
		case 3:
			// a handler panics (gldap recovers the request); the client then uses that message id again, as it may
			cs = append(cs, Case{Line: fmt.Sprintf("c06 conns=1 n=2 mode=plain seed=%d routes=all panicreuse=1", rng.Intn(1<<30)), Kind: "panicreuse"})
			continue
		case 2:
			// a handler is stuck INSIDE Write (its client is not reading a large result yet); the requests behind it
			// must still reach their handlers
			cs = append(cs, Case{Line: fmt.Sprintf("c06 conns=1 n=%d mode=%s seed=%d routes=all stalled=1", 2+rng.Intn(4), []string{"plain", "tls"}[rng.Intn(2)], rng.Intn(1<<30)), Kind: "stalled"})
			continue
		}
		// (sameid: a careless client numbers all its pipelined requests alike; they are served like any others, and
		// numbered by arrival)
		cs = append(cs, Case{Line: fmt.Sprintf("c06 conns=%d n=%d mode=%s seed=%d routes=%s sameid=%d", k, np, []string{"plain", "plain", "tls", "starttls"}[rng.Intn(4)], rng.Intn(1<<30),
			[]string{"all", "all", "default", "none"}[rng.Intn(4)], rng.Intn(4)/3), Kind: "pipeline"})
	}
	return cs
}

func (c06Stream) Impl(c Case) string {
	p := kv(c.Line)
	k, n, mode := atoi(p["conns"]), atoi(p["n"]), p["mode"]
	rng := rand.New(rand.NewSource(int64(atoi(p["seed"]))))
	tlsConfigs()
	if p["rt"] != "" {
		return c06ReadTimeout(atoi(p["rt"]))
	}
	if p["latereg"] == "1" {
		return c06LateRegistration()
	}
	if p["stalled"] == "1" {
		return c06Stalled(n, mode)
	}
	if p["panicreuse"] == "1" {
		return c06PanicReuse()
	}
	rc := &recorder{}
	var all sync.WaitGroup
	all.Add(k * n)
	released := make(chan struct{})
	h := func(w *gldap.ResponseWriter, r *gldap.Request) {
		rc.enter(r)
		all.Done()
		<-released
		// all handlers answer at the same moment, many of them with result codes of the application's own
		// (70000: outside the range of a result code on the wire; whatever gldap does with it, it does it to its own copy)
		answerCode(w, r, []int{0, 0, 1000, 1001, 4096, 32000, 123, 70000}[int(r.VerifMessage().GetID())%8]+int(r.VerifMessage().GetID()%3))
	}
	mux := allRoutes(h, startTLSHandler(srvTLS, 0, 0), nil)
	if p["routes"] == "none" && mode != "starttls" {
		return c06NoRouter(k, n, mode, rng)
	}
	if p["routes"] == "default" {
		// every operation is served by the default route (only StartTLS has a route of its own)
		mux, _ = gldap.NewMux()
		_ = mux.ExtendedOperation(startTLSHandler(srvTLS, 0, 0), gldap.ExtendedOperationStartTLS)
		_ = mux.DefaultRoute(h)
	}
	sut, err := startServer(mux, serverTLSFor(mode), nil)
	if err != nil {
		return "harness-error start: " + err.Error()
	}
	defer sut.tr.ReleaseAll()
	clients := make([]*rawClient, k)
	kinds := make([][]string, k)
	for i := range clients {
		cl, err := connect(sut.addr, mode)
		if err != nil {
			return "harness-error connect: " + err.Error()
		}
		clients[i] = cl
		defer cl.close()
		var buf []byte
		for j := 0; j < n; j++ {
			kind := opKinds[rng.Intn(len(opKinds))]
			kinds[i] = append(kinds[i], kind)
			id := int64(1000 + j)
			if p["sameid"] == "1" {
				id = 1000
			}
			buf = append(buf, opFrame(kind, id)...)
		}
		if err := cl.send(buf); err != nil {
			return "harness-error send: " + err.Error()
		}
	}
	verdict := "ok"
	started := make(chan struct{})
	go func() { all.Wait(); close(started) }()
	select {
	case <-started:
	case <-time.After(20 * time.Second):
		rc.mu.Lock()
		verdict = fmt.Sprintf("dispatch blocked: only %d of %d handlers started while earlier handlers block", len(rc.entries), k*n)
		rc.mu.Unlock()
	}
	close(released)
	if verdict == "ok" {
		// responses: N per connection
		for i, cl := range clients {
			for j := 0; j < n; j++ {
				if _, err := cl.readFrame(20 * time.Second); err != nil {
					verdict = fmt.Sprintf("conn %d: response %d of %d missing: %v", i, j+1, n, err)
					break
				}
			}
		}
	}
	if verdict == "ok" {
		rc.mu.Lock()
		byConn := map[int][]entryRec{}
		for _, e := range rc.entries {
			byConn[e.conn] = append(byConn[e.conn], e)
		}
		rc.mu.Unlock()
		if len(byConn) != k {
			verdict = fmt.Sprintf("%d distinct ConnectionIDs for %d connections", len(byConn), k)
		}
		for cid, es := range byConn {
			if cid <= 0 {
				verdict = fmt.Sprintf("ConnectionID %d is not positive", cid)
			}
			sort.Slice(es, func(a, b int) bool { return es[a].msgID < es[b].msgID })
			if p["sameid"] == "1" {
				// (arrival order cannot be read off the message ids: the numbers handed out are 1..n, each once)
				sort.Slice(es, func(a, b int) bool { return es[a].reqID < es[b].reqID })
			}
			if len(es) != n {
				verdict = fmt.Sprintf("conn %d: %d handlers for %d requests", cid, len(es), n)
				break
			}
			off := 0
			if mode == "starttls" {
				off = 1 // the StartTLS request was request 1 of the connection
			}
			for j, e := range es {
				if e.reqID != j+1+off {
					verdict = fmt.Sprintf("conn %d: request #%d in arrival order has Request.ID %d", cid, j+1, e.reqID)
					break
				}
			}
		}
	}
	if st := rc.stale(); st != "" && verdict == "ok" {
		verdict = st
	}
	for _, cl := range clients {
		cl.close()
	}
	sut.finish()
	return verdict + "\t" + traceString(sut.tr.Snapshot(), "conn.", "loop.", "req.", "run.", "stop.")
}

// c06ReadTimeout: WithReadTimeout(rt); the first request's handler takes longer than that; two more requests are sent
// after it. Whichever of them are served: the k-th request that arrived carries Request.ID k.
func c06ReadTimeout(rt int) string {
	rc := &recorder{}
	h := func(w *gldap.ResponseWriter, r *gldap.Request) {
		rc.enter(r)
		if r.VerifMessage().GetID() == 1000 {
			time.Sleep(time.Duration(rt+900) * time.Millisecond)
			rc.exit(r)
		}
		answer(w, r)
	}
	sut, err := startServer(allRoutes(h, nil, nil), nil, nil, gldap.WithReadTimeout(time.Duration(rt)*time.Millisecond))
	if err != nil {
		return "harness-error start: " + err.Error()
	}
	defer sut.tr.ReleaseAll()
	cl, err := connect(sut.addr, "plain")
	if err != nil {
		return "harness-error connect: " + err.Error()
	}
	defer cl.close()
	_ = cl.send(opFrame("search", 1000))
	time.Sleep(time.Duration(rt+300) * time.Millisecond)
	// (the timeout has fired, the first handler is busy for another 600 ms)
	_ = cl.send(append(opFrame("bind", 1001), opFrame("search", 1002)...))
	time.Sleep(1000 * time.Millisecond)
	verdict := "ok"
	rc.mu.Lock()
	firstDone := 1 << 30
	for _, e := range rc.exits {
		firstDone = e.seq
	}
	for _, e := range rc.entries {
		if int64(e.reqID) != e.msgID-1000+1 {
			verdict = fmt.Sprintf("conn %d: request #%d in arrival order has Request.ID %d (read timeout %d ms)", e.conn, e.msgID-1000+1, e.reqID, rt)
		}
		// whatever is served of the later requests is served without waiting for the first handler
		if e.msgID > 1000 && e.seq > firstDone && verdict == "ok" {
			verdict = fmt.Sprintf("request %d, sent while an earlier handler was busy, reached its handler only after that handler had returned (read timeout %d ms)", e.msgID-1000+1, rt)
		}
	}
	rc.mu.Unlock()
	cl.close()
	sut.finish()
	return verdict + "\t" + traceString(sut.tr.Snapshot(), "conn.", "loop.", "req.", "run.", "stop.")
}

// c06PanicReuse: the handler of the request with message id 1000 panics (the request is over, nothing was answered);
// the client sends two more requests with that id, one after the other: each reaches its handler and is answered.
func c06PanicReuse() string {
	rc := &recorder{}
	var n int32
	h := func(w *gldap.ResponseWriter, r *gldap.Request) {
		rc.enter(r)
		if atomic.AddInt32(&n, 1) == 1 {
			panic("handler panic injected by the harness")
		}
		answer(w, r)
	}
	sut, err := startServer(allRoutes(h, nil, nil), nil, nil)
	if err != nil {
		return "harness-error start: " + err.Error()
	}
	defer sut.tr.ReleaseAll()
	cl, err := connect(sut.addr, "plain")
	if err != nil {
		return "harness-error connect: " + err.Error()
	}
	defer cl.close()
	verdict := "ok"
	_ = cl.send(opFrame("search", 1000))
	sut.tr.Wait("req.done", 1, 1, 3*time.Second)
	for j, kind := range []string{"bind", "search"} {
		_ = cl.send(opFrame(kind, 1000))
		f, err := cl.readFrame(3 * time.Second)
		if err != nil || !strings.HasPrefix(strictView(f), "result id=1000 ") {
			verdict = fmt.Sprintf("request %d, which reuses the message id of a request whose handler had panicked, was not answered by its handler: %v %s", j+2, err, strictView(f))
			break
		}
		if !strings.Contains(strictView(f), " code=0") {
			verdict = fmt.Sprintf("request %d, which reuses the message id of a request whose handler had panicked, was answered by somebody else: %s", j+2, strictView(f))
			break
		}
	}
	if verdict == "ok" {
		rc.mu.Lock()
		if len(rc.entries) != 3 {
			verdict = fmt.Sprintf("%d handlers ran for 3 requests", len(rc.entries))
		}
		rc.mu.Unlock()
	}
	cl.close()
	sut.finish()
	return verdict + "\t" + traceString(sut.tr.Snapshot(), "conn.", "loop.", "req.", "run.", "stop.")
}

// c06Stalled: the first request's handler writes far more than the socket buffers hold to a client that is not reading
// yet, so it blocks inside Write; n further requests, sent one after the other, must each reach their handler while it
// is still stuck. Then the client reads everything.
func c06Stalled(n int, mode string) string {
	rc := &recorder{}
	payload := strings.Repeat("s", 50000)
	var entered int32
	h := func(w *gldap.ResponseWriter, r *gldap.Request) {
		rc.enter(r)
		if r.VerifMessage().GetID() == 1000 {
			for i := 0; i < 300; i++ {
				if err := w.Write(r.NewSearchResponseEntry("e", gldap.WithAttributes(map[string][]string{"p": {payload}}))); err != nil {
					return
				}
			}
		} else {
			atomic.AddInt32(&entered, 1)
		}
		answer(w, r)
	}
	sut, err := startServer(allRoutes(h, nil, nil), serverTLSFor(mode), nil)
	if err != nil {
		return "harness-error start: " + err.Error()
	}
	defer sut.tr.ReleaseAll()
	cl, err := connect(sut.addr, mode)
	if err != nil {
		return "harness-error connect: " + err.Error()
	}
	defer cl.close()
	verdict := "ok"
	_ = cl.send(opFrame("search", 1000))
	time.Sleep(150 * time.Millisecond) // the handler has filled the socket and sits in Write
	for j := 1; j <= n && verdict == "ok"; j++ {
		_ = cl.send(opFrame(opKinds[j%len(opKinds)], int64(1000+j)))
		ok := false
		for i := 0; i < 3000; i++ {
			if int(atomic.LoadInt32(&entered)) >= j {
				ok = true
				break
			}
			time.Sleep(time.Millisecond)
		}
		if !ok {
			verdict = fmt.Sprintf("request %d behind a handler that is stuck in Write was not dispatched within 3 s", j+1)
		}
	}
	// now the client reads: the entries, the done, and the answers of the others
	seen := map[int64]bool{}
	for verdict == "ok" && len(seen) < n+1 {
		f, err := cl.readFrame(10 * time.Second)
		if err != nil {
			verdict = "responses missing after the client started to read: " + err.Error()
			break
		}
		var id int64
		if v := strictView(f); strings.HasPrefix(v, "result ") {
			fmt.Sscanf(v, "result id=%d", &id)
			seen[id] = true
		}
	}
	if verdict == "ok" {
		rc.mu.Lock()
		for _, e := range rc.entries {
			if e.reqID != int(e.msgID-1000)+1 {
				verdict = fmt.Sprintf("request with message id %d has Request.ID %d", e.msgID, e.reqID)
			}
		}
		rc.mu.Unlock()
	}
	cl.close()
	sut.finish()
	return verdict + "\t" + traceString(sut.tr.Snapshot(), "conn.", "loop.", "req.", "run.", "stop.")
}

// c06LateRegistration: while the handler of a first request is blocked, the application registers one more route on
// the live mux; a request sent after that - on the same and on another connection - must reach its handler although
// the first one still blocks.
func c06LateRegistration() string {
	rc := &recorder{}
	released := make(chan struct{})
	first := make(chan struct{}, 1)
	var started int32
	h := func(w *gldap.ResponseWriter, r *gldap.Request) {
		rc.enter(r)
		if r.VerifMessage().GetID() == 1000 {
			first <- struct{}{}
			<-released
		} else {
			atomic.AddInt32(&started, 1)
		}
		answer(w, r)
	}
	mux := allRoutes(h, nil, nil)
	sut, err := startServer(mux, nil, nil)
	if err != nil {
		return "harness-error start: " + err.Error()
	}
	defer sut.tr.ReleaseAll()
	a, err := connect(sut.addr, "plain")
	if err != nil {
		return "harness-error connect: " + err.Error()
	}
	defer a.close()
	b, err := connect(sut.addr, "plain")
	if err != nil {
		return "harness-error connect: " + err.Error()
	}
	defer b.close()
	_ = a.send(opFrame("search", 1000))
	select {
	case <-first:
	case <-time.After(5 * time.Second):
		close(released)
		return "harness-error first handler never started"
	}
	regDone := make(chan struct{})
	go func() {
		_ = mux.ExtendedOperation(func(w *gldap.ResponseWriter, r *gldap.Request) { answer(w, r) }, gldap.ExtendedOperationName("1.2.3.4.5.6"))
		close(regDone)
	}()
	select {
	case <-regDone:
	case <-time.After(50 * time.Millisecond):
	}
	_ = a.send(opFrame("bind", 1001))
	_ = b.send(opFrame("bind", 1001))
	verdict := "ok"
	deadline := time.Now().Add(5 * time.Second)
	for atomic.LoadInt32(&started) < 2 && time.Now().Before(deadline) {
		time.Sleep(time.Millisecond)
	}
	if n := atomic.LoadInt32(&started); n < 2 {
		verdict = fmt.Sprintf("dispatch blocked: only %d of 2 requests sent after a route was registered reached their handler while an earlier handler blocks", n)
	}
	close(released)
	time.Sleep(20 * time.Millisecond)
	a.close()
	b.close()
	sut.finish()
	return verdict + "\t" + traceString(sut.tr.Snapshot(), "conn.", "loop.", "req.", "run.", "stop.")
}

// c06NoRouter: a server on which Router was never called. Every request must be refused by gldap itself, with the
// response type of the request's operation, the request's message id and unwillingToPerform - and in arrival order
// nothing is lost or answered twice.
func c06NoRouter(k, n int, mode string, rng *rand.Rand) string {
	sut, err := startServer(nil, serverTLSFor(mode), nil)
	if err != nil {
		return "harness-error start: " + err.Error()
	}
	wantTag := map[string]int{"bind": 1, "search": 5, "modify": 7, "add": 9, "delete": 11, "extended": 24}
	verdict := "ok"
	for i := 0; i < k && verdict == "ok"; i++ {
		cl, err := connect(sut.addr, mode)
		if err != nil {
			return "harness-error connect: " + err.Error()
		}
		var kinds []string
		var buf []byte
		for j := 0; j < n; j++ {
			kind := opKinds[rng.Intn(len(opKinds))]
			kinds = append(kinds, kind)
			buf = append(buf, opFrame(kind, int64(1000+j))...)
		}
		_ = cl.send(buf)
		seen := map[int64]bool{}
		for j := 0; j < n; j++ {
			f, err := cl.readFrame(10 * time.Second)
			if err != nil {
				verdict = fmt.Sprintf("no router: response %d of %d missing: %v", j+1, n, err)
				break
			}
			var id int64
			var tag, code int
			if _, e := fmt.Sscanf(strictView(f), "result id=%d tag=%d code=%d", &id, &tag, &code); e != nil || id < 1000 || id >= int64(1000+n) || seen[id] {
				verdict = "no router: unexpected response " + strictView(f)
				break
			}
			seen[id] = true
			if tag != wantTag[kinds[id-1000]] || code != 53 {
				verdict = fmt.Sprintf("no router: the refusal of a %s request has tag %d code %d, want tag %d code 53", kinds[id-1000], tag, code, wantTag[kinds[id-1000]])
				break
			}
		}
		cl.close()
	}
	sut.finish()
	return verdict + "\t" + traceString(sut.tr.Snapshot(), "conn.", "loop.", "req.", "run.", "stop.")
}

func (c06Stream) ModelLine(c Case, trace string) string { return "trace conn " + trace }

func (c06Stream) Oracle(c Case, impl string) (bool, string, string) {
	if impl == "ok" || strings.HasPrefix(impl, "harness-error") {
		return true, "", ""
	}
	key := "c06/ids"
	if strings.HasPrefix(impl, "dispatch blocked") {
		key = "c06/dispatch-blocked"
	} else if strings.Contains(impl, "missing") {
		key = "c06/response-missing"
	} else if strings.HasPrefix(impl, "timeout") || strings.HasPrefix(impl, "process-died") || strings.HasPrefix(impl, "panic") {
		key = "c06/" + strings.Fields(impl)[0]
	}
	return false, impl, key
}

func (c06Stream) Class(c Case, impl string) (string, bool) {
	p := kv(c.Line)
	return p["mode"] + "/" + strings.Fields(impl + " -")[0], atoi(p["n"]) >= 2 && impl == "ok"
}

// ---- stream "c10": unbind ends the connection -------------------------------------------------------

type c10Stream struct{}

func (c10Stream) Name() string               { return "c10" }
func (c10Stream) CaseTimeout() time.Duration { return 60 * time.Second }
func (c10Stream) Rule() string {
	return "pipelines <pre requests> Unbind <post requests> written in ONE TCP segment (pre 0..8, post 0..8 of the six dispatched operations), with and without an unbind route (whose handler, in some cases, panics), earlier handlers blocked until released (30 ms, occasionally 2.5 s, after the unbind was read) or finishing at once, plain / TLS / StartTLS; in some scenarios the mux is shared with a second server on which a client unbinds first, in some Stop is called while a slow unbind handler is at work; oracle: the unbind handler runs exactly once iff registered, gldap sends no response to the unbind, no handler ever runs for a post request, the client gets exactly the pre responses and then EOF, and the socket is not closed while earlier handlers are still blocked; trace replayed through the connection automaton; non-trivial = post >= 1, distinct by scenario"
}

func (c10Stream) Generate(rng *rand.Rand, n int, thorough bool) []Case {
	var cs []Case
	for len(cs) < n {
		hold := 30
		if rng.Intn(12) == 0 {
			hold = 2500 // handlers that stay busy for seconds after the unbind was read
		}
		route, upanic := rng.Intn(2), 0
		if route == 1 && rng.Intn(4) == 0 {
			upanic = 1 // the application's unbind handler panics: the Unbind still ends the connection
		}
		if rng.Intn(10) == 0 {
			// two connections unbind at the same time; the unbind handler of the first is slow
			cs = append(cs, Case{Line: fmt.Sprintf("c10 pre=1 post=1 route=1 block=0 mode=plain seed=%d hold=0 upanic=0 twoconn=1", rng.Intn(1<<30)), Kind: "unbind"})
			continue
		}
		pre, block := rng.Intn(9), rng.Intn(2)
		if rng.Intn(8) == 0 {
			// a long pipeline of requests whose handlers are all still blocked when the Unbind is read
			pre, block = 100+rng.Intn(200), 1
		}
		// (uctl 1: the Unbind carries a control gldap knows; 2: a critical control of the application's own, which gldap
		// has never heard of - RFC 4511 4.1.11: criticality is ignored on an UnbindRequest)
		uhold, uctl := 0, []int{0, 0, 0, 1, 2, 2}[rng.Intn(6)]
		if route == 1 && upanic == 0 && rng.Intn(12) == 0 {
			uhold = 2600 // an unbind handler that takes its time: the connection is closed when it has returned, not before
		}
		// the mux also routes for a second server of the same application (every fourth scenario with an unbind route): a
		// client of THAT server unbinds first; Stop is called while a slow unbind handler is still running (every second
		// scenario with such a handler)
		shared, ustop := 0, 0
		if route == 1 && rng.Intn(4) == 0 {
			shared = 1
		}
		if uhold > 0 && block == 0 && rng.Intn(2) == 0 {
			ustop = 1
		}
		mode := []string{"plain", "plain", "tls", "starttls"}[rng.Intn(4)]
		// Stop begins in the very moment the Unbind has been read (held at the instrumentation point behind the read until
		// Stop has cancelled the server's context): the Unbind is still an Unbind
		stoprace := 0
		if block == 0 && uhold == 0 && mode != "starttls" && pre < 20 && rng.Intn(5) == 0 {
			stoprace = 1
		}
		cs = append(cs, Case{Line: fmt.Sprintf("c10 pre=%d post=%d route=%d block=%d mode=%s seed=%d hold=%d upanic=%d uhold=%d uctl=%d shared=%d ustop=%d stoprace=%d", pre, rng.Intn(9), route, block,
			mode, rng.Intn(1<<30), hold, upanic, uhold, uctl, shared, ustop, stoprace), Kind: "unbind"})
	}
	return cs
}

// c10TwoConns: connection A's unbind handler is slow; meanwhile connection B sends a request and an Unbind: B's
// unbind handler runs, nothing behind B's Unbind is served and B is closed - without waiting for A.
func c10TwoConns() string {
	var mu sync.Mutex
	unbinds := map[int]int{}
	var served []int64
	releaseA := make(chan struct{})
	aIn := make(chan struct{}, 1)
	h := func(w *gldap.ResponseWriter, r *gldap.Request) {
		mu.Lock()
		served = append(served, r.VerifMessage().GetID())
		mu.Unlock()
		answer(w, r)
	}
	uh := func(w *gldap.ResponseWriter, r *gldap.Request) {
		mu.Lock()
		unbinds[r.ConnectionID()]++
		mu.Unlock()
		if r.VerifMessage().GetID() == 500 {
			aIn <- struct{}{}
			<-releaseA
		}
	}
	sut, err := startServer(allRoutes(h, nil, uh), nil, nil)
	if err != nil {
		return "harness-error start: " + err.Error()
	}
	defer sut.tr.ReleaseAll()
	a, err := connect(sut.addr, "plain")
	if err != nil {
		return "harness-error connect: " + err.Error()
	}
	defer a.close()
	_ = a.send(Seq(Int(2, 500), P(1, 2, nil)).Ser())
	select {
	case <-aIn:
	case <-time.After(5 * time.Second):
		close(releaseA)
		return "the unbind handler of the first connection never ran"
	}
	b, err := connect(sut.addr, "plain")
	if err != nil {
		close(releaseA)
		return "harness-error connect: " + err.Error()
	}
	defer b.close()
	verdict := "ok"
	_ = b.send(append(append(opFrame("bind", 100), Seq(Int(2, 501), P(1, 2, nil)).Ser()...), opFrame("bind", 900)...))
	if f, err := b.readFrame(3 * time.Second); err != nil || !strings.HasPrefix(strictView(f), "result id=100 ") {
		verdict = fmt.Sprintf("the request before the second connection's unbind was not answered: %v", err)
	} else if f, err := b.readFrame(3 * time.Second); err == nil {
		verdict = "a request after the unbind was answered: " + strictView(f)
	} else if ne, ok := err.(net.Error); ok && ne.Timeout() {
		verdict = "connection not closed after unbind while another connection's unbind handler is still running"
	}
	close(releaseA)
	time.Sleep(30 * time.Millisecond)
	mu.Lock()
	if verdict == "ok" && (len(unbinds) != 2) {
		verdict = fmt.Sprintf("unbind handler ran on %d connections, want 2", len(unbinds))
	}
	for _, id := range served {
		if id >= 900 && verdict == "ok" {
			verdict = fmt.Sprintf("a handler ran for message %d which follows the unbind", id)
		}
	}
	mu.Unlock()
	a.close()
	b.close()
	sut.finish()
	return verdict + "\t" + traceString(sut.tr.Snapshot(), "conn.", "loop.", "req.", "run.", "stop.")
}

func (c10Stream) Impl(c Case) string {
	p := kv(c.Line)
	if p["twoconn"] == "1" {
		return c10TwoConns()
	}
	pre, post, mode := atoi(p["pre"]), atoi(p["post"]), p["mode"]
	rng := rand.New(rand.NewSource(int64(atoi(p["seed"]))))
	tlsConfigs()
	rc := &recorder{}
	released := make(chan struct{})
	var unbinds int32
	var unbindReturned int32
	var warming, warmUnbinds int32
	var umu sync.Mutex
	h := func(w *gldap.ResponseWriter, r *gldap.Request) {
		rc.enter(r)
		if p["block"] == "1" {
			<-released
		}
		answer(w, r)
		rc.exit(r)
	}
	var uh gldap.HandlerFunc
	if p["route"] == "1" {
		uh = func(w *gldap.ResponseWriter, r *gldap.Request) {
			if atomic.LoadInt32(&warming) == 1 {
				atomic.AddInt32(&warmUnbinds, 1)
				return
			}
			umu.Lock()
			unbinds++
			umu.Unlock()
			if p["upanic"] == "1" {
				panic("unbind handler panic injected by the harness")
			}
			if d := atoi(p["uhold"]); d > 0 {
				time.Sleep(time.Duration(d) * time.Millisecond)
			}
			atomic.StoreInt32(&unbindReturned, 1)
		}
	}
	var earlyClose, stopEarly int32
	c10mux := allRoutes(h, startTLSHandler(srvTLS, 0, 0), uh)
	if p["shared"] == "1" {
		// one Mux, two servers (say ldap and ldaps of one application): a client of the other server connects and
		// unbinds first - its connection has the same ConnectionID as the one judged below, on another Server
		atomic.StoreInt32(&warming, 1)
		other, err := startServer(c10mux, nil, nil)
		if err != nil {
			return "harness-error start: " + err.Error()
		}
		oc, err := connect(other.addr, "plain")
		if err != nil {
			return "harness-error connect: " + err.Error()
		}
		_ = oc.send(Seq(Int(2, 2), P(1, 2, nil)).Ser())
		if !other.tr.Wait("loop.unbind", 1, -1, 20*time.Second) {
			oc.close()
			other.finish()
			return "harness-error the other server did not get to read the Unbind within 20 s"
		}
		other.tr.Wait("conn.gone", 1, -1, 10*time.Second)
		oc.close()
		other.finish()
		if n := atomic.LoadInt32(&warmUnbinds); n != 1 {
			return fmt.Sprintf("unbind handler ran %d times for the one Unbind on the other server of the shared mux, want 1", n)
		}
		atomic.StoreInt32(&warming, 0)
	}
	sut, err := startServer(c10mux, serverTLSFor(mode), func(int) {
		if p["route"] == "1" && p["upanic"] != "1" && atomic.LoadInt32(&unbindReturned) == 0 {
			atomic.StoreInt32(&earlyClose, 1)
		}
	})
	if err != nil {
		return "harness-error start: " + err.Error()
	}
	defer sut.tr.ReleaseAll()
	cl, err := connect(sut.addr, mode)
	if err != nil {
		return "harness-error connect: " + err.Error()
	}
	defer cl.close()
	var buf []byte
	for j := 0; j < pre; j++ {
		buf = append(buf, opFrame(opKinds[rng.Intn(len(opKinds))], int64(100+j))...)
	}
	if p["uctl"] == "1" {
		// an Unbind may carry controls like any other LDAPMessage (RFC 4511 4.1.1)
		buf = append(buf, Seq(Int(2, 500), P(1, 2, nil), C(2, 0, Ctl{Kind: "dsait"}.Node())).Ser()...)
	} else if p["uctl"] == "2" {
		buf = append(buf, Seq(Int(2, 500), P(1, 2, nil), C(2, 0, Ctl{Kind: "str", OID: "1.3.6.1.4.1.99999.1.7", Crit: true, Value: "bye"}.Node())).Ser()...)
	} else {
		buf = append(buf, Seq(Int(2, 500), P(1, 2, nil)).Ser()...)
	}
	for j := 0; j < post; j++ {
		buf = append(buf, opFrame(opKinds[rng.Intn(len(opKinds))], int64(900+j))...)
	}
	var raceGate *gate
	if p["stoprace"] == "1" {
		raceGate = sut.tr.Block("loop.read", 1, pre+1)
	}
	if err := cl.send(buf); err != nil {
		return "harness-error send: " + err.Error()
	}
	if raceGate != nil {
		if raceGate.Arrived(5 * time.Second) {
			go sut.stop(10 * time.Second)
			sut.tr.Wait("stop.cancelled", -1, -1, 3*time.Second)
		}
		raceGate.Release()
	}
	verdict := "ok"
	conn := 1
	if !sut.tr.Wait("loop.unbind", -1, -1, 10*time.Second) {
		verdict = "unbind was never read"
	}
	if verdict == "ok" && p["block"] == "1" && pre > 0 {
		// earlier handlers still blocked: the socket must stay open, however long they take
		hold := atoi(p["hold"])
		if hold == 0 {
			hold = 30
		}
		time.Sleep(time.Duration(hold) * time.Millisecond)
		if sut.tr.Count("conn.netclose", conn) > 0 {
			verdict = "socket closed while earlier handlers are still running"
		} else if _, err := cl.readFrame(20 * time.Millisecond); err != nil {
			if ne, ok := err.(net.Error); !ok || !ne.Timeout() {
				verdict = "socket closed while earlier handlers are still running (client saw " + err.Error() + ")"
			}
		} else {
			verdict = "a response arrived while every earlier handler is still blocked"
		}
	}
	close(released)
	stopRet := make(chan struct{})
	if p["ustop"] == "1" && verdict == "ok" {
		// Stop arrives while the unbind handler is still at work: it returns when that handler has returned and the
		// connection has been closed and reported, not before
		time.Sleep(100 * time.Millisecond)
		go func() {
			defer close(stopRet)
			if sut.stop(15*time.Second) && atomic.LoadInt32(&unbindReturned) == 0 {
				atomic.StoreInt32(&stopEarly, 1)
			}
		}()
	} else {
		close(stopRet)
	}
	got := 0
	endedByReset := false
	for verdict == "ok" {
		f, err := cl.readFrame(10 * time.Second)
		if err != nil {
			if !strings.Contains(err.Error(), "EOF") && !strings.Contains(err.Error(), "reset") && !strings.Contains(err.Error(), "closed") {
				verdict = "connection not closed after unbind: " + err.Error()
			}
			endedByReset = strings.Contains(err.Error(), "reset")
			break
		}
		v := strictView(f)
		var id int64
		fmt.Sscanf(v, "result id=%d", &id)
		if id == 500 {
			verdict = "gldap answered the unbind request: " + v
		} else if id >= 900 {
			verdict = "a request after the unbind was answered: " + v
		}
		got++
	}
	// (the client sent requests BEHIND its Unbind, which the server rightly never reads: closing a socket with unread
	// input makes TCP send a reset, and a reset may destroy responses the client has not read yet - that loss is the
	// client's own doing, so after a reset only a surplus of responses counts)
	if verdict == "ok" && got != pre && !(endedByReset && post > 0 && got < pre) {
		verdict = fmt.Sprintf("%d responses for %d requests before the unbind", got, pre)
	}
	if verdict == "ok" {
		rc.mu.Lock()
		for _, e := range rc.entries {
			if e.msgID >= 900 {
				verdict = fmt.Sprintf("a handler ran for message %d which follows the unbind", e.msgID)
			}
		}
		rc.mu.Unlock()
		umu.Lock()
		want := int32(atoi(p["route"]))
		if unbinds != want {
			verdict = fmt.Sprintf("unbind handler ran %d times, want %d", unbinds, want)
		}
		umu.Unlock()
	}
	sut.tr.Wait("conn.gone", conn, -1, 5*time.Second)
	if verdict == "ok" && atomic.LoadInt32(&earlyClose) == 1 {
		verdict = "socket closed and OnClose called while the unbind handler is still running"
	}
	sut.tr.Wait("conn.gone", conn, -1, 5*time.Second)
	<-stopRet
	if verdict == "ok" && atomic.LoadInt32(&stopEarly) == 1 {
		verdict = "Stop returned while the unbind handler of a connection was still running"
	}
	cl.close()
	sut.finish()
	return verdict + "\t" + traceString(sut.tr.Snapshot(), "conn.", "loop.", "req.", "run.", "stop.")
}

func (c10Stream) ModelLine(c Case, trace string) string { return "trace conn " + trace }

func (c10Stream) Oracle(c Case, impl string) (bool, string, string) {
	if impl == "ok" || strings.HasPrefix(impl, "harness-error") {
		return true, "", ""
	}
	key := "c10/" + strings.Join(strings.Fields(impl)[:min(3, len(strings.Fields(impl)))], "-")
	return false, impl, key
}

func (c10Stream) Class(c Case, impl string) (string, bool) {
	p := kv(c.Line)
	return p["mode"] + "/route" + p["route"] + "/" + strings.Fields(impl + " -")[0], atoi(p["post"]) >= 1 && impl == "ok"
}

func min(a, b int) int {
	if a < b {
		return a
	}
	return b
}
