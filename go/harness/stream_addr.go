package main

import (
	"context"
	"fmt"
	"math/rand"
	"net"
	"net/netip"
	"strings"
	"time"

	"github.com/jimlambrt/gldap"
)

// ---- stream "addr": validateAddrPort against its Lean model ------------------------------------------------------

type addrStream struct{}

func (addrStream) Name() string { return "addr" }
func (addrStream) Rule() string {
	return "address strings: hosts {empty, IPv4 literals good and bad, localhost, IPv6 literals bare / bracketed / with unbalanced or doubled brackets / with a zone, garbage} x ports {empty, 0, 80, 65535, 65536, 70000, 2^32+80, negative, signed, zero-padded, hex, a service name, digits with spaces, random digit strings} plus strings without any colon; the real validateAddrPort (with the verdicts of netip.ParseAddr, the resolver and net.ParseIP it consulted supplied to the model) compared with the Lean model; oracle: an accepted address ends in exactly the port text that followed the caller's last colon, an address without a port is refused; non-trivial = accepted, distinct by address"
}

var addrHosts = []string{"", "127.0.0.1", "localhost", "::1", "[::1]", "[::1", "::1]", "[[::1]]", "1.2.3", "999.1.1.1", "fe80::1", "[fe80::1%lo]", "zz::1", "[zz::1]", "0.0.0.0", "[]", "[", "]", "1.2.3.4", "[1.2.3.4]", "[::ffff:1.2.3.4]"}
var addrPorts = []string{"", "0", "80", "389", "65535", "65536", "70000", "4294967376", "-1", "+80", "080", "0x50", "ldap", " 80", "80 ", "8 0", "]", "80]"}

func (addrStream) Generate(rng *rand.Rand, n int, thorough bool) []Case {
	var cs []Case
	add := func(a string) {
		// the verdicts the function may ask for
		host := ""
		if i := strings.LastIndexByte(a, ':'); i >= 0 {
			host = a[:i]
		}
		b := func(v bool) int {
			if v {
				return 1
			}
			return 0
		}
		_, e1 := netip.ParseAddr(strings.Trim(host, "[]"))
		_, e2 := netip.ParseAddr(host)
		// (the verdict goes into the case line: a lookup that ran into its time limit - a machine that stood still - is
		// asked again, it must not be taken for "does not resolve")
		var names []string
		for attempt := 0; attempt < 3; attempt++ {
			ctx, cancel := context.WithTimeout(context.Background(), 5*time.Second)
			var err error
			names, err = net.DefaultResolver.LookupHost(ctx, host)
			timedOut := ctx.Err() != nil
			cancel()
			if err == nil || !timedOut {
				break
			}
		}
		cs = append(cs, Case{Line: fmt.Sprintf("addr %s pat=%d pah=%d res=%d pip=%d", hx([]byte(a)), b(e1 == nil), b(e2 == nil), b(len(names) > 0), b(net.ParseIP(host) != nil)), Kind: "addr"})
	}
	for _, h := range addrHosts {
		for _, p := range addrPorts {
			if len(cs) < n {
				add(h + ":" + p)
			}
		}
	}
	for _, a := range []string{"", "127.0.0.1", "localhost", "[::1]", "nocolon", "[", "]"} {
		if len(cs) < n {
			add(a)
		}
	}
	for len(cs) < n {
		h := addrHosts[rng.Intn(len(addrHosts))]
		var p string
		switch rng.Intn(3) {
		case 0:
			p = addrPorts[rng.Intn(len(addrPorts))]
		default:
			for i, k := 0, 1+rng.Intn(12); i < k; i++ {
				p += string(rune('0' + rng.Intn(10)))
			}
		}
		add(h + ":" + p)
	}
	return cs
}

func (addrStream) Impl(c Case) string {
	a := string(unhx(strings.Fields(c.Line)[1]))
	out, err := gldap.VerifValidateAddrPort(a)
	if err != nil {
		return "err"
	}
	return "ok " + hx([]byte(out))
}

func (addrStream) Oracle(c Case, impl string) (bool, string, string) {
	if impl == "panic" {
		return false, "validateAddrPort panicked", "panic"
	}
	a := string(unhx(strings.Fields(c.Line)[1]))
	i := strings.LastIndexByte(a, ':')
	if i < 0 || i == len(a)-1 {
		if impl != "err" {
			return false, "an address without a port was accepted: " + impl, "addr/no-port-accepted"
		}
		return true, "", ""
	}
	if impl == "err" {
		return true, "", ""
	}
	out := string(unhx(strings.Fields(impl)[1]))
	j := strings.LastIndexByte(out, ':')
	if j < 0 || out[j+1:] != a[i+1:] {
		return false, fmt.Sprintf("the port was rewritten: %q became %q", a, out), "addr/port-rewritten"
	}
	return true, "", ""
}

func (addrStream) Class(c Case, impl string) (string, bool) {
	return strings.Fields(impl + " -")[0], strings.HasPrefix(impl, "ok")
}
