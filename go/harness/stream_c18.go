package main

import (
	"crypto/tls"
	"fmt"
	"math/rand"
	"net"
	"strings"
	"sync"
	"sync/atomic"
	"time"

	"github.com/jimlambrt/gldap"
)

// ---- stream "c18": only clients satisfying the TLS configuration reach a handler ----------------------

type c18Stream struct{}

func (c18Stream) Name() string               { return "c18" }
func (c18Stream) CaseTimeout() time.Duration { return 60 * time.Second }
func (c18Stream) NoModel() bool              { return true }
func (c18Stream) Rule() string {
	return "TLS configurations {server authentication only, client certificate required and verified (the test directory's WithMTLS configuration)} x {static certificate list, certificate supplied by the GetCertificate callback, whole configuration supplied per client by GetConfigForClient} x offenders {plaintext LDAP request of each of the seven operations, random bytes, TCP connect without ClientHello, valid TLS without a client certificate, a certificate from a different CA (generated after, or before, the server configuration in the same process), a foreign leaf with the genuine client certificate appended to its chain, no / foreign certificate without SNI, a truncated first TLS record followed by silence} (1..6 offenders in parallel, now and then together with a crowd of 140 clients that connect and stay silent, while a conforming client that completed its handshake earlier sends its first request only then), optionally with a second, weaker TLS configuration handed to NewServer (the one given to Run governs), concurrently with two conforming clients issuing requests and a third that connects while the offenders (a silent one holds its connection for 1.2 s) are still there; oracle: no handler ever runs for an offender's message (offenders use reserved message ids) nor on an offender's connection at all, every conforming request is answered, and each offender's connection is ended without disturbing the others; non-trivial = at least one offender whose bytes would decode as LDAP, distinct by scenario"
}

var c18Offenders = []string{"plain-bind", "plain-search", "plain-modify", "plain-add", "plain-delete", "plain-extended", "plain-unbind", "random", "silent", "nocert", "othercert", "otherchain", "nocert-nosni", "othercert-nosni", "halfhello", "earliercert"}

func (c18Stream) Generate(rng *rand.Rand, n int, thorough bool) []Case {
	var cs []Case
	for len(cs) < n {
		mtls := rng.Intn(2)
		k := 1 + rng.Intn(6)
		offs := make([]string, k)
		for i := range offs {
			offs[i] = c18Offenders[rng.Intn(len(c18Offenders))]
			if mtls == 0 && (strings.HasPrefix(offs[i], "nocert") || strings.HasPrefix(offs[i], "othercert") || offs[i] == "otherchain" || offs[i] == "earliercert") {
				offs[i] = "plain-bind" // without client-auth these two are conforming clients
			}
		}
		if rng.Intn(8) == 0 {
			offs = append(offs, "silentcrowd") // 140 clients that connect and never say a word
		}
		newsrv := 0
		if mtls == 1 && rng.Intn(3) == 0 {
			newsrv = 1 // NewServer is ALSO given a TLS configuration, a weaker one: the one given to Run governs
		}
		cs = append(cs, Case{Line: fmt.Sprintf("c18 mtls=%d newsrv=%d certvia=%s offenders=%s seed=%d", mtls, newsrv, []string{"static", "static", "callback", "perclient"}[rng.Intn(4)], strings.Join(offs, ","), rng.Intn(1<<30)), Kind: fmt.Sprintf("mtls%d", mtls)})
	}
	return cs
}

func (c18Stream) Impl(c Case) string {
	p := kv(c.Line)
	tlsConfigs()
	srvCfg, goodCli := srvTLS, cliTLS
	if p["mtls"] == "1" {
		srvCfg, goodCli = srvMTLS, cliMTLS
	}
	if p["certvia"] == "callback" {
		// a configuration whose certificate comes from the GetCertificate callback (reloading, SNI): as much a TLS
		// configuration as one with a static certificate list
		cert := srvCfg.Certificates[0]
		srvCfg = srvCfg.Clone()
		srvCfg.Certificates = nil
		srvCfg.GetCertificate = func(*tls.ClientHelloInfo) (*tls.Certificate, error) { return &cert, nil }
	}
	if p["certvia"] == "perclient" {
		// ... or the whole configuration (certificates and the client-certificate policy) from GetConfigForClient
		inner := srvCfg
		srvCfg = &tls.Config{GetConfigForClient: func(*tls.ClientHelloInfo) (*tls.Config, error) { return inner, nil }}
	}
	var offenderHandled int32
	var handled int64
	var hmu sync.Mutex
	var offDetail string
	// every handler invocation is attributed to its connection: a connection on which no conforming client ever
	// spoke must not see any handler at all (whatever message the handler is given)
	var cmu sync.Mutex
	goodConn := map[int]bool{}
	calls := map[int]string{}
	note := func(r *gldap.Request) {
		cmu.Lock()
		id := r.VerifMessage().GetID()
		if id >= 1 && id < 60000 {
			goodConn[r.ConnectionID()] = true
		} else {
			calls[r.ConnectionID()] = fmt.Sprintf("message id %d (%s)", id, r.VerifRouteOp())
		}
		cmu.Unlock()
	}
	h := func(w *gldap.ResponseWriter, r *gldap.Request) {
		note(r)
		if id := r.VerifMessage().GetID(); id >= 60000 {
			atomic.AddInt32(&offenderHandled, 1)
			hmu.Lock()
			offDetail = fmt.Sprintf("message id %d (%s)", id, r.VerifRouteOp())
			hmu.Unlock()
		}
		atomic.AddInt64(&handled, 1)
		answer(w, r)
	}
	uh := func(w *gldap.ResponseWriter, r *gldap.Request) {
		note(r)
		if r.VerifMessage().GetID() >= 60000 {
			atomic.AddInt32(&offenderHandled, 1)
			hmu.Lock()
			offDetail = "an unbind"
			hmu.Unlock()
		}
	}
	mux := allRoutes(h, nil, uh)
	_ = mux.DefaultRoute(h)
	var nsOpts []gldap.Option
	if p["newsrv"] == "1" {
		nsOpts = append(nsOpts, gldap.WithTLSConfig(srvTLS))
	}
	sut, err := startServer(mux, srvCfg, nil, nsOpts...)
	if err != nil {
		return "harness-error start: " + err.Error()
	}
	crowdReady := make(chan struct{})
	hasCrowd := strings.Contains(p["offenders"], "silentcrowd")
	verdict := "ok"
	var vmu sync.Mutex
	fail := func(f string, a ...interface{}) {
		vmu.Lock()
		if verdict == "ok" {
			verdict = fmt.Sprintf(f, a...)
		}
		vmu.Unlock()
	}
	// conforming clients
	stopGood := make(chan struct{})
	var gw sync.WaitGroup
	for g := 0; g < 2; g++ {
		gw.Add(1)
		go func(g int) {
			defer gw.Done()
			cfg := goodCli.Clone()
			cfg.ServerName = "localhost"
			cl, err := dialRaw(sut.addr, cfg)
			if err != nil {
				fail("a conforming client cannot connect: %v", err)
				return
			}
			defer cl.close()
			for i := int64(1); ; i++ {
				select {
				case <-stopGood:
					return
				default:
				}
				_ = cl.send(opFrame(opKinds[int(i)%len(opKinds)], i))
				f, err := cl.readFrame(5 * time.Second)
				if err != nil || !strings.HasPrefix(strictView(f), fmt.Sprintf("result id=%d ", i)) {
					fail("a conforming client's request was not answered: %v", err)
					return
				}
				time.Sleep(time.Millisecond)
			}
		}(g)
	}
	// a conforming client that completes its handshake now and sends its first request only when the crowd has gathered
	var idle *tls.Conn
	if hasCrowd {
		cfg := goodCli.Clone()
		cfg.ServerName = "localhost"
		if c, err := tls.DialWithDialer(&net.Dialer{Timeout: 3 * time.Second}, "tcp", sut.addr, cfg); err == nil {
			idle = c
			defer idle.Close()
		}
	}
	// offenders
	var ow sync.WaitGroup
	for i, kind := range strings.Split(p["offenders"], ",") {
		ow.Add(1)
		go func(i int, kind string) {
			defer ow.Done()
			id := int64(60000 + i)
			switch {
			case kind == "silentcrowd":
				var cs []net.Conn
				for j := 0; j < 140; j++ {
					if c, err := net.DialTimeout("tcp", sut.addr, 3*time.Second); err == nil {
						cs = append(cs, c)
					}
				}
				close(crowdReady)
				time.Sleep(1500 * time.Millisecond)
				for _, c := range cs {
					c.Close()
				}
			case strings.HasPrefix(kind, "plain-"), kind == "random", kind == "silent", kind == "halfhello":
				c, err := net.DialTimeout("tcp", sut.addr, 3*time.Second)
				if err != nil {
					return
				}
				defer c.Close()
				switch kind {
				case "silent":
					time.Sleep(1200 * time.Millisecond)
					return
				case "halfhello":
					_, _ = c.Write([]byte{0x16, 0x03, 0x01, 0x02, 0x00})
					time.Sleep(1200 * time.Millisecond)
					return
				case "random":
					b := make([]byte, 64)
					rand.New(rand.NewSource(int64(i))).Read(b)
					_, _ = c.Write(b)
				case "plain-unbind":
					_, _ = c.Write(Seq(Int(2, id), P(1, 2, nil)).Ser())
				default:
					_, _ = c.Write(opFrame(strings.TrimPrefix(kind, "plain-"), id))
				}
				_ = c.SetReadDeadline(time.Now().Add(2 * time.Second))
				buf := make([]byte, 4096)
				n, _ := c.Read(buf)
				if n > 0 && buf[0] == 0x30 {
					fail("a plaintext %s offender received an LDAP response", kind)
				}
			case strings.HasPrefix(kind, "nocert") || strings.HasPrefix(kind, "othercert") || kind == "otherchain" || kind == "earliercert":
				cfg := cliTLS.Clone() // trusts the server's CA? for mtls use its own pool
				cfg = goodCli.Clone()
				cfg.ServerName = "localhost"
				cfg.Certificates = nil
				if strings.HasPrefix(kind, "othercert") {
					cfg.Certificates = otherCAClient.Certificates
				}
				if kind == "earliercert" {
					cfg.Certificates = earlierCAClient.Certificates // issued by the CA of an earlier, unrelated configuration
				}
				if strings.HasSuffix(kind, "-nosni") {
					// a client that dials the IP literal and sends no server name (and does not care whom it talks to)
					cfg.ServerName = ""
					cfg.InsecureSkipVerify = true
				}
				if kind == "otherchain" {
					// a leaf and key from another CA, with the genuine client certificate (public part only) appended:
					// possession of the key is proved for the foreign leaf alone
					oc := otherCAClient.Certificates[0]
					chain := append([][]byte{}, oc.Certificate...)
					chain = append(chain, cliMTLS.Certificates[0].Certificate...)
					cfg.Certificates = []tls.Certificate{{Certificate: chain, PrivateKey: oc.PrivateKey}}
				}
				c, err := tls.DialWithDialer(&net.Dialer{Timeout: 3 * time.Second}, "tcp", sut.addr, cfg)
				if err != nil {
					return // handshake refused: fine
				}
				defer c.Close()
				cl := &rawClient{c: c}
				_ = cl.send(opFrame("bind", id))
				if f, err := cl.readFrame(2 * time.Second); err == nil {
					fail("a client with %s got an answer: %s", kind, strictView(f))
				}
			}
		}(i, kind)
	}
	// a conforming client that arrives while the offenders are busy offending: their attempts "end only their
	// own connection", so it is served promptly
	time.Sleep(15 * time.Millisecond)
	if hasCrowd {
		select {
		case <-crowdReady:
		case <-time.After(5 * time.Second):
		}
		time.Sleep(20 * time.Millisecond)
	}
	if idle != nil {
		cl := &rawClient{c: idle}
		_ = cl.send(opFrame("bind", 778))
		f, err := cl.readFrame(2 * time.Second)
		if err != nil || !strings.HasPrefix(strictView(f), "result id=778 ") {
			fail("a conforming client that had completed its handshake and sat idle while silent connections gathered was not answered: %v", err)
		}
	}
	{
		cfg := goodCli.Clone()
		cfg.ServerName = "localhost"
		t0 := time.Now()
		c, err := tls.DialWithDialer(&net.Dialer{Timeout: 900 * time.Millisecond}, "tcp", sut.addr, cfg)
		if err != nil {
			fail("a conforming client arriving while offenders are connected was not served within 900ms: %v", err)
		} else {
			cl := &rawClient{c: c}
			_ = cl.send(opFrame("bind", 777))
			f, err := cl.readFrame(900*time.Millisecond - time.Since(t0))
			if err != nil || !strings.HasPrefix(strictView(f), "result id=777 ") {
				fail("a conforming client arriving while offenders are connected was not answered within 900ms: %v", err)
			}
			c.Close()
		}
	}
	ow.Wait()
	time.Sleep(30 * time.Millisecond)
	close(stopGood)
	gw.Wait()
	if n := atomic.LoadInt32(&offenderHandled); n > 0 {
		hmu.Lock()
		verdict = fmt.Sprintf("a handler ran %d time(s) for a client that did not satisfy the TLS configuration: %s", n, offDetail)
		hmu.Unlock()
	}
	if verdict == "ok" {
		cmu.Lock()
		for cid, what := range calls {
			if !goodConn[cid] {
				verdict = fmt.Sprintf("a handler ran %s on connection %d, on which no client satisfying the TLS configuration ever spoke", what, cid)
			}
		}
		cmu.Unlock()
	}
	if verdict == "ok" && atomic.LoadInt64(&handled) == 0 {
		verdict = "conforming clients were never served"
	}
	sut.finish()
	return verdict
}

func (c18Stream) Oracle(c Case, impl string) (bool, string, string) {
	if impl == "ok" || strings.HasPrefix(impl, "harness-error") {
		return true, "", ""
	}
	key := "c18/" + c.Kind
	if strings.Contains(impl, "handler ran") || strings.Contains(impl, "offender received") || strings.Contains(impl, "got an answer") {
		key = "c18/offender-served/" + c.Kind
	}
	return false, impl, key
}

func (c18Stream) Class(c Case, impl string) (string, bool) {
	p := kv(c.Line)
	return c.Kind + "/" + strings.Fields(impl + " -")[0], strings.Contains(p["offenders"], "plain-") && impl == "ok"
}
