package main

import (
	"fmt"
	"math/rand"
	"strings"

	ber "github.com/go-asn1-ber/asn1-ber"
	"github.com/go-ldap/ldap/v3"
)

// ---- stream "ber": asn1-ber ReadPacket vs the Lean parser model ---------------------------

type berStream struct{}

func (berStream) Name() string { return "ber" }
func (berStream) Rule() string {
	return "frames = valid requests, structured tree mutations with wire-form variations (indefinite / padded lengths, high tags), byte-level corruption, random bytes; non-trivial = parses to a tree with at least one child, distinct by input bytes"
}
func (berStream) Generate(rng *rand.Rand, n int, thorough bool) []Case {
	var cs []Case
	for len(cs) < n {
		f := genFrame(rng)
		if declaresHugeLength(f) {
			continue
		}
		cs = append(cs, Case{Line: "ber " + hx(f), Kind: "frame"})
	}
	return cs
}
func (berStream) Impl(c Case) string {
	b := unhx(strings.Fields(c.Line)[1])
	rd := newCountingReader(b)
	p, err := ber.ReadPacket(rd)
	if err != nil {
		return "err"
	}
	return fmt.Sprintf("ok %s rest=%d", renderBer(p), len(b)-rd.n)
}
func (berStream) Oracle(c Case, impl string) (bool, string, string) {
	if impl == "panic" {
		return false, "ber.ReadPacket panicked", "panic"
	}
	return true, "", ""
}
func (berStream) Class(c Case, impl string) (string, bool) {
	if strings.HasPrefix(impl, "ok C") && strings.Contains(impl, "[P") || strings.Contains(impl, "[C") {
		return "ok-tree", true
	}
	if strings.HasPrefix(impl, "ok") {
		return "ok-leaf", false
	}
	return impl, false
}

type countingReader struct {
	b []byte
	n int
}

func newCountingReader(b []byte) *countingReader { return &countingReader{b: b} }
func (r *countingReader) Read(p []byte) (int, error) {
	if r.n >= len(r.b) {
		return 0, errEOF
	}
	k := copy(p, r.b[r.n:])
	r.n += k
	return k, nil
}

// genFrame produces one frame: mostly derived from a valid request.
func genFrame(rng *rand.Rand) []byte {
	req := genReq(rng)
	root, err := req.Node()
	if err != nil {
		return randBytes(rng, 1+rng.Intn(16))
	}
	switch rng.Intn(10) {
	case 0:
		return root.Ser()
	case 1:
		return randBytes(rng, 1+rng.Intn(24))
	case 2, 3:
		return corruptBytes(rng, root.Ser())
	default:
		m := root
		k := 1 + rng.Intn(2)
		for i := 0; i < k; i++ {
			if x := mutate(rng, m); x != nil {
				m = x
			}
		}
		b := m.Ser()
		if rng.Intn(6) == 0 {
			b = corruptBytes(rng, b)
		}
		return b
	}
}

// ---- stream "decode": conn.readRequest vs the Lean decode model ----------------------------

type decodeStream struct{ mode string } // mode: "valid" (C01) or "hostile" (C02)

func (s decodeStream) Name() string { return "decode-" + s.mode }
func (s decodeStream) Rule() string {
	if s.mode == "valid" {
		return "typed requests of the seven operations (edge-biased ids, binary strings incl. >127/>65535 bytes, 0..3 attrs/changes/values, 0..4 controls of all nine kinds in random order, grammar-generated filters; one case in ten is a request gldap must refuse: compare, modifyDN, abandon, unassigned or response application tags, or a bind with version != 3) encoded by the harness's own RFC 4511 encoder, with wire-form variations; one frame in four is read as the third request of its connection; expectation computed from the typed request; non-trivial = decoded ok, distinct by frame bytes"
	}
	return "single/double structured mutations of canonical requests (node kind replacement, child delete/duplicate/swap, list truncate/extend, class/tag/constructed flips, content damage, length-octet corruption) plus random byte streams and search requests whose filter is a hostile element tree (filter tags in any class, wrong shapes, dnAttributes flags of zero to two octets); one frame in four is read as the THIRD request of its connection, after a well-formed bind and search; non-trivial = frame parses as BER (reaches gldap's own decoder), distinct by frame bytes"
}

// filterArg computes what go-ldap's DecompileFilter yields on the filter position.
func filterArg(frame []byte) string {
	p, err := ber.DecodePacketErr(frame)
	if err != nil || len(p.Children) < 2 || len(p.Children[1].Children) < 7 {
		return "!"
	}
	f, err := ldap.DecompileFilter(p.Children[1].Children[6])
	if err != nil {
		return "!"
	}
	return hx([]byte(f))
}

func decodeCase(frame []byte, expect, kind string) Case {
	return Case{Line: "decode " + hx(frame) + " " + filterArg(frame), Expect: expect, Kind: kind}
}

func (s decodeStream) Generate(rng *rand.Rand, n int, thorough bool) []Case {
	var cs []Case
	for len(cs) < n {
		if s.mode == "valid" && rng.Intn(10) == 0 {
			// an operation gldap does not support, or a bind whose version is not 3: never a handler's business
			id := Int(2, genID(rng))
			var frame []byte
			if rng.Intn(3) == 0 {
				v := []int64{0, 1, 2, 4, 127, 128, 255, -1}[rng.Intn(8)]
				frame = Seq(id, C(1, 0, Int(2, v), Oct(genStr(rng)), P(2, 0, []byte(genStr(rng))))).Ser()
			} else {
				tag := []int{14, 12, 16, 5, 9, 11, 13, 15, 17, 19, 24, 25, 30, 1, 4, 7}[rng.Intn(16)]
				var op *N
				if rng.Intn(4) == 0 {
					// application tags in the high-tag-number form, among them numbers congruent to a supported operation
					// modulo 2^8, 2^16 and 2^32 - with the body of that operation
					tag = []int{31, 32, 127, 128, 255, 256, 258, 259, 262, 264, 266, 279, 512, 65536, 65538, 65539, 1 << 32, 1<<32 + 3, 1<<32 + 23}[rng.Intn(19)]
					body := genReq(rng)
					body.Kind = map[int]string{0: "bind", 2: "unbind", 3: "search", 6: "modify", 8: "add", 10: "delete", 23: "extended"}[tag&0xff]
					if body.Kind == "" || body.Kind == "unbind" {
						body.Kind = "bind"
					}
					if root, err := body.Node(); err == nil && len(root.Kids) >= 2 {
						root.Kids[1].Tag = tag
						cs = append(cs, decodeCase(root.Ser(), "err", "unsupported"))
						continue
					}
				}
				switch {
				case tag == 16:
					op = P(1, 16, encInt(int64(rng.Intn(1000))))
				case tag == 14:
					op = C(1, 14, Oct(genStr(rng)), Seq(Oct(genName(rng)), Oct(genStr(rng))))
				case tag == 12:
					op = C(1, 12, Oct(genStr(rng)), Oct(genStr(rng)), Bool(rng.Intn(2) == 0))
				case rng.Intn(2) == 0:
					op = C(1, tag, Oct(genStr(rng)), Seq())
				default:
					op = C(1, tag, P(2, 0, []byte("1.3.6.1.4.1.4203.1.11.3")))
				}
				frame = Seq(id, op).Ser()
			}
			cs = append(cs, decodeCase(frame, "err", "unsupported"))
			continue
		}
		if s.mode == "valid" {
			req := genReq(rng)
			root, err := req.Node()
			if err != nil {
				continue
			}
			// wire-form variation that leaves the abstract request unchanged
			if rng.Intn(4) == 0 {
				sl := root.walk()
				x := sl[rng.Intn(len(sl))].node
				if x.Cons && rng.Intn(2) == 0 {
					x.Indef = true
				} else {
					x.PadLen = 1 + rng.Intn(2)
				}
			}
			frame := root.Ser()
			fo := ""
			if req.Kind == "search" {
				fp, _ := ldap.CompileFilter(req.Filter)
				fo, err = ldap.DecompileFilter(fp)
				if err != nil {
					continue
				}
				// semantic round trip demanded by the property's quantifier
				fp2, err := ldap.CompileFilter(fo)
				if err != nil || string(fp2.Bytes()) != string(fp.Bytes()) {
					continue
				}
			}
			cs = append(cs, decodeCase(frame, req.Expected(fo), req.Kind))
		} else {
			if rng.Intn(40) == 0 {
				// a modify whose changes use every operation number (also increment, 3, and numbers that are none) and whose
				// value lists are sometimes a bare primitive whose content looks like a BER header with a length that lies
				lies := [][]byte{{0x04, 0x7f}, {0x04, 0x80}, {0x04, 0x81}, {0x1b, 0x82, 0x10, 0x00, 0x41}, {0x04, 0x84, 0xff, 0xff, 0xff, 0xff}, {0x04}, {}, {0x04, 0x02, 0x41}}
				nch := 1 + rng.Intn(3)
				var chs []*N
				for i := 0; i < nch; i++ {
					op := []int64{0, 1, 2, 3, 3, 4, -1, 255}[rng.Intn(8)]
					var vals *N
					switch rng.Intn(5) {
					case 0:
						vals = Set(Oct(genStr(rng)))
					case 1:
						vals = P(0, []int{4, 17, 16}[rng.Intn(3)], lies[rng.Intn(len(lies))])
					case 2:
						vals = Set() // no value at all, under every operation number
					case 3:
						vals = Set(Oct("1"), Oct("-7"), Oct("x")) // several values, numeric and not
					default:
						vals = Set(P(0, 4, lies[rng.Intn(len(lies))]))
					}
					chs = append(chs, Seq(Int(10, op), Seq(Oct(genName(rng)), vals)))
				}
				f := Seq(Int(2, genID(rng)), C(1, 6, Oct(genStr(rng)), Seq(chs...))).Ser()
				cs = append(cs, decodeCase(f, "", "hostile"))
				continue
			}
			if rng.Intn(8) == 0 {
				// a search request, well-formed but for its filter: an element tree over the filter tags (and a few that are
				// none) in any class, primitive or constructed where the other is expected, children missing, surplus or of
				// the wrong kind, flags of zero, one (any octet) or two octets
				f := Seq(Int(2, genID(rng)), C(1, 3, Oct(genStr(rng)), Int(10, 2), Int(10, 0), Int(2, 0), Int(2, 0), Bool(false),
					hostileFilter(rng, 0), Seq(Oct("cn")))).Ser()
				cs = append(cs, decodeCase(f, "", "hostile"))
				continue
			}
			f := genFrame(rng)
			if declaresHugeLength(f) {
				continue
			}
			cs = append(cs, decodeCase(f, "", "hostile"))
		}
	}
	return cs
}

func (decodeStream) Impl(c Case) string {
	return decodeFrame(unhx(strings.Fields(c.Line)[1]))
}

func (s decodeStream) Oracle(c Case, impl string) (bool, string, string) {
	if impl == "panic" {
		return false, "request decoding panicked", "panic"
	}
	if c.Expect == "" {
		return true, "", ""
	}
	if impl == c.Expect {
		return true, "", ""
	}
	if c.Kind == "unsupported" {
		return false, "an unsupported operation or a bind with version != 3 is delivered: " + impl, "unsupported/delivered"
	}
	if c.Kind == "modify" {
		if ok, what := modifyMatches(c.Expect, impl); ok {
			return true, "", ""
		} else {
			return false, what, "modify/" + what
		}
	}
	f := firstDiff(c.Expect, impl)
	return false, "handler would receive " + f, c.Kind + "/" + strings.SplitN(f, "=", 2)[0]
}

func firstDiff(expect, impl string) string {
	e := strings.Fields(expect)
	i := strings.Fields(impl)
	for k := range e {
		if k >= len(i) {
			return "missing " + e[k]
		}
		if e[k] != i[k] {
			return i[k] + " want " + e[k]
		}
	}
	return "extra fields"
}

// modifyMatches accepts each delivered value either plain or BER-wrapped, one element per
// client value (the property's disjunction).
func modifyMatches(expect, impl string) (bool, string) {
	e := strings.Fields(expect)
	i := strings.Fields(impl)
	if len(e) != len(i) {
		return false, "shape"
	}
	for k := range e {
		if e[k] == i[k] {
			continue
		}
		if !strings.HasPrefix(e[k], "changes=[") || !strings.HasPrefix(i[k], "changes=[") {
			return false, strings.SplitN(e[k], "=", 2)[0]
		}
		ec := strings.Split(strings.TrimSuffix(strings.TrimPrefix(e[k], "changes=["), "]"), ";")
		ic := strings.Split(strings.TrimSuffix(strings.TrimPrefix(i[k], "changes=["), "]"), ";")
		if len(ec) != len(ic) {
			return false, "change-count"
		}
		for j := range ec {
			ep := strings.SplitN(ec[j], ":", 3)
			ip := strings.SplitN(ic[j], ":", 3)
			if len(ep) != 3 || len(ip) != 3 || ep[0] != ip[0] || ep[1] != ip[1] {
				return false, "change-op-or-type"
			}
			var ev, iv []string
			if ep[2] != "" {
				ev = strings.Split(ep[2], ",")
			}
			if ip[2] != "" {
				iv = strings.Split(ip[2], ",")
			}
			if len(ev) != len(iv) {
				return false, fmt.Sprintf("values-per-change: client sent %d, handler gets %d", len(ev), len(iv))
			}
			for x := range ev {
				plain := string(unhx(ev[x]))
				got := string(unhx(iv[x]))
				if got != plain && got != wrapOctet(plain) {
					return false, "value-content"
				}
			}
		}
	}
	return true, ""
}

func (s decodeStream) Class(c Case, impl string) (string, bool) {
	if s.mode == "valid" {
		return c.Kind + "/" + strings.Fields(impl)[0], strings.HasPrefix(impl, "ok")
	}
	b := unhx(strings.Fields(c.Line)[1])
	_, err := ber.DecodePacketErr(b)
	cl := strings.Fields(impl)
	k := cl[0]
	if k == "ok" {
		k = "ok-" + cl[1]
	}
	if err != nil {
		return "unparseable/" + k, false
	}
	return "parsed/" + k, true
}

// hostileFilter: a tree shaped like a search filter, more or less.
func hostileFilter(rng *rand.Rand, depth int) *N {
	cls := []int{2, 2, 2, 2, 0, 1, 3}[rng.Intn(7)]
	tag := []int{0, 1, 2, 3, 4, 5, 6, 7, 8, 9, 9, 9, 10, 16, 31, 4}[rng.Intn(16)]
	str := func() *N {
		switch rng.Intn(8) {
		case 0:
			return Seq(Oct(genStr(rng)))
		case 1:
			return P(2, rng.Intn(5), []byte(genStr(rng)))
		case 2:
			return P(0, 1, []byte{byte(rng.Intn(256))})
		}
		return Oct([]string{"cn", "uid", "a(b)*c\\", "\x00\xff\x80x", "", "member"}[rng.Intn(6)])
	}
	if rng.Intn(6) == 0 {
		return P(cls, tag, []byte(genStr(rng)))
	}
	var kids []*N
	switch {
	case tag <= 2 && depth < 3:
		for i := rng.Intn(4); i > 0; i-- {
			kids = append(kids, hostileFilter(rng, depth+1))
		}
	case tag == 4:
		var parts []*N
		for i := rng.Intn(5); i > 0; i-- {
			parts = append(parts, P([]int{2, 2, 0}[rng.Intn(3)], rng.Intn(4), []byte([]string{"a", "", "x*y", "(", "\xc3\xa9"}[rng.Intn(5)])))
		}
		kids = []*N{str(), Seq(parts...)}
		if rng.Intn(5) == 0 {
			kids = kids[:rng.Intn(2)]
		} else if rng.Intn(6) == 0 {
			kids[1] = Oct("ab")
		}
	case tag == 9:
		for i := rng.Intn(6); i > 0; i-- {
			t := 1 + rng.Intn(5)
			switch {
			case t == 4 && rng.Intn(3) > 0:
				flag := [][]byte{{0xff}, {0x01}, {0x00}, {0x80}, {}, {0x01, 0x01}, {0xff, 0x00}}[rng.Intn(7)]
				kids = append(kids, P([]int{2, 2, 2, 0, 1}[rng.Intn(5)], 4, flag))
			case t == 4:
				kids = append(kids, C(2, 4, P(0, 1, []byte{0xff})))
			default:
				kids = append(kids, P([]int{2, 2, 2, 0}[rng.Intn(4)], t, []byte([]string{"cn", "2.5.13.2", "", "v(1)", "caseIgnoreMatch"}[rng.Intn(5)])))
			}
		}
	default:
		for i := rng.Intn(4); i > 0; i-- {
			kids = append(kids, str())
		}
	}
	return C(cls, tag, kids...)
}
