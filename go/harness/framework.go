package main

import (
	"bufio"
	"bytes"
	"encoding/hex"
	"encoding/json"
	"fmt"
	"math/rand"
	"os"
	"os/exec"
	"runtime"
	"sort"
	"strconv"
	"strings"
	"sync"
	"time"
)

// Case is one self-contained check input. Line is what the Lean driver reads; Expect (when
// non-empty) is the direct oracle's expectation, computed by the generator independently of
// both the implementation and the model.
type Case struct {
	Line   string `json:"line"`
	Expect string `json:"expect,omitempty"`
	Kind   string `json:"kind,omitempty"`
}

// Failure is a direct-oracle failure: the property itself is false of the implementation
// on this input. Key identifies the failing site/class for the known-findings lookup.
type Failure struct {
	Case Case   `json:"case"`
	Impl string `json:"impl"`
	What string `json:"what"`
	Key  string `json:"key"`
}

// Disagreement is a correspondence failure: model and implementation differ.
type Disagreement struct {
	Case  Case   `json:"case"`
	Impl  string `json:"impl"`
	Model string `json:"model"`
}

type Result struct {
	Stream             string         `json:"stream"`
	Property           string         `json:"property"`
	Seed               int64          `json:"seed"`
	Evaluations        int            `json:"evaluations"`
	DistinctNontrivial int            `json:"distinct_nontrivial"`
	Rule               string         `json:"rule"`
	Skipped            int            `json:"skipped"`
	Histogram          map[string]int `json:"histogram"`
	Samples            []Case         `json:"samples"`
	Failures           []Failure      `json:"failures"`
	Disagreements      []Disagreement `json:"disagreements"`
	FailureCount       int            `json:"failure_count"`
	DisagreementCount  int            `json:"disagreement_count"`
	TracesValidated    int            `json:"traces_validated_against_impl"`
	WallS              float64        `json:"wall_s"`
	Exhaustive         bool           `json:"exhaustive"`
}

// Stream is one correspondence stream.
type Stream interface {
	Name() string
	Rule() string
	// Generate produces cases from rng; n is the requested volume.
	Generate(rng *rand.Rand, n int, thorough bool) []Case
	// Impl runs the real gldap on the case and returns the canonical output line.
	Impl(c Case) string
	// Oracle checks the property directly on the implementation's output.
	Oracle(c Case, impl string) (ok bool, what, key string)
	// Class buckets the case for the histogram and decides non-triviality.
	Class(c Case, impl string) (bucket string, nontrivial bool)
}

// Isolated streams run their cases in a worker subprocess with a per-case wall-clock bound: a
// case that kills the process (unrecovered panic on a request goroutine, fatal runtime error)
// or hangs (Stop that never returns) is reported as such and the remaining cases continue in a
// fresh worker.
type Isolated interface {
	CaseTimeout() time.Duration
}

// Tracing streams produce, besides the oracle's verdict, an event trace of the real server;
// the model must accept it (trace inclusion).
type Tracing interface {
	// ModelLine turns the trace observed for the case into the driver's input line.
	ModelLine(c Case, trace string) string
}

// OracleOnly streams have no model counterpart: they observe runtime behaviour the model cannot
// exhibit (wall-clock bounds, the kernel's listen queue, TLS handshakes) and are decided by the
// direct oracle alone.
type OracleOnly interface {
	NoModel() bool
}

// lastPanicKey is set by safely() when the implementation panics.
var lastPanicKey string

// safely runs f under recover and maps a panic to "panic", recording where it happened.
func safely(f func() string) (out string) {
	defer func() {
		if r := recover(); r != nil {
			lastPanicKey = panicKey(r)
			out = "panic"
		}
	}()
	lastPanicKey = ""
	return f()
}

// panicKey reduces a panic to "<innermost gldap function>:<class>".
func panicKey(r interface{}) string {
	msg := fmt.Sprint(r)
	class := "other"
	switch {
	case strings.Contains(msg, "interface conversion"):
		class = "type-assertion"
	case strings.Contains(msg, "index out of range"), strings.Contains(msg, "slice bounds out of range"):
		class = "index"
	case strings.Contains(msg, "nil pointer"):
		class = "nil-deref"
	}
	pcs := make([]uintptr, 64)
	n := runtime.Callers(3, pcs)
	frames := runtime.CallersFrames(pcs[:n])
	fn := "unknown"
	for {
		fr, more := frames.Next()
		if strings.Contains(fr.Function, "github.com/jimlambrt/gldap") && !strings.Contains(fr.Function, "Verif") {
			fn = fr.Function[strings.LastIndex(fr.Function, "/")+1:]
			break
		}
		if !more {
			break
		}
	}
	return fn + ":" + class
}

// runModel pipes the lines through the compiled Lean driver.
func runModel(gmodel string, lines []string) ([]string, error) {
	cmd := exec.Command(gmodel)
	var in bytes.Buffer
	for _, l := range lines {
		in.WriteString(l)
		in.WriteByte('\n')
	}
	cmd.Stdin = &in
	var out bytes.Buffer
	cmd.Stdout = &out
	cmd.Stderr = os.Stderr
	if err := cmd.Run(); err != nil {
		return nil, fmt.Errorf("gmodel: %w", err)
	}
	var res []string
	sc := bufio.NewScanner(&out)
	sc.Buffer(make([]byte, 1<<20), 1<<28)
	for sc.Scan() {
		res = append(res, sc.Text())
	}
	if len(res) != len(lines) {
		return nil, fmt.Errorf("gmodel returned %d lines for %d inputs", len(res), len(lines))
	}
	return res, nil
}

func loadCases(path string) ([]Case, error) {
	f, err := os.Open(path)
	if err != nil {
		return nil, err
	}
	defer f.Close()
	var cs []Case
	sc := bufio.NewScanner(f)
	sc.Buffer(make([]byte, 1<<20), 1<<28)
	for sc.Scan() {
		t := strings.TrimSpace(sc.Text())
		if t == "" || strings.HasPrefix(t, "#") {
			continue
		}
		var c Case
		if err := json.Unmarshal([]byte(t), &c); err != nil {
			return nil, fmt.Errorf("%s: %w", path, err)
		}
		cs = append(cs, c)
	}
	return cs, sc.Err()
}

// runStream runs corpus + generated (or explicit) cases through implementation, model and oracle.
func runStream(s Stream, property string, seed int64, n int, thorough bool, gmodel string, corpus []Case, explicit []Case) (*Result, error) {
	start := time.Now()
	res := &Result{Stream: s.Name(), Property: property, Seed: seed, Rule: s.Rule(), Histogram: map[string]int{}, Samples: []Case{}, Failures: []Failure{}, Disagreements: []Disagreement{}}
	var cases []Case
	if explicit != nil {
		cases = explicit
	} else {
		cases = append(cases, corpus...)
		rng := rand.New(rand.NewSource(seed))
		cases = append(cases, s.Generate(rng, n, thorough)...)
	}
	impls := make([]string, len(cases))
	keys := make([]string, len(cases))
	lines := make([]string, len(cases))
	stalls := make([]time.Duration, len(cases))
	iso, isolated := s.(Isolated)
	isolated = isolated && os.Getenv("VERIF_WORKER") == ""
	if isolated {
		// (VERIF_DEADLINE, unix seconds: no new case is started after it - the search phase of a check on a changed
		// tree must end even when every case runs into its timeout; what was not run is not reported at all)
		done := runIsolated(s.Name(), cases, iso.CaseTimeout(), impls, stalls)
		cases, impls, keys, lines, stalls = cases[:done], impls[:done], keys[:done], lines[:done], stalls[:done]
	} else {
		for i, c := range cases {
			impls[i] = safely(func() string { return s.Impl(c) })
			keys[i] = lastPanicKey
		}
	}
	tr, tracing := s.(Tracing)
	// norm turns what the implementation side returned into the verdict string and the driver's input line
	norm := func(c Case, raw string) (string, string) {
		if noTrace && !strings.HasPrefix(raw, "process-died") {
			// race-detector-only run: without the tracer the scenario's own verdict means nothing
			raw = "ok"
			if tracing {
				raw = "ok\t"
			}
		}
		if tracing {
			res, trace := raw, ""
			if k := strings.Index(raw, "\t"); k >= 0 {
				res, trace = raw[:k], raw[k+1:]
			}
			return res, tr.ModelLine(c, trace)
		}
		return raw, c.Line
	}
	for i, c := range cases {
		impls[i], lines[i] = norm(c, impls[i])
	}
	if dump := os.Getenv("VERIF_DUMP"); dump != "" {
		_ = os.WriteFile(dump, []byte(strings.Join(lines, "\n")+"\n"), 0o644)
	}
	_, oracleOnly := s.(OracleOnly)
	unmodelled := oracleOnly || noTrace
	var models []string
	if unmodelled {
		models = make([]string, len(lines))
		for i := range models {
			models[i] = "unmodelled"
		}
	} else {
		var err error
		models, err = runModel(gmodel, lines)
		if err != nil {
			return nil, err
		}
	}
	skippedByModel := func(model string) bool {
		return model == "unmodelled" || (tracing && model == "no-trace")
	}
	disagrees := func(impl, model string) bool {
		if skippedByModel(model) {
			return false
		}
		return (tracing && model != "accept") || (!tracing && model != impl)
	}
	bad := func(c Case, impl, model string) bool {
		ok, _, _ := s.Oracle(c, impl)
		return !ok || disagrees(impl, model)
	}
	// A verdict of a live-server scenario can depend on the machine (a timeout under load, a port taken by another
	// process, a virtual machine that stood still for seconds): each scenario that fails its oracle or on which model and
	// implementation differ is run again, alone. A run counts as a vote unless it failed while the stall meter (a
	// goroutine that measures how late its own 5 ms sleeps return) saw the process held up for longer than stallLimit:
	// such a run is repeated instead. Two failing votes let the failure stand (the first run and one of two re-runs, as
	// before); two passing re-runs drop it (`unconfirmed/<key>` in the histogram) and the passing run takes its place.
	// After seven runs without a decision (or when the time set aside for re-runs is used up) the failure stands.
	// (Deterministic breakage fails every time; a race that fails one run in two is still kept three times out of four.)
	if isolated && explicit == nil {
		confirmed, reruns, began := 0, 0, time.Now()
		for i := range cases {
			if !bad(cases[i], impls[i], models[i]) {
				continue
			}
			// (bounded - a dozen scenarios, thirty re-runs, four minutes: beyond that the rest stands as it is)
			if confirmed >= 12 || reruns >= 30 || time.Since(began) > 4*time.Minute {
				break
			}
			confirmed++
			_, _, key := s.Oracle(cases[i], impls[i])
			if key == "" {
				key = "correspond"
			}
			fails, passes, runs := 0, 0, 1
			if stalls[i] <= stallLimit {
				fails = 1
			} else {
				res.Histogram["disturbed-run"]++
			}
			var pImpl, pLine, pModel string
			for runs < 7 && fails < 2 && passes < 2 && time.Since(began) <= 6*time.Minute {
				runs++
				reruns++
				one, st := []string{""}, []time.Duration{0}
				if runIsolated(s.Name(), []Case{cases[i]}, iso.CaseTimeout(), one, st) == 0 {
					break // past VERIF_DEADLINE: not run; the failure stands as it is
				}
				impl, line := norm(cases[i], one[0])
				model := "unmodelled"
				if !unmodelled {
					if m, err := runModel(gmodel, []string{line}); err == nil {
						model = m[0]
					} else {
						model = "model-error"
					}
				}
				switch {
				case !bad(cases[i], impl, model):
					passes++
					pImpl, pLine, pModel = impl, line, model
				case st[0] <= stallLimit:
					fails++
				default:
					res.Histogram["disturbed-run"]++
				}
			}
			if passes >= 2 {
				res.Histogram["unconfirmed/"+key]++
				impls[i], lines[i], models[i] = pImpl, pLine, pModel
			}
		}
	}
	distinct := map[string]bool{}
	for i, c := range cases {
		res.Evaluations++
		bucket, nontrivial := s.Class(c, impls[i])
		res.Histogram[bucket]++
		if nontrivial {
			distinct[c.Line] = true
		}
		if skippedByModel(models[i]) {
			res.Skipped++
		} else if disagrees(impls[i], models[i]) {
			res.DisagreementCount++
			if len(res.Disagreements) < 20 {
				res.Disagreements = append(res.Disagreements, Disagreement{c, clip(impls[i]), clip(models[i])})
			}
		}
		ok, what, key := s.Oracle(c, impls[i])
		if !ok {
			if impls[i] == "panic" && keys[i] != "" {
				key = "panic:" + keys[i]
			}
			res.FailureCount++
			if len(res.Failures) < 200 {
				res.Failures = append(res.Failures, Failure{c, clip(impls[i]), what, key})
			}
		}
	}
	res.DistinctNontrivial = len(distinct)
	// samples: first case of up to 6 buckets
	seen := map[string]bool{}
	for i, c := range cases {
		b, _ := s.Class(c, impls[i])
		if !seen[b] && len(res.Samples) < 6 && len(c.Line) < 600 {
			seen[b] = true
			res.Samples = append(res.Samples, c)
		}
	}
	res.TracesValidated = res.Evaluations - res.Skipped - res.DisagreementCount
	res.WallS = time.Since(start).Seconds()
	return res, nil
}

func clip(s string) string {
	if len(s) > 2000 {
		return s[:2000] + "..."
	}
	return s
}

func hx(b []byte) string {
	if len(b) == 0 {
		return "-"
	}
	return hex.EncodeToString(b)
}

func unhx(s string) []byte {
	if s == "-" {
		return nil
	}
	b, err := hex.DecodeString(s)
	if err != nil {
		panic("bad hex in case: " + s)
	}
	return b
}

func sortedKeys(m map[string]int) []string {
	ks := make([]string, 0, len(m))
	for k := range m {
		ks = append(ks, k)
	}
	sort.Strings(ks)
	return ks
}

// ---- worker subprocess protocol -------------------------------------------------------------------

type workerMsg struct {
	I     int    `json:"i"`
	Begin bool   `json:"begin,omitempty"`
	Impl  string `json:"impl,omitempty"`
	Stall int64  `json:"stall_us,omitempty"` // the longest hold-up the worker's stall meter saw during the case
}

// stallLimit: a failing run during which the process was held up for longer than this is not a verdict (see runStream).
const stallLimit = 100 * time.Millisecond

// stallMeter measures how late its own short sleeps return: on an idle machine a few hundred microseconds, on a
// starved or suspended one (load, a stopped process, a virtual machine that stood still) as long as the hold-up lasted.
// The scenarios' own deadlines run on the same clock, so a hold-up the meter did not see cannot have expired them.
type stallMeter struct {
	mu     sync.Mutex
	events []stallEvent
}

type stallEvent struct {
	at  time.Time
	gap time.Duration
}

var meter = &stallMeter{}
var meterOnce sync.Once

func (m *stallMeter) start() {
	meterOnce.Do(func() {
		go func() {
			const tick = 5 * time.Millisecond
			for {
				t := time.Now()
				time.Sleep(tick)
				if gap := time.Since(t) - tick; gap > 20*time.Millisecond {
					m.mu.Lock()
					if len(m.events) > 4096 {
						m.events = m.events[2048:]
					}
					m.events = append(m.events, stallEvent{time.Now(), gap})
					m.mu.Unlock()
				}
			}
		}()
	})
}

// maxSince is the longest hold-up that ended after t.
func (m *stallMeter) maxSince(t time.Time) time.Duration {
	m.mu.Lock()
	defer m.mu.Unlock()
	var max time.Duration
	for _, e := range m.events {
		if e.at.After(t) && e.gap > max {
			max = e.gap
		}
	}
	return max
}

// workerMain runs inside the child: reads cases as JSON lines, answers one JSON line per case.
func workerMain(s Stream) {
	in := bufio.NewScanner(os.Stdin)
	in.Buffer(make([]byte, 1<<20), 1<<28)
	out := bufio.NewWriter(os.Stdout)
	meter.start()
	i := 0
	for in.Scan() {
		var c Case
		if err := json.Unmarshal(in.Bytes(), &c); err != nil {
			continue
		}
		b, _ := json.Marshal(workerMsg{I: i, Begin: true})
		out.Write(b)
		out.WriteByte('\n')
		out.Flush()
		t0 := time.Now()
		impl := safely(func() string { return s.Impl(c) })
		if impl == "panic" {
			impl = "panic " + lastPanicKey
		}
		b, _ = json.Marshal(workerMsg{I: i, Impl: impl, Stall: int64(meter.maxSince(t0) / time.Microsecond)})
		out.Write(b)
		out.WriteByte('\n')
		out.Flush()
		i++
	}
}

// runIsolated drives worker subprocesses over the cases, restarting after a death or timeout.
// workerBin is the binary used for worker subprocesses (the race-enabled build for C15).
var workerBin = os.Args[0]

func runIsolated(stream string, cases []Case, perCase time.Duration, impls []string, stalls []time.Duration) int {
	meter.start() // (the parent's own meter speaks for a case whose worker died or was killed at its time limit)
	var deadline time.Time
	if v, err := strconv.ParseInt(os.Getenv("VERIF_DEADLINE"), 10, 64); err == nil && v > 0 {
		deadline = time.Unix(v, 0)
	}
	past := func() bool { return !deadline.IsZero() && time.Now().After(deadline) }
	next := 0
	for next < len(cases) {
		if past() {
			return next
		}
		cmd := exec.Command(workerBin, "-worker", "-stream", stream)
		cmd.Env = append(os.Environ(), "VERIF_WORKER=1", "GORACE=halt_on_error=1")
		stdin, _ := cmd.StdinPipe()
		stdout, _ := cmd.StdoutPipe()
		var stderr bytes.Buffer
		cmd.Stderr = &stderr
		if err := cmd.Start(); err != nil {
			for ; next < len(cases); next++ {
				impls[next] = "worker-start-failed"
			}
			return len(cases)
		}
		base := next
		caseStart := time.Now()
		go func() {
			for _, c := range cases[base:] {
				b, _ := json.Marshal(c)
				stdin.Write(b)
				stdin.Write([]byte("\n"))
			}
			stdin.Close()
		}()
		msgs := make(chan workerMsg, 16)
		go func() {
			sc := bufio.NewScanner(stdout)
			sc.Buffer(make([]byte, 1<<20), 1<<28)
			for sc.Scan() {
				var m workerMsg
				if json.Unmarshal(sc.Bytes(), &m) == nil {
					msgs <- m
				}
			}
			close(msgs)
		}()
		dead := false
		for !dead && next < len(cases) {
			if past() {
				_ = cmd.Process.Kill()
				_ = cmd.Wait()
				return next
			}
			timer := time.NewTimer(perCase)
			select {
			case m, ok := <-msgs:
				timer.Stop()
				if !ok {
					// worker died while running case `next`
					_ = cmd.Wait()
					tail := stderr.String()
					if len(tail) > 1500 {
						tail = tail[len(tail)-1500:]
					}
					key := "process-died"
					switch {
					case strings.Contains(tail, "stack overflow"):
						key = "process-died:stack-overflow"
					case strings.Contains(tail, "panic:"):
						key = "process-died:panic"
					case strings.Contains(tail, "fatal error:"):
						key = "process-died:fatal"
					case strings.Contains(tail, "DATA RACE"):
						key = "process-died:race"
					}
					n := 6
					if strings.HasSuffix(key, "race") {
						n = 24
					}
					impls[next] = key + " " + strings.ReplaceAll(firstLines(tail, n), "\n", " | ")
					stalls[next] = meter.maxSince(caseStart)
					next++
					dead = true
				} else if !m.Begin {
					impls[base+m.I] = m.Impl
					stalls[base+m.I] = time.Duration(m.Stall) * time.Microsecond
					if p := meter.maxSince(caseStart); p > stalls[base+m.I] {
						stalls[base+m.I] = p
					}
					next = base + m.I + 1
					caseStart = time.Now()
				}
			case <-timer.C:
				impls[next] = "timeout"
				stalls[next] = meter.maxSince(caseStart)
				next++
				_ = cmd.Process.Kill()
				dead = true
			}
		}
		_ = cmd.Process.Kill()
		_ = cmd.Wait()
	}
	return len(cases)
}

func firstLines(s string, n int) string {
	// the interesting part of a Go crash is at the start of the dump
	idx := strings.Index(s, "panic:")
	if k := strings.Index(s, "fatal error:"); k >= 0 && (idx < 0 || k < idx) {
		idx = k
	}
	if k := strings.Index(s, "WARNING: DATA RACE"); k >= 0 && (idx < 0 || k < idx) {
		idx = k
	}
	if idx > 0 {
		s = s[idx:]
	}
	l := strings.SplitN(s, "\n", n+1)
	if len(l) > n {
		l = l[:n]
	}
	return strings.Join(l, "\n")
}
