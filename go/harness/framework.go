package main

import (
	"bufio"
	"bytes"
	"encoding/hex"
	"encoding/json"
	"fmt"
	"math/rand"
	"os"
	"os/exec"
	"runtime"
	"sort"
	"strings"
	"time"
)

// Case is one self-contained check input. Line is what the Lean driver reads; Expect (when
// non-empty) is the direct oracle's expectation, computed by the generator independently of
// both the implementation and the model.
type Case struct {
	Line   string `json:"line"`
	Expect string `json:"expect,omitempty"`
	Kind   string `json:"kind,omitempty"`
}

// Failure is a direct-oracle failure: the property itself is false of the implementation
// on this input. Key identifies the failing site/class for the known-findings lookup.
type Failure struct {
	Case Case   `json:"case"`
	Impl string `json:"impl"`
	What string `json:"what"`
	Key  string `json:"key"`
}

// Disagreement is a correspondence failure: model and implementation differ.
type Disagreement struct {
	Case  Case   `json:"case"`
	Impl  string `json:"impl"`
	Model string `json:"model"`
}

type Result struct {
	Stream             string         `json:"stream"`
	Property           string         `json:"property"`
	Seed               int64          `json:"seed"`
	Evaluations        int            `json:"evaluations"`
	DistinctNontrivial int            `json:"distinct_nontrivial"`
	Rule               string         `json:"rule"`
	Skipped            int            `json:"skipped"`
	Histogram          map[string]int `json:"histogram"`
	Samples            []Case         `json:"samples"`
	Failures           []Failure      `json:"failures"`
	Disagreements      []Disagreement `json:"disagreements"`
	FailureCount       int            `json:"failure_count"`
	DisagreementCount  int            `json:"disagreement_count"`
	TracesValidated    int            `json:"traces_validated_against_impl"`
	WallS              float64        `json:"wall_s"`
	Exhaustive         bool           `json:"exhaustive"`
}

// Stream is one correspondence stream.
type Stream interface {
	Name() string
	Rule() string
	// Generate produces cases from rng; n is the requested volume.
	Generate(rng *rand.Rand, n int, thorough bool) []Case
	// Impl runs the real gldap on the case and returns the canonical output line.
	Impl(c Case) string
	// Oracle checks the property directly on the implementation's output.
	Oracle(c Case, impl string) (ok bool, what, key string)
	// Class buckets the case for the histogram and decides non-triviality.
	Class(c Case, impl string) (bucket string, nontrivial bool)
}

// lastPanicKey is set by safely() when the implementation panics.
var lastPanicKey string

// safely runs f under recover and maps a panic to "panic", recording where it happened.
func safely(f func() string) (out string) {
	defer func() {
		if r := recover(); r != nil {
			lastPanicKey = panicKey(r)
			out = "panic"
		}
	}()
	lastPanicKey = ""
	return f()
}

// panicKey reduces a panic to "<innermost gldap function>:<class>".
func panicKey(r interface{}) string {
	msg := fmt.Sprint(r)
	class := "other"
	switch {
	case strings.Contains(msg, "interface conversion"):
		class = "type-assertion"
	case strings.Contains(msg, "index out of range"), strings.Contains(msg, "slice bounds out of range"):
		class = "index"
	case strings.Contains(msg, "nil pointer"):
		class = "nil-deref"
	}
	pcs := make([]uintptr, 64)
	n := runtime.Callers(3, pcs)
	frames := runtime.CallersFrames(pcs[:n])
	fn := "unknown"
	for {
		fr, more := frames.Next()
		if strings.Contains(fr.Function, "github.com/jimlambrt/gldap") && !strings.Contains(fr.Function, "Verif") {
			fn = fr.Function[strings.LastIndex(fr.Function, "/")+1:]
			break
		}
		if !more {
			break
		}
	}
	return fn + ":" + class
}

// runModel pipes the lines through the compiled Lean driver.
func runModel(gmodel string, lines []string) ([]string, error) {
	cmd := exec.Command(gmodel)
	var in bytes.Buffer
	for _, l := range lines {
		in.WriteString(l)
		in.WriteByte('\n')
	}
	cmd.Stdin = &in
	var out bytes.Buffer
	cmd.Stdout = &out
	cmd.Stderr = os.Stderr
	if err := cmd.Run(); err != nil {
		return nil, fmt.Errorf("gmodel: %w", err)
	}
	var res []string
	sc := bufio.NewScanner(&out)
	sc.Buffer(make([]byte, 1<<20), 1<<28)
	for sc.Scan() {
		res = append(res, sc.Text())
	}
	if len(res) != len(lines) {
		return nil, fmt.Errorf("gmodel returned %d lines for %d inputs", len(res), len(lines))
	}
	return res, nil
}

func loadCases(path string) ([]Case, error) {
	f, err := os.Open(path)
	if err != nil {
		return nil, err
	}
	defer f.Close()
	var cs []Case
	sc := bufio.NewScanner(f)
	sc.Buffer(make([]byte, 1<<20), 1<<28)
	for sc.Scan() {
		t := strings.TrimSpace(sc.Text())
		if t == "" || strings.HasPrefix(t, "#") {
			continue
		}
		var c Case
		if err := json.Unmarshal([]byte(t), &c); err != nil {
			return nil, fmt.Errorf("%s: %w", path, err)
		}
		cs = append(cs, c)
	}
	return cs, sc.Err()
}

// runStream runs corpus + generated (or explicit) cases through implementation, model and oracle.
func runStream(s Stream, property string, seed int64, n int, thorough bool, gmodel string, corpus []Case, explicit []Case) (*Result, error) {
	start := time.Now()
	res := &Result{Stream: s.Name(), Property: property, Seed: seed, Rule: s.Rule(), Histogram: map[string]int{}, Samples: []Case{}, Failures: []Failure{}, Disagreements: []Disagreement{}}
	var cases []Case
	if explicit != nil {
		cases = explicit
	} else {
		cases = append(cases, corpus...)
		rng := rand.New(rand.NewSource(seed))
		cases = append(cases, s.Generate(rng, n, thorough)...)
	}
	impls := make([]string, len(cases))
	keys := make([]string, len(cases))
	lines := make([]string, len(cases))
	for i, c := range cases {
		impls[i] = safely(func() string { return s.Impl(c) })
		keys[i] = lastPanicKey
		lines[i] = c.Line
	}
	models, err := runModel(gmodel, lines)
	if err != nil {
		return nil, err
	}
	distinct := map[string]bool{}
	for i, c := range cases {
		res.Evaluations++
		bucket, nontrivial := s.Class(c, impls[i])
		res.Histogram[bucket]++
		if nontrivial {
			distinct[c.Line] = true
		}
		if models[i] == "unmodelled" {
			res.Skipped++
		} else if models[i] != impls[i] {
			res.DisagreementCount++
			if len(res.Disagreements) < 20 {
				res.Disagreements = append(res.Disagreements, Disagreement{c, clip(impls[i]), clip(models[i])})
			}
		}
		ok, what, key := s.Oracle(c, impls[i])
		if !ok {
			if impls[i] == "panic" && keys[i] != "" {
				key = "panic:" + keys[i]
			}
			res.FailureCount++
			if len(res.Failures) < 200 {
				res.Failures = append(res.Failures, Failure{c, clip(impls[i]), what, key})
			}
		}
	}
	res.DistinctNontrivial = len(distinct)
	// samples: first case of up to 6 buckets
	seen := map[string]bool{}
	for i, c := range cases {
		b, _ := s.Class(c, impls[i])
		if !seen[b] && len(res.Samples) < 6 && len(c.Line) < 600 {
			seen[b] = true
			res.Samples = append(res.Samples, c)
		}
	}
	res.TracesValidated = res.Evaluations - res.Skipped - res.DisagreementCount
	res.WallS = time.Since(start).Seconds()
	return res, nil
}

func clip(s string) string {
	if len(s) > 2000 {
		return s[:2000] + "..."
	}
	return s
}

func hx(b []byte) string {
	if len(b) == 0 {
		return "-"
	}
	return hex.EncodeToString(b)
}

func unhx(s string) []byte {
	if s == "-" {
		return nil
	}
	b, err := hex.DecodeString(s)
	if err != nil {
		panic("bad hex in case: " + s)
	}
	return b
}

func sortedKeys(m map[string]int) []string {
	ks := make([]string, 0, len(m))
	for k := range m {
		ks = append(ks, k)
	}
	sort.Strings(ks)
	return ks
}
