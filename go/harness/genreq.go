package main

import (
	"fmt"
	"math/rand"
	"strconv"
	"strings"

	ber "github.com/go-asn1-ber/asn1-ber"
	"github.com/go-ldap/ldap/v3"
)

// ---- client-side (specification) view of requests and controls -------------------------

type Ctl struct {
	Kind   string // str dsait paging behera vchumust vchuwarn msnotif msshowdel mslinkttl
	OID    string
	Crit   bool
	Value  string
	Size   uint32
	Cookie []byte
	Expire int64
	Grace  int64
	Error  int64
	// encoding variation: explicit FALSE criticality
	ExplicitCrit bool
}

const (
	oidPaging   = "1.2.840.113556.1.4.319"
	oidBehera   = "1.3.6.1.4.1.42.2.27.8.5.1"
	oidVChuMust = "2.16.840.1.113730.3.4.4"
	oidVChuWarn = "2.16.840.1.113730.3.4.5"
	oidDsaIT    = "2.16.840.1.113730.3.4.2"
	oidMsNotif  = "1.2.840.113556.1.4.528"
	oidMsShow   = "1.2.840.113556.1.4.417"
	oidMsTTL    = "1.2.840.113556.1.4.2309"
)

var typedOIDs = map[string]bool{oidPaging: true, oidBehera: true, oidVChuMust: true, oidVChuWarn: true, oidDsaIT: true, oidMsNotif: true, oidMsShow: true, oidMsTTL: true}

// Node is the RFC encoding of the control (RFC 4511 4.1.11, RFC 2696, Behera draft 10,
// VChu draft): what a go-ldap client, or any conforming peer, puts on the wire.
func (c Ctl) Node() *N { return c.NodeT(0xff) }

// NodeT: as Node, with the octet used for TRUE.
func (c Ctl) NodeT(tt byte) *N {
	switch c.Kind {
	case "str":
		kids := []*N{Oct(c.OID)}
		if c.Crit || c.ExplicitCrit {
			kids = append(kids, BoolT(tt, c.Crit))
		}
		if c.Value != "" {
			kids = append(kids, Oct(c.Value))
		}
		return Seq(kids...)
	case "dsait":
		kids := []*N{Oct(oidDsaIT)}
		if c.Crit || c.ExplicitCrit {
			kids = append(kids, BoolT(tt, c.Crit))
		}
		return Seq(kids...)
	case "paging":
		inner := Seq(Int(2, int64(c.Size)), P(0, 4, c.Cookie))
		return Seq(Oct(oidPaging), P(0, 4, inner.Ser()))
	case "behera":
		if (c.Grace >= 0 || c.Expire >= 0) && c.Error >= 0 {
			// a warning and an error in one value (the draft's PasswordPolicyResponseValue has both optional parts)
			warn := P(2, 1, encInt(c.Grace))
			if c.Grace < 0 {
				warn = P(2, 0, encInt(c.Expire))
			}
			inner := Seq(C(2, 0, warn), P(2, 1, encInt(c.Error)))
			return Seq(Oct(oidBehera), P(0, 4, inner.Ser()))
		}
		switch {
		case c.Grace >= 0:
			inner := Seq(C(2, 0, P(2, 1, encInt(c.Grace))))
			return Seq(Oct(oidBehera), P(0, 4, inner.Ser()))
		case c.Expire >= 0:
			inner := Seq(C(2, 0, P(2, 0, encInt(c.Expire))))
			return Seq(Oct(oidBehera), P(0, 4, inner.Ser()))
		case c.Error >= 0:
			inner := Seq(P(2, 1, encInt(c.Error)))
			return Seq(Oct(oidBehera), P(0, 4, inner.Ser()))
		}
		return Seq(Oct(oidBehera))
	case "vchumust":
		return Seq(Oct(oidVChuMust))
	case "vchuwarn":
		return Seq(Oct(oidVChuWarn), Oct(strconv.FormatInt(c.Expire, 10)))
	case "msnotif":
		return Seq(Oct(oidMsNotif))
	case "msshowdel":
		return Seq(Oct(oidMsShow))
	case "mslinkttl":
		return Seq(Oct(oidMsTTL))
	}
	panic("ctl kind " + c.Kind)
}

func b2s(b bool) string {
	if b {
		return "1"
	}
	return "0"
}

// Render is the canonical rendering shared with the Lean driver and renderControl().
func (c Ctl) Render() string {
	switch c.Kind {
	case "str":
		return fmt.Sprintf("str(%s,%s,%s)", hx([]byte(c.OID)), b2s(c.Crit), hx([]byte(c.Value)))
	case "dsait":
		return fmt.Sprintf("dsait(%s)", b2s(c.Crit))
	case "paging":
		return fmt.Sprintf("paging(%d,%s)", c.Size, hx(c.Cookie))
	case "behera":
		return fmt.Sprintf("behera(%d,%d,%d)", c.Expire, c.Grace, c.Error)
	case "vchuwarn":
		return fmt.Sprintf("vchuwarn(%d)", c.Expire)
	}
	return c.Kind
}

func renderCtls(cs []Ctl) string {
	parts := make([]string, len(cs))
	for i, c := range cs {
		parts[i] = c.Render()
	}
	return "[" + strings.Join(parts, ";") + "]"
}

type Chg struct {
	Op   int64
	Type string
	Vals []string
}
type Att struct {
	Type string
	Vals []string
}

type Req struct {
	Kind      string // bind search extended modify add delete unbind
	ID        int64
	DN        string // bind user / base DN / entry DN
	Pass      string
	Scope     int64
	Deref     int64
	Size      int64
	Time      int64
	TypesOnly bool
	Filter    string
	Attrs     []string
	Changes   []Chg
	AddAttrs  []Att
	Name      string
	Ctls      []Ctl
	TrueOctet byte // octet encoding TRUE (0 = 0xff)
}

// Node is the RFC 4511 encoding of the request, written from the RFC's ASN.1 and matching
// go-ldap v3.4.6's appendTo methods. filterNode is supplied by the go-ldap compiler.
func (r Req) Node() (*N, error) {
	var op *N
	switch r.Kind {
	case "bind":
		op = C(1, 0, Int(2, 3), Oct(r.DN), P(2, 0, []byte(r.Pass)))
	case "search":
		fp, err := ldap.CompileFilter(r.Filter)
		if err != nil {
			return nil, err
		}
		attrs := make([]*N, len(r.Attrs))
		for i, a := range r.Attrs {
			attrs[i] = Oct(a)
		}
		op = C(1, 3, Oct(r.DN), Int(10, r.Scope), Int(10, r.Deref), Int(2, r.Size), Int(2, r.Time), BoolT(r.TrueOctet, r.TypesOnly), fromBer(fp), Seq(attrs...))
	case "extended":
		op = C(1, 23, P(2, 0, []byte(r.Name)))
	case "modify":
		chs := make([]*N, len(r.Changes))
		for i, c := range r.Changes {
			vals := make([]*N, len(c.Vals))
			for j, v := range c.Vals {
				vals[j] = Oct(v)
			}
			chs[i] = Seq(Int(10, c.Op), Seq(Oct(c.Type), Set(vals...)))
		}
		op = C(1, 6, Oct(r.DN), Seq(chs...))
	case "add":
		ats := make([]*N, len(r.AddAttrs))
		for i, a := range r.AddAttrs {
			vals := make([]*N, len(a.Vals))
			for j, v := range a.Vals {
				vals[j] = Oct(v)
			}
			ats[i] = Seq(Oct(a.Type), Set(vals...))
		}
		op = C(1, 8, Oct(r.DN), Seq(ats...))
	case "delete":
		op = P(1, 10, []byte(r.DN))
	case "unbind":
		op = P(1, 2, nil)
	default:
		panic("req kind " + r.Kind)
	}
	kids := []*N{Int(2, r.ID), op}
	if len(r.Ctls) > 0 {
		cs := make([]*N, len(r.Ctls))
		for i, c := range r.Ctls {
			cs[i] = c.NodeT(r.TrueOctet)
		}
		kids = append(kids, C(2, 0, cs...))
	}
	return Seq(kids...), nil
}

// fromBer converts an asn1-ber packet (the compiled filter) to a raw node.
func fromBer(p *ber.Packet) *N {
	n := &N{Cls: int(p.ClassType) >> 6, Tag: int(p.Tag), Cons: p.TagType == ber.TypeConstructed}
	if n.Cons {
		for _, k := range p.Children {
			n.Kids = append(n.Kids, fromBer(k))
		}
	} else {
		n.Content = append([]byte(nil), p.Data.Bytes()...)
	}
	return n
}

func hexList(l []string) string {
	parts := make([]string, len(l))
	for i, s := range l {
		parts[i] = hx([]byte(s))
	}
	return strings.Join(parts, ",")
}

// Expected is the message the handler must receive, in the canonical rendering. Modify
// values are rendered plain; the oracle also accepts the BER-wrapped form.
func (r Req) Expected(filterOut string) string {
	switch r.Kind {
	case "bind":
		return fmt.Sprintf("ok bind id=%d user=%s pass=%s ctrls=%s", r.ID, hx([]byte(r.DN)), hx([]byte(r.Pass)), renderCtls(r.Ctls))
	case "search":
		return fmt.Sprintf("ok search id=%d base=%s scope=%d deref=%d size=%d time=%d typesonly=%s filter=%s attrs=[%s] ctrls=%s",
			r.ID, hx([]byte(r.DN)), r.Scope, r.Deref, r.Size, r.Time, b2s(r.TypesOnly), hx([]byte(filterOut)), hexList(r.Attrs), renderCtls(r.Ctls))
	case "extended":
		return fmt.Sprintf("ok extended id=%d name=%s", r.ID, hx([]byte(r.Name)))
	case "modify":
		parts := make([]string, len(r.Changes))
		for i, c := range r.Changes {
			parts[i] = fmt.Sprintf("%d:%s:%s", c.Op, hx([]byte(c.Type)), hexList(c.Vals))
		}
		return fmt.Sprintf("ok modify id=%d dn=%s changes=[%s] ctrls=%s", r.ID, hx([]byte(r.DN)), strings.Join(parts, ";"), renderCtls(r.Ctls))
	case "add":
		parts := make([]string, len(r.AddAttrs))
		for i, a := range r.AddAttrs {
			parts[i] = fmt.Sprintf("%s:%s", hx([]byte(a.Type)), hexList(a.Vals))
		}
		return fmt.Sprintf("ok add id=%d dn=%s attrs=[%s] ctrls=%s", r.ID, hx([]byte(r.DN)), strings.Join(parts, ";"), renderCtls(r.Ctls))
	case "delete":
		return fmt.Sprintf("ok delete id=%d dn=%s ctrls=%s", r.ID, hx([]byte(r.DN)), renderCtls(r.Ctls))
	case "unbind":
		return fmt.Sprintf("ok unbind id=%d", r.ID)
	}
	panic("kind")
}

// ---- generators -------------------------------------------------------------------------

func genID(rng *rand.Rand) int64 {
	edges := []int64{0, 1, 2, 127, 128, 255, 256, 32767, 32768, 65535, 65536, 1<<31 - 2, 1<<31 - 1}
	if rng.Intn(3) == 0 {
		return edges[rng.Intn(len(edges))]
	}
	return rng.Int63n(1 << 31)
}

func genStr(rng *rand.Rand) string {
	var n int
	switch rng.Intn(20) {
	case 0:
		n = 0
	case 1:
		n = 1
	case 2:
		n = 127
	case 3:
		n = 128
	case 4:
		n = 255
	case 5:
		n = 256
	case 6:
		if rng.Intn(40) == 0 {
			n = []int{65535, 65536, 70000, 65535, 65536, 70000, 262144, 300000}[rng.Intn(8)]
		} else {
			n = 300
		}
	default:
		n = 1 + rng.Intn(24)
	}
	b := make([]byte, n)
	mode := rng.Intn(3)
	if rng.Intn(30) == 0 {
		// UTF-8 continuation bytes only (no rune ever starts), longer than any prefix a log line would keep
		n = 65 + rng.Intn(140)
		b = make([]byte, n)
		mode = 3
	}
	for i := range b {
		switch mode {
		case 3:
			b[i] = byte(0x80 + rng.Intn(0x40))
		case 0:
			b[i] = byte(rng.Intn(256))
		case 1:
			b[i] = "abcdefghijklmnopqrstuvwxyzABCDEFGHIJKLMNOPQRSTUVWXYZ0123456789=,. "[rng.Intn(66)]
		default:
			b[i] = []byte{0, 4, 0x30, 0x80, 0x81, 0xff, 'a', '(', ')', '*', '\\'}[rng.Intn(11)]
		}
	}
	return string(b)
}

func genName(rng *rand.Rand) string {
	names := []string{"cn", "uid", "mail", "objectClass", "member", "description", "sn", "userPassword", "", "x-" + genStr(rng)}
	return names[rng.Intn(len(names))]
}

func genCtl(rng *rand.Rand) Ctl {
	switch rng.Intn(12) {
	case 0:
		return Ctl{Kind: "dsait", Crit: rng.Intn(2) == 0, ExplicitCrit: rng.Intn(3) == 0}
	case 1:
		sz := []uint32{0, 1, 100, 1000, 1<<31 - 1, 1 << 31, 1<<32 - 1, rng.Uint32()}[rng.Intn(8)]
		ck := []byte(nil)
		if rng.Intn(2) == 0 {
			ck = []byte(genStr(rng))
		}
		return Ctl{Kind: "paging", Size: sz, Cookie: ck}
	case 2:
		c := Ctl{Kind: "behera", Expire: -1, Grace: -1, Error: -1}
		v := []int64{0, 1, 127, 128, 255, 256, 65535, 1<<31 - 1, rng.Int63n(1 << 31)}[rng.Intn(9)]
		switch rng.Intn(4) {
		case 0:
			c.Expire = v
		case 1:
			c.Grace = v
		case 2:
			c.Error = int64(rng.Intn(9))
		}
		return c
	case 3:
		return Ctl{Kind: "vchumust"}
	case 4:
		e := []int64{0, 1, -1, 86400, 1<<63 - 1, -(1 << 63), rng.Int63(), -rng.Int63()}[rng.Intn(8)]
		return Ctl{Kind: "vchuwarn", Expire: e}
	case 5:
		return Ctl{Kind: "msnotif"}
	case 6:
		return Ctl{Kind: "msshowdel"}
	case 7:
		return Ctl{Kind: "mslinkttl"}
	default:
		oid := []string{"1.3.6.1.4.1.4203.1.11.3", "1.2.3.4", "9.9", "1.2.840.113556.1.4.31", oidPaging + "0", "x"}[rng.Intn(6)]
		if rng.Intn(4) == 0 {
			oid = genStr(rng)
			if oid == "" || typedOIDs[oid] {
				oid = "1.1"
			}
		}
		c := Ctl{Kind: "str", OID: oid, Crit: rng.Intn(2) == 0, ExplicitCrit: rng.Intn(3) == 0}
		if rng.Intn(2) == 0 {
			c.Value = genStr(rng)
		}
		return c
	}
}

func genCtls(rng *rand.Rand) []Ctl {
	if rng.Intn(2) == 0 {
		return nil
	}
	n := 1 + rng.Intn(4)
	if rng.Intn(25) == 0 {
		n = []int{9, 12, 20}[rng.Intn(3)]
	}
	cs := make([]Ctl, n)
	for i := range cs {
		cs[i] = genCtl(rng)
		if cs[i].Kind == "behera" && (cs[i].Grace >= 0 || cs[i].Expire >= 0) && rng.Intn(2) == 0 {
			cs[i].Error = int64(rng.Intn(9)) // warning and error together: legal on the wire, though no constructor builds it
		}
	}
	return cs
}

// genCount: list lengths - mostly 0..3, now and then a long list (9, 17, 40 elements: past any small fixed table)
func genCount(rng *rand.Rand) int {
	if rng.Intn(25) == 0 {
		return []int{8, 9, 10, 17, 40}[rng.Intn(5)]
	}
	return rng.Intn(4)
}

func genVals(rng *rand.Rand) []string {
	n := []int{0, 1, 1, 1, 2, 3}[rng.Intn(6)]
	if rng.Intn(25) == 0 {
		n = []int{8, 9, 10, 17, 40}[rng.Intn(5)]
	}
	v := make([]string, n)
	for i := range v {
		v[i] = genStr(rng)
		if i > 0 && rng.Intn(4) == 0 {
			v[i] = v[rng.Intn(i)] // a value list may hold the same value more than once (also the empty one)
		}
	}
	return v
}

// genFilter draws from a grammar of RFC 4515 filters the go-ldap compiler accepts.
func genFilter(rng *rand.Rand, depth int) string {
	attr := []string{"cn", "uid", "objectClass", "mail", "member", "sAMAccountName"}[rng.Intn(6)]
	val := []string{"alice", "bob", "*", "a*", "*b", "a*b*c", "eve smith", "x\\2ay", "\\28x\\29", "1", ""}[rng.Intn(11)]
	if depth > 2 {
		return "(" + attr + "=" + val + ")"
	}
	switch rng.Intn(10) {
	case 9:
		// extensible match with the dnAttributes flag (RFC 4515: "(cn:dn:=x)", "(:dn:2.4.6.8.10:=x)", "(o:dn:rule:=x)")
		return []string{"(" + attr + ":dn:=" + val0(val) + ")", "(:dn:2.4.6.8.10:=Dino)", "(" + attr + ":dn:caseIgnoreMatch:=" + val0(val) + ")"}[rng.Intn(3)]
	case 0:
		n := 1 + rng.Intn(3)
		s := "(&"
		for i := 0; i < n; i++ {
			s += genFilter(rng, depth+1)
		}
		return s + ")"
	case 1:
		n := 1 + rng.Intn(3)
		s := "(|"
		for i := 0; i < n; i++ {
			s += genFilter(rng, depth+1)
		}
		return s + ")"
	case 2:
		return "(!" + genFilter(rng, depth+1) + ")"
	// (the four attribute-value assertions draw from one pool of values: filters that differ in nothing but their
	// kind - (uid>=1000), (uid<=1000), (uid=1000), (uid~=1000) - occur within one run)
	case 3:
		return "(" + attr + ">=" + val0(val) + ")"
	case 4:
		return "(" + attr + "<=" + val0(val) + ")"
	case 5:
		return "(" + attr + "~=" + val0(val) + ")"
	case 6:
		return "(" + attr + "=*)"
	case 7:
		return "(" + attr + ":caseExactMatch:=" + "v" + ")"
	default:
		return "(" + attr + "=" + val + ")"
	}
}

// val0: an assertion value without substring wildcards
func val0(v string) string { return strings.ReplaceAll(v, "*", "x") }

func genReq(rng *rand.Rand) Req {
	r := Req{ID: genID(rng), TrueOctet: []byte{0xff, 0xff, 0x01, 0x01, 0x80, byte(1 + rng.Intn(255))}[rng.Intn(6)]}
	kinds := []string{"bind", "search", "extended", "modify", "add", "delete", "unbind"}
	r.Kind = kinds[rng.Intn(len(kinds))]
	r.DN = genStr(rng)
	switch r.Kind {
	case "bind":
		r.Pass = genStr(rng)
		r.Ctls = genCtls(rng)
	case "search":
		r.Scope = int64(rng.Intn(3))
		r.Deref = int64(rng.Intn(4))
		r.Size = []int64{0, 1, 100, 1<<31 - 1, rng.Int63n(1 << 31)}[rng.Intn(5)]
		r.Time = []int64{0, 1, 60, 1<<31 - 1, rng.Int63n(1 << 31)}[rng.Intn(5)]
		r.TypesOnly = rng.Intn(2) == 0
		r.Filter = genFilter(rng, 0)
		n := genCount(rng)
		for i := 0; i < n; i++ {
			r.Attrs = append(r.Attrs, genName(rng))
		}
		r.Ctls = genCtls(rng)
	case "extended":
		r.Name = []string{"1.3.6.1.4.1.1466.20037", "1.3.6.1.4.1.4203.1.11.3", "1.3.6.1.4.1.4203.1.11.1", "1.2.3", genStr(rng)}[rng.Intn(5)]
	case "modify":
		n := genCount(rng)
		for i := 0; i < n; i++ {
			r.Changes = append(r.Changes, Chg{Op: int64(rng.Intn(4)), Type: genName(rng), Vals: genVals(rng)})
		}
		r.Ctls = genCtls(rng)
	case "add":
		n := genCount(rng)
		for i := 0; i < n; i++ {
			r.AddAttrs = append(r.AddAttrs, Att{Type: genName(rng), Vals: genVals(rng)})
		}
		r.Ctls = genCtls(rng)
	case "delete":
		r.Ctls = genCtls(rng)
	case "unbind":
		r.DN = ""
		if rng.Intn(3) == 0 {
			r.Ctls = genCtls(rng) // any LDAPMessage may carry controls; an Unbind's are nobody's business, but legal
		}
	}
	if r.Kind == "extended" && rng.Intn(3) == 0 {
		r.Ctls = genCtls(rng)
	}
	return r
}
