package main

import (
	"crypto/tls"
	"errors"
	"fmt"
	"hash/crc32"
	"io"
	"math/rand"
	"net"
	"os"
	"sort"
	"strconv"
	"strings"
	"sync"
	"time"

	ber "github.com/go-asn1-ber/asn1-ber"
	"github.com/go-ldap/ldap/v3"
	"github.com/jimlambrt/gldap"
)

// ---- stream "session": a whole conversation on one connection of a real server, byte for byte ---------------
//
// One case = a route table, a script per handler (which New*Response constructors it calls with which options and
// setters, in which order), and the byte stream a client sends: a sequence of requests of every kind, possibly
// ended by an Unbind followed by more bytes, by an operation gldap does not support, by garbage or by a half frame.
// The real server (NewServer, Router, Run, accept loop, serveRequests, Mux.serve, ResponseWriter.Write, teardown)
// serves it over loopback TCP or TLS; the Lean model `Gldap.Session.session` computes the frames the connection must
// write. In mode `lock` the client lets every request finish before it sends the next one and the two byte streams
// are compared exactly, in order; in mode `pipe` everything is sent in one write and the frames are compared as a
// multiset (their interleaving is C05's subject).

type sessionStream struct{}

func (sessionStream) Name() string { return "session" }
func (sessionStream) Rule() string {
	return "route tables of 0..6 registrations of every kind (criteria over an alphabet with case variants, default and unbind routes, re-registrations) x a script of 0..3 responses per handler (every constructor, random option subsets and orders, setter sequences, controls, attributes) x 1..8 requests of every kind with distinct message ids (half from the routing alphabet, half fully random incl. controls), ended by close / Unbind (+ trailing requests or garbage in the same write) / an unsupported operation / a bind with version 2 / garbage / a half frame; plain and TLS listeners, with and without (long) read / write timeouts configured; lock-step (byte-exact, in order) and pipelined (multiset) clients, writing whole frames or slicing every write into 3..7 pieces with pauses; oracle (independent of the model): handler invocations (which handler, which message id, in which order) equal those of a reference router over the generator's own request values, every frame strictly parses to the view the script describes with the request's message id, refusals carry the request's id / unwillingToPerform / the operation's response tag, nothing is served after the ending frame; non-trivial = at least one handler invocation"
}

type sessReq struct {
	req   Req
	frame []byte
	bad   string // non-empty: this frame ends the connection without an answer (class of badness)
}

var sessBadKinds = []string{"unsupported", "bindv2", "garbage", "half"}

func genSessionScript(rng *rand.Rand, spec string) string {
	n := rng.Intn(4)
	if spec == "U" && rng.Intn(2) == 0 {
		n = 0
	}
	if n == 0 {
		return "."
	}
	ctors := []string{"general", "bind", "extended", "done", "entry", "modify", "entry", "done"}
	var parts []string
	for i := 0; i < n; i++ {
		ctor := ctors[rng.Intn(len(ctors))]
		dn := "-"
		if ctor == "entry" {
			dn = hx([]byte(genStr(rng)))
		}
		opts, sets := genRespOptsSets(rng, ctor)
		if ctor == "modify" {
			has := false
			for _, o := range opts {
				if strings.HasPrefix(o, "c:") {
					has = true
				}
			}
			if !has {
				opts = append(opts, fmt.Sprintf("c:%d", rng.Intn(100)))
			}
		}
		parts = append(parts, ctor+"~"+dn+"~"+strings.Join(opts, ";")+"~"+strings.Join(sets, ";"))
	}
	return strings.Join(parts, "+")
}

// filterKey is the canonical serialisation of the filter node of a search frame and what go-ldap decompiles it to.
func filterEntry(frame []byte) (string, bool) {
	p, err := ber.DecodePacketErr(frame)
	if err != nil || len(p.Children) < 2 || len(p.Children[1].Children) < 7 {
		return "", false
	}
	fp := p.Children[1].Children[6]
	key := hx(fromBer(fp).Ser())
	f, err := ldap.DecompileFilter(fp)
	if err != nil {
		return key + ":!", true
	}
	return key + ":" + hx([]byte(f)), true
}

func (sessionStream) Generate(rng *rand.Rand, n int, thorough bool) []Case {
	specs := allRouteSpecs()
	alpha := allMuxRequests()
	var cs []Case
	for len(cs) < n {
		// route table
		k := rng.Intn(7)
		routes := make([]string, k)
		for i := range routes {
			switch x := rng.Intn(12); {
			case x < 1:
				routes[i] = "D"
			case x < 2:
				routes[i] = "U"
			default:
				routes[i] = specs[rng.Intn(len(specs))]
			}
		}
		scripts := make([]string, k)
		for i := range scripts {
			scripts[i] = genSessionScript(rng, routes[i])
		}
		// requests, distinct ids
		nr := 1 + rng.Intn(8)
		used := map[int64]bool{}
		var reqs []sessReq
		for i := 0; i < nr; i++ {
			var r Req
			if rng.Intn(2) == 0 {
				r = alpha[rng.Intn(len(alpha))]
			} else {
				r = genReq(rng)
				if r.Kind == "unbind" {
					r = alpha[rng.Intn(len(alpha))]
				}
			}
			if r.Kind == "extended" && r.Name == "1.3.6.1.4.1.1466.20037" && rng.Intn(2) == 0 {
				r.Name = "1.2.3" // StartTLS is served inline; keep it, but not too often
			}
			for {
				r.ID = genID(rng)
				if !used[r.ID] {
					used[r.ID] = true
					break
				}
			}
			root, err := r.Node()
			if err != nil {
				continue
			}
			reqs = append(reqs, sessReq{req: r, frame: root.Ser()})
		}
		if len(reqs) == 0 {
			continue
		}
		mode := "lock"
		if rng.Intn(3) == 0 {
			mode = "pipe"
		}
		if rng.Intn(4) == 0 {
			mode += "+tls"
		}
		if rng.Intn(4) == 0 {
			mode += "+late" // the routes are registered when the client is already connected
		}
		if rng.Intn(5) == 0 {
			mode += "+slice" // every write goes out in several pieces with pauses in between
		}
		if rng.Intn(4) == 0 {
			mode += "+to" // read and write timeouts configured, far too long to fire: nothing may change
		}
		// ending
		var tail []byte
		ending := rng.Intn(6)
		uid := int64(0)
		for {
			uid = genID(rng)
			if !used[uid] {
				break
			}
		}
		hasUnbindScript := false
		for i, r := range routes {
			if r == "U" && scripts[i] != "." {
				hasUnbindScript = true
			}
		}
		switch {
		case ending <= 1: // client closes
		case ending == 2: // Unbind, then (lock mode, silent unbind handler) more bytes in the same write
			tail = Seq(Int(2, uid), P(1, 2, nil)).Ser()
			if strings.HasPrefix(mode, "lock") && !hasUnbindScript && rng.Intn(3) != 0 {
				extra := alpha[rng.Intn(len(alpha))]
				extra.ID = genID(rng)
				if root, err := extra.Node(); err == nil && rng.Intn(2) == 0 {
					tail = append(tail, root.Ser()...)
				} else {
					tail = append(tail, randBytes(rng, 1+rng.Intn(12))...)
				}
			}
		default: // a frame that ends the connection without an answer (lock mode only: nothing may be in flight)
			if strings.HasPrefix(mode, "lock") {
				switch sessBadKinds[rng.Intn(len(sessBadKinds))] {
				case "unsupported":
					tag := []int{14, 12, 16, 5, 9, 11, 13, 25, 256, 258, 512, 65538, 1<<32 + 2}[rng.Intn(13)]
					tail = Seq(Int(2, uid), C(1, tag, Oct("cn=x"))).Ser()
				case "bindv2":
					tail = Seq(Int(2, uid), C(1, 0, Int(2, 2), Oct("cn=x"), P(2, 0, []byte("pw")))).Ser()
				case "garbage":
					tail = []byte{0xff, 0xff, 0x00, 0x01}
				case "half":
					full := Seq(Int(2, uid), C(1, 0, Int(2, 3), Oct("cn=someone"), P(2, 0, []byte("password")))).Ser()
					tail = full[:len(full)-1-rng.Intn(len(full)-3)]
				}
			}
		}
		var frames, ftab []string
		for _, r := range reqs {
			frames = append(frames, hx(r.frame))
			if e, ok := filterEntry(r.frame); ok {
				ftab = append(ftab, e)
			}
		}
		line := fmt.Sprintf("session %s routes=%s scripts=%s filters=%s in=%s", mode, strings.Join(routes, ";"),
			strings.Join(scripts, "!"), strings.Join(ftab, ","), hx(append(joinFrames(reqs), tail...)))
		c := Case{Line: line, Kind: mode, Expect: sessionExpect(routes, scripts, reqs, tail, strings.HasPrefix(mode, "pipe"))}
		// the line does not say where the frames end; the harness re-splits the stream itself (see splitStream)
		cs = append(cs, c)
	}
	return cs
}

func joinFrames(rs []sessReq) []byte {
	var b []byte
	for _, r := range rs {
		b = append(b, r.frame...)
	}
	return b
}

// refMatchReq is the routing reference over the generator's own request value (ASCII case folding).
func refMatchReq(spec string, r Req) bool {
	f := strings.Split(spec, ":")
	switch r.Kind {
	case "bind":
		return f[0] == "b"
	case "search":
		if f[0] != "s" {
			return false
		}
		base, filter := string(unhx(f[1])), string(unhx(f[2]))
		if base != "" && !strings.EqualFold(base, r.DN) {
			return false
		}
		if filter != "" {
			// the handler sees what go-ldap decompiles from the compiled filter
			seen := r.Filter
			if fp, err := ldap.CompileFilter(r.Filter); err == nil {
				if d, err := ldap.DecompileFilter(fp); err == nil {
					seen = d
				}
			}
			if !strings.EqualFold(filter, seen) {
				return false
			}
		}
		return f[3] == "0" || f[3] == fmt.Sprint(r.Scope)
	case "extended":
		return f[0] == "e" && string(unhx(f[1])) == r.Name
	case "modify":
		return f[0] == "m"
	case "add":
		return f[0] == "a"
	case "delete":
		return f[0] == "d"
	}
	return false
}

// sessionExpect computes, from the generator's values alone, the handler calls and the client's views of the frames.
func sessionExpect(routes, scripts []string, reqs []sessReq, tail []byte, pipe bool) string {
	dflt, unb := -1, -1
	for i, s := range routes {
		if s == "D" {
			dflt = i
		}
		if s == "U" {
			unb = i
		}
	}
	var calls, views []string
	scriptViews := func(h int, id int64) {
		if scripts[h] == "." {
			return
		}
		for _, d := range strings.Split(scripts[h], "+") {
			f := strings.Split(d, "~")
			rc := respCase{ctor: f[0], mid: id, dn: string(unhx(f[1]))}
			if f[2] != "" {
				rc.opts = strings.Split(f[2], ";")
			}
			if f[3] != "" {
				rc.sets = strings.Split(f[3], ";")
			}
			views = append(views, expectedView(rc))
		}
	}
	for _, r := range reqs {
		h := -1
		for i, s := range routes {
			if s != "D" && s != "U" && refMatchReq(s, r.req) {
				h = i
				break
			}
		}
		if h < 0 {
			h = dflt
		}
		if h >= 0 {
			calls = append(calls, fmt.Sprintf("%d:%d", h, r.req.ID))
			scriptViews(h, r.req.ID)
			continue
		}
		tag := map[string]int{"bind": 1, "search": 5, "modify": 7, "add": 9, "delete": 11, "extended": 24}[r.req.Kind]
		views = append(views, fmt.Sprintf("result id=%d tag=%d code=53 matched=%s diag=%s ctrls=[]", r.req.ID, tag,
			hx([]byte("Unused")), hx([]byte("No matching handler found"))))
	}
	end := "closed"
	if len(tail) >= 7 && tail[0] == 0x30 {
		// an Unbind tail: 30 LL 02 .. 42 00
		if t, _, ok := parseTLV(tail); ok && len(t.kids) == 2 && t.kids[1].cls == 1 && t.kids[1].tag == 2 && !t.kids[1].cons {
			end = "unbind"
			id, _ := tlvInt(t.kids[0], 2)
			if unb >= 0 {
				calls = append(calls, fmt.Sprintf("%d:%d", unb, id))
				scriptViews(unb, id)
			}
		}
	}
	if pipe {
		sort.Strings(calls)
		sort.Strings(views)
	}
	return "end=" + end + " calls=" + strings.Join(calls, ",") + " views=" + strings.Join(views, "|")
}

// scriptedResponse runs the constructor, options and setters a script item names on the handler's own request.
func scriptedResponse(req *gldap.Request, rc respCase) gldap.Response {
	var opts []gldap.Option
	for _, o := range rc.opts {
		kv := strings.SplitN(o, ":", 2)
		switch kv[0] {
		case "c":
			v, _ := strconv.Atoi(kv[1])
			opts = append(opts, gldap.WithResponseCode(v))
		case "a":
			v, _ := strconv.Atoi(kv[1])
			opts = append(opts, gldap.WithApplicationCode(v))
		case "d":
			opts = append(opts, gldap.WithDiagnosticMessage(string(unhx(kv[1]))))
		case "m":
			opts = append(opts, gldap.WithMatchedDN(string(unhx(kv[1]))))
		case "t":
			m := map[string][]string{}
			if kv[1] != "" {
				n, v := parseAttrItem(kv[1])
				m[n] = v
			}
			opts = append(opts, gldap.WithAttributes(m))
		}
	}
	var resp gldap.Response
	switch rc.ctor {
	case "general":
		resp = req.NewResponse(opts...)
	case "bind":
		resp = req.NewBindResponse(opts...)
	case "extended":
		resp = req.NewExtendedResponse(opts...)
	case "done":
		resp = req.NewSearchDoneResponse(opts...)
	case "entry":
		resp = req.NewSearchResponseEntry(rc.dn, opts...)
	case "modify":
		resp = req.NewModifyResponse(opts...)
	}
	type coder interface{ SetResultCode(int) }
	type diager interface{ SetDiagnosticMessage(string) }
	type matcher interface{ SetMatchedDN(string) }
	for _, s := range rc.sets {
		kv := strings.SplitN(s, ":", 2)
		switch kv[0] {
		case "c":
			v, _ := strconv.Atoi(kv[1])
			resp.(coder).SetResultCode(v)
		case "d":
			resp.(diager).SetDiagnosticMessage(string(unhx(kv[1])))
		case "m":
			resp.(matcher).SetMatchedDN(string(unhx(kv[1])))
		case "k":
			var ctls []gldap.Control
			if kv[1] != "" {
				for _, d := range strings.Split(kv[1], "/") {
					if c, err := realControl(parseCtlDesc(strings.Split(d, ","))); err == nil {
						ctls = append(ctls, c)
					}
				}
			}
			switch r := resp.(type) {
			case *gldap.BindResponse:
				r.SetControls(ctls...)
			case *gldap.SearchResponseDone:
				r.SetControls(ctls...)
			}
		case "t":
			if r, ok := resp.(*gldap.SearchResponseEntry); ok {
				n, v := parseAttrItem(kv[1])
				r.AddAttribute(n, v)
			}
		}
	}
	return resp
}

// splitStream cuts the client's byte stream into the pieces the lock-step client sends one at a time: whole
// top-level elements as long as they can be delimited, then the rest (an Unbind with what follows it, garbage,
// a half frame) in one write.
func splitStream(in []byte) [][]byte {
	var out [][]byte
	for len(in) > 0 {
		n, ok := frameLen(in)
		if !ok || n > len(in) {
			break
		}
		// an Unbind (or anything else that ends the connection) goes out together with everything behind it
		if t, _, ok := parseTLV(in[:n]); !ok || len(t.kids) < 2 || (t.kids[1].cls == 1 && t.kids[1].tag == 2) {
			break
		}
		out = append(out, in[:n])
		in = in[n:]
	}
	if len(in) > 0 {
		out = append(out, in)
	}
	return out
}

func (sessionStream) Impl(c Case) string {
	f := strings.Fields(c.Line)
	mode := f[1]
	var routes, scripts []string
	if r := strings.TrimPrefix(f[2], "routes="); r != "" {
		routes = strings.Split(r, ";")
	}
	if s := strings.TrimPrefix(f[3], "scripts="); s != "" {
		scripts = strings.Split(s, "!")
	}
	input := unhx(strings.TrimPrefix(f[5], "in="))
	pipe := strings.HasPrefix(mode, "pipe")

	mux, err := gldap.NewMux()
	if err != nil {
		return "err mux"
	}
	var mu sync.Mutex
	var calls []string
	register := func() string {
		for i, spec := range routes {
			idx := i
			h := func(w *gldap.ResponseWriter, r *gldap.Request) {
				mu.Lock()
				calls = append(calls, fmt.Sprintf("%d:%d", idx, r.VerifMessage().GetID()))
				mu.Unlock()
				if scripts[idx] == "." {
					return
				}
				for _, d := range strings.Split(scripts[idx], "+") {
					x := strings.Split(d, "~")
					rc := respCase{ctor: x[0], dn: string(unhx(x[1]))}
					if x[2] != "" {
						rc.opts = strings.Split(x[2], ";")
					}
					if x[3] != "" {
						rc.sets = strings.Split(x[3], ";")
					}
					_ = w.Write(scriptedResponse(r, rc))
				}
			}
			sp := strings.Split(spec, ":")
			switch sp[0] {
			case "b":
				err = mux.Bind(h)
			case "s":
				sc, _ := strconv.Atoi(sp[3])
				err = mux.Search(h, gldap.WithBaseDN(string(unhx(sp[1]))), gldap.WithFilter(string(unhx(sp[2]))), gldap.WithScope(gldap.Scope(sc)))
			case "e":
				err = mux.ExtendedOperation(h, gldap.ExtendedOperationName(unhx(sp[1])))
			case "m":
				err = mux.Modify(h)
			case "a":
				err = mux.Add(h)
			case "d":
				err = mux.Delete(h)
			case "D":
				err = mux.DefaultRoute(h)
			case "U":
				err = mux.Unbind(h)
			}
			if err != nil {
				return "err register"
			}
		}
		return ""
	}
	late := strings.Contains(mode, "+late")
	if !late {
		if e := register(); e != "" {
			return e
		}
	}
	var tlsc, ctls *tls.Config
	if strings.Contains(mode, "+tls") {
		tlsConfigs()
		tlsc, ctls = srvTLS, cliTLS
	}
	t0 := time.Now()
	dbg := func(what string) {
		if os.Getenv("SESS_DEBUG") != "" {
			fmt.Fprintf(os.Stderr, "%s +%v\n", what, time.Since(t0))
		}
	}
	var sopts []gldap.Option
	if strings.Contains(mode, "+to") {
		sopts = append(sopts, gldap.WithReadTimeout(40*time.Second), gldap.WithWriteTimeout(40*time.Second))
	}
	sut, err := startServer(mux, tlsc, nil, sopts...)
	dbg("started")
	if err != nil {
		return "err start: " + err.Error()
	}
	defer func() { dbg("finishing"); sut.finish(); dbg("finished") }()
	cl, err := dialRaw(sut.addr, ctls)
	if err != nil {
		return "err dial: " + err.Error()
	}
	defer cl.close()
	if late {
		// the connection exists (its goroutine has started) before the first route is registered
		deadline := time.Now().Add(5 * time.Second)
		for sut.tr.Count("conn.start", 1) == 0 && time.Now().Before(deadline) {
			time.Sleep(200 * time.Microsecond)
		}
		if e := register(); e != "" {
			return e
		}
	}

	// reader: everything the server sends until it closes the connection
	type rd struct {
		data []byte
		err  error
	}
	got := make(chan rd, 1)
	go func() {
		var all []byte
		buf := make([]byte, 1<<16)
		_ = cl.c.SetReadDeadline(time.Now().Add(20 * time.Second))
		for {
			n, err := cl.c.Read(buf)
			all = append(all, buf[:n]...)
			if err != nil {
				got <- rd{all, err}
				return
			}
		}
	}()
	halfClose := func() {
		switch x := cl.c.(type) {
		case *net.TCPConn:
			_ = x.CloseWrite()
		case *tls.Conn:
			_ = x.CloseWrite()
		}
	}
	ended := func() bool {
		return sut.tr.Count("loop.unbind", 1) > 0 || sut.tr.Count("loop.readerr", 1) > 0 || sut.tr.Count("conn.recovered", 1) > 0
	}
	sendAll := cl.send
	if strings.Contains(mode, "+slice") {
		sendAll = func(b []byte) error {
			n := 3 + int(crc32.ChecksumIEEE(b)%5)
			for i := 0; i < n; i++ {
				lo, hi := len(b)*i/n, len(b)*(i+1)/n
				if hi > lo {
					if err := cl.send(b[lo:hi]); err != nil {
						return err
					}
					time.Sleep(300 * time.Microsecond)
				}
			}
			return nil
		}
	}
	if pipe {
		if err := sendAll(input); err != nil {
			return "err send: " + err.Error()
		}
		halfClose()
	} else {
		pieces := splitStream(input)
		for i, p := range pieces {
			if err := sendAll(p); err != nil {
				break
			}
			if i == len(pieces)-1 {
				break // the last piece (possibly a half frame): close the sending side right away
			}
			// the request is number i+1 on connection 1: wait until it has been served completely (or ended the loop)
			deadline := time.Now().Add(10 * time.Second)
			for time.Now().Before(deadline) {
				if sut.tr.Count2("req.done", 1, i+1) > 0 || sut.tr.Count2("loop.inlinedone", 1, i+1) > 0 || ended() {
					break
				}
				time.Sleep(200 * time.Microsecond)
			}
			if ended() {
				break
			}
		}
		if !ended() {
			halfClose()
		}
	}
	dbg("sent")
	var res rd
	select {
	case res = <-got:
	case <-time.After(25 * time.Second):
		return "timeout waiting for the server to close the connection"
	}
	if res.err != nil && !errors.Is(res.err, io.EOF) && !strings.Contains(res.err.Error(), "reset") && !strings.Contains(res.err.Error(), "close_notify") {
		// a deadline means the server never closed the connection
		if ne, ok := res.err.(net.Error); ok && ne.Timeout() {
			return "server did not close the connection"
		}
	}
	dbg("read")
	var frames []string
	data := res.data
	for len(data) > 0 {
		n, ok := frameLen(data)
		if !ok || n > len(data) {
			frames = append(frames, "trailing:"+hx(data))
			break
		}
		frames = append(frames, hx(data[:n]))
		data = data[n:]
	}
	end := "closed"
	if sut.tr.Count("loop.unbind", 1) > 0 {
		end = "unbind"
	}
	if sut.tr.Count("conn.recovered", 1) > 0 {
		end = "crashed"
	}
	// the handler of a request that ends the session may still be appending to the call log: the connection is closed
	// only after every handler returned, so the log is complete here
	mu.Lock()
	cs := append([]string(nil), calls...)
	mu.Unlock()
	if pipe {
		sort.Strings(cs)
		sort.Strings(frames)
	}
	return "end=" + end + " calls=" + strings.Join(cs, ",") + " frames=" + strings.Join(frames, ",")
}

func (sessionStream) Oracle(c Case, impl string) (bool, string, string) {
	if impl == "panic" {
		return false, "the harness side of the session panicked", "panic"
	}
	if !strings.HasPrefix(impl, "end=") {
		return false, impl, "session/" + strings.Join(strings.Fields(impl + " - -")[:2], "-")
	}
	f := strings.SplitN(impl, " ", 3)
	frames := strings.TrimPrefix(f[2], "frames=")
	var views []string
	if frames != "" {
		for _, h := range strings.Split(frames, ",") {
			if strings.HasPrefix(h, "trailing:") {
				views = append(views, "torn:"+h)
				continue
			}
			views = append(views, strictView(unhx(h)))
		}
	}
	if strings.HasPrefix(c.Kind, "pipe") {
		sort.Strings(views)
	}
	got := f[0] + " " + f[1] + " views=" + strings.Join(views, "|")
	if got == c.Expect {
		return true, "", ""
	}
	ge, we := strings.SplitN(got, " ", 3), strings.SplitN(c.Expect, " ", 3)
	switch {
	case ge[0] != we[0]:
		return false, "connection ending: " + ge[0] + " want " + we[0], "session/ending"
	case ge[1] != we[1]:
		return false, "handler invocations " + clip(ge[1]) + " want " + clip(we[1]), "session/calls"
	}
	gv, wv := strings.Split(strings.TrimPrefix(ge[2], "views="), "|"), strings.Split(strings.TrimPrefix(we[2], "views="), "|")
	if len(gv) != len(wv) {
		return false, fmt.Sprintf("the client read %d frames, want %d: %s want %s", len(gv), len(wv), clip(ge[2]), clip(we[2])), "session/frame-count"
	}
	for i := range gv {
		if gv[i] != wv[i] {
			return false, fmt.Sprintf("frame %d: client reads %s want %s", i, clip(gv[i]), clip(wv[i])), "session/frame/" + strings.SplitN(firstDiff(wv[i], gv[i]), "=", 2)[0]
		}
	}
	return false, "differs", "session/other"
}

func (sessionStream) Class(c Case, impl string) (string, bool) {
	f := strings.SplitN(impl, " ", 3)
	if len(f) < 3 {
		return c.Kind + "/err", false
	}
	return c.Kind + "/" + f[0], f[1] != "calls="
}

func (sessionStream) CaseTimeout() time.Duration { return 60 * time.Second }
