package main

import (
	"crypto/tls"
	"fmt"
	"math/rand"
	"net"
	"runtime"
	"strings"
	"sync"
	"sync/atomic"
	"time"

	"github.com/hashicorp/go-hclog"
	"github.com/jimlambrt/gldap"
)

func portFree(addr string) bool {
	l, err := net.Listen("tcp", addr)
	if err != nil {
		return false
	}
	l.Close()
	return true
}

func refused(addr string) bool {
	c, err := net.DialTimeout("tcp", addr, time.Second)
	if err != nil {
		return true
	}
	c.Close()
	return false
}

// ---- stream "c17": Ready ---------------------------------------------------------------------------

type c17Stream struct{}

func (c17Stream) Name() string               { return "c17" }
func (c17Stream) CaseTimeout() time.Duration { return 30 * time.Second }
func (c17Stream) NoModel() bool              { return true }
func (c17Stream) Rule() string {
	return "a poller spins on Ready() concurrently with Run over valid address forms (IPv4, localhost, bare :port, bracketed and bare IPv6 when available) with and without a TLS listener: at the first true a TCP connect and a bind request must succeed and be answered; ports that are already bound and malformed addresses (no port, empty port, unbalanced brackets, bad literals, ports outside 0..65535 in every address form): Run must return an error and Ready must stay false; TLS configurations without a certificate or with certificates only from GetCertificate / GetConfigForClient: either Run fails and Ready was never true, or Ready is true and a connection attempt succeeds (and a TLS client is served where the configuration can serve one); non-trivial = every case, distinct by address form"
}

func (c17Stream) Generate(rng *rand.Rand, n int, thorough bool) []Case {
	forms := []string{"127.0.0.1:%d", "localhost:%d", ":%d", "[::1]:%d", "::1:%d"}
	bad := []string{"127.0.0.1", "127.0.0.1:", "[::1]", "[::1:389", "999.1.1.1:389", "1.2.3:389", ":", "", "[zz::1]:389", "zz::1:389",
		// ports out of range; %d becomes a currently free port + 65536, so a port silently truncated to 16 bits would bind
		"127.0.0.1:%d", "[::1]:%d", ":%d", "localhost:%d", "::1:%d", "127.0.0.1:-1", "127.0.0.1:65536", "[::1]:0x50",
		// bracket forms that only look like IPv6 literals; %d here is a free port itself
		"[[::1]]:%p", "[::1]]:%p", "[[::1]:%p", "[]::1:%p", "[::1:%p", "[::1]x:%p"}
	var cs []Case
	for len(cs) < n {
		switch rng.Intn(5) {
		case 4:
			// TLS configurations of unusual shape: without any certificate, or with certificates supplied only through
			// GetCertificate / GetConfigForClient
			cs = append(cs, Case{Line: "c17 kind=tlscfg shape=" + []string{"nocert", "getcert", "getconfig"}[rng.Intn(3)], Kind: "tlscfg"})
		case 0:
			if rng.Intn(3) == 0 {
				cs = append(cs, Case{Line: "c17 kind=busy6 tls=0", Kind: "busy"})
				continue
			}
			// (holder: what occupies the port - a plain listening socket, or another gldap server of this process)
			cs = append(cs, Case{Line: "c17 kind=busy tls=" + fmt.Sprint(rng.Intn(2)) + " holder=" + []string{"socket", "gldap"}[rng.Intn(2)], Kind: "busy"})
		case 1:
			cs = append(cs, Case{Line: "c17 kind=malformed addr=" + hx([]byte(bad[rng.Intn(len(bad))])), Kind: "malformed"})
		default:
			f := forms[rng.Intn(len(forms))]
			t := rng.Intn(2)
			if strings.Contains(f, "::1") {
				t = 0 // the test certificate names 127.0.0.1 / localhost only
			}
			// (silent: another peer has connected just before and says nothing - on a TLS listener, no ClientHello)
			cs = append(cs, Case{Line: fmt.Sprintf("c17 kind=poll form=%s tls=%d silent=%d", hx([]byte(f)), t, rng.Intn(2)), Kind: "poll"})
		}
	}
	return cs
}

func (c17Stream) Impl(c Case) string {
	p := kv(c.Line)
	tlsConfigs()
	tr := NewTracer()
	curTracer.Store(tr)
	srv, err := gldap.NewServer(gldap.WithLogger(hclog.NewNullLogger()))
	if err != nil {
		return "harness-error " + err.Error()
	}
	mux, _ := gldap.NewMux()
	_ = mux.Bind(func(w *gldap.ResponseWriter, r *gldap.Request) { answer(w, r) })
	_ = srv.Router(mux)
	var ropts []gldap.Option
	if p["tls"] == "1" {
		ropts = append(ropts, gldap.WithTLSConfig(srvTLS))
	}
	base := freeAddr()
	port := 0
	fmt.Sscanf(base[strings.LastIndex(base, ":")+1:], "%d", &port)
	switch p["kind"] {
	case "busy", "malformed", "busy6":
		addr := base
		var hold net.Listener
		if p["kind"] == "busy6" {
			// the port is taken on the IPv6 loopback only; ":port" means every address of the host
			hold, err = net.Listen("tcp6", fmt.Sprintf("[::1]:%d", port))
			if err != nil {
				return "ok" // no IPv6 here, or the port is gone: nothing to exercise
			}
			defer hold.Close()
			addr = fmt.Sprintf(":%d", port)
			if l, err := net.Listen("tcp", addr); err == nil {
				l.Close()
				return "ok" // this host lets both coexist: not a failing listen
			}
		} else if p["kind"] == "busy" && p["holder"] == "gldap" {
			// the port belongs to another gldap server that is up and serving
			other, err := gldap.NewServer(gldap.WithLogger(hclog.NewNullLogger()))
			if err != nil {
				return "harness-error " + err.Error()
			}
			_ = other.Router(mux)
			go func() { _ = other.Run(base) }()
			for i := 0; i < 3000 && !other.Ready(); i++ {
				time.Sleep(time.Millisecond)
			}
			if !other.Ready() {
				return "harness-error the holder of the port did not come up"
			}
			defer func() { _ = other.Stop() }()
		} else if p["kind"] == "busy" {
			hold, err = net.Listen("tcp", base)
			if err != nil {
				return "harness-error " + err.Error()
			}
			defer hold.Close()
		} else {
			addr = string(unhx(p["addr"]))
			if strings.Contains(addr, "%d") {
				addr = fmt.Sprintf(addr, port+65536)
			}
			addr = strings.ReplaceAll(addr, "%p", fmt.Sprint(port))
		}
		var sawReady int32
		stopPoll := make(chan struct{})
		go func() {
			for {
				select {
				case <-stopPoll:
					return
				default:
				}
				if srv.Ready() {
					atomic.StoreInt32(&sawReady, 1)
				}
			}
		}()
		errc := make(chan error, 1)
		go func() { errc <- srv.Run(addr, ropts...) }()
		verdict := "ok"
		select {
		case e := <-errc:
			if e == nil {
				verdict = "Run returned nil although it could not listen"
			}
		case <-time.After(5 * time.Second):
			verdict = "Run did not return although it could not listen"
			_ = srv.Stop()
		}
		time.Sleep(20 * time.Millisecond)
		close(stopPoll)
		if verdict == "ok" && (atomic.LoadInt32(&sawReady) == 1 || srv.Ready()) {
			verdict = "Ready() reported true although Run could not listen"
		}
		return verdict
	}
	if p["kind"] == "tlscfg" {
		var cfg *tls.Config
		switch p["shape"] {
		case "nocert":
			cfg = &tls.Config{MinVersion: tls.VersionTLS12}
		case "getcert":
			cfg = &tls.Config{GetCertificate: func(*tls.ClientHelloInfo) (*tls.Certificate, error) { return &srvTLS.Certificates[0], nil }}
		default:
			cfg = &tls.Config{GetConfigForClient: func(*tls.ClientHelloInfo) (*tls.Config, error) { return srvTLS, nil }}
		}
		var sawReady int32
		stopPoll := make(chan struct{})
		defer close(stopPoll)
		go func() {
			for {
				select {
				case <-stopPoll:
					return
				default:
				}
				if srv.Ready() {
					atomic.StoreInt32(&sawReady, 1)
				}
			}
		}()
		errc := make(chan error, 1)
		go func() { errc <- srv.Run(base, gldap.WithTLSConfig(cfg)) }()
		verdict := "ok"
		select {
		case e := <-errc:
			// Run gave up: then Ready must never have been true (nobody called Stop, and nothing listens)
			time.Sleep(10 * time.Millisecond)
			if atomic.LoadInt32(&sawReady) == 1 || srv.Ready() {
				verdict = fmt.Sprintf("Ready() reported true although Run returned (%v) without Stop being called, and nothing listens", e)
			}
			return verdict
		case <-time.After(300 * time.Millisecond):
		}
		if !srv.Ready() {
			verdict = "Run is running but Ready() is false after 300 ms"
		} else if p["shape"] == "nocert" {
			c, err := net.DialTimeout("tcp", base, 3*time.Second)
			if err != nil {
				verdict = "connection attempt failed although Ready() == true: " + err.Error()
			} else {
				c.Close()
			}
		} else {
			cl, err := dialRaw(base, cliTLS)
			if err != nil {
				verdict = "TLS connection attempt failed although Ready() == true: " + err.Error()
			} else {
				_ = cl.send(opFrame("bind", 7))
				f, err := cl.readFrame(5 * time.Second)
				if err != nil || !strings.HasPrefix(strictView(f), "result id=7 tag=1 code=0") {
					verdict = fmt.Sprintf("request sent after Ready() == true was not served: %v", err)
				}
				cl.close()
			}
		}
		done := make(chan struct{})
		go func() { _ = srv.Stop(); close(done) }()
		select {
		case <-done:
		case <-time.After(3 * time.Second):
		}
		return verdict
	}
	form := string(unhx(p["form"]))
	if strings.Contains(form, "::1") {
		l, err := net.Listen("tcp", "[::1]:0")
		if err != nil {
			return "ok" // no IPv6 in this sandbox: the form cannot be exercised
		}
		l.Close()
	}
	addr := fmt.Sprintf(form, port)
	dialAddr := base
	if strings.Contains(form, "::1") {
		dialAddr = fmt.Sprintf("[::1]:%d", port)
	}
	errc := make(chan error, 1)
	go func() { errc <- srv.Run(addr, ropts...) }()
	deadline := time.Now().Add(5 * time.Second)
	for !srv.Ready() {
		if time.Now().After(deadline) {
			return "Ready() never became true for a valid address " + addr
		}
	}
	// the first instant Ready() is observed true: connect and be served
	verdict := "ok"
	if p["silent"] == "1" {
		if sp, err := net.DialTimeout("tcp", dialAddr, 3*time.Second); err == nil {
			defer sp.Close()
			time.Sleep(20 * time.Millisecond)
		}
	}
	var cl *rawClient
	if p["tls"] == "1" {
		cl, err = dialRaw(dialAddr, cliTLS)
	} else {
		cl, err = dialRaw(dialAddr, nil)
	}
	if err != nil {
		verdict = "connection attempt failed right after Ready() == true: " + err.Error()
	} else {
		_ = cl.send(opFrame("bind", 7))
		f, err := cl.readFrame(5 * time.Second)
		if err != nil || !strings.HasPrefix(strictView(f), "result id=7 tag=1 code=0") {
			verdict = fmt.Sprintf("request sent right after Ready() == true was not served: %v", err)
		}
		cl.close()
	}
	done := make(chan struct{})
	go func() { _ = srv.Stop(); close(done) }()
	select {
	case <-done:
	case <-time.After(3 * time.Second):
	}
	return verdict
}

func (c17Stream) Oracle(c Case, impl string) (bool, string, string) {
	if impl == "ok" || strings.HasPrefix(impl, "harness-error") {
		return true, "", ""
	}
	key := "c17/" + c.Kind
	if strings.HasPrefix(impl, "Ready() reported true") && c.Kind != "tlscfg" {
		key = "c17/ready-after-failed-listen"
	}
	return false, impl, key
}

func (c17Stream) Class(c Case, impl string) (string, bool) {
	return c.Kind + "/" + strings.Fields(impl + " -")[0], true
}

// ---- stream "c12": quiescence when Stop returns -------------------------------------------------------

type c12Stream struct{}

func (c12Stream) Name() string               { return "c12" }
func (c12Stream) CaseTimeout() time.Duration { return 60 * time.Second }
func (c12Stream) Rule() string {
	return "Stop relative to Run: K connections (0..8; plain or TLS, leaving with a close or a TCP reset) with handlers blocked, slow (60 ms) or long-running (1.8 s) and a slow OnClose callback, clients leaving right after Stop is called; Stop before Run; two concurrent Stops and a third afterwards; a second Stop called while the first still waits for blocked handlers (sampled at the return of the second); clients that send requests and hang up without reading; clients that never read the large results of their searches and stay connected (after Stop each must find its socket closed); Run and Stop started together 1500 times with random head starts; and the scripted accept race (a connection accepted, Stop runs to completion, then Run continues); oracle, sampled the instant Stop has returned and Run has returned: the port refuses connections and can be bound again, no handler is running, every accepted connection has been closed and its OnClose has completed; non-trivial = at least one connection or a scripted race, distinct by scenario"
}

func (c12Stream) Generate(rng *rand.Rand, n int, thorough bool) []Case {
	var cs []Case
	for len(cs) < n {
		switch rng.Intn(8) {
		case 7:
			// a second Stop called while the first is still waiting for connections whose handlers are blocked:
			// whichever call returns, the server is quiescent at that moment
			cs = append(cs, Case{Line: fmt.Sprintf("c12 kind=stopOverlap conns=%d inflight=blocked slowclose=%d", 1+rng.Intn(4), rng.Intn(2)), Kind: "stopOverlap"})
		case 6:
			// clients that never read the large results of their searches, and stay: when Stop has returned their
			// sockets must be closed all the same (the writes to them failed)
			cs = append(cs, Case{Line: fmt.Sprintf("c12 kind=stalled conns=%d tls=0", 1+rng.Intn(4)), Kind: "stalled"})
		case 0:
			cs = append(cs, Case{Line: "c12 kind=stopBeforeRun tlsshape=" + []string{"none", "none", "nocert", "static"}[rng.Intn(4)], Kind: "stopBeforeRun"})
		case 1:
			cs = append(cs, Case{Line: fmt.Sprintf("c12 kind=stopTwice conns=%d", rng.Intn(4)), Kind: "stopTwice"})
		case 2:
			if rng.Intn(2) == 0 {
				cs = append(cs, Case{Line: fmt.Sprintf("c12 kind=startRace attempts=%d seed=%d", 1500, rng.Intn(1<<30)), Kind: "startRace"})
			} else {
				cs = append(cs, Case{Line: "c12 kind=acceptRace", Kind: "acceptRace"})
			}
		default:
			infl := []string{"none", "blocked", "slow", "slow", "long"}[rng.Intn(5)]
			// (tl: the searches carry a time limit of one second, which has expired when Stop is called; the handlers are busy
			// for 1.8 s - the limit is the handler's business, Stop waits for the handler all the same)
			tl := 0
			if infl == "long" && rng.Intn(2) == 0 {
				tl = 1
			}
			cs = append(cs, Case{Line: fmt.Sprintf("c12 kind=quiescent conns=%d inflight=%s slowclose=%d hangup=%d tls=%d rst=%d tl=%d", 1+rng.Intn(8),
				infl, rng.Intn(2), rng.Intn(2), rng.Intn(2), rng.Intn(2), tl), Kind: "quiescent"})
		}
	}
	return cs
}

func (c12Stream) Impl(c Case) string {
	p := kv(c.Line)
	tlsConfigs()
	rc := &recorder{}
	var running int32
	var onCloseDone, onCloseBegun int32
	released := make(chan struct{})
	h := func(w *gldap.ResponseWriter, r *gldap.Request) {
		atomic.AddInt32(&running, 1)
		defer atomic.AddInt32(&running, -1)
		rc.enter(r)
		if _, ok := r.VerifMessage().(*gldap.SearchMessage); ok {
			if p["kind"] == "stalled" {
				big := strings.Repeat("q", 50000)
				for i := 0; i < 400; i++ {
					if err := w.Write(r.NewSearchResponseEntry("e", gldap.WithAttributes(map[string][]string{"p": {big}}))); err != nil {
						return
					}
				}
			}
			switch p["inflight"] {
			case "blocked":
				<-released
			case "slow":
				time.Sleep(60 * time.Millisecond)
			case "long":
				time.Sleep(1800 * time.Millisecond) // still busy long after Stop was called
			}
		}
		answer(w, r)
	}
	oc := func(id int) {
		atomic.AddInt32(&onCloseBegun, 1)
		if p["slowclose"] == "1" || p["kind"] == "acceptRace" {
			time.Sleep(40 * time.Millisecond)
		} else if ms := atoi(p["slowclose"]); ms > 1 {
			time.Sleep(time.Duration(ms) * time.Millisecond) // an application callback that takes seconds: Stop waits for it
		}
		atomic.AddInt32(&onCloseDone, 1)
	}
	verdict := "ok"
	fail := func(f string, a ...interface{}) {
		if verdict == "ok" {
			verdict = fmt.Sprintf(f, a...)
		}
	}
	if p["kind"] == "stopBeforeRun" {
		tr := NewTracer()
		curTracer.Store(tr)
		srv, _ := gldap.NewServer(gldap.WithLogger(hclog.NewNullLogger()))
		addr := freeAddr()
		_ = srv.Stop()
		errc := make(chan error, 1)
		var ropts []gldap.Option
		switch p["tlsshape"] {
		case "nocert":
			ropts = append(ropts, gldap.WithTLSConfig(&tls.Config{MinVersion: tls.VersionTLS12}))
		case "static":
			ropts = append(ropts, gldap.WithTLSConfig(srvTLS))
		}
		go func() { errc <- srv.Run(addr, ropts...) }()
		select {
		case e := <-errc:
			if e != nil && portFree(addr) {
				// (an error is Run's business as long as nothing is left behind)
				e = nil
			}
			if e != nil {
				fail("Run after Stop returned an error: %v", e)
			}
		case <-time.After(3 * time.Second):
			fail("Run after Stop did not return")
			go srv.Stop()
			time.Sleep(50 * time.Millisecond)
		}
		if verdict == "ok" && !portFree(addr) {
			fail("Stop before Run: the port is still bound after Stop and Run have both returned")
		}
		_ = srv.Stop()
		return verdict
	}
	if p["kind"] == "startRace" {
		// Run and Stop started together, with a random head start for either: whichever way the race goes, once
		// both have returned the port is free
		curTracer.Store(NewTracer())
		rng := rand.New(rand.NewSource(int64(atoi(p["seed"]))))
		addr := freeAddr()
		for i := 0; i < atoi(p["attempts"]) && verdict == "ok"; i++ {
			srv, _ := gldap.NewServer(gldap.WithLogger(hclog.NewNullLogger()))
			errc := make(chan error, 1)
			spinRun, spinStop := rng.Intn(40), rng.Intn(40)
			go func() {
				for j := 0; j < spinRun; j++ {
					runtime.Gosched()
				}
				errc <- srv.Run(addr)
			}()
			for j := 0; j < spinStop; j++ {
				runtime.Gosched()
			}
			stopped := make(chan struct{})
			go func() { _ = srv.Stop(); close(stopped) }()
			select {
			case <-stopped:
			case <-time.After(5 * time.Second):
				fail("start race attempt %d: Stop did not return", i)
				continue
			}
			select {
			case e := <-errc:
				if e != nil {
					fail("start race attempt %d: Run returned an error: %v", i, e)
				}
			case <-time.After(5 * time.Second):
				fail("start race attempt %d: Run did not return after Stop", i)
				continue
			}
			if verdict == "ok" && !portFree(addr) {
				fail("start race attempt %d: the port is still bound after Stop and Run have both returned", i)
			}
		}
		return verdict
	}
	var c12srvTLS, c12cliTLS *tls.Config
	if p["tls"] == "1" && p["kind"] == "quiescent" {
		c12srvTLS, c12cliTLS = srvTLS, cliTLS
	}
	sut, err := startServer(allRoutes(h, nil, nil), c12srvTLS, oc)
	if err != nil {
		return "harness-error start: " + err.Error()
	}
	sample := func(when string) {
		// the instant both have returned
		if !refused(sut.addr) {
			fail("%s: the port still accepts connections", when)
		}
		if !portFree(sut.addr) {
			fail("%s: the port cannot be bound again", when)
		}
		if n := atomic.LoadInt32(&running); n != 0 {
			fail("%s: %d handlers are still running", when, n)
		}
		acc := sut.tr.Count("run.added", -1)
		if d := int(atomic.LoadInt32(&onCloseDone)); d != acc {
			fail("%s: OnClose has completed for %d of %d accepted connections", when, d, acc)
		}
		if g := sut.tr.Count("conn.closed", -1); g != acc {
			fail("%s: %d of %d accepted connections have been closed", when, g, acc)
		}
	}
	waitRun := func() bool {
		select {
		case e := <-sut.runErr:
			if e != nil {
				fail("Run returned an error after Stop: %v", e)
			}
			return true
		case <-time.After(5 * time.Second):
			fail("Run did not return after Stop")
			return false
		}
	}
	if p["kind"] == "acceptRace" {
		g := sut.tr.Block("run.accepted", -1, -1)
		cl, err := dialRaw(sut.addr, nil)
		if err != nil {
			return "harness-error " + err.Error()
		}
		defer cl.close()
		if !g.Arrived(3 * time.Second) {
			return "harness-error accept gate not reached"
		}
		stopped := sut.stop(3 * time.Second)
		g.Release()
		if !stopped {
			// Stop waits for Run, which waits at our gate: release and wait again
			stopped = sut.stop(3 * time.Second)
		}
		if !stopped {
			fail("Stop did not return")
		} else if waitRun() {
			sample("accept race")
		}
		sut.finish()
		return verdict + "\t" + traceString(sut.tr.Snapshot(), "conn.", "loop.", "req.", "run.", "stop.")
	}
	k := atoi(p["conns"])
	var clients []*rawClient
	// leave: a client goes away, politely or (rst=1) with a TCP reset, so that a TLS close_notify cannot be sent
	leave := func(cl *rawClient) {
		if p["rst"] == "1" {
			var nc net.Conn = cl.c
			if tc, ok := nc.(*tls.Conn); ok {
				nc = tc.NetConn()
			}
			if t, ok := nc.(*net.TCPConn); ok {
				_ = t.SetLinger(0)
				_ = t.Close()
				return
			}
		}
		cl.close()
	}
	for i := 0; i < k; i++ {
		var ccfg *tls.Config
		if c12cliTLS != nil {
			ccfg = c12cliTLS.Clone()
			ccfg.ServerName = "localhost"
		}
		cl, err := dialRaw(sut.addr, ccfg)
		if err != nil {
			return "harness-error " + err.Error()
		}
		clients = append(clients, cl)
		if p["hangup"] == "1" && p["kind"] == "quiescent" {
			// a client that sends its requests and hangs up without waiting for any response - or (every second
			// one) sends an Unbind behind them and keeps its end open
			if i%2 == 1 {
				_ = cl.send(append(append(opFrame("search", 1), opFrame("search", 2)...), Seq(Int(2, 3), P(1, 2, nil)).Ser()...))
				continue
			}
			_ = cl.send(append(opFrame("search", 1), opFrame("search", 2)...))
			leave(cl)
			continue
		}
		search2 := opFrame("search", 2)
		if p["tl"] == "1" {
			nd, _ := Req{Kind: "search", ID: 2, DN: "cn=x,dc=example,dc=org", Scope: 2, Filter: "(cn=x)", Time: 1}.Node()
			search2 = nd.Ser()
		}
		_ = cl.send(append(opFrame("bind", 1), search2...))
		if _, err := cl.readFrame(5 * time.Second); err != nil {
			return "harness-error bind response: " + err.Error()
		}
	}
	if p["kind"] == "stopOverlap" {
		first := make(chan bool, 1)
		go func() { first <- sut.stop(10 * time.Second) }()
		sut.tr.Wait("stop.cancelled", -1, -1, 2*time.Second)
		time.Sleep(20 * time.Millisecond)
		go func() { time.Sleep(300 * time.Millisecond); close(released) }()
		// the second call, while the first is waiting for the blocked handlers
		if !sut.stop(10 * time.Second) {
			fail("a second Stop, called while the first was still waiting, did not return")
		} else if waitRun() {
			sample("a second Stop, called while the first was still waiting, returned")
		}
		if !<-first {
			fail("the first of two overlapping Stop calls did not return")
		}
		for _, cl := range clients {
			cl.close()
		}
		sut.finish()
		return verdict + "\t" + traceString(sut.tr.Snapshot(), "conn.", "loop.", "req.", "run.", "stop.")
	}
	if p["kind"] == "stopTwice" {
		var wg sync.WaitGroup
		for i := 0; i < 2; i++ {
			wg.Add(1)
			go func() { defer wg.Done(); sut.stop(5 * time.Second) }()
		}
		time.Sleep(5 * time.Millisecond)
		for _, cl := range clients {
			cl.close()
		}
		done := make(chan struct{})
		go func() { wg.Wait(); close(done) }()
		select {
		case <-done:
		case <-time.After(6 * time.Second):
			fail("concurrent Stop calls did not both return")
		}
		if verdict == "ok" && waitRun() {
			sample("two concurrent Stops")
			if !sut.stop(2 * time.Second) {
				fail("a third Stop after the server stopped did not return")
			}
		}
		sut.finish()
		return verdict + "\t" + traceString(sut.tr.Snapshot(), "conn.", "loop.", "req.", "run.", "stop.")
	}
	if p["kind"] == "stalled" {
		for _, cl := range clients {
			_ = cl.send(append(append(opFrame("search", 11), opFrame("search", 12)...), opFrame("search", 13)...))
		}
		// the handlers fill the sockets and block in Write
		time.Sleep(150 * time.Millisecond)
		if !sut.stop(8 * time.Second) {
			fail("Stop did not return with clients that do not read")
		} else if waitRun() {
			sample("Stop returned (stalled clients)")
			// the clients now read what is in flight: each must reach the end of its stream, i.e. the server has really
			// closed the socket
			for i, cl := range clients {
				_ = cl.c.SetReadDeadline(time.Now().Add(4 * time.Second))
				buf := make([]byte, 1<<16)
				for {
					_, err := cl.c.Read(buf)
					if err == nil {
						continue
					}
					if ne, ok := err.(net.Error); ok && ne.Timeout() {
						fail("Stop returned (stalled clients): connection %d is still open: the client reads no end of stream", i+1)
					}
					break
				}
			}
		}
		sut.finish()
		return verdict + "\t" + traceString(sut.tr.Snapshot(), "conn.", "loop.", "req.", "run.", "stop.")
	}
	// quiescent: clients leave right after Stop is called; blocked handlers are released a little later
	if p["tl"] == "1" && p["hangup"] != "1" {
		time.Sleep(1200 * time.Millisecond)
	}
	stopDone := make(chan bool, 1)
	go func() { stopDone <- sut.stop(8 * time.Second) }()
	sut.tr.Wait("stop.cancelled", -1, -1, 2*time.Second)
	for _, cl := range clients {
		if p["hangup"] != "1" {
			leave(cl)
		}
	}
	go func() { time.Sleep(25 * time.Millisecond); close(released) }()
	if ok := <-stopDone; !ok {
		fail("Stop did not return although every client had left")
	} else if waitRun() {
		sample("Stop returned")
	}
	select {
	case <-released:
	default:
		time.Sleep(30 * time.Millisecond)
	}
	sut.finish()
	return verdict + "\t" + traceString(sut.tr.Snapshot(), "conn.", "loop.", "req.", "run.", "stop.")
}

func (c12Stream) ModelLine(c Case, trace string) string { return "trace conn " + trace }

func (c12Stream) Oracle(c Case, impl string) (bool, string, string) {
	if impl == "ok" || strings.HasPrefix(impl, "harness-error") {
		return true, "", ""
	}
	key := "c12/" + c.Kind
	switch {
	case strings.Contains(impl, "OnClose has completed"), strings.Contains(impl, "have been closed"), strings.Contains(impl, "is still open"):
		key = "c12/" + c.Kind + "/stop-returns-before-close-and-onclose"
	case strings.Contains(impl, "still bound"), strings.Contains(impl, "cannot be bound"), strings.Contains(impl, "still accepts"):
		key = "c12/" + c.Kind + "/port-not-released"
	case strings.Contains(impl, "handlers are still running"):
		key = "c12/" + c.Kind + "/handlers-running"
	case strings.Contains(impl, "did not return"):
		key = "c12/" + c.Kind + "/no-return"
	}
	return false, impl, key
}

func (c12Stream) Class(c Case, impl string) (string, bool) {
	p := kv(c.Line)
	return c.Kind + "/" + strings.Fields(impl + " -")[0], (atoi(p["conns"]) > 0 || c.Kind == "acceptRace" || c.Kind == "stopBeforeRun") && impl == "ok"
}

// ---- stream "c11": Stop returns in bounded time ----------------------------------------------------------

type c11Stream struct{}

func (c11Stream) Name() string               { return "c11" }
func (c11Stream) CaseTimeout() time.Duration { return 60 * time.Second }
func (c11Stream) NoModel() bool              { return true }
func (c11Stream) Rule() string {
	return "K connections (0..6) put into one state at the moment Stop is called - a connection accepted just as Stop cancels (scripted with two hook gates), none, idle after a bind, half a frame sent, TCP connected to a TLS listener without ClientHello, StartTLS accepted but no ClientHello ever sent (Stop arriving before or after the handler calls Request.StartTLS), pipelining requests as fast as possible, sending searches whose large results they never read (also followed by an Unbind, or with handlers that start writing only after Stop was called) - optionally with a concurrent second Stop and with two-minute read/write timeouts configured on the server; the clients do NOTHING to help after Stop is called; oracle: Stop returns within 3 s and Run returns nil within 3 s more; non-trivial = at least one connection, distinct by scenario"
}

var c11States = []string{"acceptrace", "none", "idle", "partial", "tlspending", "busy", "notreading", "notreading-unbind", "busy-late", "starttls-early", "starttls-late"}

func (c11Stream) Generate(rng *rand.Rand, n int, thorough bool) []Case {
	var cs []Case
	for len(cs) < n {
		st := c11States[rng.Intn(len(c11States))]
		k := 1 + rng.Intn(6)
		if st == "none" {
			k = 0
		}
		cs = append(cs, Case{Line: fmt.Sprintf("c11 state=%s conns=%d second=%d timeouts=%d", st, k, rng.Intn(2), rng.Intn(2)), Kind: st})
	}
	return cs
}

// c11AcceptRace: a connection is accepted; before the accept loop decides whether to serve it, Stop closes the listener
// and cancels the context and is held just before it waits for the connections; the accept loop then goes on (it
// must not serve the connection, nor count it), and Stop is let go: it has nothing to wait for.
func c11AcceptRace() string {
	h := func(w *gldap.ResponseWriter, r *gldap.Request) { answer(w, r) }
	sut, err := startServer(allRoutes(h, nil, nil), nil, nil)
	if err != nil {
		return "harness-error start: " + err.Error()
	}
	gRun := sut.tr.Block("run.accepted", -1, -1)
	gStop := sut.tr.Block("stop.cancelled", -1, -1)
	c, err := net.DialTimeout("tcp", sut.addr, 3*time.Second)
	if err != nil {
		sut.tr.ReleaseAll()
		return "harness-error dial: " + err.Error()
	}
	defer c.Close()
	if !gRun.Arrived(3 * time.Second) {
		sut.tr.ReleaseAll()
		return "harness-error accept gate not reached"
	}
	stopped := make(chan bool, 1)
	go func() { stopped <- sut.stop(6 * time.Second) }()
	if !gStop.Arrived(3 * time.Second) {
		sut.tr.ReleaseAll()
		return "harness-error stop gate not reached"
	}
	gRun.Release()
	// the accept loop deals with the connection it had accepted and comes round to its loop head again
	sut.tr.Wait("run.looptop", 2, -1, 2*time.Second)
	time.Sleep(10 * time.Millisecond)
	gStop.Release()
	verdict := "ok"
	if !<-stopped {
		verdict = "Stop did not return within 6s after a connection was accepted while it was cancelling"
	} else {
		select {
		case e := <-sut.runErr:
			if e != nil {
				verdict = "Run returned an error after Stop: " + e.Error()
			}
		case <-time.After(3 * time.Second):
			verdict = "Run did not return within 3s after Stop"
		}
	}
	sut.tr.ReleaseAll()
	sut.finish()
	return verdict
}

func (c11Stream) Impl(c Case) string {
	p := kv(c.Line)
	tlsConfigs()
	state, k := p["state"], atoi(p["conns"])
	if state == "acceptrace" {
		return c11AcceptRace()
	}
	payload := strings.Repeat("z", 60000)
	h := func(w *gldap.ResponseWriter, r *gldap.Request) {
		if _, ok := r.VerifMessage().(*gldap.SearchMessage); ok && state == "busy-late" {
			// a handler that is still computing when Stop is called and writes a large result afterwards
			time.Sleep(300 * time.Millisecond)
			for i := 0; i < 200; i++ {
				if err := w.Write(r.NewSearchResponseEntry("e", gldap.WithAttributes(map[string][]string{"p": {payload}}))); err != nil {
					return
				}
			}
		}
		if _, ok := r.VerifMessage().(*gldap.SearchMessage); ok && strings.HasPrefix(state, "notreading") {
			for i := 0; i < 200; i++ {
				if err := w.Write(r.NewSearchResponseEntry("e", gldap.WithAttributes(map[string][]string{"p": {payload}}))); err != nil {
					return
				}
			}
		}
		answer(w, r)
	}
	var tlsc = serverTLSFor("plain")
	if state == "tlspending" {
		tlsc = srvTLS
	}
	var stlsH gldap.HandlerFunc
	if strings.HasPrefix(state, "starttls") {
		// the StartTLS handler answers, dawdles 150 ms, then starts a handshake the client never takes part in
		stlsH = startTLSHandler(srvTLS, 0, 150*time.Millisecond)
	}
	var extra []gldap.Option
	if p["timeouts"] == "1" {
		// generous per-connection timeouts configured by the application must not postpone Stop
		extra = append(extra, gldap.WithReadTimeout(2*time.Minute), gldap.WithWriteTimeout(2*time.Minute))
	}
	sut, err := startServer(allRoutes(h, stlsH, nil), tlsc, nil, extra...)
	if err != nil {
		return "harness-error start: " + err.Error()
	}
	stopBusy := make(chan struct{})
	var conns []net.Conn
	for i := 0; i < k; i++ {
		c, err := net.DialTimeout("tcp", sut.addr, 3*time.Second)
		if err != nil {
			return "harness-error dial: " + err.Error()
		}
		conns = append(conns, c)
		switch state {
		case "idle":
			rcl := &rawClient{c: c}
			_ = rcl.send(opFrame("bind", 1))
			_, _ = rcl.readFrame(3 * time.Second)
		case "partial":
			f := opFrame("search", 1)
			_, _ = c.Write(f[:len(f)-3])
		case "tlspending":
		case "starttls-early", "starttls-late":
			rcl := &rawClient{c: c}
			_ = rcl.send(opFrame("starttls", 1))
			_, _ = rcl.readFrame(3 * time.Second)
		case "busy":
			go func(c net.Conn) {
				go func() { // drain responses
					buf := make([]byte, 65536)
					for {
						if _, err := c.Read(buf); err != nil {
							return
						}
					}
				}()
				f := opFrame("bind", 1)
				for {
					select {
					case <-stopBusy:
						return
					default:
					}
					if _, err := c.Write(f); err != nil {
						return
					}
				}
			}(c)
		case "notreading", "notreading-unbind", "busy-late":
			var buf []byte
			for j := 0; j < 4; j++ {
				buf = append(buf, opFrame("search", int64(j+1))...)
			}
			if state == "notreading-unbind" {
				// the read loop ends (unbind) while the handlers are stuck writing to a client that never reads
				buf = append(buf, Seq(Int(2, 9), P(1, 2, nil)).Ser()...)
			}
			_, _ = c.Write(buf)
		}
	}
	time.Sleep(50 * time.Millisecond)
	if state == "starttls-late" {
		time.Sleep(250 * time.Millisecond) // Stop arrives when the handshake is already waiting for a ClientHello
	}
	verdict := "ok"
	if p["second"] == "1" {
		go sut.stop(10 * time.Second)
	}
	t0 := time.Now()
	if !sut.stop(3 * time.Second) {
		verdict = fmt.Sprintf("Stop did not return within 3s with %d connection(s) in state %s", k, state)
	} else {
		select {
		case e := <-sut.runErr:
			if e != nil {
				verdict = "Run returned an error after Stop: " + e.Error()
			}
		case <-time.After(3 * time.Second):
			verdict = "Run did not return within 3s after Stop"
		}
	}
	_ = t0
	close(stopBusy)
	for _, c := range conns {
		c.Close()
	}
	sut.finish()
	return verdict
}

func (c11Stream) Oracle(c Case, impl string) (bool, string, string) {
	if impl == "ok" || strings.HasPrefix(impl, "harness-error") {
		return true, "", ""
	}
	return false, impl, "c11/stop-blocked/" + c.Kind
}

func (c11Stream) Class(c Case, impl string) (string, bool) {
	return c.Kind + "/" + strings.Fields(impl + " -")[0], c.Kind != "none" && impl == "ok"
}
