package main

import (
	"crypto/tls"
	"crypto/x509"
	"fmt"
	"math/rand"
	"strings"
	"time"

	"github.com/go-ldap/ldap/v3"
	"github.com/jimlambrt/gldap"
	"github.com/jimlambrt/gldap/testdirectory"
)

// ---- stream "tdlive": a directory started the way tests start it (Start + options), a real go-ldap client -----
//
// The in-process streams drive the handlers through VerifMux. This one goes the whole way: testdirectory.Start with
// its options (one WithDefaults call or two composed ones, in either order), the Set* methods on the running
// directory, and a go-ldap client over the transport the directory was started with - plain, TLS, mutual TLS, or a
// plain connection upgraded by StartTLS.

type tdLiveStream struct{}

func (tdLiveStream) Name() string               { return "tdlive" }
func (tdLiveStream) CaseTimeout() time.Duration { return 60 * time.Second }
func (tdLiveStream) NoModel() bool              { return true }
func (tdLiveStream) Rule() string {
	return "a test directory started with testdirectory.Start: defaults given in one WithDefaults call or split over two (users in one, AllowAnonymousBind in the other, either order), optionally re-configured through SetUsers / SetAllowAnonymousBind after the start; optionally with a history before the judged bind (an earlier bind, then the password replaced / the user deleted / a user added over LDAP); transports plain / TLS / mutual TLS / StartTLS on a plain listener; a real go-ldap client performs the simple bind (empty passwords included); user sets, DNs and passwords as in tdbind; oracle: success iff (password empty and anonymous allowed) or some user entry has exactly that DN and its first password value equals the password, else invalidCredentials; non-trivial = at least one user with the bind DN, distinct by case"
}

func (tdLiveStream) Generate(rng *rand.Rand, n int, thorough bool) []Case {
	var cs []Case
	for len(cs) < n {
		us := genTdUsers(rng)
		dn := tdDNs[rng.Intn(len(tdDNs))]
		pw := tdPws[rng.Intn(len(tdPws))]
		if len(us) > 0 && rng.Intn(10) < 7 {
			u := us[rng.Intn(len(us))]
			dn = u.DN
			if rng.Intn(2) == 0 {
				for _, a := range u.Attrs {
					if a.Type == "password" && len(a.Vals) > 0 {
						pw = a.Vals[rng.Intn(len(a.Vals))]
						break
					}
				}
			}
		}
		if rng.Intn(3) == 0 {
			pw = ""
		}
		// a history before the bind that is judged: an earlier bind, then a change of the entries made over LDAP
		// (the password replaced, the user deleted, a user added), then the bind
		hist := "none"
		unambiguous := func(d string) (exact bool, hits int) {
			for _, u := range us {
				if u.DN == d {
					exact = true
				}
				if strings.Contains(strings.ToLower(u.DN), strings.ToLower(d)) || (u.DN != "" && strings.Contains(strings.ToLower(d), strings.ToLower(u.DN))) {
					hits++ // the modify and delete handlers find their target by substring: it has to be unambiguous
				}
			}
			if d == "" || strings.ContainsAny(d, "()*\\\x00") {
				hits = 99
			}
			return
		}
		if rng.Intn(3) == 0 {
			// pick the target among the users that can be addressed unambiguously
			var cand []tdEntry
			for _, u := range us {
				if ex, h := unambiguous(u.DN); ex && h == 1 {
					cand = append(cand, u)
				}
			}
			if len(cand) > 0 && rng.Intn(4) != 0 {
				u := cand[rng.Intn(len(cand))]
				dn = u.DN
				if rng.Intn(2) == 0 {
					for _, a := range u.Attrs {
						if a.Type == "password" && len(a.Vals) > 0 {
							pw = a.Vals[0]
							break
						}
					}
				}
				hist = []string{"modpw", "modpw", "del"}[rng.Intn(3)]
			} else {
				d := fmt.Sprintf("cn=new%d,%s", rng.Intn(100), testdirectory.DefaultUserDN)
				if _, h := unambiguous(d); h == 0 {
					dn, hist = d, "add"
					if pw == "" {
						pw = "secret"
					}
				}
			}
		}
		if hist == "modpw" {
			// the old password (must no longer work when the attribute was replaced), the new one as sent, or the new one
			// in the form the directory stores it
			old := pw
			for _, u := range us {
				if u.DN == dn {
					for _, a := range u.Attrs {
						if a.Type == "password" && len(a.Vals) > 0 {
							old = a.Vals[0]
							break
						}
					}
				}
			}
			pw = []string{old, old, "newpw", wrapOctet("newpw"), wrapOctet("newpw")}[rng.Intn(5)]
		}
		cs = append(cs, Case{Line: fmt.Sprintf("tdlive anon=%d users=%s %s %s compose=%s late=%d transport=%s hist=%s", rng.Intn(2), entriesDesc(us), hx([]byte(dn)), hx([]byte(pw)),
			[]string{"single", "anon-first", "users-first"}[rng.Intn(3)], rng.Intn(2), []string{"plain", "tls", "mtls", "starttls"}[rng.Intn(4)], hist), Kind: "bind"})
	}
	return cs
}

func (tdLiveStream) Impl(c Case) string {
	f := strings.Fields(c.Line)
	p := kv(c.Line)
	us := parseTdEntries(strings.TrimPrefix(f[2], "users="))
	var users []*gldap.Entry
	for _, u := range us {
		users = append(users, realEntry(u))
	}
	if users == nil {
		users = []*gldap.Entry{}
	}
	anon := p["anon"] == "1"
	dn, pw := string(unhx(f[3])), string(unhx(f[4]))
	ht := &harnessT{}
	startAnon, startUsers := anon, users
	if p["late"] == "1" {
		startAnon, startUsers = false, []*gldap.Entry{}
	}
	var opts []testdirectory.Option
	switch p["compose"] {
	case "anon-first":
		opts = append(opts, testdirectory.WithDefaults(ht, &testdirectory.Defaults{AllowAnonymousBind: startAnon}),
			testdirectory.WithDefaults(ht, &testdirectory.Defaults{Users: startUsers}))
	case "users-first":
		opts = append(opts, testdirectory.WithDefaults(ht, &testdirectory.Defaults{Users: startUsers}),
			testdirectory.WithDefaults(ht, &testdirectory.Defaults{AllowAnonymousBind: startAnon}))
	default:
		opts = append(opts, testdirectory.WithDefaults(ht, &testdirectory.Defaults{Users: startUsers, AllowAnonymousBind: startAnon}))
	}
	switch p["transport"] {
	case "plain", "starttls":
		opts = append(opts, testdirectory.WithNoTLS(ht))
	case "mtls":
		opts = append(opts, testdirectory.WithMTLS(ht))
	}
	td, serr := startDirectory(ht, opts...)
	if td == nil {
		return serr
	}
	defer td.Stop()
	if p["late"] == "1" {
		td.SetUsers(users...)
		td.SetAllowAnonymousBind(anon)
	}
	var conn *ldap.Conn
	var err error
	if p["transport"] == "starttls" {
		conn, err = ldap.DialURL(fmt.Sprintf("ldap://%s:%d", td.Host(), td.Port()))
		if err == nil {
			pool := x509.NewCertPool()
			pool.AppendCertsFromPEM([]byte(td.Cert()))
			err = conn.StartTLS(&tls.Config{RootCAs: pool, ServerName: td.Host()})
		}
	} else {
		conn = td.Conn()
	}
	if err != nil || conn == nil {
		return fmt.Sprintf("harness-error connect: %v", err)
	}
	defer conn.Close()
	conn.SetTimeout(10 * time.Second)
	if h := p["hist"]; h != "" && h != "none" {
		_, _ = conn.SimpleBind(&ldap.SimpleBindRequest{Username: dn, Password: pw, AllowEmptyPassword: true})
		var herr error
		switch h {
		case "modpw":
			mr := ldap.NewModifyRequest(dn, nil)
			mr.Replace("password", []string{"newpw"})
			herr = conn.Modify(mr)
		case "del":
			herr = conn.Del(ldap.NewDelRequest(dn, nil))
		case "add":
			ar := ldap.NewAddRequest(dn, nil)
			ar.Attribute("password", []string{pw})
			herr = conn.Add(ar)
		}
		if herr != nil {
			return "error in the history before the bind (" + h + "): " + herr.Error()
		}
	}
	_, err = conn.SimpleBind(&ldap.SimpleBindRequest{Username: dn, Password: pw, AllowEmptyPassword: true})
	switch {
	case err == nil:
		return "code=0"
	case ldap.IsErrorWithCode(err, ldap.LDAPResultInvalidCredentials):
		return "code=49"
	}
	return "error " + err.Error()
}

func (tdLiveStream) Oracle(c Case, impl string) (bool, string, string) {
	if strings.HasPrefix(impl, "harness-error") {
		return true, "", ""
	}
	f := strings.Fields(c.Line)
	p := kv(c.Line)
	us := parseTdEntries(strings.TrimPrefix(f[2], "users="))
	dn, pw := string(unhx(f[3])), string(unhx(f[4]))
	ok := pw == "" && p["anon"] == "1"
	switch p["hist"] {
	case "modpw":
		// the stored value is what the modify handler received: the BER-wrapped form (C01, C16)
		for i, u := range us {
			if u.DN == dn {
				// the handler replaces the LAST attribute of that name (a missing one stays missing); the bind reads the first
				last := -1
				for j, a := range u.Attrs {
					if a.Type == "password" {
						last = j
					}
				}
				if last >= 0 {
					us[i].Attrs[last].Vals = []string{wrapOctet("newpw")}
				}
				break
			}
		}
	case "del":
		var rest []tdEntry
		removed := false
		for _, u := range us {
			if u.DN == dn && !removed {
				removed = true
				continue
			}
			rest = append(rest, u)
		}
		us = rest
	case "add":
		us = append(us, tdEntry{DN: dn, Attrs: []Att{{Type: "password", Vals: []string{pw}}}})
	}
	for _, u := range us {
		if u.DN != dn {
			continue
		}
		for _, a := range u.Attrs {
			if a.Type == "password" {
				if len(a.Vals) > 0 && a.Vals[0] == pw {
					ok = true
				}
				break
			}
		}
	}
	want := "code=49"
	if ok {
		want = "code=0"
	}
	if impl != want {
		return false, fmt.Sprintf("bind over %s (defaults composed %s, configured late=%s) answered %s want %s", p["transport"], p["compose"], p["late"], impl, want), "tdlive/" + strings.Fields(impl)[0]
	}
	return true, "", ""
}

func (tdLiveStream) Class(c Case, impl string) (string, bool) {
	p := kv(c.Line)
	return p["transport"] + "/" + strings.Fields(impl + " -")[0], true
}

// startDirectory: testdirectory.Start picks a free port and binds it a moment later; on a loaded machine another
// process may take the port in between, and Start then fails the test it believes it runs in (FailNow). That is the
// machine's doing, not the directory's: try again, twice. A Start that fails three times in a row is reported.
func startDirectory(ht *harnessT, opts ...testdirectory.Option) (td *testdirectory.Directory, verdict string) {
	for attempt := 0; attempt < 3; attempt++ {
		func() {
			defer func() {
				if r := recover(); r != nil {
					td, verdict = nil, fmt.Sprintf("testdirectory.Start failed three times in a row: %v", r)
				}
			}()
			td = testdirectory.Start(ht, opts...)
		}()
		if td != nil {
			return td, ""
		}
		time.Sleep(50 * time.Millisecond)
	}
	return nil, verdict
}
