package main

import (
	"crypto/tls"
	"fmt"
	"math/rand"
	"net"
	"runtime"
	"strconv"
	"strings"
	"sync"
	"time"

	"github.com/jimlambrt/gldap"
)

// kv parses "k=v" fields of a scenario line.
func kv(line string) map[string]string {
	m := map[string]string{}
	for _, f := range strings.Fields(line)[1:] {
		if i := strings.Index(f, "="); i > 0 {
			m[f[:i]] = f[i+1:]
		}
	}
	return m
}

func atoi(s string) int { v, _ := strconv.Atoi(s); return v }

// startTLSHandler answers the StartTLS request and upgrades the connection.
func startTLSHandler(cfg *tls.Config, before, after time.Duration) gldap.HandlerFunc {
	return func(w *gldap.ResponseWriter, r *gldap.Request) {
		time.Sleep(before)
		res := r.NewExtendedResponse(gldap.WithResponseCode(gldap.ResultSuccess))
		res.SetResponseName(gldap.ExtendedOperationStartTLS)
		if err := w.Write(res); err != nil {
			return
		}
		time.Sleep(after)
		_ = r.StartTLS(cfg)
	}
}

// connect opens a client connection in the given mode: plain, tls (server started with a TLS
// listener) or starttls (plain connection upgraded through the StartTLS extended operation).
func connect(addr, mode string) (*rawClient, error) {
	tlsConfigs()
	switch mode {
	case "tls":
		return dialRaw(addr, cliTLS)
	case "starttls":
		c, err := dialRaw(addr, nil)
		if err != nil {
			return nil, err
		}
		req := Seq(Int(2, 1), C(1, 23, P(2, 0, []byte("1.3.6.1.4.1.1466.20037")))).Ser()
		if err := c.send(req); err != nil {
			return nil, err
		}
		f, err := c.readFrame(5 * time.Second)
		if err != nil {
			return nil, fmt.Errorf("starttls response: %w", err)
		}
		if v := strictView(f); !strings.HasPrefix(v, "result id=1 tag=24 code=0") {
			return nil, fmt.Errorf("starttls refused: %s", v)
		}
		if len(c.buf) != 0 {
			return nil, fmt.Errorf("plaintext bytes after the StartTLS response")
		}
		cfg := cliTLS.Clone()
		cfg.ServerName = "localhost"
		tc := tls.Client(c.c, cfg)
		_ = tc.SetDeadline(time.Now().Add(5 * time.Second))
		if err := tc.Handshake(); err != nil {
			return nil, fmt.Errorf("handshake: %w", err)
		}
		_ = tc.SetDeadline(time.Time{})
		return &rawClient{c: tc}, nil
	}
	return dialRaw(addr, nil)
}

func serverTLSFor(mode string) *tls.Config {
	tlsConfigs()
	if mode == "tls" {
		return srvTLS
	}
	return nil
}

// ---- stream "c05": concurrent writers on one connection -----------------------------------------

type c05Stream struct{}

func (c05Stream) Name() string               { return "c05" }
func (c05Stream) CaseTimeout() time.Duration { return 60 * time.Second }
func (c05Stream) Rule() string {
	return "one real server, one client connection (plain / TLS listener / StartTLS-upgraded), N pipelined search requests (N 2..400) whose handlers rendezvous and then each write K entries of S bytes (S from 10 bytes to 1 MiB, i.e. far beyond the 4 KiB write buffer) plus a SearchDone, with fast or slow readers and GOMAXPROCS 1..16; in one case of four one search stays open for 1.5 s after its entries (they must arrive without waiting for its SearchDone); in one case of eight the client sends its searches and an Unbind and starts reading 300 ms later (every frame must still arrive before the hang-up); in one case of twelve the read loops of 8..48 connections end on a malformed frame while a slow search of theirs is still handled and as many new connections bind at once (every late frame arrives on its own connection, nothing foreign on the new ones); in one case of ten the server has a write timeout and the client stalls past it in the middle of the answers, then reads on (a frame cut short by the timeout may only be the end of the stream, and successful writes = whole frames received); in one case of six the client keeps the pipeline full and Stop is called after the third frame (then every frame up to the hang-up must still be whole and in per-writer order, the notice of disconnection included); oracle: the received stream splits into whole LDAPMessages, exactly one per successful Write, per-writer order preserved, nothing duplicated or lost; the hook trace (locked/written/flushed/unlock) is replayed through the Lean writer model; non-trivial = N >= 2 writers overlapping in time, distinct by scenario"
}

func (c05Stream) Generate(rng *rand.Rand, n int, thorough bool) []Case {
	var cs []Case
	modes := []string{"plain", "plain", "tls", "starttls"}
	for len(cs) < n {
		w := []int{2, 3, 5, 8, 16, 32, 64}[rng.Intn(7)]
		k := []int{1, 2, 3, 5}[rng.Intn(4)]
		size := []int{10, 100, 1000, 4000, 4096, 5000, 20000, 100000}[rng.Intn(8)]
		if thorough && rng.Intn(6) == 0 {
			w = []int{128, 256, 400}[rng.Intn(3)]
			size = []int{10, 1000, 5000}[rng.Intn(3)]
		}
		if thorough && rng.Intn(10) == 0 {
			size = 1 << 20
			w = 4
			k = 2
		}
		if rng.Intn(8) == 0 {
			// the client pipelines its searches and an Unbind, and only then starts to read, slowly: everything
			// the handlers wrote successfully must still arrive before the server hangs up
			cs = append(cs, Case{Line: fmt.Sprintf("c05 n=%d k=%d size=%d mode=%s slow=1 procs=%d unbind=1", []int{4, 8}[rng.Intn(2)], 3+rng.Intn(3),
				[]int{20000, 100000}[rng.Intn(2)], modes[rng.Intn(4)], []int{2, 4, 16}[rng.Intn(3)]), Kind: "unbind"})
			continue
		}
		if rng.Intn(12) == 0 {
			// connections whose read loop ends (a malformed frame) while a slow search of theirs is still being handled,
			// and new connections arriving at once: what the late handlers write belongs to their own connections
			cs = append(cs, Case{Line: fmt.Sprintf("c05 n=%d k=1 size=100 mode=plain slow=0 procs=%d late=1", []int{8, 24, 48}[rng.Intn(3)], []int{2, 4, 16}[rng.Intn(3)]), Kind: "late"})
			continue
		}
		if rng.Intn(10) == 0 {
			// a server with a write timeout and a client that stalls past it in the middle of the answers and then
			// reads on: whatever a timed-out Write left on the wire may only be the very end of the stream
			cs = append(cs, Case{Line: fmt.Sprintf("c05 n=%d k=%d size=%d mode=plain slow=0 procs=%d wtimeout=%d", []int{2, 4, 8}[rng.Intn(3)], 30+rng.Intn(30),
				[]int{50000, 100000}[rng.Intn(2)], []int{2, 4, 16}[rng.Intn(3)], 300+rng.Intn(200)), Kind: "wtimeout"})
			continue
		}
		if rng.Intn(6) == 0 {
			// Stop arrives while the client is still pipelining and handlers are writing
			cs = append(cs, Case{Line: fmt.Sprintf("c05 n=%d k=%d size=%d mode=%s slow=0 procs=%d stop=1", []int{4, 8, 16}[rng.Intn(3)], 2+rng.Intn(2),
				[]int{1000, 5000, 20000}[rng.Intn(3)], modes[rng.Intn(4)], []int{2, 4, 16}[rng.Intn(3)]), Kind: "stop"})
			continue
		}
		// (poison: an earlier request of the connection was answered and its handler then panicked INSIDE a further Write -
		// a typed-nil response -; gldap recovers that request, and the connection's later writers are none the worse)
		// (dead: just before, another connection's handlers wrote into a socket their client had already reset - failed
		// writes, small and large - ; what they leave behind is their own business, not this connection's)
		cs = append(cs, Case{Line: fmt.Sprintf("c05 n=%d k=%d size=%d mode=%s slow=%d procs=%d nodone=%d poison=%d dead=%d", w, k, size, modes[rng.Intn(4)],
			rng.Intn(3)/2, []int{1, 1, 2, 4, 16}[rng.Intn(5)], rng.Intn(4)/3, rng.Intn(3)/2, rng.Intn(3)/2), Kind: "writers"})
	}
	return cs
}

// c05Late: n connections send a slow search followed by a malformed frame (their read loops end while the handler is
// still at work); n new connections bind at once. Every frame written successfully arrives on the connection of the
// request it answers, and nowhere else.
func c05Late(n int) string {
	mux, _ := gldap.NewMux()
	_ = mux.Bind(func(w *gldap.ResponseWriter, r *gldap.Request) { answer(w, r) })
	_ = mux.Search(func(w *gldap.ResponseWriter, r *gldap.Request) {
		time.Sleep(40 * time.Millisecond)
		m, _ := r.GetSearchMessage()
		_ = w.Write(r.NewSearchResponseEntry(fmt.Sprintf("late-%d", m.GetID())))
		_ = w.Write(r.NewSearchDoneResponse(gldap.WithResponseCode(0)))
	})
	sut, err := startServer(mux, nil, nil)
	if err != nil {
		return "harness-error start: " + err.Error()
	}
	defer sut.tr.ReleaseAll()
	verdict := "ok"
	var vmu sync.Mutex
	fail := func(f string, a ...interface{}) {
		vmu.Lock()
		if verdict == "ok" {
			verdict = fmt.Sprintf(f, a...)
		}
		vmu.Unlock()
	}
	var old []*rawClient
	for i := 0; i < n; i++ {
		cl, err := dialRaw(sut.addr, nil)
		if err != nil {
			return "harness-error connect: " + err.Error()
		}
		old = append(old, cl)
		r := Req{Kind: "search", ID: int64(4000 + i), DN: "dc=x", Scope: 2, Filter: "(cn=x)"}
		nd, _ := r.Node()
		_ = cl.send(append(nd.Ser(), 0x30, 0x03, 0x02, 0x01, 0xff, 0xff, 0xff, 0xff))
	}
	var wg sync.WaitGroup
	for i := 0; i < n; i++ {
		wg.Add(1)
		go func(i int) {
			defer wg.Done()
			cl, err := dialRaw(sut.addr, nil)
			if err != nil {
				fail("stream broken: a new connection was refused: %v", err)
				return
			}
			defer cl.close()
			for j := int64(0); j < 3; j++ {
				_ = cl.send(opFrame("bind", 7000+j))
				f, err := cl.readFrame(5 * time.Second)
				if err != nil {
					fail("stream broken: a new connection got no answer: %v", err)
					return
				}
				if v := strictView(f); !strings.HasPrefix(v, fmt.Sprintf("result id=%d tag=1 code=0", 7000+j)) {
					fail("writer %d: a frame of another connection arrived on a new connection: %s", 7000+j, clip(v))
					return
				}
			}
		}(i)
	}
	for i, cl := range old {
		// the late frames of this connection: its entry and its done, then the end of the stream
		want := []string{fmt.Sprintf("entry id=%d dn=%s", 4000+i, hx([]byte(fmt.Sprintf("late-%d", 4000+i)))), fmt.Sprintf("result id=%d tag=5 code=0", 4000+i)}
		for _, w := range want {
			f, err := cl.readFrame(5 * time.Second)
			if err != nil {
				fail("writer %d: a frame written successfully after the read loop ended never arrived on its connection: %v", 4000+i, err)
				break
			}
			if v := strictView(f); !strings.HasPrefix(v, w) {
				fail("writer %d: unexpected frame on its connection: %s", 4000+i, clip(v))
				break
			}
		}
		cl.close()
	}
	wg.Wait()
	sut.finish()
	return verdict + "\t" + traceString(sut.tr.Snapshot(), "w.")
}

func (c05Stream) Impl(c Case) string {
	p := kv(c.Line)
	n, k, size, mode := atoi(p["n"]), atoi(p["k"]), atoi(p["size"]), p["mode"]
	if p["late"] == "1" {
		defer runtime.GOMAXPROCS(runtime.GOMAXPROCS(atoi(p["procs"])))
		return c05Late(n)
	}
	defer runtime.GOMAXPROCS(runtime.GOMAXPROCS(atoi(p["procs"])))
	tlsConfigs()
	mux, _ := gldap.NewMux()
	var started sync.WaitGroup
	started.Add(n)
	var wmu sync.Mutex
	wrote := map[int64]int{} // message id -> successful writes (entries)
	// every writer has a payload of its own (one letter, repeated): bytes of another writer's frame inside a frame
	// that parses well are still a torn frame
	payloadOf := func(id int64) string { return strings.Repeat(string(rune('a'+id%26)), size) }
	_ = mux.ExtendedOperation(startTLSHandler(srvTLS, 0, 0), gldap.ExtendedOperationStartTLS)
	_ = mux.Search(func(w *gldap.ResponseWriter, r *gldap.Request) {
		m, err := r.GetSearchMessage()
		if err != nil {
			return
		}
		if m.GetID() < int64(100+n) {
			started.Done()
			started.Wait() // rendezvous: all writers are alive before anyone writes
		} else if m.GetID() >= 5000 {
			time.Sleep(30 * time.Millisecond) // (the reset connections: by now the client is gone, every write fails)
		}
		for i := 0; i < k; i++ {
			e := r.NewSearchResponseEntry(fmt.Sprintf("w%d-%d", m.GetID(), i), gldap.WithAttributes(map[string][]string{"p": {payloadOf(m.GetID())}}))
			if err := w.Write(e); err == nil && m.GetID() < 5000 { // (5000 and up: the connections that were reset)
				wmu.Lock()
				wrote[m.GetID()]++
				wmu.Unlock()
			}
		}
		if p["nodone"] == "1" && m.GetID() == 100 {
			// this search stays open: its entries were written successfully and must reach the client all the same;
			// it finishes last of all, long after the others
			time.Sleep(1500 * time.Millisecond)
		}
		_ = w.Write(r.NewSearchDoneResponse(gldap.WithResponseCode(gldap.ResultSuccess)))
	})
	if p["poison"] == "1" {
		_ = mux.Bind(func(w *gldap.ResponseWriter, r *gldap.Request) {
			answer(w, r)
			var none *gldap.BindResponse
			_ = w.Write(none) // panics inside Write; the request goroutine's recover takes it
		})
	}
	var extra []gldap.Option
	wtimeout := atoi(p["wtimeout"])
	if wtimeout > 0 {
		extra = append(extra, gldap.WithWriteTimeout(time.Duration(wtimeout)*time.Millisecond))
	}
	sut, err := startServer(mux, serverTLSFor(mode), nil, extra...)
	if err != nil {
		return "harness-error start: " + err.Error()
	}
	defer func() { sut.tr.ReleaseAll() }()
	if p["dead"] == "1" {
		for v := 0; v < 2; v++ {
			if dc, err := net.DialTimeout("tcp", sut.addr, 3*time.Second); err == nil {
				var dreq []byte
				for j := 0; j < 3; j++ {
					r := Req{Kind: "search", ID: int64(5000 + 10*v + j), DN: "dc=x", Scope: 2, Filter: "(objectClass=*)"}
					nd, _ := r.Node()
					dreq = append(dreq, nd.Ser()...)
				}
				if mode == "plain" || mode == "starttls" {
					_, _ = dc.Write(dreq)
				}
				if t, ok := dc.(*net.TCPConn); ok {
					_ = t.SetLinger(0)
				}
				time.Sleep(2 * time.Millisecond)
				dc.Close()
			}
		}
		time.Sleep(120 * time.Millisecond)
	}
	cl, err := connect(sut.addr, mode)
	if err != nil {
		return "harness-error connect: " + err.Error()
	}
	defer cl.close()
	var req []byte
	for i := 0; i < n; i++ {
		r := Req{Kind: "search", ID: int64(100 + i), DN: "dc=x", Scope: 2, Filter: "(objectClass=*)"}
		nd, _ := r.Node()
		req = append(req, nd.Ser()...)
	}
	stopMode := p["stop"] == "1"
	if p["unbind"] == "1" {
		req = append(req, Seq(Int(2, 99999), P(1, 2, nil)).Ser()...)
	}
	if p["poison"] == "1" {
		_ = cl.send(opFrame("bind", 50))
		if f, err := cl.readFrame(5 * time.Second); err != nil || !strings.HasPrefix(strictView(f), "result id=50 ") {
			return fmt.Sprintf("harness-error the bind before the writers was not answered: %v", err)
		}
		time.Sleep(30 * time.Millisecond)
	}
	go func() {
		_ = cl.send(req)
		for i := n; stopMode; i++ {
			// keep the pipeline full until the server hangs up
			r := Req{Kind: "search", ID: int64(100 + i), DN: "dc=x", Scope: 2, Filter: "(objectClass=*)"}
			nd, _ := r.Node()
			if err := cl.send(nd.Ser()); err != nil {
				return
			}
		}
	}()
	done := 0
	next := map[int64]int{}
	verdict := "ok"
	frames := 0
	if p["unbind"] == "1" {
		time.Sleep(300 * time.Millisecond)
	}
	lateCheck := false
	if wtimeout > 0 {
		// read a few frames, stall until the write deadline has long passed, then read everything that still comes
		verdict = "ok"
		stalled := false
		for {
			to := 1500 * time.Millisecond
			f, err := cl.readFrame(to)
			if err != nil {
				if len(cl.buf) > 0 {
					// a partial frame: legitimate only as the very end of the stream (a Write that timed out), which it
					// is, since nothing followed it within the timeout
				}
				break
			}
			frames++
			if frames == 3 && !stalled {
				stalled = true
				time.Sleep(time.Duration(wtimeout+700) * time.Millisecond)
			}
			v := strictView(f)
			var id int64
			if strings.HasPrefix(v, "entry ") {
				var dn string
				fmt.Sscanf(v, "entry id=%d dn=%s", &id, &dn)
				want := hx([]byte(fmt.Sprintf("w%d-%d", id, next[id])))
				if dn != want || !strings.Contains(v, "70:"+hx([]byte(payloadOf(id)))+"]") {
					verdict = fmt.Sprintf("writer %d: frame out of order, duplicated, torn or foreign after a write timeout: dn=%s want %s", id, dn, want)
					break
				}
				next[id]++
			} else if strings.HasPrefix(v, "result ") {
				var tag, code int
				fmt.Sscanf(v, "result id=%d tag=%d code=%d", &id, &tag, &code)
				if tag != 5 || next[id] != k {
					verdict = fmt.Sprintf("writer %d: done after %d of %d entries (tag %d)", id, next[id], k, tag)
					break
				}
			} else {
				verdict = "frame is not a well-formed LDAPMessage (in the middle of the stream, after a write timed out): " + clip(v)
				break
			}
		}
		if verdict == "ok" {
			wmu.Lock()
			for id, cnt := range wrote {
				if cnt != next[id] {
					verdict = fmt.Sprintf("writer %d: %d successful writes but %d whole frames received", id, cnt, next[id])
				}
			}
			wmu.Unlock()
		}
		cl.close()
		sut.finish()
		return verdict + "\t" + traceString(sut.tr.Snapshot(), "w.")
	}
	for stopMode || done < n {
		if p["nodone"] == "1" && !stopMode && done == n-1 && !lateCheck {
			// every other search is finished; the open one's entries must all be here by now (its handler sleeps)
			lateCheck = true
			if next[100] != k {
				f, err := cl.readFrame(700 * time.Millisecond)
				if err != nil {
					verdict = fmt.Sprintf("writer 100: %d of %d entries written successfully have not arrived although nothing else is being sent (they sit in the server's buffer)", k-next[100], k)
					break
				}
				cl.buf = append(f, cl.buf...)
			}
		}
		to := 30 * time.Second
		if stopMode {
			to = 8 * time.Second
		}
		f, err := cl.readFrame(to)
		if err != nil {
			if stopMode {
				if ne, ok := err.(net.Error); ok && ne.Timeout() {
					verdict = "stream broken: the server neither sent a whole frame nor closed the connection within 8s of Stop"
				}
				break // the server hung up (a last, failed Write may have left a partial frame)
			}
			verdict = "stream broken: " + err.Error()
			break
		}
		frames++
		if stopMode && frames == 3 {
			go sut.stop(15 * time.Second)
		}
		if p["slow"] == "1" {
			time.Sleep(200 * time.Microsecond)
		}
		v := strictView(f)
		var id int64
		if strings.HasPrefix(v, "entry ") {
			var dn string
			fmt.Sscanf(v, "entry id=%d dn=%s", &id, &dn)
			want := hx([]byte(fmt.Sprintf("w%d-%d", id, next[id])))
			if dn != want {
				verdict = fmt.Sprintf("writer %d: frame out of order, duplicated or foreign: dn=%s want %s", id, dn, want)
				break
			}
			if !strings.Contains(v, "70:"+hx([]byte(payloadOf(id)))+"]") {
				verdict = fmt.Sprintf("writer %d: payload torn or foreign", id)
				break
			}
			next[id]++
		} else if strings.HasPrefix(v, "result ") {
			var tag, code int
			fmt.Sscanf(v, "result id=%d tag=%d code=%d", &id, &tag, &code)
			if stopMode && tag == 24 {
				continue // the notice of disconnection
			}
			if tag != 5 || next[id] != k {
				verdict = fmt.Sprintf("writer %d: done after %d of %d entries (tag %d)", id, next[id], k, tag)
				break
			}
			done++
		} else {
			verdict = "frame is not a well-formed LDAPMessage: " + v
			break
		}
	}
	if verdict == "ok" {
		wmu.Lock()
		for id, cnt := range wrote {
			if cnt != next[id] && !(stopMode && next[id] <= cnt) {
				verdict = fmt.Sprintf("writer %d: %d successful writes but %d frames received", id, cnt, next[id])
			}
		}
		wmu.Unlock()
	}
	cl.close()
	sut.finish()
	return verdict + "\t" + traceString(sut.tr.Snapshot(), "w.")
}

func (c05Stream) ModelLine(c Case, trace string) string { return "trace writer " + trace }

func (c05Stream) Oracle(c Case, impl string) (bool, string, string) {
	if impl == "ok" {
		return true, "", ""
	}
	if strings.HasPrefix(impl, "harness-error") {
		return true, "", "" // counted via histogram, not a property failure
	}
	key := "c05/" + strings.SplitN(impl, ":", 2)[0]
	if strings.HasPrefix(impl, "writer ") {
		key = "c05/frames"
	}
	return false, impl, key
}

func (c05Stream) Class(c Case, impl string) (string, bool) {
	p := kv(c.Line)
	return p["mode"] + "/" + strings.Fields(impl + " -")[0], impl == "ok"
}
