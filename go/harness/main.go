// Command verifharness drives the real gldap (built from /repo with -tags verif) and the
// compiled Lean model (gmodel) over the same cases and reports, per stream, disagreements
// (correspondence) and direct-oracle failures (the property itself).
package main

import (
	"encoding/json"
	"errors"
	"flag"
	"fmt"
	"os"
)

var errEOF = errors.New("EOF")

func main() {
	stream := flag.String("stream", "", "stream name")
	property := flag.String("property", "", "property id (recorded in the result)")
	seed := flag.Int64("seed", 1, "PRNG seed")
	n := flag.Int("n", 1000, "number of generated cases")
	thorough := flag.Bool("thorough", false, "thorough tier")
	gmodel := flag.String("gmodel", "/verif/lean/.lake/build/bin/gmodel", "Lean driver")
	corpus := flag.String("corpus", "", "corpus file (JSON lines), run first")
	cases := flag.String("cases", "", "run exactly these cases (replay)")
	out := flag.String("out", "", "result JSON path")
	worker := flag.Bool("worker", false, "internal: run as a case worker")
	wbin := flag.String("workerbin", "", "binary for worker subprocesses (race-enabled build)")
	flag.Parse()

	streams := map[string]Stream{
		"ber":            berStream{},
		"decode-valid":   decodeStream{"valid"},
		"decode-hostile": decodeStream{"hostile"},
	}
	registerStreams(streams)
	s, ok := streams[*stream]
	if !ok {
		fmt.Fprintln(os.Stderr, "unknown stream", *stream)
		os.Exit(2)
	}
	if *wbin != "" {
		workerBin = *wbin
	}
	if *worker {
		workerMain(s)
		return
	}
	var corp, expl []Case
	var err error
	if *corpus != "" {
		if _, e := os.Stat(*corpus); e == nil {
			if corp, err = loadCases(*corpus); err != nil {
				fmt.Fprintln(os.Stderr, err)
				os.Exit(2)
			}
		}
	}
	if *cases != "" {
		if expl, err = loadCases(*cases); err != nil {
			fmt.Fprintln(os.Stderr, err)
			os.Exit(2)
		}
		if expl == nil {
			expl = []Case{}
		}
	}
	res, err := runStream(s, *property, *seed, *n, *thorough, *gmodel, corp, expl)
	if err != nil {
		fmt.Fprintln(os.Stderr, err)
		os.Exit(2)
	}
	b, _ := json.MarshalIndent(res, "", " ")
	if *out != "" {
		if err := os.WriteFile(*out, b, 0o644); err != nil {
			fmt.Fprintln(os.Stderr, err)
			os.Exit(2)
		}
	} else {
		fmt.Println(string(b))
	}
	fmt.Fprintf(os.Stderr, "%s: %d cases, %d nontrivial, %d skipped, %d disagreements, %d oracle failures\n",
		res.Stream, res.Evaluations, res.DistinctNontrivial, res.Skipped, res.DisagreementCount, res.FailureCount)
}
