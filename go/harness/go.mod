module verifharness

go 1.20

require (
	github.com/go-asn1-ber/asn1-ber v1.5.5
	github.com/go-ldap/ldap/v3 v3.4.6
	github.com/hashicorp/go-hclog v1.6.2
	github.com/jimlambrt/gldap v0.0.0
)

require (
	github.com/Azure/go-ntlmssp v0.0.0-20221128193559-754e69321358 // indirect
	github.com/cenkalti/backoff v2.2.1+incompatible // indirect
	github.com/davecgh/go-spew v1.1.1 // indirect
	github.com/fatih/color v1.16.0 // indirect
	github.com/google/uuid v1.6.0 // indirect
	github.com/mattn/go-colorable v0.1.13 // indirect
	github.com/mattn/go-isatty v0.0.20 // indirect
	github.com/pmezard/go-difflib v1.0.0 // indirect
	github.com/stretchr/testify v1.9.0 // indirect
	golang.org/x/crypto v0.21.0 // indirect
	golang.org/x/exp v0.0.0-20240222234643-814bf88cf225 // indirect
	golang.org/x/sys v0.18.0 // indirect
	gopkg.in/yaml.v3 v3.0.1 // indirect
)

replace github.com/jimlambrt/gldap => /repo
