package main

import (
	"bufio"
	"bytes"
	"fmt"
	"hash/crc32"
	"io"
	"math/rand"
	"strconv"
	"strings"
	"sync"

	"github.com/jimlambrt/gldap"
)

// ---- stream "resp": constructors + options + setters + Write vs the Lean response model --------

type respStream struct{}

func (respStream) Name() string { return "resp" }
func (respStream) Rule() string {
	return "request id (edge-biased 0..2^31-1), constructor (general/bind/extended/searchDone/entry/modify), a random subset AND order of options (also unsupported ones), a random setter sequence, result codes 0..32767, application codes 0..30, strings empty/binary/>127/>65535 bytes, attribute maps (at most one key so that the wire order is defined) plus AddAttribute sequences, control lists of every kind on Bind/SearchDone; the response is written once at the end and, in two cases of three, also earlier (after construction / after every setter); bytes written by the last ResponseWriter.Write compared with the model's bytes; oracle: an independent strict reader recovers exactly the last values set; non-trivial = at least one option or setter, distinct by case"
}

func genAttrDesc(rng *rand.Rand) (string, string, []string) {
	name := genName(rng)
	vals := genVals(rng)
	hv := make([]string, len(vals))
	for i, v := range vals {
		hv[i] = hx([]byte(v))
		if hv[i] == "-" {
			hv[i] = hx([]byte("e"))
			vals[i] = "e"
		}
	}
	hn := hx([]byte(name))
	return hn + "=" + strings.Join(hv, ","), name, vals
}

// genRespOptsSets draws a random subset and order of constructor options and a random setter sequence for ctor.
func genRespOptsSets(rng *rand.Rand, ctor string) ([]string, []string) {
	var opts, sets []string
	no := rng.Intn(5)
	for i := 0; i < no; i++ {
		switch rng.Intn(6) {
		case 0, 1:
			opts = append(opts, fmt.Sprintf("c:%d", []int{0, 1, 32, 49, 53, 80, 4096, 32767, rng.Intn(32768)}[rng.Intn(9)]))
		case 2:
			opts = append(opts, fmt.Sprintf("a:%d", rng.Intn(31)))
		case 3:
			opts = append(opts, "d:"+hx([]byte(genStr(rng))))
		case 4:
			opts = append(opts, "m:"+hx([]byte(genStr(rng))))
		case 5:
			if rng.Intn(2) == 0 {
				opts = append(opts, "t:")
			} else {
				d, _, _ := genAttrDesc(rng)
				opts = append(opts, "t:"+d)
			}
		}
	}
	if ctor == "modify" && rng.Intn(8) != 0 {
		opts = append(opts, fmt.Sprintf("c:%d", rng.Intn(100)))
	}
	ns := rng.Intn(5)
	for i := 0; i < ns; i++ {
		switch rng.Intn(5) {
		case 0:
			sets = append(sets, fmt.Sprintf("c:%d", []int{0, 32, 49, 68, 32767, rng.Intn(32768)}[rng.Intn(6)]))
		case 1:
			sets = append(sets, "d:"+hx([]byte(genStr(rng))))
		case 2:
			sets = append(sets, "m:"+hx([]byte(genStr(rng))))
		case 3:
			if ctor == "bind" || ctor == "done" {
				k := rng.Intn(4)
				ds := make([]string, k)
				for j := range ds {
					c := genCtl(rng)
					c.ExplicitCrit = false
					if c.Kind == "str" && c.OID == "" {
						c.OID = "1.2"
					}
					ds[j] = strings.ReplaceAll(ctlDesc(c), " ", ",")
				}
				sets = append(sets, "k:"+strings.Join(ds, "/"))
			}
		case 4:
			if ctor == "entry" {
				d, _, _ := genAttrDesc(rng)
				sets = append(sets, "t:"+d)
			}
		}
	}
	return opts, sets
}

func (respStream) Generate(rng *rand.Rand, n int, thorough bool) []Case {
	ctors := []string{"general", "bind", "extended", "done", "entry", "modify"}
	var cs []Case
	for len(cs) < n {
		ctor := ctors[rng.Intn(len(ctors))]
		mid := genID(rng)
		dn := "-"
		if ctor == "entry" {
			dn = hx([]byte(genStr(rng)))
		}
		opts, sets := genRespOptsSets(rng, ctor)
		line := fmt.Sprintf("resp %s %d %s opts=%s sets=%s", ctor, mid, dn, strings.Join(opts, ";"), strings.Join(sets, ";"))
		cs = append(cs, Case{Line: line, Kind: ctor})
	}
	return cs
}

type respCase struct {
	ctor string
	mid  int64
	dn   string
	opts []string
	sets []string
}

func parseRespCase(line string) respCase {
	f := strings.Fields(line)
	rc := respCase{ctor: f[1], dn: string(unhx(f[3]))}
	rc.mid, _ = strconv.ParseInt(f[2], 10, 64)
	if o := strings.TrimPrefix(f[4], "opts="); o != "" {
		rc.opts = strings.Split(o, ";")
	}
	if s := strings.TrimPrefix(f[5], "sets="); s != "" {
		rc.sets = strings.Split(s, ";")
	}
	return rc
}

func parseAttrItem(s string) (string, []string) {
	kv := strings.SplitN(s, "=", 2)
	name := string(unhx(kv[0]))
	var vals []string
	if len(kv) == 2 && kv[1] != "" {
		for _, v := range strings.Split(kv[1], ",") {
			vals = append(vals, string(unhx(v)))
		}
	}
	return name, vals
}

// buildResponse runs the real constructors and setters; returns the response and the bytes
// ResponseWriter.Write sent for it.
func buildResponse(rc respCase) (gldap.Response, []byte, error) {
	frame := Seq(Int(2, rc.mid), C(1, 0, Int(2, 3), Oct("cn=x"), P(2, 0, []byte("pw")))).Ser()
	vc := gldap.NewVerifConn(1, frame, nil)
	req, err := vc.ReadRequest(1)
	if err != nil {
		return nil, nil, fmt.Errorf("request: %w", err)
	}
	var opts []gldap.Option
	for _, o := range rc.opts {
		kv := strings.SplitN(o, ":", 2)
		switch kv[0] {
		case "c":
			v, _ := strconv.Atoi(kv[1])
			opts = append(opts, gldap.WithResponseCode(v))
		case "a":
			v, _ := strconv.Atoi(kv[1])
			opts = append(opts, gldap.WithApplicationCode(v))
		case "d":
			opts = append(opts, gldap.WithDiagnosticMessage(string(unhx(kv[1]))))
		case "m":
			opts = append(opts, gldap.WithMatchedDN(string(unhx(kv[1]))))
		case "t":
			m := map[string][]string{}
			if kv[1] != "" {
				n, v := parseAttrItem(kv[1])
				m[n] = v
			}
			opts = append(opts, gldap.WithAttributes(m))
		}
	}
	// the options live in a slice with spare capacity, and the same constructor is first called with a proper prefix
	// of them (result discarded): a constructor must not write into its caller's slice
	if len(opts) > 0 {
		all := make([]gldap.Option, len(opts), len(opts)+4)
		copy(all, opts)
		k := int(crc32.ChecksumIEEE([]byte(rc.ctor+strings.Join(rc.opts, " ")))) % len(opts)
		switch rc.ctor {
		case "general":
			_ = req.NewResponse(all[:k]...)
		case "bind":
			_ = req.NewBindResponse(all[:k]...)
		case "extended":
			_ = req.NewExtendedResponse(all[:k]...)
		case "done":
			_ = req.NewSearchDoneResponse(all[:k]...)
		case "entry":
			_ = req.NewSearchResponseEntry(rc.dn, all[:k]...)
		case "modify":
			_ = req.NewModifyResponse(all[:k]...)
		}
		opts = all
	}
	var resp gldap.Response
	type coder interface{ SetResultCode(int) }
	type diager interface{ SetDiagnosticMessage(string) }
	type matcher interface{ SetMatchedDN(string) }
	switch rc.ctor {
	case "general":
		resp = req.NewResponse(opts...)
	case "bind":
		resp = req.NewBindResponse(opts...)
	case "extended":
		resp = req.NewExtendedResponse(opts...)
	case "done":
		resp = req.NewSearchDoneResponse(opts...)
	case "entry":
		resp = req.NewSearchResponseEntry(rc.dn, opts...)
	case "modify":
		resp = req.NewModifyResponse(opts...)
	}
	// a response object may be written more than once; what a Write sends is the state at that moment. Depending
	// on the case the response is also written (to nowhere) right after construction, or after every setter.
	early := int(crc32.ChecksumIEEE([]byte(rc.ctor+strings.Join(rc.opts, " ")+strings.Join(rc.sets, " ")))) % 3
	writeNowhere := func() {
		if resp == nil {
			return
		}
		if w, err := gldap.VerifNewResponseWriter(bufio.NewWriter(io.Discard), &sync.Mutex{}, 1, 1); err == nil {
			_ = w.Write(resp)
		}
	}
	if early >= 1 {
		writeNowhere()
	}
	for _, s := range rc.sets {
		kv := strings.SplitN(s, ":", 2)
		switch kv[0] {
		case "c":
			v, _ := strconv.Atoi(kv[1])
			resp.(coder).SetResultCode(v)
		case "d":
			resp.(diager).SetDiagnosticMessage(string(unhx(kv[1])))
		case "m":
			resp.(matcher).SetMatchedDN(string(unhx(kv[1])))
		case "k":
			var ctls []gldap.Control
			if kv[1] != "" {
				for _, d := range strings.Split(kv[1], "/") {
					c, err := realControl(parseCtlDesc(strings.Split(d, ",")))
					if err != nil {
						return nil, nil, fmt.Errorf("control: %w", err)
					}
					ctls = append(ctls, c)
				}
			}
			switch r := resp.(type) {
			case *gldap.BindResponse:
				r.SetControls(ctls...)
			case *gldap.SearchResponseDone:
				r.SetControls(ctls...)
			}
		case "t":
			if r, ok := resp.(*gldap.SearchResponseEntry); ok {
				n, v := parseAttrItem(kv[1])
				r.AddAttribute(n, v)
			}
		}
		if early == 2 {
			writeNowhere()
		}
	}
	var out bytes.Buffer
	bw := bufio.NewWriter(&out)
	w, err := gldap.VerifNewResponseWriter(bw, &sync.Mutex{}, 1, 1)
	if err != nil {
		return nil, nil, err
	}
	if err := w.Write(resp); err != nil {
		return nil, nil, err
	}
	return resp, out.Bytes(), nil
}

func (respStream) Impl(c Case) string {
	_, b, err := buildResponse(parseRespCase(c.Line))
	if err != nil {
		return "err"
	}
	return hx(b)
}

// ---- the independent strict reader (own DER parser, RFC 4511 shapes only) ----------------------

type tlv struct {
	cls, tag int
	cons     bool
	content  []byte
	kids     []*tlv
}

func parseTLV(b []byte) (*tlv, []byte, bool) {
	if len(b) < 2 {
		return nil, nil, false
	}
	t := &tlv{cls: int(b[0] >> 6), cons: b[0]&0x20 != 0, tag: int(b[0] & 0x1f)}
	if t.tag == 31 {
		return nil, nil, false
	}
	n := int(b[1])
	rest := b[2:]
	if n >= 0x80 {
		k := n & 0x7f
		if k == 0 || k > 4 || len(rest) < k {
			return nil, nil, false
		}
		n = 0
		for i := 0; i < k; i++ {
			n = n<<8 | int(rest[i])
		}
		rest = rest[k:]
	}
	if len(rest) < n {
		return nil, nil, false
	}
	t.content = rest[:n]
	if t.cons {
		body := t.content
		for len(body) > 0 {
			k, r, ok := parseTLV(body)
			if !ok {
				return nil, nil, false
			}
			t.kids = append(t.kids, k)
			body = r
		}
	}
	return t, rest[n:], true
}

func tlvInt(t *tlv, tag int) (int64, bool) {
	if t.cls != 0 || t.cons || t.tag != tag || len(t.content) == 0 || len(t.content) > 8 {
		return 0, false
	}
	v := int64(int8(t.content[0]))
	for _, b := range t.content[1:] {
		v = v<<8 | int64(b)
	}
	return v, true
}

func tlvOctet(t *tlv) (string, bool) {
	if t.cls != 0 || t.cons || t.tag != 4 {
		return "", false
	}
	return string(t.content), true
}

// strictView renders what a strict client learns from one response frame.
func strictView(b []byte) string {
	t, rest, ok := parseTLV(b)
	if !ok || len(rest) != 0 || t.cls != 0 || !t.cons || t.tag != 16 || len(t.kids) < 2 || len(t.kids) > 3 {
		return "malformed"
	}
	id, ok := tlvInt(t.kids[0], 2)
	if !ok {
		return "malformed-id"
	}
	op := t.kids[1]
	if op.cls != 1 || !op.cons {
		return "malformed-op"
	}
	if op.tag == 4 && len(op.kids) == 2 && op.kids[1].cons {
		dn, ok := tlvOctet(op.kids[0])
		if !ok || op.kids[1].cls != 0 || op.kids[1].tag != 16 || len(t.kids) != 2 {
			return "malformed-entry"
		}
		var parts []string
		for _, a := range op.kids[1].kids {
			if a.cls != 0 || !a.cons || a.tag != 16 || len(a.kids) != 2 {
				return "malformed-attr"
			}
			name, ok := tlvOctet(a.kids[0])
			if !ok || a.kids[1].cls != 0 || !a.kids[1].cons || a.kids[1].tag != 17 {
				return "malformed-attr"
			}
			var vals []string
			for _, v := range a.kids[1].kids {
				s, ok := tlvOctet(v)
				if !ok {
					return "malformed-value"
				}
				vals = append(vals, s)
			}
			parts = append(parts, hx([]byte(name))+":"+hexList(vals))
		}
		return fmt.Sprintf("entry id=%d dn=%s attrs=[%s]", id, hx([]byte(dn)), strings.Join(parts, ";"))
	}
	if len(op.kids) != 3 {
		return "malformed-result"
	}
	code, ok1 := tlvInt(op.kids[0], 10)
	matched, ok2 := tlvOctet(op.kids[1])
	diag, ok3 := tlvOctet(op.kids[2])
	if !ok1 || !ok2 || !ok3 {
		return "malformed-result"
	}
	ctrls := "[]"
	if len(t.kids) == 3 {
		cp := t.kids[2]
		if cp.cls != 2 || !cp.cons || cp.tag != 0 {
			return "malformed-controls"
		}
		var cs []string
		for _, c := range cp.kids {
			cs = append(cs, strictCtl(c))
		}
		ctrls = "[" + strings.Join(cs, ";") + "]"
	}
	return fmt.Sprintf("result id=%d tag=%d code=%d matched=%s diag=%s ctrls=%s", id, op.tag, code, hx([]byte(matched)), hx([]byte(diag)), ctrls)
}

// strictCtl reads one control per RFC 4511 4.1.11 and the typed values per their RFCs.
func strictCtl(c *tlv) string {
	if c.cls != 0 || !c.cons || c.tag != 16 || len(c.kids) < 1 || len(c.kids) > 3 {
		return "malformed"
	}
	oid, ok := tlvOctet(c.kids[0])
	if !ok {
		return "malformed"
	}
	crit := false
	var val *string
	i := 1
	if i < len(c.kids) && c.kids[i].cls == 0 && !c.kids[i].cons && c.kids[i].tag == 1 && len(c.kids[i].content) == 1 {
		crit = c.kids[i].content[0] != 0
		i++
	}
	if i < len(c.kids) {
		v, ok := tlvOctet(c.kids[i])
		if !ok {
			return "malformed"
		}
		val = &v
		i++
	}
	if i != len(c.kids) {
		return "malformed"
	}
	switch oid {
	case oidDsaIT:
		return fmt.Sprintf("dsait(%s)", b2s(crit))
	case oidPaging:
		if val == nil {
			return "malformed"
		}
		s, rest, ok := parseTLV([]byte(*val))
		if !ok || len(rest) != 0 || s.tag != 16 || len(s.kids) != 2 {
			return "malformed"
		}
		sz, ok1 := tlvInt(s.kids[0], 2)
		ck, ok2 := tlvOctet(s.kids[1])
		if !ok1 || !ok2 {
			return "malformed"
		}
		return fmt.Sprintf("paging(%d,%s)", sz, hx([]byte(ck)))
	case oidBehera:
		e, g, er := int64(-1), int64(-1), int64(-1)
		if val != nil {
			s, rest, ok := parseTLV([]byte(*val))
			if !ok || len(rest) != 0 || s.tag != 16 {
				return "malformed"
			}
			for _, k := range s.kids {
				switch {
				case k.cls == 2 && k.cons && k.tag == 0 && len(k.kids) == 1:
					w := k.kids[0]
					v := int64(0)
					for _, b := range w.content {
						v = v<<8 | int64(b)
					}
					if w.tag == 0 {
						e = v
					} else if w.tag == 1 {
						g = v
					}
				case k.cls == 2 && !k.cons && k.tag == 1 && len(k.content) == 1:
					er = int64(k.content[0])
				default:
					return "malformed"
				}
			}
		}
		return fmt.Sprintf("behera(%d,%d,%d)", e, g, er)
	case oidVChuMust:
		return "vchumust"
	case oidVChuWarn:
		if val == nil {
			return "malformed"
		}
		v, err := strconv.ParseInt(*val, 10, 64)
		if err != nil {
			return "malformed"
		}
		return fmt.Sprintf("vchuwarn(%d)", v)
	case oidMsNotif:
		return "msnotif"
	case oidMsShow:
		return "msshowdel"
	case oidMsTTL:
		return "mslinkttl"
	}
	v := ""
	if val != nil {
		v = *val
	}
	return fmt.Sprintf("str(%s,%s,%s)", hx([]byte(oid)), b2s(crit), hx([]byte(v)))
}

// expectedView computes, independently of gldap, what the client must see: the last value
// set per field, the constructor's tag, the request's message id.
func expectedView(rc respCase) string {
	code, app := 0, 24
	matched, diag := "", ""
	switch rc.ctor {
	case "general", "modify":
		code, matched, diag = 53, "Unused", "Unused"
	}
	tag := map[string]int{"general": 24, "bind": 1, "extended": 24, "done": 5, "entry": 4, "modify": 7}[rc.ctor]
	var attrs []string
	for _, o := range rc.opts {
		kv := strings.SplitN(o, ":", 2)
		switch kv[0] {
		case "c":
			code, _ = strconv.Atoi(kv[1])
		case "a":
			app, _ = strconv.Atoi(kv[1])
			if rc.ctor == "general" {
				tag = app
			}
		case "d":
			if rc.ctor == "general" || rc.ctor == "modify" {
				diag = string(unhx(kv[1]))
			}
		case "m":
			if rc.ctor == "general" || rc.ctor == "modify" {
				matched = string(unhx(kv[1]))
			}
		case "t":
			attrs = nil
			if kv[1] != "" {
				n, v := parseAttrItem(kv[1])
				attrs = []string{hx([]byte(n)) + ":" + hexList(v)}
			}
		}
	}
	ctrls := "[]"
	for _, s := range rc.sets {
		kv := strings.SplitN(s, ":", 2)
		switch kv[0] {
		case "c":
			code, _ = strconv.Atoi(kv[1])
		case "d":
			diag = string(unhx(kv[1]))
		case "m":
			matched = string(unhx(kv[1]))
		case "k":
			var cs []string
			if kv[1] != "" {
				for _, d := range strings.Split(kv[1], "/") {
					cs = append(cs, parseCtlDesc(strings.Split(d, ",")).Render())
				}
			}
			ctrls = "[" + strings.Join(cs, ";") + "]"
		case "t":
			n, v := parseAttrItem(kv[1])
			attrs = append(attrs, hx([]byte(n))+":"+hexList(v))
		}
	}
	if rc.ctor == "entry" {
		return fmt.Sprintf("entry id=%d dn=%s attrs=[%s]", rc.mid, hx([]byte(rc.dn)), strings.Join(attrs, ";"))
	}
	return fmt.Sprintf("result id=%d tag=%d code=%d matched=%s diag=%s ctrls=%s", rc.mid, tag, code, hx([]byte(matched)), hx([]byte(diag)), ctrls)
}

func (respStream) Oracle(c Case, impl string) (bool, string, string) {
	if impl == "panic" {
		return false, "constructor, setter or Write panicked", "panic"
	}
	if impl == "err" {
		return false, "Write failed", "resp/write-error"
	}
	rc := parseRespCase(c.Line)
	got := strictView(unhx(impl))
	want := expectedView(rc)
	if got != want {
		return false, "client reads " + clip(got) + " want " + clip(want), "resp/" + rc.ctor + "/" + strings.SplitN(firstDiff(want, got), "=", 2)[0]
	}
	return true, "", ""
}

func (respStream) Class(c Case, impl string) (string, bool) {
	rc := parseRespCase(c.Line)
	return rc.ctor, len(rc.opts)+len(rc.sets) > 0
}
