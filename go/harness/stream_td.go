package main

import (
	"fmt"
	"hash/crc32"
	"math/rand"
	"strings"

	"github.com/jimlambrt/gldap"
	"github.com/jimlambrt/gldap/testdirectory"
)

// harnessT is the TestingT the in-process directory is given.
type harnessT struct{ failed bool }

func (h *harnessT) Errorf(format string, args ...interface{}) { h.failed = true }
func (h *harnessT) FailNow()                                  { panic("testdirectory called FailNow") }
func (h *harnessT) Log(...interface{})                        {}

type tdEntry struct {
	DN    string
	Attrs []Att
}

func (e tdEntry) desc() string {
	parts := []string{hx([]byte(e.DN))}
	for _, a := range e.Attrs {
		hv := make([]string, len(a.Vals))
		for i, v := range a.Vals {
			hv[i] = hx([]byte(v))
		}
		parts = append(parts, hx([]byte(a.Type))+"="+strings.Join(hv, ","))
	}
	return strings.Join(parts, "/")
}

func parseTdEntry(s string) tdEntry {
	f := strings.Split(s, "/")
	e := tdEntry{DN: string(unhx(f[0]))}
	for _, a := range f[1:] {
		if a == "" {
			continue
		}
		n, v := parseAttrItem(a)
		e.Attrs = append(e.Attrs, Att{Type: n, Vals: v})
	}
	return e
}

func parseTdEntries(s string) []tdEntry {
	var out []tdEntry
	for _, p := range strings.Split(s, "|") {
		if p != "" {
			out = append(out, parseTdEntry(p))
		}
	}
	return out
}

// realEntry builds the gldap.Entry with attributes in the given order (not via NewEntry,
// which would sort and merge duplicate names).
func realEntry(e tdEntry) *gldap.Entry {
	out := &gldap.Entry{DN: e.DN}
	for _, a := range e.Attrs {
		out.Attributes = append(out.Attributes, gldap.NewEntryAttribute(a.Type, append([]string(nil), a.Vals...)))
	}
	return out
}

func entriesDesc(es []tdEntry) string {
	parts := make([]string, len(es))
	for i, e := range es {
		parts[i] = e.desc()
	}
	return strings.Join(parts, "|")
}

// serveOne runs one request frame through the directory's own mux and returns the frames
// written, each rendered by the strict reader.
func serveOne(d *testdirectory.Directory, frame []byte) ([]string, error) {
	mux, err := d.VerifMux()
	if err != nil {
		return nil, err
	}
	return serveOneMux(mux, frame)
}

func serveOneMux(mux *gldap.Mux, frame []byte) ([]string, error) {
	vc := gldap.NewVerifConn(1, frame, mux)
	req, err := vc.ReadRequest(1)
	if err != nil {
		return nil, err
	}
	w, err := vc.Writer(1)
	if err != nil {
		return nil, err
	}
	vc.Serve(w, req)
	var views []string
	b := vc.Out.Bytes()
	for len(b) > 0 {
		_, rest, ok := parseTLV(b)
		if !ok {
			return nil, fmt.Errorf("unparseable response stream")
		}
		views = append(views, strictView(b[:len(b)-len(rest)]))
		b = rest
	}
	return views, nil
}

// ---- stream "tdbind" ---------------------------------------------------------------------------

type tdBindStream struct{}

func (tdBindStream) Name() string { return "tdbind" }
func (tdBindStream) Rule() string {
	return "user sets of 0..5 entries over a DN pool with prefixes / extensions / case variants / duplicates, with and without password attributes (also several, empty, multi-valued), bind DNs from the same pool, passwords from the users' values plus near misses and the empty password, both settings of AllowAnonymousBind, configured either at construction or (every second case) through SetUsers / SetAllowAnonymousBind after the handlers were registered; served in-process through the directory's own mux and bind handler; oracle: the three-line reference predicate; non-trivial = at least one user with the bind DN, distinct by case"
}

var tdDNs = []string{"cn=alice,ou=people,dc=example,dc=org", "cn=alice,ou=people,dc=example,dc=org ", "cn=alice", "cn=alic", "CN=ALICE,ou=people,dc=example,dc=org",
	"cn=bob,ou=people,dc=example,dc=org", "", "cn=eve,ou=people,dc=example,dc=org"}
var tdPws = []string{"password", "passwor", "password1", "", "Password", "p", "\x00", "s3cr3t:hunter2", "a|b c/d\x00e,f=g",
	// values that look like the storage schemes of other directories (a password is the string it is), and their preimage
	"hunter2", "{CLEARTEXT}hunter2", "{cleartext}hunter2", "{SHA256}9S+9MrKzuG/4jvbEkGKChfSCrxXdyylUH5S89Saj9sc=", "{SHA}87u9ZqY9S/F0eUBXjsPQEDUw4h0=", tdLong, tdLong[:128] + "X" + tdLong[129:], tdLong[:199] + "X", tdLong[:150] + "X" + tdLong[151:]}

// passwords longer than any fixed-size buffer one might compare them in, differing only far from their beginning
var tdLong = strings.Repeat("0123456789abcdef", 12) + "01234567"

func genTdUsers(rng *rand.Rand) []tdEntry {
	n := rng.Intn(6)
	us := make([]tdEntry, n)
	for i := range us {
		e := tdEntry{DN: tdDNs[rng.Intn(len(tdDNs))]}
		na := rng.Intn(4)
		for j := 0; j < na; j++ {
			name := []string{"password", "password", "Password", "cn", "mail", "passwor"}[rng.Intn(6)]
			nv := rng.Intn(3)
			var vals []string
			for k := 0; k < nv; k++ {
				vals = append(vals, tdPws[rng.Intn(len(tdPws))])
			}
			e.Attrs = append(e.Attrs, Att{Type: name, Vals: vals})
		}
		us[i] = e
	}
	return us
}

func (tdBindStream) Generate(rng *rand.Rand, n int, thorough bool) []Case {
	var cs []Case
	for len(cs) < n {
		us := genTdUsers(rng)
		dn := tdDNs[rng.Intn(len(tdDNs))]
		pw := tdPws[rng.Intn(len(tdPws))]
		if len(us) > 0 && rng.Intn(10) < 7 {
			u := us[rng.Intn(len(us))]
			dn = u.DN
			if rng.Intn(2) == 0 {
				for _, a := range u.Attrs {
					if a.Type == "password" && len(a.Vals) > 0 {
						pw = a.Vals[rng.Intn(len(a.Vals))]
						break
					}
				}
			}
		}
		if len(us) > 0 && rng.Intn(6) == 0 {
			// the right credentials of a user, cut at another place: a piece of the password (up to one of its
			// punctuation bytes, or just k bytes) presented as the tail of the bind DN, the rest as the password
			u := us[rng.Intn(len(us))]
			for _, a := range u.Attrs {
				if a.Type != "password" || len(a.Vals) == 0 || len(a.Vals[0]) < 2 {
					continue
				}
				p0 := a.Vals[0]
				k := 1 + rng.Intn(len(p0)-1)
				dn, pw = u.DN+p0[:k], p0[k:]
				if j := strings.IndexAny(p0, ":|/, \x00="); j > 0 && j+1 < len(p0) && rng.Intn(2) == 0 {
					dn, pw = u.DN+p0[j:j+1]+p0[:j], p0[j+1:]
				}
				break
			}
		}
		anon := rng.Intn(2)
		cs = append(cs, Case{Line: fmt.Sprintf("tdbind anon=%d users=%s %s %s", anon, entriesDesc(us), hx([]byte(dn)), hx([]byte(pw))), Kind: "bind"})
	}
	return cs
}

func (tdBindStream) Impl(c Case) string {
	f := strings.Fields(c.Line)
	us := parseTdEntries(strings.TrimPrefix(f[2], "users="))
	var users []*gldap.Entry
	for _, u := range us {
		users = append(users, realEntry(u))
	}
	anon := f[1] == "anon=1"
	// half of the cases configure the directory only after its handlers have been registered (as a test does
	// that calls SetUsers / SetAllowAnonymousBind on a running directory): the starting values are the opposite
	late := crc32.ChecksumIEEE([]byte(c.Line))&1 == 1
	def := &testdirectory.Defaults{Users: users, AllowAnonymousBind: anon, UserDN: testdirectory.DefaultUserDN, GroupDN: testdirectory.DefaultGroupDN}
	if late {
		def.Users, def.AllowAnonymousBind = nil, !anon
	}
	d := testdirectory.VerifNewDirectory(&harnessT{}, def)
	mux, err := d.VerifMux()
	if err != nil {
		return "err mux"
	}
	if late {
		d.SetAllowAnonymousBind(anon)
		d.SetUsers(users...)
	}
	frame := Seq(Int(2, 9), C(1, 0, Int(2, 3), Oct(string(unhx(f[3]))), P(2, 0, unhx(f[4])))).Ser()
	views, err := serveOneMux(mux, frame)
	if err != nil || len(views) != 1 {
		return fmt.Sprintf("err views=%d", len(views))
	}
	var id, tag, code int
	if _, err := fmt.Sscanf(views[0], "result id=%d tag=%d code=%d", &id, &tag, &code); err != nil || id != 9 || tag != 1 {
		return "bad-response " + views[0]
	}
	return fmt.Sprintf("code=%d", code)
}

func (tdBindStream) Oracle(c Case, impl string) (bool, string, string) {
	if impl == "panic" {
		return false, "bind handler panicked", "panic"
	}
	f := strings.Fields(c.Line)
	us := parseTdEntries(strings.TrimPrefix(f[2], "users="))
	dn, pw := string(unhx(f[3])), string(unhx(f[4]))
	ok := pw == "" && f[1] == "anon=1"
	for _, u := range us {
		if u.DN != dn {
			continue
		}
		for _, a := range u.Attrs {
			if a.Type == "password" {
				if len(a.Vals) > 0 && a.Vals[0] == pw {
					ok = true
				}
				break
			}
		}
	}
	want := "code=49"
	if ok {
		want = "code=0"
	}
	if impl != want {
		return false, "bind answered " + impl + " want " + want, "tdbind/" + want
	}
	return true, "", ""
}

func (tdBindStream) Class(c Case, impl string) (string, bool) {
	f := strings.Fields(c.Line)
	us := parseTdEntries(strings.TrimPrefix(f[2], "users="))
	dn := string(unhx(f[3]))
	for _, u := range us {
		if u.DN == dn {
			return impl + "/dn-present", true
		}
	}
	return impl + "/dn-absent", false
}

// ---- stream "tdbindwire": the directory's answer to a stream of binds, byte for byte ---------------------------

type tdBindWireStream struct{}

func (tdBindWireStream) Name() string { return "tdbindwire" }
func (tdBindWireStream) Rule() string {
	return "user sets as in tdbind; 1..3 simple binds (random message ids, DNs and passwords from the users' values and near misses, request controls on some) sent as one stream to the directory's own mux, with and without response controls configured through SetControls; the bytes written are compared with the Lean session model instantiated with the directory's bind script; oracle: each frame is a BindResponse with its request's id, success iff the credentials are right, carrying the directory's controls exactly after a password match; non-trivial = at least one user with a bind DN, distinct by case"
}

func (tdBindWireStream) Generate(rng *rand.Rand, n int, thorough bool) []Case {
	var cs []Case
	for len(cs) < n {
		us := genTdUsers(rng)
		nb := 1 + rng.Intn(3)
		var in []byte
		var exp []string
		anon, ctl := rng.Intn(2), rng.Intn(2)
		nontrivial := false
		for i := 0; i < nb; i++ {
			dn := tdDNs[rng.Intn(len(tdDNs))]
			pw := tdPws[rng.Intn(len(tdPws))]
			if len(us) > 0 && rng.Intn(10) < 7 {
				u := us[rng.Intn(len(us))]
				dn = u.DN
				if rng.Intn(2) == 0 {
					for _, a := range u.Attrs {
						if a.Type == "password" && len(a.Vals) > 0 {
							pw = a.Vals[rng.Intn(len(a.Vals))]
							break
						}
					}
				}
			}
			r := Req{Kind: "bind", ID: genID(rng), DN: dn, Pass: pw}
			if rng.Intn(4) == 0 {
				r.Ctls = genCtls(rng)
			}
			nd, err := r.Node()
			if err != nil {
				continue
			}
			in = append(in, nd.Ser()...)
			ok, byPw := pw == "" && anon == 1, false
			if !ok {
				for _, u := range us {
					if u.DN != dn {
						continue
					}
					nontrivial = true
					for _, a := range u.Attrs {
						if a.Type == "password" {
							if len(a.Vals) > 0 && a.Vals[0] == pw {
								ok, byPw = true, true
							}
							break
						}
					}
				}
			}
			code, ctrls := 49, "[]"
			if ok {
				code = 0
				if byPw && ctl == 1 {
					ctrls = "[" + Ctl{Kind: "str", OID: "1.2.3.4", Value: "v"}.Render() + "]"
				}
			}
			exp = append(exp, fmt.Sprintf("result id=%d tag=1 code=%d matched=- diag=- ctrls=%s", r.ID, code, ctrls))
		}
		if len(in) == 0 {
			continue
		}
		kind := "dn-absent"
		if nontrivial {
			kind = "dn-present"
		}
		cs = append(cs, Case{Line: fmt.Sprintf("tdbindwire anon=%d ctl=%d users=%s in=%s", anon, ctl, entriesDesc(us), hx(in)), Expect: strings.Join(exp, "|"), Kind: kind})
	}
	return cs
}

func (tdBindWireStream) Impl(c Case) string {
	f := strings.Fields(c.Line)
	us := parseTdEntries(strings.TrimPrefix(f[3], "users="))
	var users []*gldap.Entry
	for _, u := range us {
		users = append(users, realEntry(u))
	}
	d := testdirectory.VerifNewDirectory(&harnessT{}, &testdirectory.Defaults{Users: users, AllowAnonymousBind: f[1] == "anon=1",
		UserDN: testdirectory.DefaultUserDN, GroupDN: testdirectory.DefaultGroupDN})
	if f[2] == "ctl=1" {
		ctl, err := gldap.NewControlString("1.2.3.4", gldap.WithControlValue("v"))
		if err != nil {
			return "err control"
		}
		d.SetControls(ctl)
	}
	mux, err := d.VerifMux()
	if err != nil {
		return "err mux"
	}
	in := unhx(strings.TrimPrefix(f[4], "in="))
	var frames []string
	for len(in) > 0 {
		n, ok := frameLen(in)
		if !ok || n > len(in) {
			return "err input"
		}
		vc := gldap.NewVerifConn(1, in[:n], mux)
		req, err := vc.ReadRequest(1)
		if err != nil {
			return "err decode"
		}
		w, err := vc.Writer(1)
		if err != nil {
			return "err writer"
		}
		vc.Serve(w, req)
		out := vc.Out.Bytes()
		for len(out) > 0 {
			k, ok := frameLen(out)
			if !ok || k > len(out) {
				frames = append(frames, "torn:"+hx(out))
				break
			}
			frames = append(frames, hx(out[:k]))
			out = out[k:]
		}
		in = in[n:]
	}
	return "frames=" + strings.Join(frames, ",")
}

func (tdBindWireStream) Oracle(c Case, impl string) (bool, string, string) {
	if impl == "panic" {
		return false, "bind handler panicked", "panic"
	}
	if !strings.HasPrefix(impl, "frames=") {
		return false, impl, "tdbindwire/" + strings.Join(strings.Fields(impl), "-")
	}
	var views []string
	if fs := strings.TrimPrefix(impl, "frames="); fs != "" {
		for _, h := range strings.Split(fs, ",") {
			if strings.HasPrefix(h, "torn:") {
				views = append(views, h)
			} else {
				views = append(views, strictView(unhx(h)))
			}
		}
	}
	got := strings.Join(views, "|")
	if got != c.Expect {
		return false, "the client reads " + clip(got) + " want " + clip(c.Expect), "tdbindwire/" + strings.SplitN(firstDiff(c.Expect, got), "=", 2)[0]
	}
	return true, "", ""
}

func (tdBindWireStream) Class(c Case, impl string) (string, bool) {
	return c.Kind, c.Kind == "dn-present"
}
