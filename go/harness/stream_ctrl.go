package main

import (
	"fmt"
	"hash/crc32"
	"math/rand"
	"strconv"
	"strings"
	"sync"
	"sync/atomic"

	ber "github.com/go-asn1-ber/asn1-ber"
	"github.com/go-ldap/ldap/v3"
	"github.com/jimlambrt/gldap"
)

// ---- stream "ctrl-encode": Control.Encode() bytes vs the Lean encodeControl; oracle: gldap's
// request decoder and go-ldap's client decoder both recover the same fields --------------------

type ctrlEncodeStream struct{}

func (ctrlEncodeStream) Name() string { return "ctrl-encode" }
func (ctrlEncodeStream) Rule() string {
	return "control values of every exported type built through the public constructors (page sizes over the uint32 range, cookies of any content incl. long, grace/expire 0..2^31-1 and beyond, errors 0..8, any int64 VChu expiry, arbitrary OIDs/values, both criticalities); compared byte-for-byte with the model encoder; decoded back by gldap (inside a bind request and on Bind/SearchDone responses) and by go-ldap's DecodeControl; non-trivial = carries a value or criticality, distinct by description"
}

// ctlDesc is the shared textual description "<kind> <fields...>".
func ctlDesc(c Ctl) string {
	switch c.Kind {
	case "str":
		return fmt.Sprintf("str %s %s %s", hx([]byte(c.OID)), b2s(c.Crit), hx([]byte(c.Value)))
	case "dsait":
		return "dsait " + b2s(c.Crit)
	case "paging":
		return fmt.Sprintf("paging %d %s", c.Size, hx(c.Cookie))
	case "behera":
		return fmt.Sprintf("behera %d %d %d", c.Expire, c.Grace, c.Error)
	case "vchuwarn":
		return fmt.Sprintf("vchuwarn %d", c.Expire)
	}
	return c.Kind
}

func parseCtlDesc(f []string) Ctl {
	c := Ctl{Kind: f[0], Expire: -1, Grace: -1, Error: -1}
	switch f[0] {
	case "str":
		c.OID = string(unhx(f[1]))
		c.Crit = f[2] == "1"
		c.Value = string(unhx(f[3]))
	case "dsait":
		c.Crit = f[1] == "1"
	case "paging":
		v, _ := strconv.ParseUint(f[1], 10, 32)
		c.Size = uint32(v)
		c.Cookie = unhx(f[2])
	case "behera":
		c.Expire, _ = strconv.ParseInt(f[1], 10, 64)
		c.Grace, _ = strconv.ParseInt(f[2], 10, 64)
		c.Error, _ = strconv.ParseInt(f[3], 10, 64)
	case "vchuwarn":
		c.Expire, _ = strconv.ParseInt(f[1], 10, 64)
	}
	return c
}

// realControl builds the gldap control through the public API.
func realControl(c Ctl) (gldap.Control, error) {
	switch c.Kind {
	case "str":
		return gldap.NewControlString(c.OID, gldap.WithCriticality(c.Crit), gldap.WithControlValue(c.Value))
	case "dsait":
		return gldap.NewControlManageDsaIT(gldap.WithCriticality(c.Crit))
	case "paging":
		p, err := gldap.NewControlPaging(c.Size)
		if err != nil {
			return nil, err
		}
		p.SetCookie(c.Cookie)
		return p, nil
	case "behera":
		var opts []gldap.Option
		if c.Grace != -1 {
			opts = append(opts, gldap.WithGraceAuthNsRemaining(uint(c.Grace)))
		}
		if c.Expire != -1 {
			opts = append(opts, gldap.WithSecondsBeforeExpiration(uint(c.Expire)))
		}
		if c.Error != -1 {
			opts = append(opts, gldap.WithErrorCode(uint(c.Error)))
		}
		return gldap.NewControlBeheraPasswordPolicy(opts...)
	case "vchumust":
		return &gldap.ControlVChuPasswordMustChange{MustChange: true}, nil
	case "vchuwarn":
		return &gldap.ControlVChuPasswordWarning{Expire: c.Expire}, nil
	case "msnotif":
		return gldap.NewControlMicrosoftNotification()
	case "msshowdel":
		return gldap.NewControlMicrosoftShowDeleted()
	case "mslinkttl":
		return gldap.NewControlMicrosoftServerLinkTTL()
	}
	return nil, fmt.Errorf("kind %s", c.Kind)
}

func (ctrlEncodeStream) Generate(rng *rand.Rand, n int, thorough bool) []Case {
	var cs []Case
	for len(cs) < n {
		c := genCtl(rng)
		c.ExplicitCrit = false
		if c.Kind == "str" && c.OID == "" {
			continue
		}
		cs = append(cs, Case{Line: "ctrlenc " + ctlDesc(c), Kind: c.Kind, Expect: c.Render()})
	}
	return cs
}

func (ctrlEncodeStream) Impl(c Case) string {
	ctl, err := realControl(parseCtlDesc(strings.Fields(c.Line)[1:]))
	if err != nil {
		return "err"
	}
	return hx(ctl.Encode().Bytes())
}

// renderLdapControl renders go-ldap's decoded control in the shared format.
func renderLdapControl(c ldap.Control) string {
	switch v := c.(type) {
	case *ldap.ControlString:
		return fmt.Sprintf("str(%s,%s,%s)", hx([]byte(v.ControlType)), b2s(v.Criticality), hx([]byte(v.ControlValue)))
	case *ldap.ControlManageDsaIT:
		return fmt.Sprintf("dsait(%s)", b2s(v.Criticality))
	case *ldap.ControlPaging:
		return fmt.Sprintf("paging(%d,%s)", v.PagingSize, hx(v.Cookie))
	case *ldap.ControlBeheraPasswordPolicy:
		return fmt.Sprintf("behera(%d,%d,%d)", v.Expire, v.Grace, v.Error)
	case *ldap.ControlVChuPasswordMustChange:
		return "vchumust"
	case *ldap.ControlVChuPasswordWarning:
		return fmt.Sprintf("vchuwarn(%d)", v.Expire)
	case *ldap.ControlMicrosoftNotification:
		return "msnotif"
	case *ldap.ControlMicrosoftShowDeleted:
		return "msshowdel"
	case *ldap.ControlMicrosoftServerLinkTTL:
		return "mslinkttl"
	}
	return fmt.Sprintf("unknown(%T)", c)
}

func (ctrlEncodeStream) Oracle(c Case, impl string) (bool, string, string) {
	if impl == "panic" {
		return false, "control constructor or Encode panicked", "panic"
	}
	if impl == "err" {
		return false, "constructor rejected an in-range control", c.Kind + "/ctor"
	}
	ctl := parseCtlDesc(strings.Fields(c.Line)[1:])
	enc := unhx(impl)
	// request direction: attached to a request of every operation that carries controls (one per case, chosen by
	// the case), through gldap's own read path
	reqs := []Req{
		{Kind: "bind", ID: 5, DN: "cn=x", Pass: "pw"},
		{Kind: "search", ID: 5, DN: "dc=x", Scope: 2, Filter: "(cn=x)"},
		{Kind: "search", ID: 5, DN: "dc=x", Scope: 1, Filter: "(cn=x)", Attrs: []string{"cn", "mail"}},
		{Kind: "modify", ID: 5, DN: "cn=x", Changes: []Chg{{Op: 1, Type: "mail"}}},
		{Kind: "add", ID: 5, DN: "cn=x", AddAttrs: []Att{{Type: "cn", Vals: []string{"x"}}}},
		{Kind: "delete", ID: 5, DN: "cn=x"},
		// legal but unusual shapes: nothing to modify, nothing to add - the controls still belong to the request
		{Kind: "modify", ID: 5, DN: "cn=x"},
		{Kind: "add", ID: 5, DN: "cn=x"},
	}
	rq := reqs[int(crc32.ChecksumIEEE([]byte(c.Line)))%len(reqs)]
	base, err := rq.Node()
	if err != nil {
		return false, "cannot build request", c.Kind + "/harness"
	}
	// splice the encoded control in as raw bytes: [0] { enc } - alone, twice (two controls sharing an OID), or twice
	// around another control: any number and order of controls on one message must arrive, in order
	variant := (crc32.ChecksumIEEE([]byte(c.Line)) >> 3) & 3
	list, wantList := enc, c.Expect
	other := Ctl{Kind: "vchumust"}
	switch variant {
	case 1:
		list = append(append([]byte(nil), enc...), enc...)
		wantList = c.Expect + ";" + c.Expect
	case 2:
		list = append(append(append([]byte(nil), enc...), other.Node().Ser()...), enc...)
		wantList = c.Expect + ";" + other.Render() + ";" + c.Expect
	}
	ctx := append(encIdent(2, true, 0), encLength(len(list), 0)...)
	ctx = append(ctx, list...)
	body := append(base.Kids[0].Ser(), base.Kids[1].Ser()...)
	body = append(body, ctx...)
	full := append(encIdent(0, true, 16), encLength(len(body), 0)...)
	full = append(full, body...)
	got := safely(func() string { return decodeFrame(full) })
	rq.Ctls = []Ctl{ctl}
	rq.Ctls[0].ExplicitCrit = false
	want := strings.Replace(rq.Expected("(cn=x)"), "ctrls=["+ctl.Render()+"]", "ctrls=["+wantList+"]", 1)
	if got != want {
		return false, "gldap's request decoder recovers " + got + " want " + want, c.Kind + "/request-direction"
	}
	// response direction: on Bind and SearchDone responses, read by go-ldap's client code
	real, _ := realControl(ctl)
	vc := gldap.NewVerifConn(1, full, nil)
	req, err := vc.ReadRequest(1)
	if err != nil {
		return false, "cannot build request", c.Kind + "/harness"
	}
	// the controls travel with whatever result the response carries (success, invalidCredentials, ...)
	rcode := []int{0, 49, 53, 19, 32, 0}[int(crc32.ChecksumIEEE([]byte(c.Line)))%6]
	br := req.NewBindResponse(gldap.WithResponseCode(rcode))
	br.SetControls(real, real)
	sd := req.NewSearchDoneResponse(gldap.WithResponseCode(rcode))
	sd.SetControls(real)
	for i, rb := range [][]byte{gldap.VerifResponseBytes(br), gldap.VerifResponseBytes(sd)} {
		p, err := ber.DecodePacketErr(rb)
		if err != nil || len(p.Children) != 3 {
			return false, "response with controls is not a 3-element LDAPMessage", c.Kind + "/response-shape"
		}
		if want := 2 - i; len(p.Children[2].Children) != want {
			// the bind response carries the control twice: every control set must arrive, in order, also when
			// several share an OID
			return false, fmt.Sprintf("%d controls set on the response, %d on the wire", want, len(p.Children[2].Children)), c.Kind + "/response-count"
		}
		for _, child := range p.Children[2].Children {
			if ctl.Kind == "behera" && ctl.Expire == -1 && ctl.Grace == -1 && ctl.Error == -1 {
				// go-ldap v3.4.6 dereferences a nil value for a valueless Behera control; the
				// RFC-based reader (Lean Spec.readCtl) covers this case
				continue
			}
			out := safely(func() string {
				d, err := ldap.DecodeControl(child)
				if err != nil {
					return "err"
				}
				return renderLdapControl(d)
			})
			if out != c.Expect {
				return false, "go-ldap client recovers " + out + " want " + c.Expect, c.Kind + "/response-direction"
			}
		}
	}
	// one control object attached to responses that are encoded at the same time (a directory attaches the same
	// control objects to every response): each encoding equals the one made alone
	if crc32.ChecksumIEEE([]byte(c.Line))&7 == 0 {
		alone := gldap.VerifResponseBytes(func() gldap.Response {
			b := req.NewBindResponse(gldap.WithResponseCode(0))
			fresh, _ := realControl(ctl)
			b.SetControls(fresh)
			return b
		}())
		var bad atomic.Value
		for round := 0; round < 40 && bad.Load() == nil; round++ {
			shared, _ := realControl(ctl) // a fresh object every round: its very first encodings happen together
			start := make(chan struct{})
			var wg sync.WaitGroup
			for g := 0; g < 6; g++ {
				wg.Add(1)
				go func() {
					defer wg.Done()
					defer func() {
						if r := recover(); r != nil {
							bad.Store(fmt.Sprintf("panic: %v", r))
						}
					}()
					<-start
					for i := 0; i < 3; i++ {
						b := req.NewBindResponse(gldap.WithResponseCode(0))
						b.SetControls(shared)
						if got := gldap.VerifResponseBytes(b); string(got) != string(alone) {
							bad.Store("a response carrying a shared control object encodes differently when other responses are encoded at the same time: " + hx(got) + " want " + hx(alone))
							return
						}
					}
				}()
			}
			close(start)
			wg.Wait()
		}
		if v := bad.Load(); v != nil {
			return false, clip(v.(string)), c.Kind + "/shared-control"
		}
	}
	return true, "", ""
}

func (ctrlEncodeStream) Class(c Case, impl string) (string, bool) {
	return c.Kind, strings.Contains(c.Expect, "(")
}

// ---- stream "behera-ctor": the constructor under all uint arguments ---------------------------

type beheraStream struct{}

func (beheraStream) Name() string { return "behera-ctor" }
func (beheraStream) Rule() string {
	return "every subset of {grace, expire, error} options with uint arguments from {0,1,8,9,127,128,255,256,2^31-1,2^31,2^63-1,2^63,2^63+56,2^64-2,2^64-1,random}; exhaustive over that grid in the thorough tier; non-trivial = at least one option given, distinct by arguments"
}

var beheraGrid = []uint64{0, 1, 8, 9, 127, 128, 255, 256, 1<<31 - 1, 1 << 31, 1<<63 - 1, 1 << 63, 1<<63 + 56, 1<<63 + 255, 1<<64 - 2, 1<<64 - 1}

func (beheraStream) Generate(rng *rand.Rand, n int, thorough bool) []Case {
	var cs []Case
	pick := func() string {
		switch rng.Intn(4) {
		case 0:
			return "-"
		case 1:
			return strconv.FormatUint(rng.Uint64(), 10)
		default:
			return strconv.FormatUint(beheraGrid[rng.Intn(len(beheraGrid))], 10)
		}
	}
	if thorough {
		opts := []string{"-"}
		for _, v := range beheraGrid {
			opts = append(opts, strconv.FormatUint(v, 10))
		}
		for _, g := range opts {
			for _, e := range opts {
				for _, c := range opts {
					cs = append(cs, Case{Line: fmt.Sprintf("behera %s %s %s", g, e, c), Kind: "grid"})
				}
			}
		}
	}
	for len(cs) < n {
		cs = append(cs, Case{Line: fmt.Sprintf("behera %s %s %s", pick(), pick(), pick()), Kind: "random"})
	}
	return cs
}

func (beheraStream) Impl(c Case) string {
	f := strings.Fields(c.Line)
	var opts []gldap.Option
	if f[1] != "-" {
		v, _ := strconv.ParseUint(f[1], 10, 64)
		opts = append(opts, gldap.WithGraceAuthNsRemaining(uint(v)))
	}
	if f[2] != "-" {
		v, _ := strconv.ParseUint(f[2], 10, 64)
		opts = append(opts, gldap.WithSecondsBeforeExpiration(uint(v)))
	}
	if f[3] != "-" {
		v, _ := strconv.ParseUint(f[3], 10, 64)
		opts = append(opts, gldap.WithErrorCode(uint(v)))
	}
	ctl, err := gldap.NewControlBeheraPasswordPolicy(opts...)
	if err != nil {
		return "err"
	}
	return "ok " + renderControl(ctl)
}

func (beheraStream) Oracle(c Case, impl string) (bool, string, string) {
	if impl == "panic" {
		return false, "constructor panicked", "panic"
	}
	f := strings.Fields(c.Line)
	if impl == "err" {
		return true, "", ""
	}
	var e, g, er int64
	if _, err := fmt.Sscanf(impl, "ok behera(%d,%d,%d)", &e, &g, &er); err != nil {
		return false, "unparseable result " + impl, "behera/render"
	}
	set := 0
	for _, v := range []int64{e, g, er} {
		if v != -1 {
			set++
		}
	}
	if set > 1 {
		return false, "more than one of grace/expire/error set: " + impl, "behera/more-than-one-set"
	}
	if er > 8 || er < -1 {
		return false, "error code out of 0..8: " + impl, "behera/error-range"
	}
	if f[3] != "-" {
		v, _ := strconv.ParseUint(f[3], 10, 64)
		if v > 8 && v != 1<<64-1 {
			return false, fmt.Sprintf("error code %d above 8 accepted as %d", v, er), "behera/error-above-8-accepted"
		}
	}
	return true, "", ""
}

func (beheraStream) Class(c Case, impl string) (string, bool) {
	f := strings.Fields(c.Line)
	given := 0
	for _, x := range f[1:] {
		if x != "-" {
			given++
		}
	}
	return fmt.Sprintf("%d-options/%s", given, strings.Fields(impl)[0]), given > 0
}
