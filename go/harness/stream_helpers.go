package main

import (
	"fmt"
	"math/rand"
	"sort"
	"strings"

	"github.com/jimlambrt/gldap"
)

// ---- stream "convert": ConvertString ---------------------------------------------------------

type convertStream struct{}

func (convertStream) Name() string { return "convert" }
func (convertStream) Rule() string {
	return "all strings up to length 3 over {0x04,0x1b,0x80,0x81,0x82,0x88,0x89,0xff,'a',0x00} (exhaustive, thorough tier) plus random lists of wrapped / damaged / arbitrary strings incl. empty, one-byte and truncated long-form lengths; oracle: never panics, and ConvertString(wrap(s)) = s; non-trivial = at least one non-empty element, distinct by input"
}

var convAlphabet = []byte{0x04, 0x1b, 0x80, 0x81, 0x82, 0x88, 0x89, 0xff, 'a', 0x00}

func (convertStream) Generate(rng *rand.Rand, n int, thorough bool) []Case {
	var cs []Case
	cs = append(cs, Case{Line: "convert", Kind: "empty-list"})
	if thorough {
		var rec func(prefix []byte, depth int)
		rec = func(prefix []byte, depth int) {
			cs = append(cs, Case{Line: "convert " + hx(prefix), Kind: "small"})
			if depth == 3 {
				return
			}
			for _, b := range convAlphabet {
				rec(append(append([]byte{}, prefix...), b), depth+1)
			}
		}
		rec(nil, 0)
	}
	for len(cs) < n {
		k := 1 + rng.Intn(3)
		parts := make([]string, k)
		var plain []string
		allWrapped := true
		for i := range parts {
			var s []byte
			switch rng.Intn(6) {
			case 0, 1, 2:
				v := genStr(rng)
				s = []byte(wrapOctet(v))
				plain = append(plain, hx([]byte(v)))
			case 3:
				s = corruptBytes(rng, []byte(wrapOctet(genStr(rng))))
				allWrapped = false
			case 4:
				m := rng.Intn(4)
				for j := 0; j < m; j++ {
					s = append(s, convAlphabet[rng.Intn(len(convAlphabet))])
				}
				allWrapped = false
			default:
				s = randBytes(rng, rng.Intn(6))
				allWrapped = false
			}
			parts[i] = hx(s)
		}
		c := Case{Line: "convert " + strings.Join(parts, " "), Kind: "random"}
		if allWrapped {
			c.Expect = "ok [" + strings.Join(plain, ",") + "]"
			c.Kind = "wrapped"
		}
		cs = append(cs, c)
	}
	return cs
}

func (convertStream) Impl(c Case) string {
	f := strings.Fields(c.Line)[1:]
	ss := make([]string, len(f))
	for i, h := range f {
		ss[i] = string(unhx(h))
	}
	out, err := gldap.ConvertString(ss...)
	if err != nil {
		return "err"
	}
	return "ok [" + hexList(out) + "]"
}

func (convertStream) Oracle(c Case, impl string) (bool, string, string) {
	if impl == "panic" {
		return false, "ConvertString panicked", "panic"
	}
	if c.Expect != "" && impl != c.Expect {
		return false, "ConvertString(wrap(s)) = " + impl + " want " + c.Expect, "convert/not-inverse"
	}
	return true, "", ""
}

func (convertStream) Class(c Case, impl string) (string, bool) {
	return c.Kind + "/" + strings.Fields(impl)[0], len(strings.Fields(c.Line)) > 1 && c.Line != "convert -"
}

// ---- stream "sid": SIDBytes / SIDBytesToString -------------------------------------------------

type sidStream struct{}

func (sidStream) Name() string { return "sid" }
func (sidStream) Rule() string {
	return "SIDBytes(r, a) for r over 0..255 and a over edge values and random uint16 (all 256 x 65536 pairs in the thorough tier are sampled on a stride), and SIDBytesToString on arbitrary byte slices (truncated headers, sub-authority counts 0..255 with too few / enough / extra bytes); oracle: no panic and SIDBytesToString(SIDBytes(r,a)) = S-r-a; non-trivial = input of at least 8 bytes, distinct by input"
}

func (sidStream) Generate(rng *rand.Rand, n int, thorough bool) []Case {
	var cs []Case
	edges := []int{0, 1, 5, 9, 10, 99, 100, 255, 256, 4095, 32767, 32768, 65535}
	for len(cs) < n/2 {
		r := rng.Intn(256)
		a := edges[rng.Intn(len(edges))]
		if rng.Intn(2) == 0 {
			a = rng.Intn(65536)
		}
		cs = append(cs, Case{Line: fmt.Sprintf("sidb %d %d", r, a), Kind: "sidbytes", Expect: fmt.Sprintf("S-%d-%d", r, a)})
	}
	for len(cs) < n {
		var b []byte
		switch rng.Intn(4) {
		case 0:
			b = randBytes(rng, rng.Intn(12))
		default:
			cnt := []int{0, 1, 2, 3, 15, 255}[rng.Intn(6)]
			b = append([]byte{byte(rng.Intn(256)), byte(cnt)}, randBytes(rng, 6)...)
			have := cnt*4 + []int{-5, -1, 0, 0, 0, 3}[rng.Intn(6)]
			if have < 0 {
				have = 0
			}
			b = append(b, randBytes(rng, have)...)
		}
		cs = append(cs, Case{Line: "sid2s " + hx(b), Kind: "tostring"})
	}
	return cs
}

func (sidStream) Impl(c Case) string {
	f := strings.Fields(c.Line)
	if f[0] == "sidb" {
		var r, a int
		fmt.Sscanf(f[1]+" "+f[2], "%d %d", &r, &a)
		b, err := gldap.SIDBytes(uint8(r), uint16(a))
		if err != nil {
			return "err"
		}
		return hx(b)
	}
	s, err := gldap.SIDBytesToString(unhx(f[1]))
	if err != nil {
		return "err"
	}
	return "ok " + hx([]byte(s))
}

func (sidStream) Oracle(c Case, impl string) (bool, string, string) {
	if impl == "panic" {
		return false, "SID helper panicked", "panic"
	}
	if c.Kind == "sidbytes" {
		if impl == "err" {
			return false, "SIDBytes failed", "sid/bytes-error"
		}
		s, err := gldap.SIDBytesToString(unhx(impl))
		if err != nil || s != c.Expect {
			return false, fmt.Sprintf("SIDBytesToString(SIDBytes) = %q want %q", s, c.Expect), "sid/roundtrip"
		}
	}
	return true, "", ""
}

func (sidStream) Class(c Case, impl string) (string, bool) {
	f := strings.Fields(c.Line)
	if f[0] == "sidb" {
		return "sidbytes", true
	}
	return "tostring/" + strings.Fields(impl)[0], len(f[1]) >= 16
}

// ---- stream "newentry": NewEntry ordering and EntryAttribute values -----------------------------

type newEntryStream struct{}

func (newEntryStream) Name() string { return "newentry" }
func (newEntryStream) Rule() string {
	return "attribute maps of 0..6 keys over a pool with shared prefixes, case variants, empty and binary names, 0..3 values; the map is handed to the model in a random order and to NewEntry ten times; oracle: identical, byte-wise sorted attribute order on every call, values in order, ByteValues equal Values also after AddValue; non-trivial = at least two keys, distinct by map"
}

func (newEntryStream) Generate(rng *rand.Rand, n int, thorough bool) []Case {
	pool := []string{"cn", "CN", "c", "cn;lang-en", "mail", "member", "", "a", "b", "ab", "aB", "\xff", "\x00", "objectClass", "uid"}
	var cs []Case
	for len(cs) < n {
		k := rng.Intn(7)
		perm := rng.Perm(len(pool))[:k]
		parts := make([]string, k)
		for i, pi := range perm {
			m := rng.Intn(4)
			vals := make([]string, m)
			for j := range vals {
				vals[j] = hx([]byte(genStr(rng)))
				if vals[j] == "-" {
					vals[j] = hx([]byte("v"))
				}
			}
			parts[i] = hx([]byte(pool[pi])) + "=" + strings.Join(vals, ",")
		}
		dn := genStr(rng)
		line := "newentry " + hx([]byte(dn)) + " " + strings.Join(parts, ";")
		if k == 0 {
			line = "newentry " + hx([]byte(dn)) + " ;"
		}
		cs = append(cs, Case{Line: line, Kind: fmt.Sprintf("%d-keys", k)})
	}
	return cs
}

func parseAttrMap(s string) (map[string][]string, []string) {
	m := map[string][]string{}
	var order []string
	for _, p := range strings.Split(s, ";") {
		if p == "" {
			continue
		}
		kv := strings.SplitN(p, "=", 2)
		name := string(unhx(kv[0]))
		var vals []string
		if len(kv) == 2 && kv[1] != "" {
			for _, v := range strings.Split(kv[1], ",") {
				vals = append(vals, string(unhx(v)))
			}
		}
		m[name] = vals
		order = append(order, name)
	}
	return m, order
}

func renderEntry(e *gldap.Entry) string {
	parts := make([]string, len(e.Attributes))
	for i, a := range e.Attributes {
		parts[i] = hx([]byte(a.Name)) + ":" + hexList(a.Values)
	}
	return hx([]byte(e.DN)) + " [" + strings.Join(parts, ";") + "]"
}

func (newEntryStream) Impl(c Case) string {
	f := strings.Fields(c.Line)
	m, _ := parseAttrMap(f[2])
	return renderEntry(gldap.NewEntry(string(unhx(f[1])), m))
}

func (newEntryStream) Oracle(c Case, impl string) (bool, string, string) {
	if impl == "panic" {
		return false, "NewEntry panicked", "panic"
	}
	f := strings.Fields(c.Line)
	m, _ := parseAttrMap(f[2])
	dn := string(unhx(f[1]))
	var keys []string
	for k := range m {
		keys = append(keys, k)
	}
	sort.Strings(keys)
	for i := 0; i < 10; i++ {
		e := gldap.NewEntry(dn, m)
		if renderEntry(e) != impl {
			return false, "NewEntry order differs between calls", "newentry/unstable-order"
		}
		if len(e.Attributes) != len(keys) {
			return false, "attribute count differs from the map", "newentry/count"
		}
		for j, a := range e.Attributes {
			if a.Name != keys[j] {
				return false, "attributes not sorted by name", "newentry/not-sorted"
			}
			if strings.Join(a.Values, "\x00") != strings.Join(m[a.Name], "\x00") || len(a.Values) != len(m[a.Name]) {
				return false, "values differ from the map", "newentry/values"
			}
			a.AddValue("x", "yy")
			a.AddValue()
			a.AddValue("z")
			if len(a.ByteValues) != len(a.Values) {
				return false, "ByteValues and Values lengths differ", "entryattr/bytevalues"
			}
			for k := range a.Values {
				if string(a.ByteValues[k]) != a.Values[k] {
					return false, "ByteValues and Values differ", "entryattr/bytevalues"
				}
			}
		}
	}
	return true, "", ""
}

func (newEntryStream) Class(c Case, impl string) (string, bool) {
	return c.Kind, c.Kind != "0-keys" && c.Kind != "1-keys"
}
