package main

import (
	"bufio"
	"bytes"
	"fmt"
	"hash/crc32"
	"math/rand"
	"strings"
	"sync"

	"github.com/go-ldap/ldap/v3"
	"github.com/jimlambrt/gldap"
)

// ---- stream "mux": route tables x requests through the real Mux.serve -------------------------

type muxStream struct{}

func (muxStream) Name() string { return "mux" }
func (muxStream) Rule() string {
	return "(the table is built on a Mux from NewMux or, for every second frame, on a zero-value Mux) route tables of 0..6 registrations drawn from every route kind (bind, search with base DN / filter / scope criteria over an alphabet with case variants - ASCII, and non-ASCII ones whose two cases differ in UTF-8 length (judged by the reference oracle alone) -, extended with three names, modify, add, delete) with and without (re-registered) default and unbind routes, crossed with requests of all kinds over the same alphabet, decoded from real bytes; exhaustive over all tables of <= 2 routes x all alphabet requests in the thorough tier, random beyond; oracle: exactly one handler, the first matching one by an independent reference, or a refusal with the request's id, unwillingToPerform and the operation's response tag; non-trivial = at least one route of the request's kind, distinct by case"
}

var (
	// (the last two of each: case variants outside ASCII, where lower-casing and case folding differ - final sigma,
	// long s; the Lean model folds ASCII only and skips tables with such criteria, the reference oracle judges them)
	muxBases    = []string{"", "dc=example,dc=org", "DC=EXAMPLE,DC=ORG", "ou=people,dc=example,dc=org"}
	muxFilters  = []string{"", "(cn=alice)", "(CN=ALICE)", "(uid=bob)"}
	muxUniBases = []string{"OU=ΣΎΛΛΟΓΟΣ,dc=example,dc=org", "ou=σύλλογος,dc=example,dc=org",
		// case variants whose UTF-8 encodings differ in LENGTH (capital sharp s 3 bytes / sharp s 2, Kelvin sign 3 / k 1,
		// long s 2 / S 1); every one of them keeps a non-ASCII letter, so the ASCII-folding model skips the table
		"ou=STRA\u1e9eE,dc=example,dc=org", "ou=stra\u00dfe,dc=example,dc=org",
		"ou=\u212a\u00f6ln,dc=example,dc=org", "ou=k\u00f6ln,dc=example,dc=org",
		"ou=\u017f\u00fcd,dc=example,dc=org", "ou=S\u00fcd,dc=example,dc=org"}
	muxNames = []string{"1.3.6.1.4.1.1466.20037", "1.3.6.1.4.1.4203.1.11.3", "1.2.3"}
)

func allRouteSpecs() []string {
	out := []string{"b", "m", "a", "d", "D", "U"}
	for _, b := range muxBases {
		for _, f := range muxFilters {
			for sc := 0; sc <= 2; sc++ {
				out = append(out, fmt.Sprintf("s:%s:%s:%d", hx([]byte(b)), hx([]byte(f)), sc))
			}
		}
	}
	for _, n := range muxNames {
		out = append(out, "e:"+hx([]byte(n)))
	}
	for _, b := range muxUniBases {
		out = append(out, fmt.Sprintf("s:%s:%s:0", hx([]byte(b)), hx(nil)))
	}
	// scope criteria that are no LDAP scope at all: registration must not mind, and they simply never match
	for _, sc := range []int{3, -1, 255} {
		out = append(out, fmt.Sprintf("s:%s:%s:%d", hx(nil), hx(nil), sc))
	}
	return out
}

func allMuxRequests() []Req {
	var rs []Req
	rs = append(rs, Req{Kind: "bind", ID: 3, DN: "cn=a", Pass: "p"})
	// (anonymous and unauthenticated binds are simple binds like any other: the bind route serves them)
	rs = append(rs, Req{Kind: "bind", ID: 3, DN: "", Pass: ""}, Req{Kind: "bind", ID: 3, DN: "cn=a", Pass: ""}, Req{Kind: "bind", ID: 3, DN: "", Pass: "p"})
	for _, b := range muxBases {
		for _, f := range muxFilters[1:] {
			for sc := int64(0); sc <= 2; sc++ {
				rs = append(rs, Req{Kind: "search", ID: 4, DN: b, Scope: sc, Filter: f})
			}
		}
	}
	for _, n := range append(muxNames, "9.9") {
		rs = append(rs, Req{Kind: "extended", ID: 5, Name: n})
	}
	for _, b := range muxUniBases {
		rs = append(rs, Req{Kind: "search", ID: 4, DN: b, Scope: 2, Filter: "(cn=alice)"})
	}
	rs = append(rs, Req{Kind: "modify", ID: 6, DN: "cn=a"}, Req{Kind: "add", ID: 7, DN: "cn=a"}, Req{Kind: "delete", ID: 8, DN: "cn=a"})
	return rs
}

func muxCase(routes []string, r Req) (Case, bool) {
	root, err := r.Node()
	if err != nil {
		return Case{}, false
	}
	frame := root.Ser()
	return Case{Line: "mux routes=" + strings.Join(routes, ";") + " " + hx(frame) + " " + filterArg(frame), Kind: r.Kind}, true
}

func (muxStream) Generate(rng *rand.Rand, n int, thorough bool) []Case {
	specs := allRouteSpecs()
	reqs := allMuxRequests()
	var cs []Case
	add := func(routes []string, r Req) {
		if c, ok := muxCase(routes, r); ok {
			cs = append(cs, c)
		}
	}
	for _, r := range reqs { // the empty table
		add(nil, r)
	}
	if thorough {
		for _, a := range specs {
			for _, r := range reqs {
				add([]string{a}, r)
			}
			for _, b := range specs {
				for _, r := range reqs {
					add([]string{a, b}, r)
				}
			}
		}
	}
	byKind := map[string][]Req{}
	for _, r := range reqs {
		byKind[r.Kind] = append(byKind[r.Kind], r)
	}
	kinds := []string{"bind", "search", "extended", "modify", "add", "delete", "search", "search"}
	related := func(kind string) []string {
		var out []string
		p := map[string]string{"bind": "b", "search": "s:", "extended": "e:", "modify": "m", "add": "a", "delete": "d"}[kind]
		for _, s := range specs {
			if strings.HasPrefix(s, p) {
				out = append(out, s)
			}
		}
		return out
	}
	for len(cs) < n {
		kind := kinds[rng.Intn(len(kinds))]
		pool := byKind[kind]
		r := pool[rng.Intn(len(pool))]
		r.ID = genID(rng)
		rel := related(kind)
		k := rng.Intn(7)
		routes := make([]string, k)
		for i := range routes {
			switch x := rng.Intn(10); {
			case x < 5:
				routes[i] = rel[rng.Intn(len(rel))]
			case x < 6:
				routes[i] = "D"
			default:
				routes[i] = specs[rng.Intn(len(specs))]
			}
		}
		add(routes, r)
	}
	return cs
}

type muxRun struct {
	effects []string
	written []byte
}

// runMux builds the table through the public registration methods and calls the real serve.
func runMux(routes []string, frame []byte) (string, *muxRun) {
	mux, err := gldap.NewMux()
	if err != nil {
		return "err", nil
	}
	if crc32.ChecksumIEEE(frame)&1 == 1 {
		mux = &gldap.Mux{} // the zero value is a usable Mux too (the server's default router is one)
	}
	run := &muxRun{}
	for i, spec := range routes {
		idx := i
		h := func(w *gldap.ResponseWriter, r *gldap.Request) {
			run.effects = append(run.effects, fmt.Sprintf("invoke %d", idx))
		}
		f := strings.Split(spec, ":")
		switch f[0] {
		case "b":
			err = mux.Bind(h)
		case "s":
			var sc int
			fmt.Sscanf(f[3], "%d", &sc)
			err = mux.Search(h, gldap.WithBaseDN(string(unhx(f[1]))), gldap.WithFilter(string(unhx(f[2]))), gldap.WithScope(gldap.Scope(sc)))
		case "e":
			err = mux.ExtendedOperation(h, gldap.ExtendedOperationName(unhx(f[1])))
		case "m":
			err = mux.Modify(h)
		case "a":
			err = mux.Add(h)
		case "d":
			err = mux.Delete(h)
		case "D":
			err = mux.DefaultRoute(h)
		case "U":
			err = mux.Unbind(h)
		}
		if err != nil {
			return "err", nil
		}
	}
	vc := gldap.NewVerifConn(1, frame, mux)
	req, err := vc.ReadRequest(1)
	if err != nil {
		return "decode-err", nil
	}
	if _, ok := req.VerifMessage().(*gldap.UnbindMessage); ok {
		return "unbind", run
	}
	w, err := vc.Writer(1)
	if err != nil {
		return "err", nil
	}
	vc.Serve(w, req)
	run.written = vc.Out.Bytes()
	if len(run.written) > 0 {
		v := strictView(run.written)
		var id, tag, code int64
		if _, e := fmt.Sscanf(v, "result id=%d tag=%d code=%d", &id, &tag, &code); e == nil {
			run.effects = append(run.effects, fmt.Sprintf("refuse id=%d tag=%d code=%d", id, tag, code))
		} else {
			run.effects = append(run.effects, "wrote-unreadable:"+v)
		}
	}
	return strings.Join(run.effects, ","), run
}

func (muxStream) Impl(c Case) string {
	f := strings.Fields(c.Line)
	var routes []string
	if r := strings.TrimPrefix(f[1], "routes="); r != "" {
		routes = strings.Split(r, ";")
	}
	out, _ := runMux(routes, unhx(f[2]))
	return out
}

// refMatch is the independent reference of the route criteria (ASCII case folding).
func refMatch(spec string, r *gldap.Request) bool {
	f := strings.Split(spec, ":")
	switch m := r.VerifMessage().(type) {
	case *gldap.SimpleBindMessage:
		return f[0] == "b"
	case *gldap.SearchMessage:
		if f[0] != "s" {
			return false
		}
		base, filter := string(unhx(f[1])), string(unhx(f[2]))
		if base != "" && !strings.EqualFold(base, m.BaseDN) {
			return false
		}
		if filter != "" && !strings.EqualFold(filter, m.Filter) {
			return false
		}
		return f[3] == "0" || f[3] == fmt.Sprint(int64(m.Scope))
	case *gldap.ExtendedOperationMessage:
		return f[0] == "e" && string(unhx(f[1])) == string(m.Name)
	case *gldap.ModifyMessage:
		return f[0] == "m"
	case *gldap.AddMessage:
		return f[0] == "a"
	case *gldap.DeleteMessage:
		return f[0] == "d"
	}
	return false
}

func (muxStream) Oracle(c Case, impl string) (bool, string, string) {
	if impl == "panic" {
		return false, "registration or serve panicked", "panic"
	}
	f := strings.Fields(c.Line)
	var routes []string
	if r := strings.TrimPrefix(f[1], "routes="); r != "" {
		routes = strings.Split(r, ";")
	}
	vc := gldap.NewVerifConn(1, unhx(f[2]), nil)
	req, err := vc.ReadRequest(1)
	if err != nil || impl == "unbind" {
		return true, "", ""
	}
	want := ""
	dflt := -1
	for i, s := range routes {
		if s == "D" {
			dflt = i
		}
	}
	for i, s := range routes {
		if s != "D" && s != "U" && refMatch(s, req) {
			want = fmt.Sprintf("invoke %d", i)
			break
		}
	}
	if want == "" && dflt >= 0 {
		want = fmt.Sprintf("invoke %d", dflt)
	}
	if want == "" {
		tag := map[string]int{"bind": 1, "search": 5, "modify": 7, "add": 9, "delete": 11, "extended": 24}[c.Kind]
		want = fmt.Sprintf("refuse id=%d tag=%d code=53", req.VerifMessage().GetID(), tag)
	}
	if impl == want {
		return true, "", ""
	}
	n := len(strings.Split(impl, ","))
	if impl == "" {
		return false, "request silently dropped: no handler and no answer (want " + want + ")", "mux/dropped"
	}
	if n > 1 {
		return false, "more than one effect: " + impl, "mux/handled-twice"
	}
	if strings.HasPrefix(want, "refuse") && strings.HasPrefix(impl, "refuse") {
		return false, "built-in refusal is " + impl + " want " + want, "mux/refusal-" + c.Kind
	}
	return false, "served by " + impl + " want " + want, "mux/wrong-route"
}

func (muxStream) Class(c Case, impl string) (string, bool) {
	f := strings.Fields(c.Line)
	r := strings.TrimPrefix(f[1], "routes=")
	first := c.Kind[:1]
	if c.Kind == "search" {
		first = "s"
	}
	nontrivial := false
	for _, s := range strings.Split(r, ";") {
		if strings.HasPrefix(s, first) {
			nontrivial = true
		}
	}
	return c.Kind + "/" + strings.Fields(impl + " -")[0], nontrivial
}

// liveRefusal checks on a live server that a go-ldap client call completes (does not hang)
// when no route and no default route exist.
var _ = ldap.ScopeBaseObject
var _ = bufio.NewReader
var _ = bytes.NewReader
var _ sync.Mutex
