package main

import (
	"fmt"
	"math/rand"
	"net"
	"os"
	"runtime"
	"strings"
	"sync"
	"sync/atomic"
	"syscall"
	"time"

	"github.com/hashicorp/go-hclog"
	"github.com/jimlambrt/gldap"
)

func countFDs() int {
	es, err := os.ReadDir("/proc/self/fd")
	if err != nil {
		return -1
	}
	return len(es)
}

// ---- stream "c08": every ending x every in-flight state; also C09's id oracle -----------------------

type c08Stream struct{ prop string }

func (s c08Stream) Name() string             { return "c08" }
func (c08Stream) CaseTimeout() time.Duration { return 90 * time.Second }
func (c08Stream) Rule() string {
	return "K connections (1..12; plain / TLS / StartTLS) opened in two waves (reconnects after earlier ones closed), each tagged by the client, each with an in-flight state (no handler / two handlers blocked until after the ending / two handlers writing large results / two handlers just spawned when the ending arrives in the same TCP segment / one of two handlers panicking on its request goroutine, one ending with runtime.Goexit) and an ending (client close, RST, Unbind, malformed frame, unsupported operation, mid-frame disconnect, read timeout, recovered panic in an inline handler, server Stop, a StartTLS request followed by bytes that are no TLS handshake, a StartTLS request followed by nothing while the server is stopped), many ending concurrently; plus (from 40 cases up) one churn scenario: an early connection stays open while 70000 short connections come and go (the first half one after another, then a moment of descriptor exhaustion, the second half from 32 clients at once), then 40 more bind; oracle: exactly one OnClose per accepted connection carrying the ConnectionID its requests saw, after the exit of every handler of that connection; the client sees the socket closed, but never while handlers of that connection are still blocked; all ConnectionIDs positive, stable and pairwise distinct over the server's life; goroutine and descriptor counts return to the baseline; trace replayed through the connection automaton; non-trivial = at least one connection with handlers in flight at its ending, distinct by scenario"
}

var c08Endings = []string{"close", "rst", "unbind", "malformed", "unsupported", "midframe", "timeout", "panic", "stop", "starttlsfail", "starttlsstop"}

func (c08Stream) Generate(rng *rand.Rand, n int, thorough bool) []Case {
	var cs []Case
	if n >= 40 {
		// a long server lifetime: more accepts than fit in 16 bits while one early connection stays open
		cs = append(cs, Case{Line: fmt.Sprintf("c08 conns=70000 ending=churn inflight=none mode=plain seed=%d", rng.Intn(1<<30)), Kind: "churn"})
	}
	for len(cs) < n {
		if rng.Intn(12) == 0 {
			// what an application does with more than one server, or with a server that is running: two servers built
			// from ONE slice of options and one mux; a new router handed to a running server; Router() called while Stop
			// is waiting for a busy connection
			cs = append(cs, Case{Line: fmt.Sprintf("c08 conns=2 ending=%s inflight=none mode=plain seed=%d", []string{"twoservers", "routerswap", "stoprouter", "noonclose"}[rng.Intn(4)], rng.Intn(1<<30)), Kind: "servers"})
			continue
		}
		if rng.Intn(10) == 0 {
			// a burst of connections ending together while the OnClose callback is slow; on a TLS listener some of them
			// never complete (or never start) their handshake
			cs = append(cs, Case{Line: fmt.Sprintf("c08 conns=%d ending=burst inflight=none mode=%s seed=%d", []int{5, 8, 12}[rng.Intn(3)], []string{"plain", "tls"}[rng.Intn(2)], rng.Intn(1<<30)), Kind: "burst"})
			continue
		}
		k := []int{1, 2, 3, 6, 12}[rng.Intn(5)]
		ending := c08Endings[rng.Intn(len(c08Endings))]
		if rng.Intn(3) == 0 {
			ending = "mixed"
		}
		// (dupid: a careless client uses ONE message id for all its requests in flight, and a third one with the same id
		// is answered at once while the other two are still being handled)
		// (chatty: a client that goes on sending - a byte every 40 ms - after the request that ended its connection)
		cs = append(cs, Case{Line: fmt.Sprintf("c08 conns=%d ending=%s inflight=%s mode=%s seed=%d dupid=%d chatty=%d", k, ending,
			[]string{"none", "blocked", "writing", "racing", "panicking", "goexit"}[rng.Intn(6)], []string{"plain", "plain", "tls", "starttls"}[rng.Intn(4)], rng.Intn(1<<30), rng.Intn(3)/2, rng.Intn(3)/2), Kind: ending})
	}
	return cs
}

// churn: one connection opened first stays open while `total` short connections come and go (every 997th of them
// sends a bind); then 40 more connections bind. Every ConnectionID a request saw must be positive and pairwise
// distinct - the early connection's included - and OnClose must report every id exactly once.
func c08Churn(total int) string {
	var mu sync.Mutex
	tagConn := map[string][]int{}
	onClose := map[int]int{}
	var closed int64
	h := func(w *gldap.ResponseWriter, r *gldap.Request) {
		if m, ok := r.VerifMessage().(*gldap.SimpleBindMessage); ok {
			mu.Lock()
			tagConn[m.UserName] = append(tagConn[m.UserName], r.ConnectionID())
			mu.Unlock()
		}
		answer(w, r)
	}
	curTracer.Store(nil)
	// in the concurrent half every fourth teardown pauses for a moment between the steps of the deferred teardown
	// (socket closed / OnClose / wait-group release), as it would on a loaded machine
	var yields int64
	var parallel int32
	yield := func(label string) {
		if atomic.LoadInt32(&parallel) == 1 && (label == "conn.closed" || label == "conn.onclose" || label == "conn.teardown") && atomic.AddInt64(&yields, 1)%4 == 0 {
			time.Sleep(20 * time.Microsecond)
		}
	}
	perturb.Store(&yield)
	defer perturb.Store(nil)
	srv, err := gldap.NewServer(gldap.WithLogger(hclog.NewNullLogger()), gldap.WithOnClose(func(id int) {
		mu.Lock()
		onClose[id]++
		mu.Unlock()
		atomic.AddInt64(&closed, 1)
	}))
	if err != nil {
		return "harness-error " + err.Error()
	}
	_ = srv.Router(allRoutes(h, nil, nil))
	addr := freeAddr()
	runErr := make(chan error, 1)
	go func() { runErr <- srv.Run(addr) }()
	for i := 0; !srv.Ready(); i++ {
		if i > 5000 {
			return "harness-error server not ready"
		}
		time.Sleep(time.Millisecond)
	}
	bind := func(tag string) (*rawClient, string) {
		cl, err := dialRaw(addr, nil)
		if err != nil {
			return nil, "harness-error dial: " + err.Error()
		}
		_ = cl.send(Seq(Int(2, 1), C(1, 0, Int(2, 3), Oct(tag), P(2, 0, []byte("pw")))).Ser())
		if _, err := cl.readFrame(10 * time.Second); err != nil {
			cl.close()
			return nil, "harness-error bind response: " + err.Error()
		}
		return cl, ""
	}
	first, e := bind("cn=first")
	if e != "" {
		return e
	}
	defer first.close()
	opened := int64(0)
	for i := 0; i < total; i++ {
		if i == total/2 {
			// descriptor exhaustion for a moment: Accept fails and is retried; numbering must go on, not start over
			var lim syscall.Rlimit
			_ = syscall.Getrlimit(syscall.RLIMIT_NOFILE, &lim)
			old := lim
			lim.Cur = uint64(countFDs() + 4)
			_ = syscall.Setrlimit(syscall.RLIMIT_NOFILE, &lim)
			var hold []net.Conn
			for j := 0; j < 10; j++ {
				if c, err := net.DialTimeout("tcp", addr, time.Second); err == nil {
					hold = append(hold, c)
				}
			}
			time.Sleep(40 * time.Millisecond)
			_ = syscall.Setrlimit(syscall.RLIMIT_NOFILE, &old)
			for _, c := range hold {
				c.Close()
			}
			opened += int64(len(hold))
			time.Sleep(40 * time.Millisecond)
		}
		if i > total/2 {
			break // the second half comes from 32 clients at once (below)
		}
		for opened-atomic.LoadInt64(&closed) > 200 {
			time.Sleep(50 * time.Microsecond) // do not outrun the accept loop
		}
		if i%997 == 0 {
			cl, e := bind(fmt.Sprintf("cn=churn%d", i))
			if e != "" {
				return e
			}
			cl.close()
		} else {
			c, err := net.DialTimeout("tcp", addr, 5*time.Second)
			if err != nil {
				return "harness-error dial: " + err.Error()
			}
			c.Close()
		}
		opened++
	}
	// second half: 32 clients connect and hang up concurrently (connections being set up while others are torn down)
	{
		atomic.StoreInt32(&parallel, 1)
		var wg sync.WaitGroup
		var perr atomic.Value
		per := (total - total/2 - 1) / 32
		for g := 0; g < 32; g++ {
			wg.Add(1)
			go func(g int) {
				defer wg.Done()
				for j := 0; j < per; j++ {
					for atomic.LoadInt64(&opened)-atomic.LoadInt64(&closed) > 400 {
						time.Sleep(50 * time.Microsecond)
					}
					if j%251 == 0 {
						cl, e := bind(fmt.Sprintf("cn=par%d-%d", g, j))
						if e != "" {
							perr.Store(e)
							return
						}
						cl.close()
					} else {
						c, err := net.DialTimeout("tcp", addr, 5*time.Second)
						if err != nil {
							perr.Store("harness-error dial: " + err.Error())
							return
						}
						c.Close()
					}
					atomic.AddInt64(&opened, 1)
				}
			}(g)
		}
		wg.Wait()
		atomic.StoreInt32(&parallel, 0)
		if e := perr.Load(); e != nil {
			return e.(string)
		}
	}
	var late []*rawClient
	for i := 0; i < 40; i++ {
		cl, e := bind(fmt.Sprintf("cn=late%d", i))
		if e != "" {
			return e
		}
		late = append(late, cl)
	}
	// the early connection still works and still reports its id
	_ = first.send(Seq(Int(2, 2), C(1, 0, Int(2, 3), Oct("cn=first"), P(2, 0, []byte("pw")))).Ser())
	if _, err := first.readFrame(10 * time.Second); err != nil {
		return "the connection opened first no longer answers: " + err.Error()
	}
	for _, cl := range late {
		cl.close()
	}
	first.close()
	deadline := time.Now().Add(20 * time.Second)
	for atomic.LoadInt64(&closed) < opened+41 && time.Now().Before(deadline) {
		time.Sleep(time.Millisecond)
	}
	verdict := "ok"
	mu.Lock()
	seen := map[int]string{}
	for tag, ids := range tagConn {
		for _, id := range ids {
			if id != ids[0] {
				verdict = fmt.Sprintf("requests of client %s report different ConnectionIDs %d and %d", tag, ids[0], id)
			}
		}
		id := ids[0]
		if id <= 0 {
			verdict = fmt.Sprintf("ConnectionID %d of client %s is not positive", id, tag)
		}
		if other, dup := seen[id]; dup {
			verdict = fmt.Sprintf("ConnectionID %d shared by clients %s and %s (after %d accepted connections)", id, other, tag, total)
		}
		seen[id] = tag
	}
	for id, n := range onClose {
		if n != 1 && verdict == "ok" {
			verdict = fmt.Sprintf("OnClose called %d times for connection id %d over %d connections", n, id, total)
		}
	}
	if verdict == "ok" && int64(len(onClose)) != opened+41 {
		verdict = fmt.Sprintf("OnClose called for %d distinct ids, %d connections were accepted", len(onClose), opened+41)
	}
	mu.Unlock()
	stopped := make(chan struct{})
	go func() { _ = srv.Stop(); close(stopped) }()
	select {
	case <-stopped:
	case <-time.After(10 * time.Second):
	}
	return verdict
}

// c08Burst: k connections (on a TLS listener every third one hangs up before its handshake, every fourth sends
// plaintext instead) end in two bursts while every OnClose call takes 30 ms: OnClose is called exactly once for each
// accepted connection, with that connection's own id.
func c08Burst(k int, mode string, seed int64) string {
	tlsConfigs()
	h := func(w *gldap.ResponseWriter, r *gldap.Request) { answer(w, r) }
	var mu sync.Mutex
	closedIDs := map[int]int{}
	sut, err := startServer(allRoutes(h, nil, nil), serverTLSFor(mode), func(id int) {
		time.Sleep(30 * time.Millisecond)
		mu.Lock()
		closedIDs[id]++
		mu.Unlock()
	})
	if err != nil {
		return "harness-error start: " + err.Error()
	}
	var conns []net.Conn
	for i := 0; i < k; i++ {
		switch {
		case mode == "tls" && i%3 == 1:
			c, err := net.DialTimeout("tcp", sut.addr, 3*time.Second) // no ClientHello, ever
			if err == nil {
				conns = append(conns, c)
			}
		case mode == "tls" && i%4 == 2:
			c, err := net.DialTimeout("tcp", sut.addr, 3*time.Second)
			if err == nil {
				_, _ = c.Write(opFrame("bind", 1)) // plaintext on the TLS port
				conns = append(conns, c)
			}
		default:
			cl, err := connect(sut.addr, mode)
			if err != nil {
				return "harness-error connect: " + err.Error()
			}
			_ = cl.send(opFrame("bind", 1))
			if _, err := cl.readFrame(5 * time.Second); err != nil {
				return "harness-error bind: " + err.Error()
			}
			conns = append(conns, cl.c)
		}
	}
	// wait until the accept loop has taken them all
	deadline := time.Now().Add(3 * time.Second)
	for sut.tr.Count("run.added", -1) < len(conns) && time.Now().Before(deadline) {
		time.Sleep(time.Millisecond)
	}
	accepted := sut.tr.Count("run.added", -1)
	// a drawn-out burst: the connections end 12 ms apart, so every callback (30 ms) still runs when the next
	// connections end (seed even), or two first and the rest together (seed odd)
	for i, c := range conns {
		c.Close()
		if seed%2 == 0 {
			time.Sleep(12 * time.Millisecond)
		} else if i == 1 {
			time.Sleep(10 * time.Millisecond)
		}
	}
	deadline = time.Now().Add(5 * time.Second)
	for time.Now().Before(deadline) {
		mu.Lock()
		n := 0
		for _, v := range closedIDs {
			n += v
		}
		mu.Unlock()
		if n >= accepted {
			break
		}
		time.Sleep(5 * time.Millisecond)
	}
	time.Sleep(60 * time.Millisecond)
	verdict := "ok"
	mu.Lock()
	for id := 1; id <= accepted; id++ {
		if closedIDs[id] != 1 {
			verdict = fmt.Sprintf("OnClose called %d times for connection id %d (%d accepted connections ending in a burst, slow callback)", closedIDs[id], id, accepted)
			break
		}
	}
	if verdict == "ok" && len(closedIDs) != accepted {
		verdict = fmt.Sprintf("OnClose called for %d distinct ids, %d connections were accepted", len(closedIDs), accepted)
	}
	mu.Unlock()
	sut.finish()
	return verdict + "\t" + traceString(sut.tr.Snapshot(), "conn.", "loop.", "req.", "run.", "stop.")
}

func (c08Stream) Impl(c Case) string {
	p := kv(c.Line)
	if p["ending"] == "churn" {
		return c08Churn(atoi(p["conns"])) + "\t"
	}
	if p["ending"] == "burst" {
		return c08Burst(atoi(p["conns"]), p["mode"], int64(atoi(p["seed"])))
	}
	if e := p["ending"]; e == "twoservers" || e == "routerswap" || e == "stoprouter" || e == "noonclose" {
		return c08Servers(e)
	}
	k, ending, inflight, mode := atoi(p["conns"]), p["ending"], p["inflight"], p["mode"]
	dupid := p["dupid"] == "1"
	chatter := func(cl *rawClient) {
		if p["chatty"] != "1" {
			return
		}
		go func() {
			for i := 0; i < 100; i++ {
				if _, err := cl.c.Write([]byte{0}); err != nil {
					return
				}
				time.Sleep(40 * time.Millisecond)
			}
		}()
	}
	rng := rand.New(rand.NewSource(int64(atoi(p["seed"]))))
	tlsConfigs()
	runtime.GC()
	time.Sleep(5 * time.Millisecond)
	baseG, baseFD := runtime.NumGoroutine(), countFDs()
	rc := &recorder{}
	var mu sync.Mutex
	tagConn := map[string]map[int]bool{} // client tag -> ConnectionIDs its requests saw
	connTag := map[int]string{}
	onClose := map[int][]int{} // conn id -> sequence numbers of OnClose calls
	released := make(chan struct{})
	payload := strings.Repeat("y", 2000)
	h := func(w *gldap.ResponseWriter, r *gldap.Request) {
		rc.enter(r)
		defer rc.exit(r)
		switch m := r.VerifMessage().(type) {
		case *gldap.SimpleBindMessage:
			mu.Lock()
			if tagConn[m.UserName] == nil {
				tagConn[m.UserName] = map[int]bool{}
			}
			tagConn[m.UserName][r.ConnectionID()] = true
			connTag[r.ConnectionID()] = m.UserName
			mu.Unlock()
			answer(w, r)
		case *gldap.SearchMessage:
			mu.Lock()
			if tagConn[m.BaseDN] == nil {
				tagConn[m.BaseDN] = map[int]bool{}
			}
			tagConn[m.BaseDN][r.ConnectionID()] = true
			mu.Unlock()
			if inflight == "racing" {
				// still running when the read loop meets the ending that follows in the same segment
				time.Sleep(30 * time.Millisecond)
			} else if inflight == "panicking" && m.GetID() == 11 {
				panic("handler panic injected by the harness (request goroutine)")
			} else if inflight == "goexit" && m.GetID() == 11 {
				// what t.FailNow / require.* do inside a handler: the goroutine ends, its deferred calls still run
				runtime.Goexit()
			}
			if inflight == "blocked" && dupid && m.SizeLimit == 7 {
				// the third request with the shared message id: answered at once
			} else if inflight == "blocked" {
				<-released
			} else if inflight == "writing" {
				// a handler that streams entries and (as handlers do) notices a dead connection only after a few
				// more writes
				failed := 0
				for i := 0; i < 50 && failed < 4; i++ {
					if err := w.Write(r.NewSearchResponseEntry(fmt.Sprintf("e%d", i), gldap.WithAttributes(map[string][]string{"p": {payload}}))); err != nil {
						failed++
					}
				}
			}
			answer(w, r)
		default:
			answer(w, r)
		}
	}
	// a panic on the connection goroutine (the unbind handler runs inline): recovered by gldap
	mux := allRoutes(h, startTLSHandler(srvTLS, 0, 0), func(w *gldap.ResponseWriter, r *gldap.Request) {
		if r.VerifMessage().GetID() == 96 {
			panic("inline handler panic injected by the harness")
		}
	})
	var extra []gldap.Option
	if ending == "timeout" {
		extra = append(extra, gldap.WithReadTimeout(300*time.Millisecond))
	}
	sut, err := startServer(mux, serverTLSFor(mode), func(id int) {
		s := rc.tick()
		mu.Lock()
		onClose[id] = append(onClose[id], s)
		mu.Unlock()
	}, extra...)
	if err != nil {
		return "harness-error start: " + err.Error()
	}
	verdict := "ok"
	fail := func(f string, a ...interface{}) {
		if verdict == "ok" {
			verdict = fmt.Sprintf(f, a...)
		}
	}
	type cli struct {
		c      *rawClient
		tag    string
		ending string
	}
	var wave []cli
	runWave := func(first, count int) {
		wave = nil
		for i := 0; i < count; i++ {
			cl, err := connect(sut.addr, mode)
			if err != nil {
				fail("harness-error connect: %v", err)
				return
			}
			tag := fmt.Sprintf("cn=client%d", first+i)
			e := ending
			if e == "mixed" {
				e = []string{"close", "rst", "unbind", "malformed", "unsupported", "midframe", "panic", "starttlsfail"}[rng.Intn(8)]
			}
			wave = append(wave, cli{cl, tag, e})
			buf := Seq(Int(2, 1), C(1, 0, Int(2, 3), Oct(tag), P(2, 0, []byte("pw")))).Ser()
			if inflight != "none" {
				for j := 0; j < 2; j++ {
					r := Req{Kind: "search", ID: int64(10 + j), DN: tag, Scope: 2, Filter: "(cn=x)"}
					if dupid && inflight == "blocked" {
						r.ID = 10
					}
					nd, _ := r.Node()
					buf = append(buf, nd.Ser()...)
				}
				if dupid && inflight == "blocked" {
					r := Req{Kind: "search", ID: 10, DN: tag, Scope: 2, Filter: "(cn=x)", Size: 7}
					nd, _ := r.Node()
					buf = append(buf, nd.Ser()...)
				}
			}
			if inflight == "racing" {
				// the ending travels in the same segment as the requests: the read loop reaches it while the
				// handlers it has just spawned have barely started
				switch e {
				case "unbind":
					buf = append(buf, Seq(Int(2, 99), P(1, 2, nil)).Ser()...)
				case "malformed":
					buf = append(buf, 0x30, 0x03, 0x02, 0x01, 0xff, 0xff, 0xff, 0xff)
				case "unsupported":
					buf = append(buf, Seq(Int(2, 98), C(1, 12, Oct("cn=a"), Oct("cn=b"), Bool(true))).Ser()...)
				case "midframe":
					f := opFrame("search", 97)
					buf = append(buf, f[:len(f)/2]...)
				case "panic":
					buf = append(buf, Seq(Int(2, 96), P(1, 2, nil)).Ser()...)
				case "starttlsfail":
					if mode == "plain" {
						buf = append(buf, opFrame("starttls", 95)...)
						buf = append(buf, []byte("this is not a TLS ClientHello\r\n")...)
					}
				}
				if err := cl.send(buf); err != nil {
					fail("harness-error send: %v", err)
				}
				continue
			}
			if err := cl.send(buf); err != nil {
				fail("harness-error send: %v", err)
			}
			if _, err := cl.readFrame(10 * time.Second); err != nil {
				fail("harness-error bind response: %v", err)
			}
		}
		if inflight != "none" && inflight != "racing" {
			// both searches of every connection must have been dispatched
			deadline := time.Now().Add(10 * time.Second)
			for time.Now().Before(deadline) {
				rc.mu.Lock()
				n := len(rc.entries)
				rc.mu.Unlock()
				if n >= (first+count)*3 {
					break
				}
				time.Sleep(time.Millisecond)
			}
		}
		var wg sync.WaitGroup
		for _, x := range wave {
			wg.Add(1)
			go func(x cli) {
				defer wg.Done()
				if inflight == "racing" && x.ending != "rst" {
					return
				}
				switch x.ending {
				case "close", "stop", "timeout":
				case "rst":
					if tc, ok := x.c.c.(*net.TCPConn); ok {
						_ = tc.SetLinger(0)
					}
				case "unbind":
					_ = x.c.send(Seq(Int(2, 99), P(1, 2, nil)).Ser())
					chatter(x.c)
				case "malformed":
					_ = x.c.send([]byte{0x30, 0x03, 0x02, 0x01})
					_ = x.c.send([]byte{0xff, 0xff, 0xff, 0xff})
					chatter(x.c)
				case "unsupported":
					_ = x.c.send(Seq(Int(2, 98), C(1, 12, Oct("cn=a"), Oct("cn=b"), Bool(true))).Ser())
					chatter(x.c)
				case "midframe":
					f := opFrame("search", 97)
					_ = x.c.send(f[:len(f)/2])
				case "panic":
					_ = x.c.send(Seq(Int(2, 96), P(1, 2, nil)).Ser())
				case "starttlsstop":
					// StartTLS accepted, no ClientHello follows; the server is stopped while the handshake waits
					if mode == "plain" {
						_ = x.c.send(opFrame("starttls", 94))
						for i := 0; i < 4; i++ {
							f, err := x.c.readFrame(2 * time.Second)
							if err != nil || strings.HasPrefix(strictView(f), "result id=94 ") {
								break
							}
						}
					}
				case "starttlsfail":
					// only a plain connection can ask for StartTLS; elsewhere this ending is a plain client close
					if mode == "plain" {
						_ = x.c.send(opFrame("starttls", 95))
						// wait for the StartTLS reply (bytes sent earlier would sit in the server's LDAP read buffer
						// instead of reaching the handshake), then send something that is no ClientHello
						for i := 0; i < 4; i++ {
							f, err := x.c.readFrame(2 * time.Second)
							if err != nil || strings.HasPrefix(strictView(f), "result id=95 ") {
								break
							}
						}
						_ = x.c.send([]byte("this is not a TLS ClientHello\r\n"))
					}
				}
			}(x)
		}
		wg.Wait()
		if ending == "stop" || ending == "starttlsstop" {
			go sut.stop(10 * time.Second)
			time.Sleep(20 * time.Millisecond)
		}
		if ending == "timeout" {
			time.Sleep(350 * time.Millisecond)
		}
		time.Sleep(10 * time.Millisecond)
		// the endings that are the client's own doing
		for _, x := range wave {
			switch x.ending {
			case "close", "rst", "midframe", "stop":
				x.c.close()
			}
		}
	}
	// while handlers are still blocked the server must not have closed any socket whose ending was the
	// server's to perform ("only after every handler still running for that connection has returned")
	earlyEOF := func(ws []cli) {
		if inflight != "blocked" {
			return
		}
		select {
		case <-released:
			return
		default:
		}
		time.Sleep(30 * time.Millisecond)
		for _, x := range ws {
			switch x.ending {
			case "unbind", "malformed", "unsupported", "panic", "starttlsfail", "starttlsstop":
				for {
					_, err := x.c.readFrame(20 * time.Millisecond)
					if err == nil {
						continue // a response that was already on its way
					}
					if ne, ok := err.(net.Error); ok && ne.Timeout() {
						break
					}
					fail("connection %s (%s): the socket was closed while its handlers were still running", x.tag, x.ending)
					break
				}
			}
		}
	}
	half := (k + 1) / 2
	runWave(0, half)
	earlyEOF(wave)
	time.Sleep(20 * time.Millisecond)
	first := wave
	if inflight == "blocked" {
		time.Sleep(20 * time.Millisecond)
	}
	select {
	case <-released:
	default:
	}
	if ending != "stop" && ending != "starttlsstop" && k-half > 0 {
		// second wave: reconnects while / after the first wave's connections end
		runWave(half, k-half)
	}
	close(released)
	all := append(first, wave...)
	if ending == "stop" || ending == "starttlsstop" || k-half == 0 {
		all = first
	}
	// every client must observe its socket closed by the server (or have closed it itself)
	for _, x := range all {
		switch x.ending {
		case "starttlsfail", "starttlsstop":
			x.c.close()
		case "unbind", "malformed", "unsupported", "panic", "timeout":
			deadline := time.Now().Add(10 * time.Second)
			for {
				_, err := x.c.readFrame(time.Until(deadline))
				if err != nil {
					if ne, ok := err.(net.Error); ok && ne.Timeout() {
						fail("connection %s (%s) was not closed by the server", x.tag, x.ending)
					}
					break
				}
			}
			if p["chatty"] == "1" && x.ending != "panic" && x.ending != "timeout" {
				// the end of the stream has been seen; a server that has really closed the socket refuses what is still sent
				refused := false
				for i := 0; i < 60 && !refused; i++ {
					if _, err := x.c.c.Write([]byte{0}); err != nil {
						refused = true
					}
					time.Sleep(40 * time.Millisecond)
				}
				if !refused {
					fail("connection %s (%s) was not closed by the server: 2.4 s after the end of its stream it still takes what the client sends", x.tag, x.ending)
				}
			}
			x.c.close()
		}
	}
	// wait for the teardown of every accepted connection
	accepted := sut.tr.Count("run.added", -1)
	deadline := time.Now().Add(10 * time.Second)
	for time.Now().Before(deadline) && sut.tr.Count("conn.gone", -1) < accepted {
		time.Sleep(2 * time.Millisecond)
	}
	if sut.tr.Count("conn.gone", -1) < accepted {
		fail("%d of %d accepted connections never finished their teardown", accepted-sut.tr.Count("conn.gone", -1), accepted)
	}
	mu.Lock()
	rc.mu.Lock()
	lastExit := map[int]int{}
	for _, e := range rc.exits {
		if e.seq > lastExit[e.conn] {
			lastExit[e.conn] = e.seq
		}
	}
	started := map[int]int{}
	for _, e := range rc.entries {
		started[e.conn]++
	}
	exited := map[int]int{}
	for _, e := range rc.exits {
		exited[e.conn]++
	}
	seen := map[int]string{}
	for tag, ids := range tagConn {
		if len(ids) != 1 {
			fail("requests of client %s report %d different ConnectionIDs", tag, len(ids))
		}
		for id := range ids {
			if id <= 0 {
				fail("ConnectionID %d of client %s is not positive", id, tag)
			}
			if other, dup := seen[id]; dup {
				fail("ConnectionID %d shared by clients %s and %s", id, other, tag)
			}
			seen[id] = tag
		}
	}
	for id := range seen {
		calls := onClose[id]
		if len(calls) != 1 {
			fail("OnClose called %d times for connection %d", len(calls), id)
		} else {
			if started[id] != exited[id] {
				fail("connection %d: OnClose with %d of %d handlers still running", id, started[id]-exited[id], started[id])
			} else if calls[0] < lastExit[id] {
				fail("connection %d: OnClose before its last handler returned", id)
			}
		}
	}
	for id := range onClose {
		if _, ok := seen[id]; !ok && len(all) == len(seen) {
			fail("OnClose reported connection id %d which no request ever saw", id)
		}
	}
	rc.mu.Unlock()
	mu.Unlock()
	if st := rc.stale(); st != "" {
		fail("%s", st)
	}
	sut.finish()
	for _, x := range all {
		x.c.close()
	}
	// leaks: goroutines and descriptors return to the baseline
	leakG, leakFD := 0, 0
	for i := 0; i < 200; i++ {
		runtime.GC()
		leakG, leakFD = runtime.NumGoroutine()-baseG, countFDs()-baseFD
		if leakG <= 0 && leakFD <= 0 {
			break
		}
		time.Sleep(10 * time.Millisecond)
	}
	if leakG > 0 {
		fail("%d goroutines remain after all connections ended", leakG)
	}
	if leakFD > 0 {
		fail("%d file descriptors remain after all connections ended", leakFD)
	}
	return verdict + "\t" + traceString(sut.tr.Snapshot(), "conn.", "loop.", "req.", "run.", "stop.")
}

func (c08Stream) ModelLine(c Case, trace string) string { return "trace conn " + trace }

func (c08Stream) Oracle(c Case, impl string) (bool, string, string) {
	if impl == "ok" || strings.HasPrefix(impl, "harness-error") {
		return true, "", ""
	}
	f := strings.Fields(impl)
	key := "c08/" + f[0]
	switch {
	case strings.Contains(impl, "ConnectionID"):
		key = "c09/connection-id"
	case strings.HasPrefix(impl, "OnClose called"):
		key = "c08/onclose-count"
	case strings.Contains(impl, "handlers still running"), strings.Contains(impl, "before its last handler"):
		key = "c08/onclose-before-handlers"
	case strings.Contains(impl, "goroutines remain"):
		key = "c08/goroutine-leak"
	case strings.Contains(impl, "descriptors remain"):
		key = "c08/fd-leak"
	case strings.Contains(impl, "not closed by the server"):
		key = "c08/not-closed"
	case strings.Contains(impl, "one slice of options"), strings.Contains(impl, "Router()"):
		key = "c08/servers/" + strings.Fields(c.Line)[2]
	case strings.Contains(impl, "never finished their teardown"):
		key = "c08/teardown-incomplete/" + c.Kind
	}
	return false, impl, key
}

func (c08Stream) Class(c Case, impl string) (string, bool) {
	p := kv(c.Line)
	return p["ending"] + "/" + p["inflight"] + "/" + strings.Fields(impl + " -")[0], p["inflight"] != "none" && impl == "ok"
}

// c08Servers: connections of servers that share what an application naturally shares, or whose router is replaced.
//   twoservers: two servers built from one slice of options (one OnClose callback) and one mux; a client binds and
//               leaves on each: the callback is called once for each connection, with that connection's id.
//   routerswap: a client stays connected; the application hands the running server a new mux; two more clients come
//               and go: the three connections have three ids, each reported once.
//   stoprouter: Stop waits for a connection whose handler is busy; the application calls Router() meanwhile; the
//               handler returns: the connection is closed and reported, Stop and Router() return.
func c08Servers(kind string) string {
	tr := NewTracer()
	curTracer.Store(tr)
	defer tr.ReleaseAll()
	var mu sync.Mutex
	closed := map[int]int{}
	seen := map[string]int{} // client tag -> connection id its handler saw
	release := make(chan struct{})
	entered := make(chan struct{}, 8)
	h := func(w *gldap.ResponseWriter, r *gldap.Request) {
		if m, ok := r.VerifMessage().(*gldap.SimpleBindMessage); ok {
			mu.Lock()
			seen[m.UserName] = r.ConnectionID()
			mu.Unlock()
			if m.UserName == "cn=busy" {
				entered <- struct{}{}
				<-release
			}
		}
		answer(w, r)
	}
	opts := []gldap.Option{gldap.WithLogger(hclog.NewNullLogger()), gldap.WithOnClose(func(id int) {
		mu.Lock()
		closed[id]++
		mu.Unlock()
	})}
	mkMux := func() *gldap.Mux { return allRoutes(h, nil, nil) }
	start := func(mux *gldap.Mux) (*gldap.Server, string, chan error) {
		srv, err := gldap.NewServer(opts...)
		if err != nil {
			return nil, "", nil
		}
		_ = srv.Router(mux)
		addr := freeAddr()
		errc := make(chan error, 1)
		go func() { errc <- srv.Run(addr) }()
		for i := 0; i < 3000 && !srv.Ready(); i++ {
			time.Sleep(time.Millisecond)
		}
		return srv, addr, errc
	}
	bindOn := func(addr, tag string, leave bool) (*rawClient, string) {
		cl, err := dialRaw(addr, nil)
		if err != nil {
			return nil, "harness-error connect: " + err.Error()
		}
		if tag == "cn=busy" {
			_ = cl.send(Seq(Int(2, 1), C(1, 0, Int(2, 3), Oct(tag), P(2, 0, []byte("pw")))).Ser())
			return cl, ""
		}
		_ = cl.send(Seq(Int(2, 1), C(1, 0, Int(2, 3), Oct(tag), P(2, 0, []byte("pw")))).Ser())
		if f, err := cl.readFrame(5 * time.Second); err != nil || !strings.HasPrefix(strictView(f), "result id=1 tag=1 code=0") {
			cl.close()
			return nil, fmt.Sprintf("the bind of %s was not answered: %v", tag, err)
		}
		if leave {
			cl.close()
			return nil, ""
		}
		return cl, ""
	}
	waitClosed := func(total int) bool {
		for i := 0; i < 3000; i++ {
			mu.Lock()
			n := 0
			for _, c := range closed {
				n += c
			}
			mu.Unlock()
			if n >= total {
				return true
			}
			time.Sleep(time.Millisecond)
		}
		return false
	}
	stopAll := func(srvs ...*gldap.Server) {
		for _, s := range srvs {
			if s != nil {
				done := make(chan struct{})
				go func(s *gldap.Server) { _ = s.Stop(); close(done) }(s)
				select {
				case <-done:
				case <-time.After(3 * time.Second):
				}
			}
		}
	}
	verdict := "ok"
	switch kind {
	case "noonclose":
		// a server nobody gave an OnClose callback; a client whose only request is an Unbind (served by the unbind
		// route), then another client: two connections, two ids
		var umu sync.Mutex
		unbindID := 0
		mux := allRoutes(h, nil, func(w *gldap.ResponseWriter, r *gldap.Request) {
			umu.Lock()
			unbindID = r.ConnectionID()
			umu.Unlock()
		})
		srv, err := gldap.NewServer(gldap.WithLogger(hclog.NewNullLogger()))
		if err != nil {
			return "harness-error " + err.Error()
		}
		_ = srv.Router(mux)
		addr := freeAddr()
		go func() { _ = srv.Run(addr) }()
		for i := 0; i < 3000 && !srv.Ready(); i++ {
			time.Sleep(time.Millisecond)
		}
		defer stopAll(srv)
		a, err := dialRaw(addr, nil)
		if err != nil {
			return "harness-error connect: " + err.Error()
		}
		_ = a.send(Seq(Int(2, 1), P(1, 2, nil)).Ser())
		_, _ = a.readFrame(2 * time.Second) // (the end of the stream)
		a.close()
		time.Sleep(100 * time.Millisecond)
		if _, e := bindOn(addr, "cn=next", true); e != "" {
			return e
		}
		umu.Lock()
		mu.Lock()
		if unbindID <= 0 || seen["cn=next"] <= 0 || unbindID == seen["cn=next"] {
			verdict = fmt.Sprintf("a connection that only sent an Unbind reported ConnectionID %d to the unbind handler, the next connection of the server reports %d", unbindID, seen["cn=next"])
		}
		mu.Unlock()
		umu.Unlock()
	case "twoservers":
		mux := mkMux()
		a, addrA, _ := start(mux)
		b, addrB, _ := start(mux)
		defer stopAll(a, b)
		if a == nil || b == nil {
			return "harness-error start"
		}
		for _, x := range []struct{ addr, tag string }{{addrA, "cn=on-a"}, {addrB, "cn=on-b"}} {
			if _, e := bindOn(x.addr, x.tag, true); e != "" {
				return e
			}
		}
		if !waitClosed(2) {
			mu.Lock()
			verdict = fmt.Sprintf("two servers built from one slice of options, one connection on each: OnClose calls by id = %v, want one call for each of the two connections", closed)
			mu.Unlock()
		} else {
			mu.Lock()
			// (each server numbers its own connections: both may well be number 1)
			ia, ib := seen["cn=on-a"], seen["cn=on-b"]
			okIDs := ia > 0 && ib > 0 && ((ia == ib && closed[ia] == 2) || (ia != ib && closed[ia] == 1 && closed[ib] == 1))
			if !okIDs || len(closed) > 2 {
				verdict = fmt.Sprintf("two servers built from one slice of options: OnClose calls by id = %v, handler ids = %v", closed, seen)
			}
			mu.Unlock()
		}
	case "routerswap":
		a, addr, _ := start(mkMux())
		defer stopAll(a)
		if a == nil {
			return "harness-error start"
		}
		keep, e := bindOn(addr, "cn=first", false)
		if e != "" {
			return e
		}
		defer keep.close()
		_ = a.Router(mkMux())
		for _, tag := range []string{"cn=second", "cn=third"} {
			if _, e := bindOn(addr, tag, true); e != "" {
				return e
			}
		}
		waitClosed(2)
		keep.close()
		waitClosed(3)
		mu.Lock()
		ids := map[int]bool{seen["cn=first"]: true, seen["cn=second"]: true, seen["cn=third"]: true}
		if len(ids) != 3 || ids[0] {
			verdict = fmt.Sprintf("after Router() on the running server its connections report ids %v: not three distinct positive ids", seen)
		} else {
			for id := range ids {
				if closed[id] != 1 {
					verdict = fmt.Sprintf("after Router() on the running server: OnClose calls by id = %v for connections %v", closed, seen)
				}
			}
		}
		mu.Unlock()
	case "stoprouter":
		a, addr, _ := start(mkMux())
		if a == nil {
			return "harness-error start"
		}
		busy, e := bindOn(addr, "cn=busy", false)
		if e != "" {
			return e
		}
		defer busy.close()
		select {
		case <-entered:
		case <-time.After(3 * time.Second):
			return "harness-error the busy handler never started"
		}
		// a second request of that connection has been read and is about to be dispatched when Stop and Router() arrive
		// (held at the instrumentation point behind the read)
		g := tr.Block("loop.read", 1, 2)
		_ = busy.send(Seq(Int(2, 2), C(1, 0, Int(2, 3), Oct("cn=late"), P(2, 0, []byte("pw")))).Ser())
		g.Arrived(3 * time.Second)
		stopped, routed := make(chan struct{}), make(chan struct{})
		go func() { _ = a.Stop(); close(stopped) }()
		time.Sleep(30 * time.Millisecond)
		go func() { _ = a.Router(mkMux()); close(routed) }()
		time.Sleep(30 * time.Millisecond)
		g.Release()
		time.Sleep(30 * time.Millisecond)
		close(release)
		for _, x := range []struct {
			ch   chan struct{}
			what string
		}{{stopped, "Stop"}, {routed, "Router()"}} {
			select {
			case <-x.ch:
			case <-time.After(5 * time.Second):
				if verdict == "ok" {
					verdict = x.what + " did not return: Router() was called while Stop waited for a connection whose handler was busy"
				}
			}
		}
		if verdict == "ok" && !waitClosed(1) {
			verdict = "Router() called while Stop waited for a busy connection: that connection was never reported through OnClose"
		}
		if verdict != "ok" {
			busy.close()
		}
	}
	return verdict + "\t"
}
