package main

import (
	"bytes"
	"fmt"
	"github.com/hashicorp/go-hclog"
	"hash/crc32"
	"io"
	"strings"

	ber "github.com/go-asn1-ber/asn1-ber"
	"github.com/jimlambrt/gldap"
)

// renderBer renders an asn1-ber packet read from the wire the way the Lean driver renders
// its Node.
func renderBer(p *ber.Packet) string {
	cls := int(p.ClassType) >> 6
	if p.TagType == ber.TypeConstructed {
		parts := make([]string, len(p.Children))
		for i, k := range p.Children {
			parts[i] = renderBer(k)
		}
		return fmt.Sprintf("C%d.%d[%s]", cls, p.Tag, strings.Join(parts, ","))
	}
	return fmt.Sprintf("P%d.%d:%s", cls, p.Tag, hx(p.Data.Bytes()))
}

func renderControl(c gldap.Control) string {
	switch v := c.(type) {
	case *gldap.ControlString:
		return fmt.Sprintf("str(%s,%s,%s)", hx([]byte(v.ControlType)), b2s(v.Criticality), hx([]byte(v.ControlValue)))
	case *gldap.ControlManageDsaIT:
		return fmt.Sprintf("dsait(%s)", b2s(v.Criticality))
	case *gldap.ControlPaging:
		return fmt.Sprintf("paging(%d,%s)", v.PagingSize, hx(v.Cookie))
	case *gldap.ControlBeheraPasswordPolicy:
		e, _ := v.ErrorCode()
		return fmt.Sprintf("behera(%d,%d,%d)", v.Expire(), v.Grace(), e)
	case *gldap.ControlVChuPasswordMustChange:
		return "vchumust"
	case *gldap.ControlVChuPasswordWarning:
		return fmt.Sprintf("vchuwarn(%d)", v.Expire)
	case *gldap.ControlMicrosoftNotification:
		return "msnotif"
	case *gldap.ControlMicrosoftShowDeleted:
		return "msshowdel"
	case *gldap.ControlMicrosoftServerLinkTTL:
		return "mslinkttl"
	}
	return fmt.Sprintf("unknown(%T)", c)
}

func renderControls(cs []gldap.Control) string {
	parts := make([]string, len(cs))
	for i, c := range cs {
		parts[i] = renderControl(c)
	}
	return "[" + strings.Join(parts, ";") + "]"
}

// renderMessage renders what a handler sees through the public message types.
func renderMessage(m gldap.Message) string {
	switch v := m.(type) {
	case *gldap.SimpleBindMessage:
		return fmt.Sprintf("bind id=%d user=%s pass=%s ctrls=%s", v.GetID(), hx([]byte(v.UserName)), hx([]byte(v.Password)), renderControls(v.Controls))
	case *gldap.SearchMessage:
		return fmt.Sprintf("search id=%d base=%s scope=%d deref=%d size=%d time=%d typesonly=%s filter=%s attrs=[%s] ctrls=%s",
			v.GetID(), hx([]byte(v.BaseDN)), int64(v.Scope), v.DerefAliases, v.SizeLimit, v.TimeLimit, b2s(v.TypesOnly), hx([]byte(v.Filter)), hexList(v.Attributes), renderControls(v.Controls))
	case *gldap.ExtendedOperationMessage:
		return fmt.Sprintf("extended id=%d name=%s", v.GetID(), hx([]byte(v.Name)))
	case *gldap.ModifyMessage:
		parts := make([]string, len(v.Changes))
		for i, c := range v.Changes {
			parts[i] = fmt.Sprintf("%d:%s:%s", c.Operation, hx([]byte(c.Modification.Type)), hexList(c.Modification.Vals))
		}
		return fmt.Sprintf("modify id=%d dn=%s changes=[%s] ctrls=%s", v.GetID(), hx([]byte(v.DN)), strings.Join(parts, ";"), renderControls(v.Controls))
	case *gldap.AddMessage:
		parts := make([]string, len(v.Attributes))
		for i, a := range v.Attributes {
			parts[i] = fmt.Sprintf("%s:%s", hx([]byte(a.Type)), hexList(a.Vals))
		}
		return fmt.Sprintf("add id=%d dn=%s attrs=[%s] ctrls=%s", v.GetID(), hx([]byte(v.DN)), strings.Join(parts, ";"), renderControls(v.Controls))
	case *gldap.DeleteMessage:
		return fmt.Sprintf("delete id=%d dn=%s ctrls=%s", v.GetID(), hx([]byte(v.DN)), renderControls(v.Controls))
	case *gldap.UnbindMessage:
		return fmt.Sprintf("unbind id=%d", v.GetID())
	}
	return fmt.Sprintf("unknown(%T)", m)
}

// decodeFrame runs the connection's own read path over the frame and then - every second frame - hands the
// request to a router the way serveRequests does (routes with criteria that do not match, routes that do, a
// default route) and renders the message the HANDLER receives; for the others the message is rendered as decoded.
func decodeFrame(frame []byte) string {
	viaMux := crc32.ChecksumIEEE(frame)&1 == 1
	var seen gldap.Message
	var mux *gldap.Mux
	if viaMux {
		h := func(w *gldap.ResponseWriter, r *gldap.Request) { seen = r.VerifMessage() }
		mux, _ = gldap.NewMux()
		_ = mux.Search(func(w *gldap.ResponseWriter, r *gldap.Request) {}, gldap.WithBaseDN("ou=Nowhere, dc=Example,dc=org"), gldap.WithFilter("(cn=Nobody At All)"))
		_ = mux.Search(h, gldap.WithScope(gldap.BaseObject))
		_ = mux.ExtendedOperation(func(w *gldap.ResponseWriter, r *gldap.Request) {}, gldap.ExtendedOperationName("9.9.9.9.9"))
		_ = mux.Bind(h)
		_ = mux.Search(h)
		_ = mux.Modify(h)
		_ = mux.Add(h)
		_ = mux.Delete(h)
		_ = mux.Unbind(h)
		_ = mux.DefaultRoute(h)
	}
	// one frame in four is not the first of its connection: a well-formed bind and a search are read before it on the
	// same conn (what a connection did before must not change how the next frame is judged)
	in, reqID := frame, 1
	if crc32.ChecksumIEEE(frame)&24 == 8 {
		in = append(append([]byte{}, decodePreamble...), frame...)
	}
	vc := gldap.NewVerifConn(1, in, mux)
	if crc32.ChecksumIEEE(frame)&6 == 2 {
		// a logger at trace level (writing to nowhere): the debug paths of the read and write side run too
		vc = gldap.NewVerifConnWithLogger(1, in, mux, hclog.New(&hclog.LoggerOptions{Level: hclog.Trace, Output: io.Discard}))
	}
	if len(in) != len(frame) {
		for ; reqID <= 2; reqID++ {
			if _, err := vc.ReadRequest(reqID); err != nil {
				return "preamble-err"
			}
		}
	}
	r, err := vc.ReadRequest(reqID)
	if err != nil {
		return "err"
	}
	if viaMux {
		if r.VerifRouteOp() == "unbind" {
			// serveRequests calls the unbind route itself
			return "ok " + renderMessage(r.VerifMessage())
		}
		w, err := vc.Writer(reqID)
		if err != nil {
			return "err"
		}
		vc.Serve(w, r)
		if seen == nil {
			return "no-handler " + renderMessage(r.VerifMessage())
		}
		return "ok " + renderMessage(seen)
	}
	return "ok " + renderMessage(r.VerifMessage())
}

// decodePreamble: a simple bind and a search, as a client would send them at the start of a connection.
var decodePreamble = func() []byte {
	var out []byte
	for _, r := range []Req{{Kind: "bind", ID: 1, DN: "cn=admin,dc=example,dc=org", Pass: "secret"},
		{Kind: "search", ID: 2, DN: "dc=example,dc=org", Scope: 2, Filter: "(objectClass=*)"}} {
		n, err := r.Node()
		if err != nil {
			panic(err)
		}
		out = append(out, n.Ser()...)
	}
	return out
}()

// wrapOctet is the BER octet-string wrapping ConvertString inverts.
func wrapOctet(v string) string {
	n := P(0, 4, []byte(v))
	return string(n.Ser())
}

var _ = bytes.Equal
