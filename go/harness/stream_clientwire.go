package main

import (
	"crypto/tls"
	"fmt"
	"math/rand"
	"net"
	"strings"
	"time"

	ber "github.com/go-asn1-ber/asn1-ber"
	"github.com/go-ldap/ldap/v3"
)

func berDecode(b []byte) (*ber.Packet, error) { return ber.DecodePacketErr(b) }

// ---- stream "clientwire": what a real go-ldap client writes vs the specification's client encoder --
//
// The C01 theorem says: decode(ser(clientEncode req)) = req. This stream ties `clientEncode` (Lean,
// Spec/ClientEncode.lean) and the harness's own encoder (Req.Node, used by every decode stream) to the
// bytes go-ldap v3.4.6 really puts on the wire for the same request.

type clientWireStream struct{}

func (clientWireStream) Name() string { return "clientwire" }
func (clientWireStream) Rule() string {
	return "typed requests of the seven operations as in decode-valid, restricted to what the go-ldap client API can express (message id 1 on a fresh connection; string, ManageDsaIT, paging, request-form password-policy and Microsoft controls; extended = WhoAmI or StartTLS), sent by a real go-ldap Conn over an in-memory pipe; the first frame on the wire must equal, byte for byte, both the Lean specification encoder's output (model side) and the harness encoder's output (oracle); non-trivial = every case, distinct by frame bytes"
}

func genClientCtls(rng *rand.Rand) []Ctl {
	n := []int{0, 0, 1, 2, 3}[rng.Intn(5)]
	var cs []Ctl
	for len(cs) < n {
		c := genCtl(rng)
		c.ExplicitCrit = false
		switch c.Kind {
		case "vchumust", "vchuwarn":
			continue // response-only controls: go-ldap does not encode them
		case "behera":
			c.Expire, c.Grace, c.Error = -1, -1, -1 // the request form
		case "str":
			if c.OID == "" {
				continue
			}
		}
		cs = append(cs, c)
	}
	return cs
}

func (clientWireStream) Generate(rng *rand.Rand, n int, thorough bool) []Case {
	var cs []Case
	for len(cs) < n {
		r := genReq(rng)
		r.ID = 1
		r.TrueOctet = 0x01 // what asn1-ber writes
		switch r.Kind {
		case "extended":
			r.Name = []string{"1.3.6.1.4.1.4203.1.11.3", "1.3.6.1.4.1.1466.20037"}[rng.Intn(2)]
		case "unbind":
		default:
			r.Ctls = genClientCtls(rng)
		}
		if r.Kind == "search" {
			if _, err := ldap.CompileFilter(r.Filter); err != nil {
				continue
			}
		}
		line, ok := cencLine(r)
		if !ok {
			continue
		}
		cs = append(cs, Case{Line: line, Kind: r.Kind, Expect: encodeReqDesc(r)})
	}
	return cs
}

func ctlsTok(cs []Ctl) string {
	if len(cs) == 0 {
		return "-"
	}
	parts := make([]string, len(cs))
	for i, c := range cs {
		parts[i] = strings.ReplaceAll(ctlDesc(c), " ", ",")
	}
	return strings.Join(parts, "/")
}

func hexJoin(l []string, sep string) string {
	parts := make([]string, len(l))
	for i, s := range l {
		parts[i] = hx([]byte(s))
	}
	return strings.Join(parts, sep)
}

// cencLine is the driver's input for the specification encoder.
func cencLine(r Req) (string, bool) {
	switch r.Kind {
	case "bind":
		return fmt.Sprintf("cenc 1 bind %d %s %s %s", r.ID, hx([]byte(r.DN)), hx([]byte(r.Pass)), ctlsTok(r.Ctls)), true
	case "search":
		fp, err := ldap.CompileFilter(r.Filter)
		if err != nil {
			return "", false
		}
		attrs := "-"
		if len(r.Attrs) > 0 {
			attrs = hexJoin(r.Attrs, ",")
		}
		return fmt.Sprintf("cenc 1 search %d %s %d %d %d %d %s %s %s %s", r.ID, hx([]byte(r.DN)), r.Scope, r.Deref, r.Size, r.Time, b2s(r.TypesOnly),
			hx(fp.Bytes()), attrs, ctlsTok(r.Ctls)), true
	case "extended":
		return fmt.Sprintf("cenc 1 extended %d %s", r.ID, hx([]byte(r.Name))), true
	case "modify":
		chs := "-"
		if len(r.Changes) > 0 {
			parts := make([]string, len(r.Changes))
			for i, c := range r.Changes {
				parts[i] = fmt.Sprintf("%d~%s~%s", c.Op, hx([]byte(c.Type)), hexJoin(c.Vals, "."))
			}
			chs = strings.Join(parts, "&")
		}
		return fmt.Sprintf("cenc 1 modify %d %s %s %s", r.ID, hx([]byte(r.DN)), chs, ctlsTok(r.Ctls)), true
	case "add":
		ats := "-"
		if len(r.AddAttrs) > 0 {
			parts := make([]string, len(r.AddAttrs))
			for i, a := range r.AddAttrs {
				parts[i] = fmt.Sprintf("%s~%s", hx([]byte(a.Type)), hexJoin(a.Vals, "."))
			}
			ats = strings.Join(parts, "&")
		}
		return fmt.Sprintf("cenc 1 add %d %s %s %s", r.ID, hx([]byte(r.DN)), ats, ctlsTok(r.Ctls)), true
	case "delete":
		return fmt.Sprintf("cenc 1 delete %d %s %s", r.ID, hx([]byte(r.DN)), ctlsTok(r.Ctls)), true
	case "unbind":
		return fmt.Sprintf("cenc 1 unbind %d", r.ID), true
	}
	return "", false
}

// encodeReqDesc carries the harness encoder's bytes for the oracle.
func encodeReqDesc(r Req) string {
	n, err := r.Node()
	if err != nil {
		return ""
	}
	return hx(n.Ser())
}

func ldapControls(cs []Ctl) []ldap.Control {
	var out []ldap.Control
	for _, c := range cs {
		switch c.Kind {
		case "str":
			out = append(out, ldap.NewControlString(c.OID, c.Crit, c.Value))
		case "dsait":
			out = append(out, ldap.NewControlManageDsaIT(c.Crit))
		case "paging":
			out = append(out, &ldap.ControlPaging{PagingSize: c.Size, Cookie: c.Cookie})
		case "behera":
			out = append(out, ldap.NewControlBeheraPasswordPolicy())
		case "msnotif":
			out = append(out, ldap.NewControlMicrosoftNotification())
		case "msshowdel":
			out = append(out, ldap.NewControlMicrosoftShowDeleted())
		case "mslinkttl":
			out = append(out, ldap.NewControlMicrosoftServerLinkTTL())
		}
	}
	return out
}

// parseCencLine rebuilds the request from the case line (the worker / replay path has only the line).
func parseCencLine(line string) (Req, bool) {
	f := strings.Fields(line)
	if len(f) < 4 || f[0] != "cenc" {
		return Req{}, false
	}
	f = append([]string{"cenc"}, f[2:]...) // drop the TRUE-octet field
	r := Req{Kind: f[1], ID: 1, TrueOctet: 0x01}
	ctls := func(tok string) []Ctl {
		if tok == "-" {
			return nil
		}
		var cs []Ctl
		for _, d := range strings.Split(tok, "/") {
			cs = append(cs, parseCtlDesc(strings.Split(d, ",")))
		}
		return cs
	}
	unhexList := func(s, sep string) []string {
		if s == "" {
			return nil
		}
		var out []string
		for _, h := range strings.Split(s, sep) {
			out = append(out, string(unhx(h)))
		}
		return out
	}
	switch r.Kind {
	case "bind":
		r.DN, r.Pass, r.Ctls = string(unhx(f[3])), string(unhx(f[4])), ctls(f[5])
	case "search":
		r.DN = string(unhx(f[3]))
		fmt.Sscan(f[4], &r.Scope)
		fmt.Sscan(f[5], &r.Deref)
		fmt.Sscan(f[6], &r.Size)
		fmt.Sscan(f[7], &r.Time)
		r.TypesOnly = f[8] == "1"
		// the filter text is recovered from its compiled form
		p, err := berDecode(unhx(f[9]))
		if err != nil {
			return r, false
		}
		decodeDNFlags(p)
		txt, err := ldap.DecompileFilter(p)
		if err != nil {
			return r, false
		}
		r.Filter = txt
		if f[10] != "-" {
			r.Attrs = unhexList(f[10], ",")
		}
		r.Ctls = ctls(f[11])
	case "extended":
		r.Name = string(unhx(f[3]))
	case "modify":
		r.DN = string(unhx(f[3]))
		if f[4] != "-" {
			for _, c := range strings.Split(f[4], "&") {
				p := strings.Split(c, "~")
				var op int64
				fmt.Sscan(p[0], &op)
				r.Changes = append(r.Changes, Chg{Op: op, Type: string(unhx(p[1])), Vals: unhexList(p[2], ".")})
			}
		}
		r.Ctls = ctls(f[5])
	case "add":
		r.DN = string(unhx(f[3]))
		if f[4] != "-" {
			for _, c := range strings.Split(f[4], "&") {
				p := strings.Split(c, "~")
				r.AddAttrs = append(r.AddAttrs, Att{Type: string(unhx(p[0])), Vals: unhexList(p[1], ".")})
			}
		}
		r.Ctls = ctls(f[5])
	case "delete":
		r.DN, r.Ctls = string(unhx(f[3])), ctls(f[4])
	case "unbind":
	default:
		return r, false
	}
	return r, true
}

// clientFirstFrame lets a real go-ldap connection perform the operation and returns the first frame it
// writes.
func clientFirstFrame(do func(*ldap.Conn)) ([]byte, error) {
	a, b := net.Pipe()
	conn := ldap.NewConn(a, false)
	conn.Start()
	done := make(chan struct{})
	go func() { defer close(done); do(conn) }()
	rc := &rawClient{c: b}
	f, err := rc.readFrame(5 * time.Second)
	b.Close()
	// go-ldap's Close waits for its own goroutines; never let that hold up the stream
	closed := make(chan struct{})
	go func() { conn.Close(); close(closed) }()
	select {
	case <-closed:
	case <-time.After(3 * time.Second):
	}
	select {
	case <-done:
	case <-time.After(3 * time.Second):
	}
	return f, err
}

func (clientWireStream) Impl(c Case) string {
	r, ok := parseCencLine(c.Line)
	if !ok {
		return "harness-error unparsable case"
	}
	ctls := ldapControls(r.Ctls)
	// (this stream runs in-process, without the re-runs of the live-server streams: a frame that did not arrive within
	// the time limit - a machine that stood still - is asked for again; what go-ldap writes does not depend on the attempt)
	var f []byte
	var err error
	for attempt := 0; attempt < 3; attempt++ {
		if f, err = clientFirstFrame(clientWireOp(r, ctls)); err == nil {
			break
		}
	}
	if err != nil {
		return "err " + err.Error()
	}
	return hx(f)
}

// clientWireOp is the go-ldap call that performs the request.
func clientWireOp(r Req, ctls []ldap.Control) func(l *ldap.Conn) {
	return func(l *ldap.Conn) {
		switch r.Kind {
		case "bind":
			_, _ = l.SimpleBind(&ldap.SimpleBindRequest{Username: r.DN, Password: r.Pass, Controls: ctls, AllowEmptyPassword: true})
		case "search":
			_, _ = l.Search(ldap.NewSearchRequest(r.DN, int(r.Scope), int(r.Deref), int(r.Size), int(r.Time), r.TypesOnly, r.Filter, r.Attrs, ctls))
		case "extended":
			if r.Name == "1.3.6.1.4.1.1466.20037" {
				_ = l.StartTLS(&tls.Config{InsecureSkipVerify: true})
			} else {
				_, _ = l.WhoAmI(nil)
			}
		case "modify":
			m := ldap.NewModifyRequest(r.DN, ctls)
			for _, ch := range r.Changes {
				m.Changes = append(m.Changes, ldap.Change{Operation: uint(ch.Op), Modification: ldap.PartialAttribute{Type: ch.Type, Vals: ch.Vals}})
			}
			_ = l.Modify(m)
		case "add":
			a := ldap.NewAddRequest(r.DN, ctls)
			for _, at := range r.AddAttrs {
				a.Attribute(at.Type, at.Vals)
			}
			_ = l.Add(a)
		case "delete":
			_ = l.Del(ldap.NewDelRequest(r.DN, ctls))
		case "unbind":
			_ = l.Unbind()
		}
	}
}

func (clientWireStream) Oracle(c Case, impl string) (bool, string, string) {
	if strings.HasPrefix(impl, "harness-error") {
		return true, "", ""
	}
	r, ok := parseCencLine(c.Line)
	if !ok {
		return true, "", ""
	}
	want := encodeReqDesc(r)
	if impl != want {
		return false, "go-ldap wrote " + impl + " but the harness encoder (used by every decode stream) produces " + want, "clientwire/" + c.Kind
	}
	return true, "", ""
}

func (clientWireStream) Class(c Case, impl string) (string, bool) {
	return c.Kind, !strings.HasPrefix(impl, "err")
}

// decodeDNFlags: go-ldap's DecompileFilter wants the dnAttributes flag of an extensible match as a decoded bool, which
// a packet decoded from bytes does not carry (context-specific class); the harness decodes it for its own use.
func decodeDNFlags(p *ber.Packet) {
	if p.Tag == ldap.FilterExtensibleMatch {
		for _, c := range p.Children {
			if c.Tag == ldap.MatchingRuleAssertionDNAttributes && c.Value == nil && c.Data != nil && c.Data.Len() == 1 {
				c.Value = c.Data.Bytes()[0] != 0
			}
		}
		return
	}
	for _, c := range p.Children {
		decodeDNFlags(c)
	}
}
