package main

import (
	"crypto/tls"
	"fmt"
	"math/rand"
	"net"
	"strings"
	"time"

	"github.com/jimlambrt/gldap"
)

// ---- stream "hostile-live": hostile bytes at the transport level of a live server ---------------------------------
//
// The in-memory decode streams cannot reach the code that deals with what the transport reports (a TLS record layer
// error, a reset in the middle of a frame, a deadline). Here a real server (plain, TLS, or plain with StartTLS) with
// panic recovery ENABLED is fed garbage at the level below LDAP; the instrumentation point `conn.recovered` tells
// whether gldap's own read path panicked (a recovered panic still counts for C02).

type hostileLiveStream struct{}

func (hostileLiveStream) Name() string               { return "hostile-live" }
func (hostileLiveStream) CaseTimeout() time.Duration { return 60 * time.Second }
func (hostileLiveStream) NoModel() bool              { return true }
func (hostileLiveStream) Rule() string {
	return "a live server (plain / TLS listener / StartTLS-upgraded connection, logger off or at trace level) and a client that, after 0..2 well-formed requests, misbehaves below LDAP: raw bytes written under an established TLS session (wrong record version, oversized record length, SSLv2-looking first byte, a plaintext LDAP request, random bytes), a TLS alert, a truncated record followed by a hang-up, a reset in the middle of a frame, plaintext garbage on a plain connection, a TLS ClientHello sent to a plain listener; oracle: the connection goroutine never recovers a panic (instrumentation point conn.recovered absent), the process lives, and a well-behaved client is served afterwards; non-trivial = every case, distinct by scenario"
}

var hostileKinds = []string{"tls-badversion", "tls-oversized", "tls-sslv2", "tls-plaintext-ldap", "tls-random", "tls-alert", "tls-truncated", "rst-midframe", "plain-garbage", "hello-to-plain"}

func (hostileLiveStream) Generate(rng *rand.Rand, n int, thorough bool) []Case {
	var cs []Case
	for len(cs) < n {
		k := hostileKinds[len(cs)%len(hostileKinds)]
		mode := "tls"
		if strings.HasPrefix(k, "tls-") && rng.Intn(3) == 0 {
			mode = "starttls"
		}
		if !strings.HasPrefix(k, "tls-") {
			mode = "plain"
		}
		cs = append(cs, Case{Line: fmt.Sprintf("hostile kind=%s mode=%s pre=%d seed=%d", k, mode, rng.Intn(3), rng.Intn(1<<30)), Kind: k})
	}
	return cs
}

func (hostileLiveStream) Impl(c Case) string {
	p := kv(c.Line)
	kind, mode := p["kind"], p["mode"]
	rng := rand.New(rand.NewSource(int64(atoi(p["seed"]))))
	tlsConfigs()
	h := func(w *gldap.ResponseWriter, r *gldap.Request) { answer(w, r) }
	sut, err := startServer(allRoutes(h, startTLSHandler(srvTLS, 0, 0), nil), serverTLSFor(mode), nil)
	if err != nil {
		return "harness-error start: " + err.Error()
	}
	defer sut.finish()
	cl, err := connect(sut.addr, mode)
	if err != nil {
		return "harness-error connect: " + err.Error()
	}
	defer cl.close()
	for i := 0; i < atoi(p["pre"]); i++ {
		_ = cl.send(opFrame("bind", int64(i+1)))
		if _, err := cl.readFrame(5 * time.Second); err != nil {
			return "harness-error pre-request: " + err.Error()
		}
	}
	raw := cl.c
	if tc, ok := cl.c.(*tls.Conn); ok {
		raw = tc.NetConn()
	}
	bind := opFrame("bind", 99)
	switch kind {
	case "tls-badversion":
		_, _ = raw.Write(append([]byte{0x17, 0x09, 0x09, 0x00, byte(len(bind))}, bind...))
	case "tls-oversized":
		_, _ = raw.Write([]byte{0x17, 0x03, 0x03, 0xff, 0xff, 1, 2, 3})
	case "tls-sslv2":
		_, _ = raw.Write([]byte{0x80, 0x2e, 0x01, 0x00, 0x02})
	case "tls-plaintext-ldap":
		_, _ = raw.Write(bind)
	case "tls-random":
		_, _ = raw.Write(randBytes(rng, 1+rng.Intn(64)))
	case "tls-alert":
		_, _ = raw.Write([]byte{0x15, 0x03, 0x03, 0x00, 0x02, 0x02, 0x28})
	case "tls-truncated":
		_, _ = raw.Write([]byte{0x17, 0x03, 0x03, 0x01, 0x00, 1, 2, 3, 4})
		cl.close()
	case "rst-midframe":
		_, _ = raw.Write(bind[:len(bind)/2])
		if t, ok := raw.(*net.TCPConn); ok {
			_ = t.SetLinger(0)
		}
		cl.close()
	case "plain-garbage":
		_, _ = raw.Write(randBytes(rng, 1+rng.Intn(64)))
	case "hello-to-plain":
		// a TLS client talking to the plain listener
		go func() {
			tc := tls.Client(raw, cliTLS)
			_ = tc.SetDeadline(time.Now().Add(time.Second))
			_ = tc.Handshake()
		}()
	}
	// the server ends the connection (or the client already has)
	sut.tr.Wait("conn.gone", 1, -1, 3*time.Second)
	verdict := "ok"
	if sut.tr.Count("conn.recovered", -1) > 0 {
		verdict = "gldap's own read path panicked (recovered on the connection goroutine) after " + kind
	}
	if verdict == "ok" {
		n, err := connect(sut.addr, mode)
		if err != nil {
			verdict = "a well-behaved client cannot connect afterwards: " + err.Error()
		} else {
			_ = n.send(opFrame("bind", 7))
			f, err := n.readFrame(5 * time.Second)
			if err != nil || !strings.HasPrefix(strictView(f), "result id=7 tag=1 code=0") {
				verdict = fmt.Sprintf("a well-behaved client is not served afterwards: %v", err)
			}
			n.close()
		}
	}
	return verdict
}

func (hostileLiveStream) Oracle(c Case, impl string) (bool, string, string) {
	if impl == "ok" || strings.HasPrefix(impl, "harness-error") {
		return true, "", ""
	}
	key := "hostile-live/" + c.Kind
	if strings.Contains(impl, "panicked") {
		key = "panic:recovered/" + c.Kind
	}
	return false, impl, key
}

func (hostileLiveStream) Class(c Case, impl string) (string, bool) {
	return c.Kind + "/" + strings.Fields(impl + " -")[0], true
}
