package main

func registerStreams(m map[string]Stream) {}
