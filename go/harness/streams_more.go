package main

func registerStreams(m map[string]Stream) {
	m["ctrl-encode"] = ctrlEncodeStream{}
	m["behera-ctor"] = beheraStream{}
}
