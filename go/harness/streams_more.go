package main

func registerStreams(m map[string]Stream) {
	m["ctrl-encode"] = ctrlEncodeStream{}
	m["behera-ctor"] = beheraStream{}
	m["convert"] = convertStream{}
	m["sid"] = sidStream{}
	m["newentry"] = newEntryStream{}
	m["resp"] = respStream{}
	m["mux"] = muxStream{}
	m["tdbind"] = tdBindStream{}
	m["c05"] = c05Stream{}
	m["c06"] = c06Stream{}
	m["c10"] = c10Stream{}
	m["c08"] = c08Stream{}
	m["c17"] = c17Stream{}
	m["c12"] = c12Stream{}
	m["c11"] = c11Stream{}
	m["c07"] = c07Stream{}
	m["c13"] = c13Stream{}
	m["c18"] = c18Stream{}
	m["tdrace"] = tdRaceStream{}
	m["tdstore"] = tdStoreStream{}
	m["clientwire"] = clientWireStream{}
	m["tdlive"] = tdLiveStream{}
	m["session"] = sessionStream{}
	m["tdbindwire"] = tdBindWireStream{}
	m["tddir"] = tdDirStream{}
	m["hostile-live"] = hostileLiveStream{}
	m["addr"] = addrStream{}
}
