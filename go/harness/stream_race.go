package main

import (
	"fmt"
	"math/rand"
	"strings"
	"sync"
	"time"

	"github.com/jimlambrt/gldap"
	"github.com/jimlambrt/gldap/testdirectory"
)

// ---- stream "tdrace": the test directory's Set* methods and getters during traffic ---------------------
// Meant to be run by the race-enabled harness binary: a data race inside gldap or testdirectory
// makes the worker process exit (GORACE=halt_on_error=1), which the parent reports.

type tdRaceStream struct{}

func (tdRaceStream) Name() string               { return "tdrace" }
func (tdRaceStream) CaseTimeout() time.Duration { return 120 * time.Second }
func (tdRaceStream) NoModel() bool              { return true }
func (tdRaceStream) Rule() string {
	return "a live test directory (plain listener) serving C concurrent clients (2..6) that issue binds (also with an empty password), user / group / generic searches, adds, modifies and deletes - on entries of their own and on entries all of them share (one client searches an entry while another modifies it) -, while application goroutines call SetUsers, SetGroups, SetControls, SetTokenGroups, SetAllowAnonymousBind and the getters in a loop; run under the race detector; oracle: no race report with a frame in github.com/jimlambrt/gldap, no panic, every request answered; non-trivial = every scenario, distinct by seed"
}

func (tdRaceStream) Generate(rng *rand.Rand, n int, thorough bool) []Case {
	var cs []Case
	for len(cs) < n {
		cs = append(cs, Case{Line: fmt.Sprintf("tdrace clients=%d ops=%d seed=%d", 2+rng.Intn(5), 30+rng.Intn(60), rng.Intn(1<<30)), Kind: "tdrace"})
	}
	return cs
}

func (tdRaceStream) Impl(c Case) string {
	p := kv(c.Line)
	ht := &harnessT{}
	users := testdirectory.NewUsers(ht, []string{"alice", "bob", "eve"})
	groups := []*gldap.Entry{testdirectory.NewGroup(ht, "admin", []string{"alice"})}
	port := 0
	fmt.Sscanf(freeAddr()[strings.LastIndex(freeAddr(), ":")+1:], "%d", &port)
	addr := freeAddr()
	fmt.Sscanf(addr[strings.LastIndex(addr, ":")+1:], "%d", &port)
	td := testdirectory.Start(ht, testdirectory.WithNoTLS(ht), testdirectory.WithPort(ht, port),
		testdirectory.WithDefaults(ht, &testdirectory.Defaults{Users: users, Groups: groups, AllowAnonymousBind: true,
			UserDN: testdirectory.DefaultUserDN, GroupDN: testdirectory.DefaultGroupDN}))
	defer td.Stop()
	target := fmt.Sprintf("127.0.0.1:%d", port)
	verdict := "ok"
	var vmu sync.Mutex
	fail := func(f string, a ...interface{}) {
		vmu.Lock()
		if verdict == "ok" {
			verdict = fmt.Sprintf(f, a...)
		}
		vmu.Unlock()
	}
	stop := make(chan struct{})
	var aw sync.WaitGroup
	aw.Add(1)
	go func() { // the application side
		defer aw.Done()
		rng := rand.New(rand.NewSource(int64(atoi(p["seed"]))))
		ctl, _ := gldap.NewControlString("1.2.3.4", gldap.WithControlValue("v"))
		for {
			select {
			case <-stop:
				return
			default:
			}
			switch rng.Intn(10) {
			case 0:
				td.SetUsers(testdirectory.NewUsers(ht, []string{"alice", "bob", "eve"})...)
			case 1:
				td.SetGroups(testdirectory.NewGroup(ht, "admin", []string{"alice"}))
			case 2:
				td.SetControls(ctl)
			case 3:
				td.SetControls()
			case 4:
				td.SetAllowAnonymousBind(rng.Intn(2) == 0)
			case 5:
				td.SetTokenGroups(map[string][]*gldap.Entry{"S-1-1": groups})
			case 6:
				_ = len(td.Users())
			case 7:
				_ = len(td.Groups())
			case 8:
				_ = td.AllowAnonymousBind()
			case 9:
				_ = len(td.Controls()) + len(td.TokenGroups())
			}
			time.Sleep(50 * time.Microsecond)
		}
	}()
	var cw sync.WaitGroup
	for ci := 0; ci < atoi(p["clients"]); ci++ {
		cw.Add(1)
		go func(ci int) {
			defer cw.Done()
			rng := rand.New(rand.NewSource(int64(atoi(p["seed"]) + ci)))
			cl, err := dialRaw(target, nil)
			if err != nil {
				fail("client cannot connect: %v", err)
				return
			}
			defer cl.close()
			for i := 0; i < atoi(p["ops"]); i++ {
				id := int64(i + 1)
				var r Req
				dn := fmt.Sprintf("cn=u%d-%d,%s", ci, rng.Intn(4), testdirectory.DefaultUserDN)
				shared := fmt.Sprintf("cn=shared%d,%s", rng.Intn(2), testdirectory.DefaultUserDN)
				switch rng.Intn(14) {
				case 9:
					// entries every client works on: one searches an entry while another modifies it
					r = Req{Kind: "modify", ID: id, DN: "cn=alice," + testdirectory.DefaultUserDN, Changes: []Chg{{Op: []int64{0, 2, 1}[rng.Intn(3)], Type: "description", Vals: []string{"d"}}}}
				case 10:
					r = Req{Kind: "add", ID: id, DN: shared, AddAttrs: []Att{{Type: "mail", Vals: []string{"a@b"}}}}
				case 11:
					r = Req{Kind: "modify", ID: id, DN: shared, Changes: []Chg{{Op: []int64{0, 2}[rng.Intn(2)], Type: "mail", Vals: []string{"c@d", "e@f"}}}}
				case 12:
					r = Req{Kind: "search", ID: id, DN: testdirectory.DefaultUserDN, Scope: 2, Filter: fmt.Sprintf("(cn=shared%d)", rng.Intn(2))}
				case 13:
					r = Req{Kind: "search", ID: id, DN: testdirectory.DefaultUserDN, Scope: 2, Filter: "(cn=alice)"}
				case 8:
					r = Req{Kind: "bind", ID: id, DN: "cn=alice," + testdirectory.DefaultUserDN, Pass: ""} // anonymous
				case 0:
					r = Req{Kind: "bind", ID: id, DN: "cn=alice," + testdirectory.DefaultUserDN, Pass: "password"}
				case 1:
					r = Req{Kind: "search", ID: id, DN: testdirectory.DefaultUserDN, Scope: 2, Filter: "(cn=alice)"}
				case 2:
					r = Req{Kind: "search", ID: id, DN: testdirectory.DefaultGroupDN, Scope: 2, Filter: "(member=alice)"}
				case 3:
					r = Req{Kind: "search", ID: id, DN: "dc=example,dc=org", Scope: 2, Filter: "(cn=bob)"}
				case 4, 5:
					r = Req{Kind: "add", ID: id, DN: dn, AddAttrs: []Att{{Type: "mail", Vals: []string{"a@b"}}}}
				case 6:
					r = Req{Kind: "modify", ID: id, DN: dn, Changes: []Chg{{Op: 0, Type: "description", Vals: []string{"d"}}}}
				case 7:
					r = Req{Kind: "delete", ID: id, DN: dn}
				}
				nd, err := r.Node()
				if err != nil {
					continue
				}
				if err := cl.send(nd.Ser()); err != nil {
					fail("client write failed: %v", err)
					return
				}
				for {
					f, err := cl.readFrame(10 * time.Second)
					if err != nil {
						fail("request %s not answered: %v", r.Kind, err)
						return
					}
					if strings.HasPrefix(strictView(f), "result ") {
						break
					}
				}
			}
		}(ci)
	}
	cw.Wait()
	close(stop)
	aw.Wait()
	if ht.failed {
		fail("the directory reported a test failure")
	}
	return verdict
}

func (tdRaceStream) Oracle(c Case, impl string) (bool, string, string) {
	if impl == "ok" || strings.HasPrefix(impl, "harness-error") {
		return true, "", ""
	}
	if strings.HasPrefix(impl, "process-died:race") {
		return false, impl, raceKey(impl)
	}
	return false, impl, "tdrace/" + strings.Fields(impl)[0]
}

// raceKey reduces a race report to the gldap functions named in its first lines.
func raceKey(impl string) string {
	var fns []string
	for _, part := range strings.Split(impl, "|") {
		part = strings.TrimSpace(part)
		if i := strings.Index(part, "github.com/jimlambrt/gldap"); i >= 0 {
			f := part[i:]
			if j := strings.Index(f, "("); j > 0 && !strings.Contains(f[:j], "/") {
				f = f[:j]
			}
			f = strings.TrimPrefix(f, "github.com/jimlambrt/gldap/")
			f = strings.TrimPrefix(f, "github.com/jimlambrt/gldap.")
			if k := strings.Index(f, "()"); k > 0 {
				f = f[:k]
			}
			fns = append(fns, strings.Fields(f)[0])
		}
	}
	if len(fns) > 2 {
		fns = fns[:2]
	}
	return "race:" + strings.Join(fns, "+")
}

func (tdRaceStream) Class(c Case, impl string) (string, bool) {
	return strings.Fields(impl + " -")[0], impl == "ok"
}
