package main

import (
	"crypto/tls"
	"fmt"
	"io"
	"math/rand"
	"net"
	"strings"
	"sync"
	"time"

	"github.com/jimlambrt/gldap"
)

// wiretap is a TCP forwarder that records what the server sends to the client.
type wiretap struct {
	l        net.Listener
	mu       sync.Mutex
	s2c, c2s map[int][]byte
	n        int
}

func newWiretap(target string) (*wiretap, error) {
	l, err := net.Listen("tcp", "127.0.0.1:0")
	if err != nil {
		return nil, err
	}
	w := &wiretap{l: l, s2c: map[int][]byte{}, c2s: map[int][]byte{}}
	go func() {
		for {
			c, err := l.Accept()
			if err != nil {
				return
			}
			w.mu.Lock()
			id := w.n
			w.n++
			w.mu.Unlock()
			s, err := net.Dial("tcp", target)
			if err != nil {
				c.Close()
				continue
			}
			pipe := func(dst, src net.Conn, rec map[int][]byte) {
				buf := make([]byte, 32768)
				for {
					n, err := src.Read(buf)
					if n > 0 {
						w.mu.Lock()
						rec[id] = append(rec[id], buf[:n]...)
						w.mu.Unlock()
						if _, werr := dst.Write(buf[:n]); werr != nil {
							break
						}
					}
					if err != nil {
						break
					}
				}
				dst.Close()
				src.Close()
			}
			go pipe(c, s, w.s2c) // what the server sends
			go pipe(s, c, w.c2s) // what the client sends
		}
	}()
	return w, nil
}

// tlsRecordsOnly reports whether b is a sequence of TLS records (possibly ending inside one).
func tlsRecordsOnly(b []byte) (bool, string) {
	i := 0
	for i < len(b) {
		if len(b)-i < 5 {
			return true, ""
		}
		typ, maj, min := b[i], b[i+1], b[i+2]
		n := int(b[i+3])<<8 | int(b[i+4])
		if typ < 20 || typ > 23 || maj != 3 || min > 4 || n > 16384+2048 {
			return false, fmt.Sprintf("at offset %d: % x", i, b[i:i+5])
		}
		i += 5 + n
	}
	return true, ""
}

// ---- stream "c13": StartTLS ------------------------------------------------------------------------

type c13Stream struct{}

func (c13Stream) Name() string               { return "c13" }
func (c13Stream) CaseTimeout() time.Duration { return 60 * time.Second }
func (c13Stream) Rule() string {
	return "K sessions in parallel (1..8) through a recording TCP forwarder: a conforming client first issues 0..3 plain requests, then sends StartTLS, the handler waits D1 ms before its reply and D2 ms between the reply and Request.StartTLS (0..40 ms each, occasionally 1.3 s), the client starts its handshake the moment the reply arrives (so its ClientHello is in the socket while the handler is still running), then issues N requests inside the tunnel (in three cases of seven with DNs of 1.3 to 40 KB, which span several TLS records and must reach the handler whole), sequentially or pipelined, occasionally after 6 s (rarely 11 s) of silence; optionally with all clients waiting for every StartTLS reply before any handshake, with Stop called while the tunnels are busy, or (for the race detector only) with a slow request still in flight when StartTLS is served; every third scenario serves the StartTLS operation through the default route (no route of its own), every fourth quiet one keeps an earlier request's handler blocked until a request inside the tunnel has reached its handler; oracle: the handshake succeeds, every request in the tunnel is answered correctly and numbered after the StartTLS request, and every byte the server sent after the StartTLS reply parses as TLS records; trace replayed through the connection automaton; non-trivial = D1 + D2 > 0 or pipelined requests, distinct by scenario"
}

func (c13Stream) Generate(rng *rand.Rand, n int, thorough bool) []Case {
	var cs []Case
	for len(cs) < n {
		before, after, idle, linger := []int{0, 1, 10, 40}[rng.Intn(4)], []int{0, 1, 10, 40}[rng.Intn(4)], 0, 0
		switch rng.Intn(12) {
		case 0:
			before = 1300 // a handler that takes its time before answering
		case 1:
			after = 1300 // ... or between its answer and the handshake
		case 2:
			idle = 6000 // a session that stays quiet for a while after the upgrade
			if rng.Intn(3) == 0 {
				idle = 11000 // ... or for longer than any handshake deadline one would pick
			}
		case 3:
			linger = 1500 // a handler that goes on working after Request.StartTLS has returned
		}
		barrier, stop, overlap := 0, 0, 0
		switch rng.Intn(10) {
		case 0, 1:
			barrier = 1 // every client waits until all have their StartTLS reply before any starts its handshake
		case 2:
			stop = 1 // Stop is called while the upgraded sessions are still sending requests
		case 3:
			overlap = 1 // (race detector only) a slow request is still in flight when StartTLS is served
		}
		// requests inside the tunnel with DNs of this many bytes (0: short ones): large requests span several TLS records
		big := []int{0, 0, 0, 0, 1337, 5000, 40000}[rng.Intn(7)]
		// the StartTLS operation served by the mux's default route instead of a route of its own (every third scenario);
		// a request whose handler blocks until a request INSIDE the tunnel has reached its handler (every fourth, quiet ones only)
		viadefault, blocked := 0, 0
		if rng.Intn(3) == 0 {
			viadefault = 1
		}
		if rng.Intn(4) == 0 && idle == 0 && stop == 0 && overlap == 0 {
			blocked = 1
		}
		// the StartTLS handler panics right after Request.StartTLS has returned (every tenth quiet scenario): the
		// connection ends, and whatever the server still sends is inside the tunnel
		hpanic := 0
		if rng.Intn(10) == 0 && idle == 0 && stop == 0 && overlap == 0 && blocked == 0 && linger == 0 && barrier == 0 {
			hpanic = 1
		}
		cs = append(cs, Case{Line: fmt.Sprintf("c13 sessions=%d pre=%d before=%d after=%d post=%d pipelined=%d idle=%d barrier=%d stop=%d overlap=%d linger=%d big=%d viadefault=%d blocked=%d hpanic=%d silent=%d", []int{1, 2, 4, 8}[rng.Intn(4)],
			[]int{0, 0, 1, 3}[rng.Intn(4)], before, after, 1+rng.Intn(6), rng.Intn(2), idle, barrier, stop, overlap, linger, big, viadefault, blocked, hpanic,
			// (silent: so many other clients have had their StartTLS accepted and have not begun their handshakes yet)
			[]int{0, 0, 0, 0, 18, 40}[rng.Intn(6)]), Kind: "starttls"})
	}
	return cs
}

func (c13Stream) Impl(c Case) string {
	p := kv(c.Line)
	k, post, pre, idle := atoi(p["sessions"]), atoi(p["post"]), atoi(p["pre"]), atoi(p["idle"])
	tlsConfigs()
	if p["overlap"] == "1" {
		return c13Overlap(k)
	}
	rc := &recorder{}
	big := atoi(p["big"])
	bigDN := "cn=big" + strings.Repeat("y", big)
	blk := atoi(p["blocked"])
	var seenMu sync.Mutex
	tunnelSeen := map[int]chan struct{}{}
	seenCh := func(conn int) chan struct{} {
		seenMu.Lock()
		defer seenMu.Unlock()
		if tunnelSeen[conn] == nil {
			tunnelSeen[conn] = make(chan struct{})
		}
		return tunnelSeen[conn]
	}
	var failLate func(f string, a ...interface{})
	h := func(w *gldap.ResponseWriter, r *gldap.Request) {
		rc.enter(r)
		if id := r.VerifMessage().GetID(); blk == 1 {
			ch := seenCh(r.ConnectionID())
			switch {
			case id == 6000:
				// blocks until a request inside the tunnel has reached its handler, and answers nothing (its writer
				// belongs to the connection as it was before the upgrade)
				select {
				case <-ch:
				case <-time.After(20 * time.Second):
					failLate("a request inside the tunnel was not dispatched while an earlier handler of its connection was still blocked")
				}
				return
			case id >= 100 && id < 5000:
				seenMu.Lock()
				select {
				case <-ch:
				default:
					close(ch)
				}
				seenMu.Unlock()
			}
		}
		if big > 0 {
			// the handler must see the large DN the client sent, whole
			var dn string
			switch m := r.VerifMessage().(type) {
			case *gldap.SimpleBindMessage:
				dn = m.UserName
			case *gldap.SearchMessage:
				dn = m.BaseDN
			case *gldap.ModifyMessage:
				dn = m.DN
			case *gldap.AddMessage:
				dn = m.DN
			case *gldap.DeleteMessage:
				dn = m.DN
			}
			if strings.HasPrefix(dn, "cn=big") && dn != bigDN {
				_ = w.Write(r.NewResponse(gldap.WithResponseCode(80), gldap.WithDiagnosticMessage("the handler received a damaged DN")))
				return
			}
		}
		answer(w, r)
	}
	var barrier sync.WaitGroup
	barrier.Add(k)
	stls := startTLSHandler(srvTLS, time.Duration(atoi(p["before"]))*time.Millisecond, time.Duration(atoi(p["after"]))*time.Millisecond)
	if lg := atoi(p["linger"]); lg > 0 && p["stop"] != "1" {
		// when Request.StartTLS returns the upgrade is complete: a client with a 1 s handshake budget is not kept
		// waiting by a handler that then goes on working for 1.5 s
		inner := stls
		stls = func(w *gldap.ResponseWriter, r *gldap.Request) {
			inner(w, r)
			time.Sleep(time.Duration(lg) * time.Millisecond)
		}
	}
	if p["hpanic"] == "1" {
		inner := stls
		stls = func(w *gldap.ResponseWriter, r *gldap.Request) {
			inner(w, r)
			panic("StartTLS handler panic injected by the harness, after the upgrade")
		}
	}
	if p["stop"] == "1" {
		// the handler lingers for a while after the upgrade: Stop arrives while the read loop is not parked in a read,
		// so the loop head sees the cancellation and sends the notice of disconnection - inside the tunnel
		inner := stls
		stls = func(w *gldap.ResponseWriter, r *gldap.Request) {
			inner(w, r)
			time.Sleep(200 * time.Millisecond)
		}
	}
	mux := allRoutes(h, stls, nil)
	if p["viadefault"] == "1" {
		// no route of its own for StartTLS: one catch-all handler registered with DefaultRoute serves every operation
		mux, _ = gldap.NewMux()
		_ = mux.DefaultRoute(func(w *gldap.ResponseWriter, r *gldap.Request) {
			if r.VerifExtendedName() == string(gldap.ExtendedOperationStartTLS) {
				stls(w, r)
				return
			}
			h(w, r)
		})
	}
	sut, err := startServer(mux, nil, nil)
	if err != nil {
		return "harness-error start: " + err.Error()
	}
	tap, err := newWiretap(sut.addr)
	if err != nil {
		return "harness-error wiretap: " + err.Error()
	}
	defer tap.l.Close()
	var mu sync.Mutex
	verdict := "ok"
	fail := func(f string, a ...interface{}) {
		mu.Lock()
		if verdict == "ok" {
			verdict = fmt.Sprintf(f, a...)
		}
		mu.Unlock()
	}
	failLate = fail
	var silent []net.Conn
	for i := atoi(p["silent"]); i > 0 && p["stop"] != "1"; i-- {
		sc, err := net.DialTimeout("tcp", sut.addr, 3*time.Second)
		if err != nil {
			continue
		}
		silent = append(silent, sc)
		scl := &rawClient{c: sc}
		_ = scl.send(opFrame("starttls", 100))
		_, _ = scl.readFrame(5 * time.Second)
	}
	defer func() {
		for _, sc := range silent {
			sc.Close()
		}
	}()
	var wg sync.WaitGroup
	var stopOnce sync.Once
	var allUp sync.WaitGroup
	allUp.Add(k)
	replyLen := make([]int, k)
	for s := 0; s < k; s++ {
		wg.Add(1)
		go func(s int) {
			defer wg.Done()
			raw, err := net.DialTimeout("tcp", tap.l.Addr().String(), 3*time.Second)
			if err != nil {
				fail("harness-error dial: %v", err)
				return
			}
			defer raw.Close()
			cl := &rawClient{c: raw}
			// plain requests before the upgrade: answered in the clear
			for j := 0; j < pre; j++ {
				_ = cl.send(opFrame(opKinds[(s+j)%len(opKinds)], int64(50+j)))
				rf, err := cl.readFrame(10 * time.Second)
				if err != nil || !strings.HasPrefix(strictView(rf), fmt.Sprintf("result id=%d ", 50+j)) {
					fail("plain request %d before StartTLS not answered correctly: %v", j, err)
					return
				}
			}
			if blk == 1 {
				// a search whose handler stays blocked across the upgrade; nothing is read for it
				_ = cl.send(opFrame("search", 6000))
			}
			// the StartTLS request carries the message id the first request inside the tunnel will use again (an id
			// is free for reuse once its response has arrived)
			_ = cl.send(opFrame("starttls", 100))
			f, err := cl.readFrame(10 * time.Second)
			if err != nil {
				fail("no StartTLS response: %v", err)
				return
			}
			if v := strictView(f); !strings.HasPrefix(v, "result id=100 tag=24 code=0") {
				fail("StartTLS refused: %s", v)
				return
			}
			mu.Lock()
			replyLen[s] = len(f)
			mu.Unlock()
			if len(cl.buf) != 0 {
				fail("the server sent plaintext after the StartTLS response")
				return
			}
			if p["barrier"] == "1" {
				barrier.Done()
				bw := make(chan struct{})
				go func() { barrier.Wait(); close(bw) }()
				select {
				case <-bw:
				case <-time.After(8 * time.Second):
					fail("sessions wait for one another: not every StartTLS request was answered while the others had not yet begun their handshakes")
					return
				}
			}
			cfg := cliTLS.Clone()
			cfg.ServerName = "localhost"
			tc := tls.Client(raw, cfg)
			hsBudget := 10 * time.Second
			if atoi(p["linger"]) > 0 {
				hsBudget = time.Second
			}
			_ = tc.SetDeadline(time.Now().Add(hsBudget))
			if p["hpanic"] == "1" {
				// the handler panics on the server's side of the finished upgrade: the connection is going away; whatever
				// still arrives is judged on the wire (TLS records only), not here
				if tc.Handshake() == nil {
					_ = tc.SetDeadline(time.Now().Add(3 * time.Second))
					buf := make([]byte, 4096)
					for {
						if _, err := tc.Read(buf); err != nil {
							break
						}
					}
				}
				return
			}
			if err := tc.Handshake(); err != nil {
				fail("TLS handshake after StartTLS failed: %v", err)
				return
			}
			_ = tc.SetDeadline(time.Time{})
			tcl := &rawClient{c: tc}
			if p["stop"] == "1" {
				// Stop is called once every session has completed its upgrade (a Stop that interrupts a handshake makes
				// that upgrade fail, which is not this property's business); whatever the server still sends - the notice
				// of disconnection - must arrive inside the tunnel
				allUp.Done()
				upc := make(chan struct{})
				go func() { allUp.Wait(); close(upc) }()
				select {
				case <-upc:
				case <-time.After(15 * time.Second):
					return
				}
				stopOnce.Do(func() {
					// ... and the server side of every upgrade too (with TLS 1.3 the client finishes first): the
					// connection's reader and writer have been swapped (second conn.init of each connection)
					for i := 0; i < 5000 && sut.tr.Count("conn.init", -1) < 2*k; i++ {
						time.Sleep(time.Millisecond)
					}
					go sut.stop(10 * time.Second)
				})
				for {
					if _, err := tcl.readFrame(3 * time.Second); err != nil {
						if strings.Contains(err.Error(), "tls:") {
							fail("after Stop the server sent bytes that are not TLS records inside the tunnel: %v", err)
						}
						break
					}
				}
				_ = tc.Close()
				return
			}
			kinds := make([]string, post)
			var all []byte
			for j := 0; j < post; j++ {
				kinds[j] = opKinds[(s+j)%len(opKinds)]
				fr := opFrame(kinds[j], int64(100+j))
				if big > 0 && kinds[j] != "extended" {
					r := Req{Kind: kinds[j], ID: int64(100 + j), DN: bigDN, Pass: "pw", Scope: 2, Filter: "(cn=x)"}
					nd, _ := r.Node()
					fr = nd.Ser()
				}
				if p["pipelined"] == "1" {
					all = append(all, fr...)
				} else {
					if j == 1 && idle > 0 {
						time.Sleep(time.Duration(idle) * time.Millisecond)
					}
					_ = tcl.send(fr)
					rf, err := tcl.readFrame(10 * time.Second)
					if err != nil || !strings.HasPrefix(strictView(rf), fmt.Sprintf("result id=%d ", 100+j)) || strings.Contains(strictView(rf), " code=80 ") {
						fail("request %d inside the tunnel not answered correctly: %v", j, err)
						return
					}
				}
			}
			if p["pipelined"] == "1" {
				if idle > 0 {
					time.Sleep(time.Duration(idle) * time.Millisecond)
				}
				_ = tcl.send(all)
				seen := map[int64]bool{}
				for j := 0; j < post; j++ {
					rf, err := tcl.readFrame(10 * time.Second)
					if err != nil {
						fail("pipelined request inside the tunnel not answered: %v", err)
						return
					}
					var id int64
					fmt.Sscanf(strictView(rf), "result id=%d", &id)
					seen[id] = true
				}
				if len(seen) != post {
					fail("%d distinct responses for %d pipelined requests inside the tunnel", len(seen), post)
				}
			}
			_ = tc.Close()
		}(s)
	}
	wg.Wait()
	time.Sleep(10 * time.Millisecond)
	if verdict == "ok" {
		// numbering: the StartTLS request was #1, tunnel requests follow
		rc.mu.Lock()
		byConn := map[int][]entryRec{}
		for _, e := range rc.entries {
			byConn[e.conn] = append(byConn[e.conn], e)
		}
		rc.mu.Unlock()
		for cid, es := range byConn {
			for _, e := range es {
				if e.msgID >= 5000 {
					continue
				}
				want := int(e.msgID-100) + 2 + pre + blk
				if e.msgID < 100 {
					want = int(e.msgID-50) + 1
				}
				if e.reqID != want {
					fail("conn %d: request with message id %d has Request.ID %d, want %d", cid, e.msgID, e.reqID, want)
				}
			}
			nes := 0
			for _, e := range es {
				if e.msgID < 5000 {
					nes++
				}
			}
			wantH := post + pre
			if p["stop"] == "1" || p["hpanic"] == "1" {
				wantH = pre
			}
			if nes != wantH {
				fail("conn %d: %d handlers for %d plain and %d tunnel requests", cid, len(es), pre, post)
			}
		}
		if len(byConn) != k && !((p["stop"] == "1" || p["hpanic"] == "1") && pre == 0) {
			fail("%d connections served tunnel requests, want %d", len(byConn), k)
		}
	}
	if verdict == "ok" {
		tap.mu.Lock()
		// "every byte in both directions": what the server sent after its pre + 1 plaintext replies (the pre requests'
		// and the StartTLS reply, one LDAPMessage each; the blocked request is never answered), and what the client
		// sent after its pre + blk + 1 plaintext requests
		for dir, rec := range map[string]map[int][]byte{"server": tap.s2c, "client": tap.c2s} {
			plain := pre + 1
			if dir == "client" {
				plain += blk
			}
			for id, b := range rec {
				n := 0
				bad := false
				for j := 0; j < plain; j++ {
					m, ok := frameLen(b[n:])
					if !ok || n+m > len(b) {
						fail("session %d: the %s's stream does not start with %d plaintext messages", id, dir, plain)
						bad = true
						break
					}
					n += m
				}
				if bad {
					continue
				}
				if ok, where := tlsRecordsOnly(b[n:]); !ok {
					fail("session %d: bytes sent by the %s after the StartTLS exchange are not TLS records (%s)", id, dir, where)
				}
			}
		}
		tap.mu.Unlock()
	}
	if st := rc.stale(); st != "" {
		fail("%s", st)
	}
	sut.finish()
	return verdict + "\t" + traceString(sut.tr.Snapshot(), "conn.", "loop.", "req.", "run.", "stop.")
}

// c13Overlap: for the race detector only. A slow request is still being handled when the StartTLS request behind it
// is served (RFC 4511 forbids this to clients, so nothing is judged but the absence of a data race or crash).
func c13Overlap(k int) string {
	h := func(w *gldap.ResponseWriter, r *gldap.Request) {
		if _, ok := r.VerifMessage().(*gldap.SearchMessage); ok {
			time.Sleep(120 * time.Millisecond) // answers well after the connection has been upgraded
		}
		answer(w, r)
	}
	// (with generous timeouts configured: code that only runs when they are set runs here too)
	sut, err := startServer(allRoutes(h, startTLSHandler(srvTLS, 0, 0), nil), nil, nil, gldap.WithWriteTimeout(40*time.Second), gldap.WithReadTimeout(40*time.Second))
	if err != nil {
		return "harness-error start: " + err.Error()
	}
	var wg sync.WaitGroup
	for s := 0; s < k; s++ {
		wg.Add(1)
		go func() {
			defer wg.Done()
			raw, err := net.DialTimeout("tcp", sut.addr, 3*time.Second)
			if err != nil {
				return
			}
			defer raw.Close()
			cl := &rawClient{c: raw}
			_ = cl.send(append(append(opFrame("search", 10), opFrame("bind", 11)...), opFrame("starttls", 12)...))
			for i := 0; i < 3; i++ {
				f, err := cl.readFrame(time.Second)
				if err != nil || strings.HasPrefix(strictView(f), "result id=12 ") {
					break
				}
			}
			cfg := cliTLS.Clone()
			cfg.ServerName = "localhost"
			tc := tls.Client(raw, cfg)
			_ = tc.SetDeadline(time.Now().Add(time.Second))
			if tc.Handshake() == nil {
				// the late answer of the search arrives now (in the clear, on the unchanged tree: RFC 4511 forbids the
				// client to have it outstanding); read whatever comes until the deadline
				buf := make([]byte, 4096)
				_, _ = tc.Read(buf)
			}
		}()
	}
	wg.Wait()
	time.Sleep(150 * time.Millisecond)
	sut.finish()
	return "ok\t"
}

func (c13Stream) ModelLine(c Case, trace string) string { return "trace conn " + trace }

func (c13Stream) Oracle(c Case, impl string) (bool, string, string) {
	if impl == "ok" || strings.HasPrefix(impl, "harness-error") {
		return true, "", ""
	}
	key := "c13/" + strings.Join(strings.Fields(impl)[:min(3, len(strings.Fields(impl)))], "-")
	switch {
	case strings.Contains(impl, "handshake"):
		key = "c13/handshake-failed"
	case strings.Contains(impl, "not TLS records"), strings.Contains(impl, "plaintext"):
		key = "c13/plaintext-after-upgrade"
	case strings.Contains(impl, "tunnel"):
		key = "c13/tunnel-request"
	}
	return false, impl, key
}

func (c13Stream) Class(c Case, impl string) (string, bool) {
	p := kv(c.Line)
	return "sessions" + p["sessions"] + "/" + strings.Fields(impl + " -")[0], (atoi(p["before"])+atoi(p["after"]) > 0 || p["pipelined"] == "1") && impl == "ok"
}

var _ = io.EOF
