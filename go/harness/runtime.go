package main

import (
	"crypto/tls"
	"errors"
	"fmt"
	"io"
	"net"
	"os"
	"strings"
	"sync"
	"sync/atomic"
	"time"

	"github.com/hashicorp/go-hclog"
	"github.com/jimlambrt/gldap"
	"github.com/jimlambrt/gldap/testdirectory"
)

// ---- event log + schedule controller over gldap.VerifHook --------------------------------------

type Event struct {
	Label string
	Conn  int
	Req   int
}

func (e Event) String() string { return fmt.Sprintf("%s:%d:%d", e.Label, e.Conn, e.Req) }

type gate struct {
	label     string
	conn, req int // -1 = any
	arrived   chan struct{}
	release   chan struct{}
	once      sync.Once
	used      bool
}

// Tracer records every instrumentation point in one global order and can hold a goroutine
// at a chosen point. Acquire-like points are placed after the operation in the source and
// release-like points before it, so the logged order is a legal linearisation.
type Tracer struct {
	mu     sync.Mutex
	events []Event
	gates  []*gate
	cond   *sync.Cond
}

func NewTracer() *Tracer {
	t := &Tracer{}
	t.cond = sync.NewCond(&t.mu)
	return t
}

func (t *Tracer) Hook(label string, conn, req int) {
	t.mu.Lock()
	t.events = append(t.events, Event{label, conn, req})
	var g *gate
	for _, x := range t.gates {
		if !x.used && x.label == label && (x.conn == -1 || x.conn == conn) && (x.req == -1 || x.req == req) {
			x.used = true
			g = x
			break
		}
	}
	t.cond.Broadcast()
	t.mu.Unlock()
	if g != nil {
		close(g.arrived)
		<-g.release
	}
}

// Block arranges for the next goroutine reaching the point to wait there until Release.
func (t *Tracer) Block(label string, conn, req int) *gate {
	g := &gate{label: label, conn: conn, req: req, arrived: make(chan struct{}), release: make(chan struct{})}
	if noTrace {
		close(g.arrived)
		return g
	}
	t.mu.Lock()
	t.gates = append(t.gates, g)
	t.mu.Unlock()
	return g
}

func (g *gate) Arrived(d time.Duration) bool {
	select {
	case <-g.arrived:
		return true
	case <-time.After(d):
		return false
	}
}

func (g *gate) Release() { g.once.Do(func() { close(g.release) }) }

// ReleaseAll frees every goroutine still held (used on scenario exit).
func (t *Tracer) ReleaseAll() {
	t.mu.Lock()
	gs := append([]*gate(nil), t.gates...)
	t.mu.Unlock()
	for _, g := range gs {
		g.Release()
	}
}

// Wait blocks until an event matching (label, conn, req) with -1 wildcards has been logged.
func (t *Tracer) Wait(label string, conn, req int, d time.Duration) bool {
	if noTrace {
		if d > 40*time.Millisecond {
			d = 40 * time.Millisecond
		}
		time.Sleep(d)
		return true
	}
	deadline := time.Now().Add(d)
	t.mu.Lock()
	defer t.mu.Unlock()
	for {
		for _, e := range t.events {
			if e.Label == label && (conn == -1 || e.Conn == conn) && (req == -1 || e.Req == req) {
				return true
			}
		}
		if time.Now().After(deadline) {
			return false
		}
		go func() { time.Sleep(5 * time.Millisecond); t.cond.Broadcast() }()
		t.cond.Wait()
	}
}

func (t *Tracer) Count(label string, conn int) int {
	t.mu.Lock()
	defer t.mu.Unlock()
	n := 0
	for _, e := range t.events {
		if e.Label == label && (conn == -1 || e.Conn == conn) {
			n++
		}
	}
	return n
}

// Count2 counts the events with this label, connection and request number.
func (t *Tracer) Count2(label string, conn, req int) int {
	t.mu.Lock()
	defer t.mu.Unlock()
	n := 0
	for _, e := range t.events {
		if e.Label == label && e.Conn == conn && e.Req == req {
			n++
		}
	}
	return n
}

func (t *Tracer) Snapshot() []Event {
	t.mu.Lock()
	defer t.mu.Unlock()
	return append([]Event(nil), t.events...)
}

func (t *Tracer) Index(label string, conn, req int) int {
	for i, e := range t.Snapshot() {
		if e.Label == label && (conn == -1 || e.Conn == conn) && (req == -1 || e.Req == req) {
			return i
		}
	}
	return -1
}

func traceString(evs []Event, prefixes ...string) string {
	var parts []string
	for _, e := range evs {
		keep := len(prefixes) == 0
		for _, p := range prefixes {
			if strings.HasPrefix(e.Label, p) {
				keep = true
			}
		}
		if keep {
			parts = append(parts, e.String())
		}
	}
	return strings.Join(parts, " ")
}

// ---- a real server under test -------------------------------------------------------------------

var (
	tlsOnce          sync.Once
	srvTLS, cliTLS   *tls.Config
	srvMTLS, cliMTLS *tls.Config
	otherCAClient    *tls.Config
	earlierCAClient  *tls.Config // a client certificate from a GetTLSConfig call made BEFORE the server's configuration
)

func tlsConfigs() {
	tlsOnce.Do(func() {
		srvTLS, cliTLS = testdirectory.GetTLSConfig(&harnessT{})
		_, earlierCAClient = testdirectory.GetTLSConfig(&harnessT{}, testdirectory.WithMTLS(&harnessT{}))
		srvMTLS, cliMTLS = testdirectory.GetTLSConfig(&harnessT{}, testdirectory.WithMTLS(&harnessT{}))
		_, otherCAClient = testdirectory.GetTLSConfig(&harnessT{}, testdirectory.WithMTLS(&harnessT{}))
	})
}

type SUT struct {
	srv     *gldap.Server
	tr      *Tracer
	addr    string
	runErr  chan error
	runDone chan struct{} // closed when Run has returned
	closed  sync.Map      // connID -> count of OnClose calls
	onClose func(int)
}

func freeAddr() string {
	l, err := net.Listen("tcp", "127.0.0.1:0")
	if err != nil {
		panic(err)
	}
	defer l.Close()
	return l.Addr().String()
}

// curTracer is where the single, never reassigned instrumentation hook forwards to: the hook
// variable itself is plain (it lives in /repo under the verif tag) and a server goroutine of an
// earlier scenario may still be reading it.
var curTracer atomic.Pointer[Tracer]

// noTrace (VERIF_NOTRACE=1): the hook does nothing at all. The tracer's mutex orders every pair of instrumentation
// points and would hide data races between them from the race detector; the race-detector-only runs of C15 therefore
// run without it (Wait / Count degrade to short sleeps, and only a dead process counts as a failure).
var noTrace = os.Getenv("VERIF_NOTRACE") == "1"

// perturb, when set, is called at every instrumentation point before the tracer: scenarios without a tracer (churn)
// use it to yield the processor at chosen points, which widens windows between two statements of the server the way
// a loaded machine would.
var perturb atomic.Pointer[func(label string)]

func init() {
	gldap.VerifHook = func(label string, conn, req int) {
		if noTrace {
			return
		}
		if f := perturb.Load(); f != nil {
			(*f)(label)
		}
		if t := curTracer.Load(); t != nil {
			t.Hook(label, conn, req)
		}
	}
}

// scenarioLogger alternates between a logger that is off and loggers at trace level (text, JSON) writing to nowhere: what gldap
// does must not depend on whether anybody listens to its log.
var scenarioCount int64

func scenarioLogger() hclog.Logger {
	// (never in the race-detector-only runs: a logger's internal mutex orders the calls of different goroutines)
	if !noTrace {
		switch atomic.AddInt64(&scenarioCount, 1) % 3 {
		case 0:
			return hclog.New(&hclog.LoggerOptions{Level: hclog.Trace, Output: io.Discard})
		case 1:
			// (hclog's JSON format calls Error() / String() of the values it is given itself, without fmt's safety net)
			return hclog.New(&hclog.LoggerOptions{Level: hclog.Trace, Output: io.Discard, JSONFormat: true})
		}
	}
	return hclog.NewNullLogger()
}

// startServer starts a real gldap.Server with the tracer installed. opts are server options.
func startServer(mux *gldap.Mux, tlsc *tls.Config, onClose func(int), extra ...gldap.Option) (*SUT, error) {
	s := &SUT{tr: NewTracer(), runErr: make(chan error, 1), runDone: make(chan struct{}), onClose: onClose}
	curTracer.Store(s.tr)
	opts := []gldap.Option{gldap.WithLogger(scenarioLogger()), gldap.WithOnClose(func(id int) {
		v, _ := s.closed.LoadOrStore(id, new(int32))
		atomic.AddInt32(v.(*int32), 1)
		if s.onClose != nil {
			s.onClose(id)
		}
	})}
	opts = append(opts, extra...)
	srv, err := gldap.NewServer(opts...)
	if err != nil {
		return nil, err
	}
	if mux != nil {
		if err := srv.Router(mux); err != nil {
			return nil, err
		}
	}
	s.srv = srv
	s.addr = freeAddr()
	go func() {
		var ropts []gldap.Option
		if tlsc != nil {
			ropts = append(ropts, gldap.WithTLSConfig(tlsc))
		}
		err := srv.Run(s.addr, ropts...)
		close(s.runDone)
		s.runErr <- err
	}()
	deadline := time.Now().Add(5 * time.Second)
	for !srv.Ready() {
		if time.Now().After(deadline) {
			return nil, errors.New("server not ready")
		}
		time.Sleep(time.Millisecond)
	}
	// Ready may be reported before the listener accepts: confirm by dialing
	return s, nil
}

// stop calls Stop with a wall-clock bound; returns whether it returned in time.
func (s *SUT) stop(d time.Duration) bool {
	done := make(chan struct{})
	go func() { _ = s.srv.Stop(); close(done) }()
	select {
	case <-done:
		return true
	case <-time.After(d):
		return false
	}
}

// finish stops the server and waits until every accepted connection's goroutine has finished
// its teardown, so that no late event of this server leaks into the next scenario's trace.
func (s *SUT) finish() {
	s.tr.ReleaseAll()
	s.stop(3 * time.Second)
	if noTrace {
		time.Sleep(50 * time.Millisecond)
		return
	}
	deadline := time.Now().Add(3 * time.Second)
	for time.Now().Before(deadline) {
		if s.tr.Count("conn.gone", -1) >= s.tr.Count("run.added", -1) {
			break
		}
		time.Sleep(time.Millisecond)
	}
	s.tr.ReleaseAll()
	// ... and until Run itself has returned (Stop does not wait for it): its last events belong to this trace
	select {
	case <-s.runDone:
	case <-time.After(3 * time.Second):
	}
}

// ---- a raw LDAP client ---------------------------------------------------------------------------

type rawClient struct {
	c   net.Conn
	buf []byte
}

func dialRaw(addr string, tlsc *tls.Config) (*rawClient, error) {
	var c net.Conn
	var err error
	if tlsc != nil {
		c, err = tls.DialWithDialer(&net.Dialer{Timeout: 3 * time.Second}, "tcp", addr, tlsc)
	} else {
		c, err = net.DialTimeout("tcp", addr, 3*time.Second)
	}
	if err != nil {
		return nil, err
	}
	return &rawClient{c: c}, nil
}

func (r *rawClient) send(b []byte) error {
	_ = r.c.SetWriteDeadline(time.Now().Add(5 * time.Second))
	_, err := r.c.Write(b)
	return err
}

// readFrame returns the next whole top-level BER element from the stream.
func (r *rawClient) readFrame(d time.Duration) ([]byte, error) {
	deadline := time.Now().Add(d)
	for {
		if len(r.buf) >= 2 {
			if n, ok := frameLen(r.buf); ok && len(r.buf) >= n {
				f := append([]byte(nil), r.buf[:n]...)
				r.buf = r.buf[n:]
				return f, nil
			}
		}
		_ = r.c.SetReadDeadline(deadline)
		tmp := make([]byte, 65536)
		n, err := r.c.Read(tmp)
		r.buf = append(r.buf, tmp[:n]...)
		if err != nil {
			if n == 0 {
				if len(r.buf) > 0 && errors.Is(err, io.EOF) {
					return nil, fmt.Errorf("stream ends inside a frame (%d trailing bytes): %w", len(r.buf), err)
				}
				return nil, err
			}
		}
	}
}

// frameLen computes the total length of the definite-length TLV at the head of b.
func frameLen(b []byte) (int, bool) {
	if len(b) < 2 || b[0]&0x1f == 0x1f {
		return 0, false
	}
	l := int(b[1])
	if l < 0x80 {
		return 2 + l, true
	}
	k := l & 0x7f
	if k == 0 || k > 4 || len(b) < 2+k {
		return 0, false
	}
	n := 0
	for i := 0; i < k; i++ {
		n = n<<8 | int(b[2+i])
	}
	return 2 + k + n, true
}

func (r *rawClient) close() { _ = r.c.Close() }
