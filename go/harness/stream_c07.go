package main

import (
	"bytes"
	"crypto/tls"
	"fmt"
	"io"
	"math/rand"
	"net"
	"runtime/debug"
	"strings"
	"sync"
	"sync/atomic"
	"syscall"
	"time"

	"github.com/hashicorp/go-hclog"

	"github.com/jimlambrt/gldap"
)

type awkwardErr struct{ msg string }

func (e *awkwardErr) Error() string { return e.msg } // panics on a nil receiver

type awkwardStringer struct{ s string }

func (s *awkwardStringer) String() string { return s.s } // panics on a nil receiver

// ---- stream "c07": faults amid bystander traffic (runs in a worker subprocess: a fault that
// kills the process is observed by the parent) ------------------------------------------------------

type c07Stream struct{}

func (c07Stream) Name() string               { return "c07" }
func (c07Stream) CaseTimeout() time.Duration { return 60 * time.Second }
func (c07Stream) NoModel() bool              { return true }
func (c07Stream) Rule() string {
	return "one fault per scenario - a panicking handler for each concurrently dispatched operation (bind, search, modify, add, delete, extended), for StartTLS, for the unbind route and for the default route, requests of every operation nothing is registered for (refused by gldap itself, with a logger at trace level), 512 handlers on eight connections panicking in the same instant, and for a bind on a TLS listener that requests but does not verify client certificates; a connection reset; a truncated frame followed by silence; a client that sends searches with large results and never reads, also one whose requests are served by the default route; descriptor exhaustion at accept (RLIMIT_NOFILE lowered in the worker); 48 connections whose read loops end on a malformed frame while a slow request of theirs is still being handled, with 48 new connections arriving at once; a client of a TLS listener that sends a truncated first record and stalls; a frame of 2^20 nested indefinite-length sequence headers (goroutine stack limit lowered to 32 MiB in the worker) - injected while two bystander connections issue requests continuously; oracle: the worker process survives, the bystanders keep receiving correct responses during and after the fault, and a new connection is accepted and served afterwards; non-trivial = every scenario, distinct by fault"
}

var c07Faults = []string{"odd-dn", "nulls", "panic-jsonlog", "unrouted", "panic-storm", "panic-bind", "panic-search", "panic-modify", "panic-add", "panic-delete", "panic-extended", "panic-starttls", "panic-unbind", "panic-default", "rst", "truncated", "notreading", "notreading-default", "panic-anycert", "fdexhaust", "deepnest", "latewriter", "tlsstall"}

func (c07Stream) Generate(rng *rand.Rand, n int, thorough bool) []Case {
	var cs []Case
	for len(cs) < n {
		f := c07Faults[len(cs)%len(c07Faults)]
		cs = append(cs, Case{Line: fmt.Sprintf("c07 fault=%s seed=%d", f, rng.Intn(1<<30)), Kind: f})
	}
	return cs
}

func (c07Stream) Impl(c Case) string {
	p := kv(c.Line)
	fault := p["fault"]
	tlsConfigs()
	payload := strings.Repeat("q", 50000)
	victimDN := "cn=victim"
	const stormTotal = 8 * 64
	var stormN int32
	stormGo := make(chan struct{})
	h := func(w *gldap.ResponseWriter, r *gldap.Request) {
		isVictim := false
		switch m := r.VerifMessage().(type) {
		case *gldap.SimpleBindMessage:
			isVictim = m.UserName == victimDN
		case *gldap.SearchMessage:
			isVictim = m.BaseDN == victimDN
			if isVictim && fault == "latewriter" {
				time.Sleep(40 * time.Millisecond) // answers after its connection's read loop has already ended
			}
			if isVictim && fault == "notreading" {
				for i := 0; i < 400; i++ {
					if err := w.Write(r.NewSearchResponseEntry("e", gldap.WithAttributes(map[string][]string{"p": {payload}}))); err != nil {
						return
					}
				}
			}
		case *gldap.ModifyMessage:
			isVictim = m.DN == victimDN
		case *gldap.AddMessage:
			isVictim = m.DN == victimDN
		case *gldap.DeleteMessage:
			isVictim = m.DN == victimDN
		case *gldap.ExtendedOperationMessage:
			isVictim = r.VerifMessage().GetID() == 666
		}
		if isVictim && fault == "panic-storm" {
			// every handler of the storm waits until all of them have been entered (or 2 s), then all panic at once
			if atomic.AddInt32(&stormN, 1) == stormTotal {
				close(stormGo)
			}
			select {
			case <-stormGo:
			case <-time.After(2 * time.Second):
			}
		}
		if isVictim && strings.HasPrefix(fault, "panic-") {
			// the value a handler panics with is the handler's business: a string, an error, a typed nil pointer whose
			// own Error / String method would panic
			switch r.VerifMessage().GetID() % 4 {
			case 1:
				var e *awkwardErr
				panic(error(e))
			case 2:
				var st *awkwardStringer
				panic(fmt.Stringer(st))
			case 3:
				panic(fmt.Errorf("handler panic injected by the harness: %w", errEOF))
			}
			panic("handler panic injected by the harness")
		}
		answer(w, r)
	}
	mux, _ := gldap.NewMux()
	_ = mux.Bind(h)
	// (a search route with a base DN criterion in front: every search is compared with it first)
	_ = mux.Search(h, gldap.WithBaseDN("ou=special,dc=example,dc=org"))
	_ = mux.Search(h)
	if fault != "unrouted" {
		_ = mux.Modify(h)
		_ = mux.Add(h)
		_ = mux.Delete(h)
		_ = mux.ExtendedOperation(h, gldap.ExtendedOperationWhoAmI)
	}
	_ = mux.ExtendedOperation(func(w *gldap.ResponseWriter, r *gldap.Request) {
		panic("starttls handler panic injected by the harness")
	}, gldap.ExtendedOperationStartTLS)
	_ = mux.Unbind(func(w *gldap.ResponseWriter, r *gldap.Request) {
		if r.VerifMessage().GetID() == 666 {
			panic("unbind handler panic injected by the harness")
		}
	})
	dflt := mux.DefaultRoute
	if fault == "unrouted" {
		// no default route either: modify, add, delete and extended requests get gldap's own refusal, which it also
		// reports in its log - at a level somebody listens to
		dflt = func(gldap.HandlerFunc, ...gldap.Option) error { return nil }
	}
	_ = dflt(func(w *gldap.ResponseWriter, r *gldap.Request) {
		if r.VerifMessage().GetID() == 666 {
			panic("default-route handler panic injected by the harness")
		}
		if m, ok := r.VerifMessage().(*gldap.ExtendedOperationMessage); ok && string(m.Name) == "9.9.9.1" && fault == "notreading-default" {
			// the client of this request never reads: the handler ends up blocked in Write on the default route
			for i := 0; i < 400; i++ {
				if err := w.Write(r.NewResponse(gldap.WithResponseCode(0), gldap.WithDiagnosticMessage(payload))); err != nil {
					return
				}
			}
		}
		answer(w, r)
	})
	// the TLS faults run against a TLS listener, with TLS bystanders
	var srvCfg, cliCfg *tls.Config
	if fault == "tlsstall" {
		srvCfg = srvTLS
		cliCfg = cliTLS.Clone()
		cliCfg.ServerName = "localhost"
	}
	var victimCfg *tls.Config
	if fault == "panic-anycert" {
		// a listener that asks for a client certificate but does not verify it; the panicking request comes from a
		// client that presents one
		srvCfg = srvMTLS.Clone()
		srvCfg.ClientAuth = tls.RequireAnyClientCert
		cliCfg = cliMTLS.Clone()
		cliCfg.ServerName = "localhost"
		victimCfg = cliCfg
	}
	var sopts []gldap.Option
	if fault == "panic-jsonlog" {
		// the application logs in JSON; the handler panics with a typed-nil error, whose Error() method panics itself
		sopts = append(sopts, gldap.WithLogger(hclog.New(&hclog.LoggerOptions{Level: hclog.Debug, Output: io.Discard, JSONFormat: true})))
	}
	if fault == "unrouted" {
		debug.SetMaxStack(32 << 20) // (a runaway recursion ends quickly)
		sopts = append(sopts, gldap.WithLogger(hclog.New(&hclog.LoggerOptions{Level: hclog.Trace, Output: io.Discard})))
	}
	sut, err := startServer(mux, srvCfg, nil, sopts...)
	if err != nil {
		return "harness-error start: " + err.Error()
	}
	// bystanders
	var bad atomic.Value
	var served int64
	stopBy := make(chan struct{})
	doneBy := make(chan struct{}, 2)
	for b := 0; b < 2; b++ {
		go func(b int) {
			defer func() { doneBy <- struct{}{} }()
			cl, err := dialRaw(sut.addr, cliCfg)
			if err != nil {
				bad.Store("bystander cannot connect: " + err.Error())
				return
			}
			defer cl.close()
			for i := int64(1); ; i++ {
				select {
				case <-stopBy:
					return
				default:
				}
				kind := opKinds[int(i)%len(opKinds)]
				r := Req{Kind: kind, ID: i, DN: fmt.Sprintf("cn=by%d", b), Pass: "p", Scope: 2, Filter: "(cn=x)", Name: "1.3.6.1.4.1.4203.1.11.3"}
				nd, _ := r.Node()
				if err := cl.send(nd.Ser()); err != nil {
					bad.Store("bystander write failed: " + err.Error())
					return
				}
				f, err := cl.readFrame(5 * time.Second)
				if err != nil {
					bad.Store("bystander got no response: " + err.Error())
					return
				}
				if !strings.HasPrefix(strictView(f), fmt.Sprintf("result id=%d ", i)) {
					bad.Store("bystander got a wrong response: " + strictView(f))
					return
				}
				atomic.AddInt64(&served, 1)
			}
		}(b)
	}
	time.Sleep(20 * time.Millisecond)
	// the fault
	victim, err := dialRaw(sut.addr, victimCfg) // (raw TCP also towards a TLS listener: the victim is the one misbehaving)
	if err != nil {
		return "harness-error victim connect: " + err.Error()
	}
	var hold []net.Conn
	switch {
	case strings.HasPrefix(fault, "panic-"):
		op := strings.TrimPrefix(fault, "panic-")
		var frame []byte
		switch op {
		case "starttls":
			frame = opFrame("starttls", 666)
		case "unbind":
			frame = Seq(Int(2, 666), P(1, 2, nil)).Ser()
		case "default":
			frame = Seq(Int(2, 666), C(1, 23, P(2, 0, []byte("9.9.9.9")))).Ser()
		case "extended":
			frame = Seq(Int(2, 666), C(1, 23, P(2, 0, []byte("1.3.6.1.4.1.4203.1.11.3")))).Ser()
		case "storm":
			// eight connections pipeline 64 searches each; all 512 handlers panic in the same instant, each on its own
			// goroutine (the recovery of one request must not depend on what the others are doing)
			for v := 0; v < 8; v++ {
				vc, err := net.DialTimeout("tcp", sut.addr, time.Second)
				if err != nil {
					continue
				}
				hold = append(hold, vc)
				var buf []byte
				for j := 0; j < 64; j++ {
					r := Req{Kind: "search", ID: int64(1000 + v*64 + j), DN: victimDN, Scope: 2, Filter: "(cn=x)"}
					nd, _ := r.Node()
					buf = append(buf, nd.Ser()...)
				}
				_, _ = vc.Write(buf)
			}
			select {
			case <-stormGo:
			case <-time.After(3 * time.Second):
			}
			time.Sleep(50 * time.Millisecond)
			frame = opFrame("bind", 1)
		case "jsonlog":
			r := Req{Kind: "bind", ID: 665, DN: victimDN, Pass: "p"} // (665: the typed-nil error among the panic values)
			nd, _ := r.Node()
			frame = nd.Ser()
		case "anycert":
			r := Req{Kind: "bind", ID: 666, DN: victimDN, Pass: "p"}
			nd, _ := r.Node()
			frame = nd.Ser()
		default:
			r := Req{Kind: op, ID: int64(664 + atoi(p["seed"])%4), DN: victimDN, Pass: "p", Scope: 2, Filter: "(cn=x)"}
			nd, _ := r.Node()
			frame = nd.Ser()
		}
		_ = victim.send(frame)
	case fault == "unrouted":
		for j, k := range []string{"modify", "add", "delete", "extended", "search"} {
			_ = victim.send(opFrame(k, int64(900+j)))
			if f, err := victim.readFrame(3 * time.Second); err != nil || !strings.HasPrefix(strictView(f), fmt.Sprintf("result id=%d ", 900+j)) {
				bad.Store(fmt.Sprintf("a %s request nothing is registered for was not answered: %v", k, err))
				break
			}
		}
	case fault == "odd-dn":
		// searches whose base DNs are unusual but legitimate (escaped commas, hex pairs, a bare RDN, an AD <SID=...> form,
		// the empty DN) or plain nonsense; their handler may even panic - the others' searches go on being answered
		for j, dn := range []string{"cn=Smith\\, John,ou=people,dc=example,dc=org", "cn=a\\2cb,dc=example", "cn", "=", ",,,", "", "<SID=S-1-5-21-1-2-3>", "cn=x+sn=y,dc=example", "ou=special,dc=example,dc=org ", "  ", "cn=\\", strings.Repeat("dc=x,", 300) + "dc=y"} {
			r := Req{Kind: "search", ID: int64(800 + j), DN: dn, Scope: 2, Filter: "(cn=x)"}
			nd, _ := r.Node()
			_ = victim.send(nd.Ser())
			if _, err := victim.readFrame(2 * time.Second); err != nil {
				// (a connection that ended is this property's business only through what it does to the others)
				victim.close()
				if victim, err = dialRaw(sut.addr, victimCfg); err != nil {
					break
				}
			}
		}
	case fault == "nulls":
		// a stream of empty NULL / end-of-contents elements where LDAPMessages belong (goroutine stack limit lowered so
		// that a reader that recurses once per element shows with half a megabyte)
		debug.SetMaxStack(32 << 20)
		_ = victim.send(bytes.Repeat([]byte{0x05, 0x00}, 1<<19))
		_ = victim.send(bytes.Repeat([]byte{0x00, 0x00}, 1<<19))
		time.Sleep(300 * time.Millisecond)
	case fault == "rst":
		_ = victim.send(opFrame("bind", 1))
		if tc, ok := victim.c.(*net.TCPConn); ok {
			_ = tc.SetLinger(0)
		}
		victim.close()
	case fault == "truncated":
		f := opFrame("search", 1)
		_ = victim.send(f[:len(f)/2])
	case fault == "notreading":
		var buf []byte
		for j := 0; j < 3; j++ {
			r := Req{Kind: "search", ID: int64(j + 1), DN: victimDN, Scope: 2, Filter: "(cn=x)"}
			nd, _ := r.Node()
			buf = append(buf, nd.Ser()...)
		}
		_ = victim.send(buf)
		// while that client's handlers are stuck, the application registers one more route on the running mux
		time.Sleep(60 * time.Millisecond)
		regDone := make(chan struct{})
		go func() {
			_ = mux.ExtendedOperation(func(w *gldap.ResponseWriter, r *gldap.Request) { answer(w, r) }, gldap.ExtendedOperationName("1.2.3.4.5.6.7"))
			close(regDone)
		}()
		select {
		case <-regDone:
		case <-time.After(50 * time.Millisecond):
		}
	case fault == "notreading-default":
		var buf []byte
		for j := 0; j < 3; j++ {
			r := Req{Kind: "extended", ID: int64(j + 1), Name: "9.9.9.1"}
			nd, _ := r.Node()
			buf = append(buf, nd.Ser()...)
		}
		_ = victim.send(buf)
	case fault == "tlsstall":
		// the first five bytes of a TLS record announcing 512 more, then nothing: the victim keeps its connection
		// open (it is closed at the end of the scenario) while a new client must still be accepted and served
		_ = victim.send([]byte{0x16, 0x03, 0x01, 0x02, 0x00})
	case fault == "latewriter":
		// 48 connections each with a slow request in flight when a malformed frame ends their read loop; right
		// away 48 new connections bind: whatever the late handlers still write must not reach anybody else
		var vs []*rawClient
		for i := 0; i < 48; i++ {
			v, err := dialRaw(sut.addr, nil)
			if err != nil {
				continue
			}
			vs = append(vs, v)
			r := Req{Kind: "search", ID: 4242, DN: victimDN, Scope: 2, Filter: "(cn=x)"}
			nd, _ := r.Node()
			_ = v.send(append(nd.Ser(), 0x30, 0x03, 0x02, 0x01, 0xff, 0xff, 0xff, 0xff))
		}
		var lw sync.WaitGroup
		for i := 0; i < 48; i++ {
			lw.Add(1)
			go func(i int) {
				defer lw.Done()
				n, err := dialRaw(sut.addr, nil)
				if err != nil {
					bad.Store("a new connection was refused while faulty connections wind down: " + err.Error())
					return
				}
				defer n.close()
				for j := int64(0); j < 3; j++ {
					_ = n.send(opFrame("bind", 7000+j))
					f, err := n.readFrame(5 * time.Second)
					if err != nil || !strings.HasPrefix(strictView(f), fmt.Sprintf("result id=%d tag=1 code=0", 7000+j)) {
						bad.Store(fmt.Sprintf("a new connection received somebody else's response: %s (%v)", strictView(f), err))
						return
					}
					time.Sleep(15 * time.Millisecond)
				}
			}(i)
		}
		lw.Wait()
		for _, v := range vs {
			v.close()
		}
	case fault == "deepnest":
		// a "malformed frame": nothing but nested indefinite-length sequence headers. asn1-ber reads
		// it recursively with no depth limit; the goroutine stack limit is lowered in this worker so that
		// the witness stays small (with the default 1 GB limit the same happens at ~8 MB of input).
		debug.SetMaxStack(32 << 20)
		_ = victim.send(bytes.Repeat([]byte{0x30, 0x80}, 1<<20))
		time.Sleep(300 * time.Millisecond)
	case fault == "fdexhaust":
		var lim syscall.Rlimit
		_ = syscall.Getrlimit(syscall.RLIMIT_NOFILE, &lim)
		old := lim
		lim.Cur = uint64(countFDs() + 6)
		_ = syscall.Setrlimit(syscall.RLIMIT_NOFILE, &lim)
		// exhaust: connections from outside keep arriving; the server's accept fails with EMFILE
		for i := 0; i < 12; i++ {
			c, err := net.DialTimeout("tcp", sut.addr, time.Second)
			if err == nil {
				hold = append(hold, c)
			}
		}
		time.Sleep(50 * time.Millisecond)
		for _, c := range hold {
			c.Close()
		}
		time.Sleep(20 * time.Millisecond)
		_ = syscall.Setrlimit(syscall.RLIMIT_NOFILE, &old)
	}
	time.Sleep(80 * time.Millisecond)
	before := atomic.LoadInt64(&served)
	time.Sleep(80 * time.Millisecond)
	verdict := "ok"
	if v := bad.Load(); v != nil {
		verdict = v.(string)
	} else if atomic.LoadInt64(&served) == before {
		verdict = "bystanders are no longer served after the fault"
	}
	if verdict == "ok" {
		select {
		case e := <-sut.runErr:
			verdict = fmt.Sprintf("Run returned after the fault: %v", e)
		default:
		}
	}
	if verdict == "ok" {
		// the server still accepts and serves new connections
		n, err := dialRaw(sut.addr, cliCfg)
		if err != nil {
			verdict = "no new connection accepted after the fault: " + err.Error()
		} else {
			_ = n.send(opFrame("bind", 77))
			f, err := n.readFrame(3 * time.Second)
			if err != nil || !strings.HasPrefix(strictView(f), "result id=77 tag=1 code=0") {
				verdict = fmt.Sprintf("a new connection is not served after the fault: %v", err)
			}
			n.close()
		}
	}
	close(stopBy)
	<-doneBy
	<-doneBy
	victim.close()
	if fault == "panic-storm" {
		for _, c := range hold {
			c.Close()
		}
	}
	sut.finish()
	return verdict
}

func (c07Stream) Oracle(c Case, impl string) (bool, string, string) {
	if impl == "ok" || strings.HasPrefix(impl, "harness-error") {
		return true, "", ""
	}
	key := "c07/" + c.Kind
	if strings.HasPrefix(impl, "process-died") {
		key = "c07/process-died/" + c.Kind
	} else if strings.HasPrefix(impl, "Run returned") || strings.Contains(impl, "new connection") {
		key = "c07/server-stopped-accepting/" + c.Kind
	}
	return false, impl, key
}

func (c07Stream) Class(c Case, impl string) (string, bool) {
	return c.Kind + "/" + strings.Fields(impl + " -")[0], impl == "ok"
}
