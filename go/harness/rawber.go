package main

import (
	"math/rand"
)

// N is a raw BER node built independently of asn1-ber (the harness's own encoder).
type N struct {
	Cls     int // 0 universal, 1 application, 2 context, 3 private
	Tag     int
	Cons    bool
	Content []byte
	Kids    []*N
	// wire-form variations (do not change the abstract tree)
	Indef  bool // constructed only: indefinite length + EOC
	PadLen int  // extra leading zero octets in a long-form length
}

func P(cls, tag int, content []byte) *N { return &N{Cls: cls, Tag: tag, Content: content} }
func C(cls, tag int, kids ...*N) *N     { return &N{Cls: cls, Tag: tag, Cons: true, Kids: kids} }
func Oct(s string) *N                   { return P(0, 4, []byte(s)) }
func Int(tag int, v int64) *N           { return P(0, tag, encInt(v)) }
func Bool(b bool) *N                    { return BoolT(0xff, b) }

// BoolT encodes TRUE with the given non-zero octet: BER allows any, DER says 0xff, asn1-ber (go-ldap) writes 0x01.
func BoolT(tt byte, b bool) *N {
	if b {
		if tt == 0 {
			tt = 0xff
		}
		return P(0, 1, []byte{tt})
	}
	return P(0, 1, []byte{0})
}
func Seq(kids ...*N) *N { return C(0, 16, kids...) }
func Set(kids ...*N) *N { return C(0, 17, kids...) }

// encInt is the minimal two's-complement big-endian encoding.
func encInt(v int64) []byte {
	n := 1
	for t := v; t > 127 || t < -128; t >>= 8 {
		n++
	}
	out := make([]byte, n)
	for i := n - 1; i >= 0; i-- {
		out[i] = byte(v)
		v >>= 8
	}
	return out
}

func encIdent(cls int, cons bool, tag int) []byte {
	b := byte(cls << 6)
	if cons {
		b |= 0x20
	}
	if tag < 31 {
		return []byte{b | byte(tag)}
	}
	out := []byte{b | 31}
	var digits []byte
	for t := tag; t > 0; t >>= 7 {
		digits = append([]byte{byte(t & 0x7f)}, digits...)
	}
	for i := 0; i < len(digits)-1; i++ {
		digits[i] |= 0x80
	}
	return append(out, digits...)
}

func encLength(n int, pad int) []byte {
	if n <= 127 && pad == 0 {
		return []byte{byte(n)}
	}
	var d []byte
	for t := n; t > 0; t >>= 8 {
		d = append([]byte{byte(t)}, d...)
	}
	if len(d) == 0 {
		d = []byte{0}
	}
	for i := 0; i < pad && len(d) < 8; i++ {
		d = append([]byte{0}, d...)
	}
	return append([]byte{0x80 | byte(len(d))}, d...)
}

func (n *N) Ser() []byte {
	var body []byte
	if n.Cons {
		for _, k := range n.Kids {
			body = append(body, k.Ser()...)
		}
	} else {
		body = n.Content
	}
	out := encIdent(n.Cls, n.Cons, n.Tag)
	if n.Cons && n.Indef {
		out = append(out, 0x80)
		out = append(out, body...)
		return append(out, 0, 0)
	}
	out = append(out, encLength(len(body), n.PadLen)...)
	return append(out, body...)
}

func (n *N) Clone() *N {
	c := *n
	c.Content = append([]byte(nil), n.Content...)
	c.Kids = make([]*N, len(n.Kids))
	for i, k := range n.Kids {
		c.Kids[i] = k.Clone()
	}
	return &c
}

// walk lists every node with its parent and index (pre-order).
type slot struct {
	parent *N
	idx    int
	node   *N
}

func (n *N) walk() []slot {
	var out []slot
	var rec func(p *N, i int, x *N)
	rec = func(p *N, i int, x *N) {
		out = append(out, slot{p, i, x})
		for j, k := range x.Kids {
			rec(x, j, k)
		}
	}
	rec(nil, 0, n)
	return out
}

// replacement node kinds for shape/type mutations
func replacementKinds() []*N {
	return []*N{
		Int(2, 1), Int(2, 300), Int(10, 2), Bool(true), Bool(false), Oct(""), Oct("x"), P(0, 5, nil),
		Seq(), Seq(Oct("a")), Seq(Int(2, 1), Oct("b")), Set(), Set(Oct("v")),
		P(2, 0, []byte("p")), P(2, 1, []byte{1}), C(2, 0), C(2, 0, Int(2, 7)), C(2, 1, Oct("z")),
		P(1, 10, []byte("dn")), P(1, 2, nil), C(1, 0), C(1, 3, Oct("a")), C(1, 23, P(2, 0, []byte("1.2"))),
		P(0, 12, []byte("utf8")), P(0, 19, []byte("print")), P(0, 22, []byte("ia5")), P(0, 2, []byte{1, 2, 3, 4, 5, 6, 7, 8, 9}),
		P(0, 1, nil), P(0, 2, nil), P(3, 7, []byte{9}), P(0, 40, []byte{1}), C(2, 200, Oct("h")),
	}
}

// mutate applies one structured mutation to a clone of root; returns nil if not applicable.
func mutate(rng *rand.Rand, root *N) *N {
	r := root.Clone()
	slots := r.walk()
	s := slots[rng.Intn(len(slots))]
	kinds := replacementKinds()
	switch rng.Intn(9) {
	case 0: // replace node by another kind
		rep := kinds[rng.Intn(len(kinds))].Clone()
		if s.parent == nil {
			return rep
		}
		s.parent.Kids[s.idx] = rep
	case 1: // delete child
		if s.parent == nil {
			return nil
		}
		s.parent.Kids = append(s.parent.Kids[:s.idx], s.parent.Kids[s.idx+1:]...)
	case 2: // duplicate child
		if s.parent == nil {
			return nil
		}
		k := append([]*N{}, s.parent.Kids[:s.idx+1]...)
		k = append(k, s.node.Clone())
		s.parent.Kids = append(k, s.parent.Kids[s.idx+1:]...)
	case 3: // swap with sibling
		if s.parent == nil || len(s.parent.Kids) < 2 {
			return nil
		}
		j := rng.Intn(len(s.parent.Kids))
		s.parent.Kids[s.idx], s.parent.Kids[j] = s.parent.Kids[j], s.parent.Kids[s.idx]
	case 4: // truncate child list
		if !s.node.Cons || len(s.node.Kids) == 0 {
			return nil
		}
		s.node.Kids = s.node.Kids[:rng.Intn(len(s.node.Kids))]
	case 5: // extend child list
		if !s.node.Cons {
			return nil
		}
		s.node.Kids = append(s.node.Kids, kinds[rng.Intn(len(kinds))].Clone())
	case 6: // change class / tag / constructed bit
		switch rng.Intn(3) {
		case 0:
			s.node.Cls = rng.Intn(4)
		case 1:
			s.node.Tag = []int{0, 1, 2, 3, 4, 6, 8, 10, 16, 17, 23, 30, 31, 127, 128, 5000}[rng.Intn(16)]
		case 2:
			if s.node.Cons {
				s.node.Cons = false
				s.node.Content = nil
				for _, k := range s.node.Kids {
					s.node.Content = append(s.node.Content, k.Ser()...)
				}
				s.node.Kids = nil
			} else {
				s.node.Cons = true
				s.node.Kids = []*N{P(0, 4, s.node.Content)}
				s.node.Content = nil
			}
		}
	case 7: // change content bytes
		if s.node.Cons {
			return nil
		}
		switch rng.Intn(4) {
		case 0:
			s.node.Content = nil
		case 1:
			s.node.Content = append(s.node.Content, byte(rng.Intn(256)))
		case 2:
			if len(s.node.Content) > 0 {
				s.node.Content[rng.Intn(len(s.node.Content))] ^= byte(1 << uint(rng.Intn(8)))
			}
		case 3:
			s.node.Content = randBytes(rng, rng.Intn(12))
		}
	case 8: // wire-form variation
		if s.node.Cons && rng.Intn(2) == 0 {
			s.node.Indef = true
		} else {
			s.node.PadLen = 1 + rng.Intn(3)
		}
	}
	return r
}

func randBytes(rng *rand.Rand, n int) []byte {
	b := make([]byte, n)
	for i := range b {
		b[i] = byte(rng.Intn(256))
	}
	return b
}

// corruptBytes applies byte-level damage: truncate, extend, flip, corrupt a length octet.
func corruptBytes(rng *rand.Rand, b []byte) []byte {
	out := append([]byte(nil), b...)
	if len(out) == 0 {
		return randBytes(rng, 1+rng.Intn(8))
	}
	switch rng.Intn(5) {
	case 0:
		out = out[:rng.Intn(len(out))]
	case 1:
		out = append(out, randBytes(rng, 1+rng.Intn(6))...)
	case 2:
		out[rng.Intn(len(out))] ^= byte(1 << uint(rng.Intn(8)))
	case 3:
		out[rng.Intn(len(out))] = []byte{0x00, 0x7f, 0x80, 0x81, 0x82, 0x84, 0x88, 0x89, 0xff, 0x1f, 0x3f, 0x30, 0x04}[rng.Intn(13)]
	case 4:
		i := rng.Intn(len(out))
		ins := []byte{0x80, 0xff, 0x88, 0xff, 0xff, 0xff, 0xff, 0xff, 0xff, 0xff, 0xff}[:1+rng.Intn(10)]
		out = append(out[:i], append(append([]byte{}, ins...), out[i:]...)...)
	}
	return out
}

// declaresHugeLength scans the TLV headers the way the reader meets them and reports a
// primitive whose declared length is far beyond the bytes present. asn1-ber allocates the
// declared length before reading (up to 2 GiB), which only costs the harness time; such
// frames are dropped from the generated stream (the reader model rejects them identically).
func declaresHugeLength(b []byte) bool {
	i := 0
	for i < len(b) {
		id := b[i]
		i++
		if id&0x1f == 0x1f {
			for i < len(b) && b[i]&0x80 != 0 {
				i++
			}
			i++
		}
		if i >= len(b) {
			return false
		}
		l := int(b[i])
		i++
		n := 0
		if l == 0x80 {
			continue
		} else if l&0x80 == 0 {
			n = l
		} else {
			k := l & 0x7f
			if k > 8 || i+k > len(b) {
				return false
			}
			for j := 0; j < k; j++ {
				if n > 1<<40 {
					return true
				}
				n = n<<8 | int(b[i+j])
			}
			i += k
		}
		if id&0x20 != 0 {
			continue // constructed: descend
		}
		if n > len(b)+(1<<20) {
			return true
		}
		i += n
	}
	return false
}
