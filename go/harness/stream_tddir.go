package main

import (
	"fmt"
	"math/rand"
	"strings"

	"github.com/go-ldap/ldap/v3"
	"github.com/jimlambrt/gldap"
	"github.com/jimlambrt/gldap/testdirectory"
)

// ---- stream "tddir": the test directory on one connection, frame for frame -----------------------------
//
// A store as in tdstore, then a conversation of 1..10 requests (add / modify / delete / search, with binds
// and unhandled extended operations in between, request controls on some, an Unbind at the end of some)
// read by the directory's own mux from one byte stream. The bytes written and the store afterwards are
// compared with the Lean model `Directory.dirSession` (the session model with the directory's nine handler
// scripts over `Directory.Store`); the oracle regroups the frames by message id and judges them with the
// independent reference of tdstore.

type tdDirStream struct{}

func (tdDirStream) Name() string { return "tddir" }
func (tdDirStream) Rule() string {
	return "stores and operations as in tdstore, sent as ONE stream of request frames (distinct random message ids, request controls on a fifth of them, simple binds and unhandled extended operations in between, an Unbind with trailing requests at the end of some) to the directory's own mux, with and without SetControls; every frame written and the users/groups held afterwards are compared with the Lean model Directory.dirSession; oracle: frames regrouped by message id must satisfy tdstore's reference store (clean class) and every request is answered with its own id; non-trivial = a search after a change of the store"
}

type tdDirReq struct {
	op  string // tdstore op ("" for bind / extended / unbind)
	req Req
}

func (tdDirStream) Generate(rng *rand.Rand, n int, thorough bool) []Case {
	var cs []Case
	for len(cs) < n {
		hostile := rng.Intn(5) == 0
		upool, gpool := storeDNPool(rng, hostile)
		users := genStoreEntries(rng, upool, 3)
		groups := genStoreEntries(rng, gpool, 2)
		all := append(append([]string{}, upool...), gpool...)
		nreq := 1 + rng.Intn(10)
		var rs []tdDirReq
		ids := map[int64]bool{}
		newID := func() int64 {
			for {
				id := 1 + rng.Int63n(1<<20)
				if rng.Intn(8) == 0 {
					id = 1<<31 - 1 - rng.Int63n(100)
				}
				if !ids[id] {
					ids[id] = true
					return id
				}
			}
		}
		changed, nontrivial := false, false
		for i := 0; i < nreq; i++ {
			dn := all[rng.Intn(len(all))]
			id := newID()
			var ctls []Ctl
			if rng.Intn(5) == 0 {
				ctls = genCtls(rng)
			}
			switch x := rng.Intn(14); {
			case x < 3:
				as := genStoreAttrs(rng)
				rs = append(rs, tdDirReq{"A:" + hx([]byte(dn)) + ":" + attsDesc(as, "&"), Req{Kind: "add", ID: id, DN: dn, AddAttrs: as, Ctls: ctls}})
				changed = true
			case x < 6:
				nc := 1 + rng.Intn(3)
				chs := make([]string, nc)
				var rc []Chg
				for j := range chs {
					nv := rng.Intn(3)
					vals := make([]string, nv)
					hv := make([]string, nv)
					for k := range vals {
						vals[k] = []string{"n1", "n2", "new value"}[rng.Intn(3)]
						hv[k] = hx([]byte(vals[k]))
					}
					op, ty := int64(rng.Intn(4)), storeAttrNames[rng.Intn(len(storeAttrNames))]
					chs[j] = fmt.Sprintf("%d~%s~%s", op, hx([]byte(ty)), strings.Join(hv, "."))
					rc = append(rc, Chg{Op: op, Type: ty, Vals: vals})
				}
				rs = append(rs, tdDirReq{"M:" + hx([]byte(dn)) + ":" + strings.Join(chs, "&"), Req{Kind: "modify", ID: id, DN: dn, Changes: rc, Ctls: ctls}})
				changed = true
			case x < 7:
				rs = append(rs, tdDirReq{"D:" + hx([]byte(dn)), Req{Kind: "delete", ID: id, DN: dn, Ctls: ctls}})
				changed = true
			case x < 11:
				base := []string{testdirectory.DefaultUserDN, "OU=PEOPLE,DC=EXAMPLE,DC=ORG", testdirectory.DefaultGroupDN, "dc=example,dc=org", dn, dn}[rng.Intn(6)]
				filter := []string{"(" + dn + ")", "(member=alice)", "(|(cn=alice)(cn=bob))", "(cn=*)", "(&(objectClass=person)(" + strings.SplitN(dn, ",", 2)[0] + "))", "(uid=nobody)", "(objectClass=*)"}[rng.Intn(7)]
				fp, err := ldap.CompileFilter(filter)
				if err != nil {
					continue
				}
				seen, err := ldap.DecompileFilter(fp)
				if err != nil {
					continue
				}
				if fp2, err := ldap.CompileFilter(seen); err != nil || string(fp2.Bytes()) != string(fp.Bytes()) {
					continue
				}
				rs = append(rs, tdDirReq{"S:" + hx([]byte(base)) + ":" + hx([]byte(seen)), Req{Kind: "search", ID: id, DN: base, Scope: int64(rng.Intn(3)), Filter: seen, Ctls: ctls,
					Attrs: [][]string{nil, {"cn"}, {"cn", "mail"}}[rng.Intn(3)]}})
				if changed {
					nontrivial = true
				}
			case x < 13:
				pw := tdPws[rng.Intn(len(tdPws))]
				rs = append(rs, tdDirReq{"", Req{Kind: "bind", ID: id, DN: dn, Pass: pw, Ctls: ctls}})
			default:
				rs = append(rs, tdDirReq{"", Req{Kind: "extended", ID: id, Name: []string{"1.3.6.1.4.1.4203.1.11.3", "1.2.3"}[rng.Intn(2)]}})
			}
		}
		if rng.Intn(6) == 0 {
			rs = append(rs, tdDirReq{"", Req{Kind: "unbind", ID: newID()}})
			rs = append(rs, tdDirReq{"", Req{Kind: "delete", ID: newID(), DN: all[0]}}) // never read
		}
		var in []byte
		var ftab, ops, idl []string
		bad := false
		afterUnbind := false
		for _, r := range rs {
			nd, err := r.req.Node()
			if err != nil {
				bad = true
				break
			}
			fr := nd.Ser()
			in = append(in, fr...)
			if r.req.Kind == "search" {
				if e, ok := filterEntry(fr); ok {
					ftab = append(ftab, e)
				}
			}
			if !afterUnbind && r.req.Kind != "unbind" {
				idl = append(idl, fmt.Sprintf("%d:%s", r.req.ID, r.req.Kind))
				if r.op != "" {
					ops = append(ops, fmt.Sprintf("%d=%s", r.req.ID, r.op))
				}
			}
			if r.req.Kind == "unbind" {
				afterUnbind = true
			}
		}
		if bad || len(in) == 0 {
			continue
		}
		kind := "clean"
		if hostile {
			kind = "hostile"
		} else if nontrivial {
			kind = "clean-read-after-change"
		}
		line := fmt.Sprintf("tddir anon=%d ctl=%d userdn=%s groupdn=%s users=%s groups=%s filters=%s in=%s", rng.Intn(2), rng.Intn(2),
			hx([]byte(testdirectory.DefaultUserDN)), hx([]byte(testdirectory.DefaultGroupDN)), entriesDesc(users), entriesDesc(groups), strings.Join(ftab, ","), hx(in))
		cs = append(cs, Case{Line: line, Expect: strings.Join(idl, ",") + " " + strings.Join(ops, ";"), Kind: kind})
	}
	return cs
}

func renderRealEntries(es []*gldap.Entry) string {
	out := make([]string, len(es))
	for i, e := range es {
		as := make([]string, len(e.Attributes))
		for j, a := range e.Attributes {
			hv := make([]string, len(a.Values))
			for k, v := range a.Values {
				hv[k] = hx([]byte(v))
			}
			as[j] = hx([]byte(a.Name)) + "=" + strings.Join(hv, ",")
		}
		out[i] = hx([]byte(e.DN)) + "{" + strings.Join(as, ";") + "}"
	}
	return strings.Join(out, "|")
}

func (tdDirStream) Impl(c Case) string {
	f := strings.Fields(c.Line)
	users := realEntries(parseTdEntries(strings.TrimPrefix(f[5], "users=")))
	groups := realEntries(parseTdEntries(strings.TrimPrefix(f[6], "groups=")))
	d := testdirectory.VerifNewDirectory(&harnessT{}, &testdirectory.Defaults{Users: users, Groups: groups, AllowAnonymousBind: f[1] == "anon=1",
		UserDN: string(unhx(strings.TrimPrefix(f[3], "userdn="))), GroupDN: string(unhx(strings.TrimPrefix(f[4], "groupdn=")))})
	if f[2] == "ctl=1" {
		ctl, err := gldap.NewControlString("1.2.3.4", gldap.WithControlValue("v"))
		if err != nil {
			return "err control"
		}
		d.SetControls(ctl)
	}
	mux, err := d.VerifMux()
	if err != nil {
		return "err mux"
	}
	in := unhx(strings.TrimPrefix(f[8], "in="))
	var frames []string
	end := "closed"
	for len(in) > 0 {
		n, ok := frameLen(in)
		if !ok || n > len(in) {
			return "err input"
		}
		if isUnbindFrame(in[:n]) {
			end = "unbind" // conn.go: the read loop ends here; the directory registers no unbind handler
			break
		}
		vc := gldap.NewVerifConn(1, in[:n], mux)
		req, err := vc.ReadRequest(1)
		if err != nil {
			return "err decode"
		}
		w, err := vc.Writer(1)
		if err != nil {
			return "err writer"
		}
		vc.Serve(w, req)
		out := vc.Out.Bytes()
		for len(out) > 0 {
			k, ok := frameLen(out)
			if !ok || k > len(out) {
				frames = append(frames, "torn:"+hx(out))
				break
			}
			frames = append(frames, hx(out[:k]))
			out = out[k:]
		}
		in = in[n:]
	}
	return fmt.Sprintf("end=%s frames=%s users=%s groups=%s", end, strings.Join(frames, ","), renderRealEntries(d.Users()), renderRealEntries(d.Groups()))
}

func isUnbindFrame(fr []byte) bool {
	t, _, ok := parseTLV(fr)
	return ok && len(t.kids) >= 2 && t.kids[1].cls == 1 && t.kids[1].tag == 2
}

func (tdDirStream) Oracle(c Case, impl string) (bool, string, string) {
	if impl == "panic" || strings.Contains(impl, "panic") {
		return false, "a directory handler panicked", "panic"
	}
	if !strings.HasPrefix(impl, "end=") {
		return false, impl, "tddir/" + strings.Join(strings.Fields(impl), "-")
	}
	fs := strings.Fields(impl)
	ex := strings.SplitN(c.Expect, " ", 2)
	// every request read before an Unbind is answered, in order, with its own id; nothing else is written
	type group struct {
		id    int64
		kind  string
		views []string
	}
	var groups []*group
	byID := map[int64]*group{}
	if ex[0] != "" {
		for _, e := range strings.Split(ex[0], ",") {
			var id int64
			var kind string
			p := strings.SplitN(e, ":", 2)
			fmt.Sscanf(p[0], "%d", &id)
			kind = p[1]
			g := &group{id: id, kind: kind}
			groups = append(groups, g)
			byID[id] = g
		}
	}
	gi := 0
	if h := strings.TrimPrefix(fs[1], "frames="); h != "" {
		for _, x := range strings.Split(h, ",") {
			if strings.HasPrefix(x, "torn:") {
				return false, "torn frame", "tddir/torn"
			}
			v := strictView(unhx(x))
			var id int64
			vf := strings.Fields(v)
			if len(vf) < 2 || !strings.HasPrefix(vf[1], "id=") {
				return false, "unreadable frame " + clip(v), "tddir/frame"
			}
			fmt.Sscanf(vf[1], "id=%d", &id)
			g := byID[id]
			if g == nil {
				return false, fmt.Sprintf("a frame with message id %d answers no request of the stream", id), "tddir/foreign-id"
			}
			for gi < len(groups) && groups[gi] != g {
				if len(groups[gi].views) == 0 {
					return false, fmt.Sprintf("request %d (%s) was not answered before request %d", groups[gi].id, groups[gi].kind, id), "tddir/unanswered"
				}
				gi++
			}
			if gi == len(groups) {
				return false, fmt.Sprintf("a frame for request %d arrives after the frames of a later request", id), "tddir/order"
			}
			g.views = append(g.views, v)
		}
	}
	for _, g := range groups {
		if len(g.views) == 0 {
			return false, fmt.Sprintf("request %d (%s) was not answered", g.id, g.kind), "tddir/unanswered"
		}
		last := g.views[len(g.views)-1]
		wantTag := map[string]int{"bind": 1, "search": 5, "modify": 7, "add": 9, "delete": 11, "extended": 24}[g.kind]
		var id, tag, code int
		if _, err := fmt.Sscanf(last, "result id=%d tag=%d code=%d", &id, &tag, &code); err != nil || tag != wantTag {
			return false, fmt.Sprintf("request %d (%s) ends with %s", g.id, g.kind, clip(last)), "tddir/result-kind"
		}
	}
	if c.Kind == "hostile" {
		return true, "", ""
	}
	// the store semantics: tdstore's reference over the same operations
	f := strings.Fields(c.Line)
	var ops, outs []string
	if len(ex) > 1 && ex[1] != "" {
		for _, o := range strings.Split(ex[1], ";") {
			p := strings.SplitN(o, "=", 2)
			var id int64
			fmt.Sscanf(p[0], "%d", &id)
			ops = append(ops, p[1])
			r, ok := renderViews(byID[id].views)
			if ok && !strings.HasPrefix(p[1], "S:") {
				r = strings.SplitN(r, "[", 2)[0]
			}
			outs = append(outs, r)
		}
	}
	if len(ops) == 0 {
		return true, "", ""
	}
	sc := Case{Line: fmt.Sprintf("tdstore %s %s %s %s ops=%s", f[3], f[4], f[5], f[6], strings.Join(ops, ";")), Kind: "clean"}
	ok, msg, cls := tdStoreStream{}.Oracle(sc, strings.Join(outs, " | "))
	if !ok {
		return false, msg, strings.Replace(cls, "tdstore/", "tddir/store-", 1)
	}
	return true, "", ""
}

func (tdDirStream) Class(c Case, impl string) (string, bool) {
	return c.Kind, c.Kind == "clean-read-after-change"
}
