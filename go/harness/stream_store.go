package main

import (
	"fmt"
	"hash/crc32"
	"math/rand"
	"sort"
	"strings"

	"github.com/go-ldap/ldap/v3"
	"github.com/jimlambrt/gldap"
	"github.com/jimlambrt/gldap/testdirectory"
)

// ---- stream "tdstore": histories of add / modify / delete / search / Set* ---------------------------

type tdStoreStream struct{}

func (tdStoreStream) Name() string { return "tdstore" }
func (tdStoreStream) Rule() string {
	return "operation histories (length 1..40) over a pool of user and group DNs none of which is a substring of another (plus, in a separate hostile class, DNs with parentheses, stars, spaces, newlines and substring relations, which only the model correspondence judges): add with 0..3 attributes (duplicate names), modify with add-value / delete-attribute / replace / increment changes of 0..2 values, delete, searches under the user base, the group base (member filters) and other bases, SetUsers / SetGroups in between; every request is real LDAP bytes through the directory's own mux, in-process; after every step the response (code, entries, attributes in order) is compared with the Lean model and, for the clean class, with a reference map; non-trivial = history with at least one successful mutation followed by a search, distinct by history"
}

// (with spellings that differ in case only: the directory compares attribute names as they are written)
var storeAttrNames = []string{"cn", "mail", "description", "member", "sn", "Description", "displayName", "displayname", "MAIL"}

func storeDNPool(rng *rand.Rand, hostile bool) ([]string, []string) {
	users := []string{"cn=alice,ou=people,dc=example,dc=org", "cn=bob,ou=people,dc=example,dc=org", "cn=carol,ou=people,dc=example,dc=org", "uid=dave,ou=people,dc=example,dc=org", "cn=erin,ou=staff,dc=example,dc=org"}
	groups := []string{"cn=admin,ou=groups,dc=example,dc=org", "cn=users,ou=groups,dc=example,dc=org"}
	if hostile {
		users = append(users, "cn=al", "cn=alice", "cn=a(b)c,ou=people,dc=example,dc=org", "cn=st*r", " cn=sp ", "", "cn=x\ny", "(cn=p)", "cn=|pipe")
		groups = append(groups, "cn=adm", "cn=(g)")
	}
	return users, groups
}

func genStoreAttrs(rng *rand.Rand) []Att {
	n := rng.Intn(4)
	as := make([]Att, n)
	for i := range as {
		vals := make([]string, rng.Intn(3))
		for j := range vals {
			vals[j] = []string{"v1", "v2", "x", "alice", "long value with spaces"}[rng.Intn(5)]
		}
		as[i] = Att{Type: storeAttrNames[rng.Intn(len(storeAttrNames))], Vals: vals}
	}
	return as
}

func attsDesc(as []Att, sep string) string {
	parts := make([]string, len(as))
	for i, a := range as {
		hv := make([]string, len(a.Vals))
		for j, v := range a.Vals {
			hv[j] = hx([]byte(v))
		}
		parts[i] = hx([]byte(a.Type)) + "=" + strings.Join(hv, ",")
	}
	return strings.Join(parts, sep)
}

func genStoreEntries(rng *rand.Rand, pool []string, max int) []tdEntry {
	n := rng.Intn(max + 1)
	perm := rng.Perm(len(pool))
	var es []tdEntry
	for i := 0; i < n && i < len(pool); i++ {
		e := tdEntry{DN: pool[perm[i]]}
		for _, a := range genStoreAttrs(rng) {
			e.Attrs = append(e.Attrs, a)
		}
		if rng.Intn(2) == 0 {
			e.Attrs = append(e.Attrs, Att{Type: "member", Vals: []string{"alice", "bob"}[:1+rng.Intn(2)]})
		}
		es = append(es, e)
	}
	return es
}

func (tdStoreStream) Generate(rng *rand.Rand, n int, thorough bool) []Case {
	var cs []Case
	for len(cs) < n {
		hostile := rng.Intn(4) == 0
		upool, gpool := storeDNPool(rng, hostile)
		users := genStoreEntries(rng, upool, 3)
		groups := genStoreEntries(rng, gpool, 2)
		var ops []string
		if !hostile && len(users) >= 2 && rng.Intn(4) == 0 {
			// every user carries the same membership list (as NewUsers(..., WithMembersOf(...)) builds them); one user's
			// list is then replaced, or extended, and the others are looked up
			for i := range users {
				users[i].Attrs = append(users[i].Attrs, Att{Type: "memberOf", Vals: []string{"admins", "staff"}})
			}
			a, b := users[0].DN, users[1].DN
			ops = append(ops, fmt.Sprintf("M:%s:%d~%s~%s", hx([]byte(a)), []int{2, 2, 0}[rng.Intn(3)], hx([]byte("memberOf")), hx([]byte("ops"))),
				"S:"+hx([]byte(testdirectory.DefaultUserDN))+":"+hx([]byte("("+b+")")), "S:"+hx([]byte(testdirectory.DefaultUserDN))+":"+hx([]byte("("+a+")")))
		}
		nops := 1 + rng.Intn(40)
		if !thorough {
			nops = 1 + rng.Intn(16)
		}
		all := append(append([]string{}, upool...), gpool...)
		for i := 0; i < nops; i++ {
			dn := all[rng.Intn(len(all))]
			switch rng.Intn(12) {
			case 0, 1, 2:
				ops = append(ops, "A:"+hx([]byte(dn))+":"+attsDesc(genStoreAttrs(rng), "&"))
			case 3, 4, 5:
				nc := 1 + rng.Intn(3)
				chs := make([]string, nc)
				for j := range chs {
					nv := rng.Intn(3)
					vals := make([]string, nv)
					for k := range vals {
						vals[k] = hx([]byte([]string{"n1", "n2", "new value"}[rng.Intn(3)]))
					}
					chs[j] = fmt.Sprintf("%d~%s~%s", rng.Intn(4), hx([]byte(storeAttrNames[rng.Intn(len(storeAttrNames))])), strings.Join(vals, "."))
				}
				ops = append(ops, "M:"+hx([]byte(dn))+":"+strings.Join(chs, "&"))
			case 6:
				ops = append(ops, "D:"+hx([]byte(dn)))
			case 7, 8, 9:
				base := []string{testdirectory.DefaultUserDN, "OU=PEOPLE,DC=EXAMPLE,DC=ORG", testdirectory.DefaultGroupDN, "dc=example,dc=org", dn}[rng.Intn(5)]
				var filter string
				switch rng.Intn(7) {
				case 6:
					filter = "(objectClass=*)"
				case 0:
					filter = "(" + dn + ")"
				case 1:
					filter = "(member=alice)"
				case 2:
					filter = "(|(cn=alice)(cn=bob))"
				case 3:
					filter = "(cn=*)"
				case 4:
					filter = "(&(objectClass=person)(" + strings.SplitN(dn, ",", 2)[0] + "))"
				default:
					filter = "(uid=nobody)"
				}
				// the handler sees what go-ldap decompiles from the compiled filter
				fp, err := ldap.CompileFilter(filter)
				if err != nil {
					continue
				}
				seen, err := ldap.DecompileFilter(fp)
				if err != nil {
					continue
				}
				if fp2, err := ldap.CompileFilter(seen); err != nil || string(fp2.Bytes()) != string(fp.Bytes()) {
					continue
				}
				ops = append(ops, "S:"+hx([]byte(base))+":"+hx([]byte(seen)))
			case 10:
				ops = append(ops, "U:"+entriesDesc(genStoreEntries(rng, upool, 3)))
			case 11:
				ops = append(ops, "G:"+entriesDesc(genStoreEntries(rng, gpool, 2)))
			}
		}
		if !hostile && len(users) >= 1 && rng.Intn(5) == 0 {
			// the application keeps the list a getter returned, sets other users for a while, then hands the kept list
			// back (nothing else happens in between): the directory then holds the kept users again
			tmp := genStoreEntries(rng, upool, 3)
			ops = append(ops, "V", "U:"+entriesDesc(tmp), "W", "S:"+hx([]byte(testdirectory.DefaultUserDN))+":"+hx([]byte("("+users[0].DN+")")))
			if len(tmp) > 0 {
				ops = append(ops, "S:"+hx([]byte(testdirectory.DefaultUserDN))+":"+hx([]byte("("+tmp[0].DN+")")))
			}
		}
		kind := "clean"
		if hostile {
			kind = "hostile"
		}
		cs = append(cs, Case{Line: fmt.Sprintf("tdstore userdn=%s groupdn=%s users=%s groups=%s ops=%s", hx([]byte(testdirectory.DefaultUserDN)),
			hx([]byte(testdirectory.DefaultGroupDN)), entriesDesc(users), entriesDesc(groups), strings.Join(ops, ";")), Kind: kind})
	}
	return cs
}

func realEntries(es []tdEntry) []*gldap.Entry {
	var out []*gldap.Entry
	for _, e := range es {
		out = append(out, realEntry(e))
	}
	return out
}

// realEntriesShared builds the entries the way testdirectory.NewUsers(..., WithMembersOf(...)) does: attributes
// of different entries that have the same value list share ONE []string (len == cap), so a handler that writes
// into an attribute's slice in place shows up as a change of another entry.
func realEntriesShared(es []tdEntry) []*gldap.Entry {
	cache := map[string][]string{}
	var out []*gldap.Entry
	for _, e := range es {
		ent := &gldap.Entry{DN: e.DN}
		for _, a := range e.Attrs {
			k := strings.Join(a.Vals, "\x00") + fmt.Sprint(len(a.Vals))
			v, ok := cache[k]
			if !ok {
				v = make([]string, len(a.Vals))
				copy(v, a.Vals)
				cache[k] = v
			}
			ent.Attributes = append(ent.Attributes, gldap.NewEntryAttribute(a.Type, v[:len(v):len(v)]))
		}
		out = append(out, ent)
	}
	return out
}

func renderViews(views []string) (string, bool) {
	// the last view is the result; the ones before it are entries
	if len(views) == 0 {
		return "no-response", false
	}
	var code int
	var id, tag int
	last := views[len(views)-1]
	if _, err := fmt.Sscanf(last, "result id=%d tag=%d code=%d", &id, &tag, &code); err != nil {
		return "bad-result " + last, false
	}
	var es []string
	for _, v := range views[:len(views)-1] {
		if !strings.HasPrefix(v, "entry ") {
			return "bad-entry " + v, false
		}
		f := strings.Fields(v)
		dn := strings.TrimPrefix(f[2], "dn=")
		attrs := strings.TrimSuffix(strings.TrimPrefix(f[3], "attrs=["), "]")
		var as []string
		if attrs != "" {
			for _, a := range strings.Split(attrs, ";") {
				kv := strings.SplitN(a, ":", 2)
				as = append(as, kv[0]+"="+kv[1])
			}
		}
		es = append(es, dn+"{"+strings.Join(as, ";")+"}")
	}
	return fmt.Sprintf("%d[%s]", code, strings.Join(es, ",")), true
}

func (tdStoreStream) Impl(c Case) string {
	f := strings.Fields(c.Line)
	mk := realEntries
	if crc32.ChecksumIEEE([]byte(c.Line))&1 == 1 {
		mk = realEntriesShared // the application built its entries with shared value slices
	}
	users := mk(parseTdEntries(strings.TrimPrefix(f[3], "users=")))
	groups := mk(parseTdEntries(strings.TrimPrefix(f[4], "groups=")))
	d := testdirectory.VerifNewDirectory(&harnessT{}, &testdirectory.Defaults{Users: users, Groups: groups,
		UserDN: string(unhx(strings.TrimPrefix(f[1], "userdn="))), GroupDN: string(unhx(strings.TrimPrefix(f[2], "groupdn=")))})
	var outs []string
	var savedUsers []*gldap.Entry
	opsStr := strings.TrimPrefix(f[5], "ops=")
	for i, op := range strings.Split(opsStr, ";") {
		if op == "" {
			continue
		}
		p := strings.Split(op, ":")
		id := int64(i + 1)
		var frame []byte
		switch p[0] {
		case "A":
			r := Req{Kind: "add", ID: id, DN: string(unhx(p[1]))}
			for _, a := range strings.Split(p[2], "&") {
				if a != "" {
					n, v := parseAttrItem(a)
					r.AddAttrs = append(r.AddAttrs, Att{Type: n, Vals: v})
				}
			}
			nd, _ := r.Node()
			frame = nd.Ser()
		case "M":
			r := Req{Kind: "modify", ID: id, DN: string(unhx(p[1]))}
			for _, ch := range strings.Split(p[2], "&") {
				q := strings.Split(ch, "~")
				var op int64
				fmt.Sscanf(q[0], "%d", &op)
				var vals []string
				if q[2] != "" {
					for _, v := range strings.Split(q[2], ".") {
						vals = append(vals, string(unhx(v)))
					}
				}
				r.Changes = append(r.Changes, Chg{Op: op, Type: string(unhx(q[1])), Vals: vals})
			}
			nd, _ := r.Node()
			frame = nd.Ser()
		case "D":
			nd, _ := Req{Kind: "delete", ID: id, DN: string(unhx(p[1]))}.Node()
			frame = nd.Ser()
		case "S":
			// the filter travels as an opaque assertion value so that any string reaches the handler:
			// use the raw filter string through an equality-less path is impossible, so compile it
			r := Req{Kind: "search", ID: id, DN: string(unhx(p[1])), Scope: 2, Filter: string(unhx(p[2]))}
			nd, err := r.Node()
			if err != nil {
				outs = append(outs, "filter-rejected")
				continue
			}
			frame = nd.Ser()
		case "V":
			savedUsers = d.Users()
			outs = append(outs, "saved")
			continue
		case "W":
			d.SetUsers(savedUsers...)
			outs = append(outs, "set")
			continue
		case "U":
			d.SetUsers(mk(parseTdEntries(p[1]))...)
			outs = append(outs, "set")
			continue
		case "G":
			d.SetGroups(mk(parseTdEntries(p[1]))...)
			outs = append(outs, "set")
			continue
		}
		views, err := serveOne(d, frame)
		if err != nil {
			outs = append(outs, "err")
			continue
		}
		if p[0] == "S" {
			o, _ := renderViews(views)
			outs = append(outs, o)
		} else {
			o, ok := renderViews(views)
			if !ok {
				outs = append(outs, o)
			} else {
				outs = append(outs, strings.SplitN(o, "[", 2)[0])
			}
		}
	}
	return strings.Join(outs, " | ")
}

// refStore is the independent reference: a map from DN to attribute list.
type refStore struct {
	users  map[string][]Att
	groups map[string][]Att
}

func refEntries(es []tdEntry) map[string][]Att {
	m := map[string][]Att{}
	for _, e := range es {
		m[e.DN] = append([]Att(nil), e.Attrs...)
	}
	return m
}

func (tdStoreStream) Oracle(c Case, impl string) (bool, string, string) {
	if strings.Contains(impl, "panic") {
		return false, "a directory handler panicked", "panic"
	}
	if c.Kind != "clean" {
		return true, "", ""
	}
	// the clean class obeys the property's premise: no DN is a substring of another
	f := strings.Fields(c.Line)
	ref := refStore{refEntries(parseTdEntries(strings.TrimPrefix(f[3], "users="))), refEntries(parseTdEntries(strings.TrimPrefix(f[4], "groups=")))}
	outs := strings.Split(impl, " | ")
	savedRef := map[string][]Att{}
	ops := strings.Split(strings.TrimPrefix(f[5], "ops="), ";")
	oi := 0
	for _, op := range ops {
		if op == "" {
			continue
		}
		if oi >= len(outs) {
			return false, "missing output", "tdstore/shape"
		}
		out := outs[oi]
		oi++
		p := strings.Split(op, ":")
		switch p[0] {
		case "V":
			savedRef = map[string][]Att{}
			for k, v := range ref.users {
				savedRef[k] = v
			}
		case "W":
			ref.users = map[string][]Att{}
			for k, v := range savedRef {
				ref.users[k] = v
			}
		case "U":
			ref.users = refEntries(parseTdEntries(p[1]))
		case "G":
			ref.groups = refEntries(parseTdEntries(p[1]))
		case "A":
			dn := string(unhx(p[1]))
			_, exists := ref.users[dn]
			if exists {
				if out != "68" {
					return false, "adding an existing user DN answered " + out + " want 68 (entryAlreadyExists)", "tdstore/add-existing"
				}
				continue
			}
			if out != "0" {
				return false, "adding a new DN answered " + out + " want 0", "tdstore/add-new"
			}
			merged := map[string][]string{}
			for _, a := range strings.Split(p[2], "&") {
				if a != "" {
					n, v := parseAttrItem(a)
					merged[n] = v
				}
			}
			var names []string
			for n := range merged {
				names = append(names, n)
			}
			sort.Strings(names)
			var as []Att
			for _, n := range names {
				as = append(as, Att{Type: n, Vals: merged[n]})
			}
			ref.users[dn] = as
		case "D":
			dn := string(unhx(p[1]))
			if _, ok := ref.users[dn]; ok {
				delete(ref.users, dn)
				if out != "0" {
					return false, "deleting an existing user answered " + out, "tdstore/delete-existing"
				}
			} else if _, ok := ref.groups[dn]; ok {
				delete(ref.groups, dn)
				if out != "0" {
					return false, "deleting an existing group answered " + out, "tdstore/delete-existing"
				}
			} else if out != "32" {
				return false, "deleting a missing entry answered " + out + " want 32 (noSuchObject)", "tdstore/delete-missing"
			}
		case "M":
			dn := string(unhx(p[1]))
			as, ok := ref.users[dn]
			if !ok {
				if _, isGroup := ref.groups[dn]; isGroup {
					continue // the directory looks groups up differently; judged by the model correspondence only
				}
				if out != "32" {
					return false, "modifying a missing entry answered " + out + " want 32 (noSuchObject)", "tdstore/modify-missing"
				}
				continue
			}
			if out != "0" {
				return false, "modifying an existing user answered " + out, "tdstore/modify-existing"
			}
			for _, ch := range strings.Split(p[2], "&") {
				q := strings.Split(ch, "~")
				ty := string(unhx(q[1]))
				var vals []string
				if q[2] != "" {
					for _, v := range strings.Split(q[2], ".") {
						vals = append(vals, wrapOctet(string(unhx(v))))
					}
				}
				idx := -1
				for i, a := range as {
					if a.Type == ty {
						idx = i
					}
				}
				switch q[0] {
				case "0":
					if idx >= 0 {
						as[idx].Vals = append(append([]string(nil), as[idx].Vals...), vals...)
					} else {
						as = append(as, Att{Type: ty, Vals: vals})
					}
				case "1":
					if idx >= 0 {
						as = append(append([]Att(nil), as[:idx]...), as[idx+1:]...)
					}
				case "2":
					if idx >= 0 {
						as[idx] = Att{Type: ty, Vals: vals}
					}
				}
			}
			ref.users[dn] = as
		case "S":
			base, filter := string(unhx(p[1])), string(unhx(p[2]))
			// judged by the reference map: the exact-DN lookups under the user base, and the look-up of an entry by its
			// own DN as the search base (any filter that matches everything)
			var dn string
			switch {
			case strings.EqualFold(base, testdirectory.DefaultUserDN) && strings.HasPrefix(filter, "(") && !strings.ContainsAny(filter[1:len(filter)-1], "()*|&"):
				dn = filter[1 : len(filter)-1]
			case filter == "(objectClass=*)" && strings.Contains(base, testdirectory.DefaultUserDN) && !strings.EqualFold(base, testdirectory.DefaultUserDN):
				dn = base
			default:
				continue
			}
			as, ok := ref.users[dn]
			if !ok {
				// a DN that is not stored may still be a substring of nothing in the clean pool
				if out != "32[]" {
					return false, "searching a user that was never added or was deleted answered " + clip(out), "tdstore/search-absent"
				}
				continue
			}
			var parts []string
			for _, a := range as {
				hv := make([]string, len(a.Vals))
				for j, v := range a.Vals {
					hv[j] = hx([]byte(v))
				}
				parts = append(parts, hx([]byte(a.Type))+"="+strings.Join(hv, ","))
			}
			want := "0[" + hx([]byte(dn)) + "{" + strings.Join(parts, ";") + "}]"
			if out != want {
				return false, "search returns " + clip(out) + " want " + clip(want), "tdstore/search-present"
			}
		}
	}
	return true, "", ""
}

func (tdStoreStream) Class(c Case, impl string) (string, bool) {
	mut := strings.Contains(impl, "0 |") || strings.HasPrefix(impl, "0")
	return c.Kind, mut && strings.Contains(c.Line, ";S:")
}
