package main

import (
	"fmt"
	"go/ast"
	"go/token"
	"sort"
	"strings"
)

// The access table (C15): every syntactic read / write of a field of conn, Server, Mux,
// ResponseWriter (gldap) and Directory (testdirectory), with the enclosing function, the
// mutexes syntactically held at that point and the goroutine context the code runs in.

type accessRow struct {
	field string // "conn.netConn"
	write bool
	locks []string
	ctx   int
	fn    string
}

const (
	ctxInit  = 0 // constructor / before the object is shared with another goroutine
	ctxSetup = 1 // route registration, Server.Router: before Run by the property's premise
	ctxRun   = 2 // the goroutine executing Server.Run
	ctxConn  = 3 // a connection's own goroutine
	ctxReq   = 4 // a request goroutine / a handler
	ctxAPI   = 5 // any application goroutine (Stop, Ready, Directory getters and Set*)
)

var funcCtx = map[string]int{
	"newConn": ctxInit, "NewServer": ctxInit, "NewMux": ctxInit, "newResponseWriter": ctxInit, "td.Start": ctxInit, "td.VerifNewDirectory": ctxInit,
	"Mux.Bind": ctxSetup, "Mux.Unbind": ctxSetup, "Mux.Search": ctxSetup, "Mux.ExtendedOperation": ctxSetup, "Mux.Modify": ctxSetup,
	"Mux.Add": ctxSetup, "Mux.Delete": ctxSetup, "Mux.DefaultRoute": ctxSetup, "Server.Router": ctxSetup,
	"Server.Run":         ctxRun,
	"conn.serveRequests": ctxConn, "conn.readRequest": ctxConn, "conn.readPacket": ctxConn, "conn.initConn": ctxConn, "conn.close": ctxConn,
	"Request.StartTLS": ctxConn,
	"Mux.serve":        ctxReq, "ResponseWriter.Write": ctxReq, "Request.ConnectionID": ctxReq,
	"Server.Stop": ctxAPI, "Server.Ready": ctxAPI,
}

// structOf maps (function, variable) to the struct its selectors address.
func structOf(fn, recv, recvType, x string) string {
	if x == recv && recvType != "" {
		return recvType
	}
	switch {
	case fn == "Server.Run" && x == "conn":
		return "conn"
	case strings.HasSuffix(x, ".conn"):
		return "conn"
	case (fn == "conn.serveRequests" || fn == "Mux.serve") && x == "w":
		return "ResponseWriter"
	case fn == "newConn" && x == "c":
		return "conn"
	}
	return ""
}

func mutexName(structName, sel string) string { return structName + "." + sel }

// callSite: a call of a method of a tracked struct on the receiver variable, with the locks held
type callSite struct {
	callee string
	held   []string
}

var callSites []callSite
var baseLocks = map[string][]string{}

type accessWalker struct {
	fn       string
	recv     string
	recvType string
	fields   map[string]map[string]bool
	rows     *[]accessRow
	pkgCtx   func(fn string) int
}

func (w *accessWalker) record(e ast.Expr, write bool, held []string, ctx int) {
	sel, ok := e.(*ast.SelectorExpr)
	if !ok {
		return
	}
	st := structOf(w.fn, w.recv, w.recvType, exprText(sel.X))
	if st == "" || !w.fields[st][sel.Sel.Name] {
		return
	}
	l := append([]string(nil), held...)
	sort.Strings(l)
	*w.rows = append(*w.rows, accessRow{st + "." + sel.Sel.Name, write, l, ctx, w.fn})
}

// lockCall recognises X.Lock / RLock / Unlock / RUnlock on a tracked struct's mutex field.
func (w *accessWalker) lockCall(c *ast.CallExpr) (name string, acquire, release bool) {
	sel, ok := c.Fun.(*ast.SelectorExpr)
	if !ok {
		return "", false, false
	}
	inner, ok := sel.X.(*ast.SelectorExpr)
	if !ok {
		return "", false, false
	}
	st := structOf(w.fn, w.recv, w.recvType, exprText(inner.X))
	if st == "" {
		return "", false, false
	}
	m := mutexName(st, inner.Sel.Name)
	if st == "ResponseWriter" && inner.Sel.Name == "writerMu" {
		m = "conn.writerMu" // the pointer every ResponseWriter of a connection shares
	}
	switch sel.Sel.Name {
	case "Lock", "RLock":
		return m, true, false
	case "Unlock", "RUnlock":
		return m, false, true
	}
	return "", false, false
}

// exprAccesses records the field reads inside an expression (and nested function literals).
func (w *accessWalker) exprAccesses(e ast.Node, held []string, ctx int) {
	if e == nil {
		return
	}
	ast.Inspect(e, func(n ast.Node) bool {
		switch x := n.(type) {
		case *ast.FuncLit:
			// a literal that is called, stored or deferred from this statement: same goroutine,
			// but it may run later: no locks assumed
			w.block(x.Body.List, nil, ctx)
			return false
		case *ast.CallExpr:
			if sel, ok := x.Fun.(*ast.SelectorExpr); ok {
				if st := structOf(w.fn, w.recv, w.recvType, exprText(sel.X)); st != "" {
					name := st + "." + sel.Sel.Name
					if st == "Directory" {
						name = "td." + name
					}
					callSites = append(callSites, callSite{name, append([]string(nil), held...)})
				}
			}
		case *ast.SelectorExpr:
			w.record(x, false, held, ctx)
			// the receiver chain below is still visited (r.conn.netConn -> r.conn is not a tracked field)
		}
		return true
	})
}

func (w *accessWalker) block(stmts []ast.Stmt, heldIn []string, ctx int) {
	held := append([]string(nil), heldIn...)
	forked := false
	for _, st := range stmts {
		c := ctx
		if w.fn == "Server.Run" && ctx == ctxRun && !forked {
			c = ctxRun
		}
		switch s := st.(type) {
		case *ast.ExprStmt:
			if call, ok := s.X.(*ast.CallExpr); ok {
				if m, acq, rel := w.lockCall(call); m != "" {
					if acq {
						held = append(held, m)
					}
					if rel {
						for i := len(held) - 1; i >= 0; i-- {
							if held[i] == m {
								held = append(held[:i], held[i+1:]...)
								break
							}
						}
					}
					continue
				}
			}
			w.exprAccesses(s.X, held, c)
		case *ast.DeferStmt:
			if m, _, rel := w.lockCall(s.Call); m != "" && rel {
				continue // held until the function returns
			}
			if fl, ok := s.Call.Fun.(*ast.FuncLit); ok {
				w.block(fl.Body.List, nil, c)
			} else {
				w.exprAccesses(s.Call, nil, c)
			}
		case *ast.GoStmt:
			forked = true
			if fl, ok := s.Call.Fun.(*ast.FuncLit); ok {
				nctx := ctxReq
				if w.fn == "Server.Run" {
					nctx = ctxConn
					if !strings.Contains(exprText(fl.Body), "serveRequests") {
						nctx = ctxConn // the shutdown watcher: touches only the net.Conn and the context
					}
				}
				if w.fn == "td.Start" {
					nctx = ctxRun
				}
				w.block(fl.Body.List, nil, nctx)
			} else {
				w.exprAccesses(s.Call, nil, ctxReq)
			}
		case *ast.AssignStmt:
			for _, l := range s.Lhs {
				wctx := c
				// Run writes fields of the fresh conn before its goroutine exists
				if w.fn == "Server.Run" && strings.HasPrefix(exprText(l), "conn.") {
					wctx = ctxInit
				}
				w.record(l, true, held, wctx)
				if ix, ok := l.(*ast.IndexExpr); ok {
					w.exprAccesses(ix, held, c)
				}
			}
			for _, r := range s.Rhs {
				w.exprAccesses(r, held, c)
			}
		case *ast.IncDecStmt:
			w.record(s.X, true, held, c)
		case *ast.IfStmt:
			if s.Init != nil {
				w.block([]ast.Stmt{s.Init}, held, c)
			}
			w.exprAccesses(s.Cond, held, c)
			w.block(s.Body.List, held, c)
			if s.Else != nil {
				switch e := s.Else.(type) {
				case *ast.BlockStmt:
					w.block(e.List, held, c)
				case *ast.IfStmt:
					w.block([]ast.Stmt{e}, held, c)
				}
			}
		case *ast.ForStmt:
			if s.Init != nil {
				w.block([]ast.Stmt{s.Init}, held, c)
			}
			w.exprAccesses(s.Cond, held, c)
			w.block(s.Body.List, held, c)
		case *ast.RangeStmt:
			w.exprAccesses(s.X, held, c)
			w.block(s.Body.List, held, c)
		case *ast.SwitchStmt:
			if s.Init != nil {
				w.block([]ast.Stmt{s.Init}, held, c)
			}
			w.exprAccesses(s.Tag, held, c)
			for _, cc := range s.Body.List {
				cl := cc.(*ast.CaseClause)
				for _, e := range cl.List {
					w.exprAccesses(e, held, c)
				}
				w.block(cl.Body, held, c)
			}
		case *ast.TypeSwitchStmt:
			for _, cc := range s.Body.List {
				w.block(cc.(*ast.CaseClause).Body, held, c)
			}
		case *ast.SelectStmt:
			for _, cc := range s.Body.List {
				cl := cc.(*ast.CommClause)
				if cl.Comm != nil {
					w.block([]ast.Stmt{cl.Comm}, held, c)
				}
				w.block(cl.Body, held, c)
			}
		case *ast.BlockStmt:
			w.block(s.List, held, c)
		case *ast.ReturnStmt:
			for _, r := range s.Results {
				w.exprAccesses(r, held, c)
			}
		case *ast.DeclStmt:
			w.exprAccesses(s, held, c)
		case *ast.SendStmt:
			w.exprAccesses(s.Value, held, c)
		case *ast.LabeledStmt:
			w.block([]ast.Stmt{s.Stmt}, held, c)
		}
	}
}

func structFields(p *parsed, names ...string) map[string]map[string]bool {
	out := map[string]map[string]bool{}
	want := map[string]bool{}
	for _, n := range names {
		want[n] = true
	}
	for _, f := range p.files {
		for _, d := range f.Decls {
			gd, ok := d.(*ast.GenDecl)
			if !ok || gd.Tok != token.TYPE {
				continue
			}
			for _, sp := range gd.Specs {
				ts := sp.(*ast.TypeSpec)
				st, ok := ts.Type.(*ast.StructType)
				if !ok || !want[ts.Name.Name] {
					continue
				}
				out[ts.Name.Name] = map[string]bool{}
				for _, fl := range st.Fields.List {
					for _, n := range fl.Names {
						out[ts.Name.Name][n.Name] = true
					}
				}
			}
		}
	}
	return out
}

func collectAccessRows(pkgs map[string]*parsed) []accessRow {
	// pass 1: call sites; a helper method whose every call site holds mutex m runs under m
	callSites = nil
	baseLocks = map[string][]string{}
	collectAccessRowsOnce(pkgs)
	byCallee := map[string][][]string{}
	for _, cs := range callSites {
		byCallee[cs.callee] = append(byCallee[cs.callee], cs.held)
	}
	for callee, sites := range byCallee {
		common := append([]string(nil), sites[0]...)
		for _, h := range sites[1:] {
			var keep []string
			for _, m := range common {
				for _, x := range h {
					if x == m {
						keep = append(keep, m)
					}
				}
			}
			common = keep
		}
		if len(common) > 0 {
			baseLocks[callee] = common
		}
	}
	return collectAccessRowsOnce(pkgs)
}

func collectAccessRowsOnce(pkgs map[string]*parsed) []accessRow {
	var rows []accessRow
	fields := structFields(pkgs["gldap"], "conn", "Server", "Mux", "ResponseWriter")
	for k, v := range structFields(pkgs["testdirectory"], "Directory") {
		fields[k] = v
	}
	for _, pname := range []string{"gldap", "testdirectory"} {
		p := pkgs[pname]
		if p == nil {
			continue
		}
		for i, f := range p.files {
			if n := p.names[i]; n == "testing.go" || n == "testingt.go" {
				continue
			}
			for _, d := range f.Decls {
				fd, ok := d.(*ast.FuncDecl)
				if !ok || fd.Body == nil {
					continue
				}
				key := funcKey(pname, fd)
				recv, recvType := "", ""
				if fd.Recv != nil && len(fd.Recv.List) == 1 && len(fd.Recv.List[0].Names) == 1 {
					recv = fd.Recv.List[0].Names[0].Name
					t := fd.Recv.List[0].Type
					if st, ok := t.(*ast.StarExpr); ok {
						t = st.X
					}
					if id, ok := t.(*ast.Ident); ok {
						recvType = id.Name
					}
				}
				ctx, known := funcCtx[key]
				if !known {
					switch {
					case recvType == "Directory" && strings.HasPrefix(fd.Name.Name, "handle"):
						ctx = ctxReq
					case recvType == "Directory" && (fd.Name.Name == "findMembers" || fd.Name.Name == "logSearchRequest"):
						ctx = ctxReq
					case recvType == "Directory":
						ctx = ctxAPI
					case recvType == "conn" || recvType == "Server" || recvType == "Mux" || recvType == "ResponseWriter":
						ctx = ctxAPI
					default:
						ctx = ctxReq
					}
				}
				w := &accessWalker{fn: key, recv: recv, recvType: recvType, fields: fields, rows: &rows}
				w.block(fd.Body.List, baseLocks[key], ctx)
			}
		}
	}
	// dedup
	seen := map[string]bool{}
	var out []accessRow
	for _, r := range rows {
		k := fmt.Sprintf("%s|%v|%v|%d|%s", r.field, r.write, r.locks, r.ctx, r.fn)
		if !seen[k] {
			seen[k] = true
			out = append(out, r)
		}
	}
	sort.Slice(out, func(i, j int) bool {
		a, b := out[i], out[j]
		if a.field != b.field {
			return a.field < b.field
		}
		if a.fn != b.fn {
			return a.fn < b.fn
		}
		if a.write != b.write {
			return !a.write
		}
		return strings.Join(a.locks, ",") < strings.Join(b.locks, ",")
	})
	return out
}

func emitAccessTable(pkgs map[string]*parsed) string {
	rows := collectAccessRows(pkgs)
	var sb strings.Builder
	sb.WriteString("import GldapModel.Runtime.Access\n/-! GENERATED by /verif/go/extract from /repo - do not edit. -/\nnamespace Gldap.Generated\nopen Access\n\n")
	sb.WriteString("def accessTable : List Row := [\n")
	for i, r := range rows {
		locks := make([]string, len(r.locks))
		for j, l := range r.locks {
			locks[j] = fmt.Sprintf("%q", l)
		}
		sep := ","
		if i == len(rows)-1 {
			sep = ""
		}
		sb.WriteString(fmt.Sprintf("  ⟨%q, %s, [%s], %d, %q⟩%s\n", r.field, leanBool(r.write), strings.Join(locks, ", "), r.ctx, r.fn, sep))
	}
	sb.WriteString("]\n\nend Gldap.Generated\n")
	return sb.String()
}
