// Command verifextract reads the current gldap sources with go/ast and regenerates the
// data the Lean model is tied to: Generated/Consts.lean, Generated/Facts.lean and
// generated/inventory.txt. It emits data only, never proofs, and fails closed: a construct
// it does not recognise in an anchored function becomes an `unrecognised` line.
package main

import (
	"flag"
	"fmt"
	"go/ast"
	"go/parser"
	"go/token"
	"os"
	"path/filepath"
	"sort"
	"strings"
)

type parsed struct {
	fset  *token.FileSet
	files []*ast.File
	names []string
}

func parseDir(dir string) (*parsed, error) {
	fset := token.NewFileSet()
	ents, err := os.ReadDir(dir)
	if err != nil {
		return nil, err
	}
	p := &parsed{fset: fset}
	var names []string
	for _, e := range ents {
		n := e.Name()
		if e.IsDir() || !strings.HasSuffix(n, ".go") || strings.HasSuffix(n, "_test.go") || strings.HasPrefix(n, "verif_") {
			continue
		}
		names = append(names, n)
	}
	sort.Strings(names)
	for _, n := range names {
		f, err := parser.ParseFile(fset, filepath.Join(dir, n), nil, parser.ParseComments)
		if err != nil {
			return nil, err
		}
		p.files = append(p.files, f)
		p.names = append(p.names, n)
	}
	return p, nil
}

func main() {
	repo := flag.String("repo", "/repo", "gldap checkout")
	outLean := flag.String("lean", "", "directory for Generated/*.lean")
	outInv := flag.String("inventory", "", "path of inventory.txt")
	flag.Parse()
	pkgs := map[string]*parsed{}
	var err error
	if pkgs["gldap"], err = parseDir(*repo); err != nil {
		fmt.Fprintln(os.Stderr, "extract:", err)
		os.Exit(2)
	}
	if pkgs["testdirectory"], err = parseDir(filepath.Join(*repo, "testdirectory")); err != nil {
		fmt.Fprintln(os.Stderr, "extract:", err)
		os.Exit(2)
	}
	if *outLean != "" {
		must(os.MkdirAll(*outLean, 0o755))
		must(os.WriteFile(filepath.Join(*outLean, "Consts.lean"), []byte(emitConsts(pkgs)), 0o644))
	}
	if *outLean != "" {
		must(os.WriteFile(filepath.Join(*outLean, "Facts.lean"), []byte(emitFacts(pkgs)), 0o644))
		must(os.WriteFile(filepath.Join(*outLean, "AccessTable.lean"), []byte(emitAccessTable(pkgs)), 0o644))
	}
	if *outInv != "" {
		must(os.MkdirAll(filepath.Dir(*outInv), 0o755))
		must(os.WriteFile(*outInv, []byte(emitInventory(pkgs)), 0o644))
	}
}

func must(err error) {
	if err != nil {
		fmt.Fprintln(os.Stderr, "extract:", err)
		os.Exit(2)
	}
}
