package main

import (
	"go/ast"
	"strings"
)

// callSeq walks fn's body in source order and maps recognised calls to tokens; deferred
// calls are appended at the end in LIFO order (they run at function exit).
func callSeq(fn *ast.FuncDecl, table map[string]string) []string {
	if fn == nil {
		return nil
	}
	var seq, deferred []string
	var visit func(n ast.Node, inDefer bool)
	visit = func(n ast.Node, inDefer bool) {
		ast.Inspect(n, func(m ast.Node) bool {
			switch x := m.(type) {
			case *ast.FuncLit:
				return false // closures are analysed separately
			case *ast.DeferStmt:
				if tok, ok := table[exprText(x.Call.Fun)]; ok {
					deferred = append([]string{tok}, deferred...)
				}
				return false
			case *ast.CallExpr:
				if tok, ok := table[exprText(x.Fun)]; ok {
					seq = append(seq, tok)
				}
			}
			return true
		})
	}
	visit(fn.Body, false)
	return append(seq, deferred...)
}

func leanList(prefix string, toks []string) string {
	parts := make([]string, len(toks))
	for i, t := range toks {
		parts[i] = prefix + t
	}
	return "[" + strings.Join(parts, ", ") + "]"
}

func emitRuntimeFacts(pkgs map[string]*parsed) string {
	g := pkgs["gldap"]
	var sb strings.Builder

	// C05: micro-operation order of (*ResponseWriter).Write
	w := findFunc(g, "ResponseWriter.Write")
	seq := callSeq(w, map[string]string{
		"rw.writerMu.Lock": "lock", "rw.writerMu.Unlock": "unlock", "rw.writer.Write": "write", "rw.writer.Flush": "flush"})
	sb.WriteString("\n/-- (*ResponseWriter).Write: order of lock / buffer write / flush / unlock (deferred calls last) -/\n")
	sb.WriteString("def writeSeq : List Writer.WOp := " + leanList(".", seq) + "\n")

	// C05: every ResponseWriter of a connection shares the connection's writer and its one mutex
	perConn := false
	sr := findFunc(g, "conn.serveRequests")
	if sr != nil {
		ast.Inspect(sr.Body, func(n ast.Node) bool {
			if c, ok := n.(*ast.CallExpr); ok && exprText(c.Fun) == "newResponseWriter" && len(c.Args) >= 2 {
				perConn = exprText(c.Args[0]) == "c.writer" && exprText(c.Args[1]) == "&c.writerMu"
			}
			return true
		})
	}
	nrw := findFunc(g, "newResponseWriter")
	stores := false
	if nrw != nil {
		t := exprText(nrw.Body)
		stores = strings.Contains(t, "writerMu: lock") && strings.Contains(t, "writer: w")
	}
	sb.WriteString("\n/-- serveRequests hands every ResponseWriter the connection's own writer and its single writerMu -/\n")
	sb.WriteString("def writerLockPerConn : Bool := " + leanBool(perConn && stores) + "\n")
	sb.WriteString(serverFacts(g))
	sb.WriteString(connFacts(g))
	sb.WriteString(tlsFacts(pkgs))
	return sb.String()
}

func tlsFacts(pkgs map[string]*parsed) string {
	g := pkgs["gldap"]
	run := findFunc(g, "Server.Run")
	wrap, onListener := false, false
	if run != nil {
		// the wrap: inside `if opts.withTLSConfig != nil { ... s.listener = tls.NewListener(s.listener, ...) }`
		// at the top level of Run, before the for loop
		for _, st := range run.Body.List {
			if _, ok := st.(*ast.ForStmt); ok {
				break
			}
			if is, ok := st.(*ast.IfStmt); ok && exprText(is.Cond) == "opts.withTLSConfig != nil" {
				if strings.Contains(exprText(is.Body), "s.listener = tls.NewListener(s.listener, s.tlsConfig)") &&
					strings.Contains(exprText(is.Body), "s.tlsConfig = opts.withTLSConfig") {
					wrap = true
				}
			}
		}
		ast.Inspect(run.Body, func(n ast.Node) bool {
			if fs, ok := n.(*ast.ForStmt); ok {
				t := exprText(fs.Body)
				onListener = strings.Contains(t, "c, err := s.listener.Accept()") && strings.Count(t, ".Accept()") == 1
			}
			return true
		})
	}
	td := findFunc(pkgs["testdirectory"], "GetTLSConfig")
	reqVerify, cas := false, false
	if td != nil {
		ast.Inspect(td.Body, func(n ast.Node) bool {
			if is, ok := n.(*ast.IfStmt); ok && exprText(is.Cond) == "opts.withMTLS" {
				t := exprText(is.Body)
				reqVerify = strings.Contains(t, "serverTLSConf.ClientAuth = tls.RequireAndVerifyClientCert")
				cas = strings.Contains(t, "serverTLSConf.ClientCAs = certpool")
			}
			return true
		})
	}
	var sb strings.Builder
	sb.WriteString("\n/-- TLS plumbing of Run and the test directory's mTLS policy -/\n")
	sb.WriteString("def tlsFacts : TlsGate.Facts :=\n  { wrapBeforeLoop := " + leanBool(wrap) + ", acceptOnServerListener := " + leanBool(onListener) +
		", mtlsRequiresAndVerifies := " + leanBool(reqVerify) + ", mtlsClientCAsSet := " + leanBool(cas) + " }\n")
	return sb.String()
}

func isVerifPoint(st ast.Stmt) bool {
	if es, ok := st.(*ast.ExprStmt); ok {
		if c, ok := es.X.(*ast.CallExpr); ok {
			if id, ok := c.Fun.(*ast.Ident); ok && id.Name == "verifPoint" {
				return true
			}
		}
	}
	return false
}

func hasGoServe(stmts []ast.Stmt) bool {
	found := false
	for _, st := range stmts {
		ast.Inspect(st, func(n ast.Node) bool {
			if g, ok := n.(*ast.GoStmt); ok && strings.Contains(exprText(g.Call), "router.serve") {
				found = true
			}
			return true
		})
	}
	return found
}

// dispatchOf classifies the body of one case of serveRequests' dispatch switch.
func dispatchOf(body []ast.Stmt) string {
	text := ""
	for _, st := range body {
		text += exprText(st) + ";"
	}
	switch {
	case hasGoServe(body):
		if strings.Contains(text, "requestsWg.Add(1)") {
			return ".goroutine"
		}
		return ".goroutine" // without the Add the inventory and C08's oracle flag it
	case strings.Contains(text, "return nil") && !strings.Contains(text, "go func"):
		return ".inlineThenReturn"
	case strings.Contains(text, "router.serve(w, r)") || strings.Contains(text, "handler()(w, r)"):
		return ".inline"
	}
	return ".inline"
}

func connFacts(g *parsed) string {
	serve := findFunc(g, "conn.serveRequests")
	incr, perIter := false, false
	unbind, starttls, other := ".goroutine", ".goroutine", ".inline"
	if serve != nil {
		ast.Inspect(serve.Body, func(n ast.Node) bool {
			fs, ok := n.(*ast.ForStmt)
			if !ok {
				return true
			}
			var stmts []ast.Stmt
			for _, st := range fs.Body.List {
				if !isVerifPoint(st) {
					stmts = append(stmts, st)
				}
			}
			if len(stmts) > 0 && exprText(stmts[0]) == "requestID++" {
				incr = true
			}
			for _, st := range stmts {
				if strings.Contains(exprText(st), "newResponseWriter(c.writer") {
					perIter = true
				}
				sw, ok := st.(*ast.SwitchStmt)
				if !ok || sw.Tag != nil {
					continue
				}
				for _, cc := range sw.Body.List {
					clause := cc.(*ast.CaseClause)
					var body []ast.Stmt
					for _, b := range clause.Body {
						if !isVerifPoint(b) {
							body = append(body, b)
						}
					}
					if len(clause.List) == 0 {
						other = dispatchOf(body)
						continue
					}
					cond := exprText(clause.List[0])
					if strings.Contains(cond, "unbindRouteOperation") {
						unbind = dispatchOf(body)
					} else if strings.Contains(cond, "ExtendedOperationStartTLS") {
						starttls = dispatchOf(body)
					}
				}
			}
			return false
		})
	}
	var sb strings.Builder
	sb.WriteString("\n/-- the connection read loop: numbering and dispatch, read off conn.go -/\n")
	sb.WriteString("def connFacts : ConnLoop.Facts :=\n")
	sb.WriteString("  { idIncrementAtHead := " + leanBool(incr) + ",\n")
	sb.WriteString("    unbind := " + unbind + ",\n    startTLS := " + starttls + ",\n    other := " + other + ",\n")
	sb.WriteString("    writerPerIteration := " + leanBool(perIter) + ",\n")
	sb.WriteString("    teardownSeq := serverFacts.teardownSeq,\n    closeWaitsHandlers := serverFacts.connCloseWaitsHandlers }\n")
	return sb.String()
}

// funcLits returns the function literals directly launched by `go` statements in fn.
func goLits(fn *ast.FuncDecl) []*ast.FuncLit {
	var out []*ast.FuncLit
	if fn == nil {
		return out
	}
	ast.Inspect(fn.Body, func(n ast.Node) bool {
		if g, ok := n.(*ast.GoStmt); ok {
			if fl, ok := g.Call.Fun.(*ast.FuncLit); ok {
				out = append(out, fl)
			}
		}
		return true
	})
	return out
}

// deferredLits returns the function literals deferred directly in body (not nested).
func deferredLits(body *ast.BlockStmt) []*ast.FuncLit {
	var out []*ast.FuncLit
	var walk func(stmts []ast.Stmt)
	walk = func(stmts []ast.Stmt) {
		for _, st := range stmts {
			switch x := st.(type) {
			case *ast.DeferStmt:
				if fl, ok := x.Call.Fun.(*ast.FuncLit); ok {
					out = append(out, fl)
				}
			case *ast.IfStmt:
				walk(x.Body.List)
			case *ast.BlockStmt:
				walk(x.List)
			}
		}
	}
	walk(body.List)
	return out
}

func litCallSeq(fl *ast.FuncLit, table map[string]string) []string {
	var seq, deferred []string
	var walk func(n ast.Node)
	walk = func(n ast.Node) {
		ast.Inspect(n, func(m ast.Node) bool {
			switch x := m.(type) {
			case *ast.DeferStmt:
				// a nested deferred literal runs when the enclosing literal returns: last
				if inner, ok := x.Call.Fun.(*ast.FuncLit); ok {
					deferred = append(litCallSeq(inner, table), deferred...)
				} else if tok, ok := table[exprText(x.Call.Fun)]; ok {
					deferred = append([]string{tok}, deferred...)
				}
				return false
			case *ast.CallExpr:
				if tok, ok := table[exprText(x.Fun)]; ok {
					seq = append(seq, tok)
				}
			}
			return true
		})
	}
	walk(fl.Body)
	return append(seq, deferred...)
}

func containsRecover(n ast.Node) bool {
	found := false
	ast.Inspect(n, func(m ast.Node) bool {
		if c, ok := m.(*ast.CallExpr); ok {
			if id, ok := c.Fun.(*ast.Ident); ok && id.Name == "recover" {
				found = true
			}
		}
		return true
	})
	return found
}

// hasDeferredRecover: the goroutine body defers (possibly under `if !...disablePanicRecovery`) a
// function literal that calls recover().
func hasDeferredRecover(fl *ast.FuncLit) bool {
	for _, d := range deferredLits(fl.Body) {
		if containsRecover(d) {
			return true
		}
	}
	return false
}

func serverFacts(g *parsed) string {
	run := findFunc(g, "Server.Run")
	stop := findFunc(g, "Server.Stop")
	closeFn := findFunc(g, "conn.close")
	serve := findFunc(g, "conn.serveRequests")

	// the connection goroutine = the go literal in Run that calls serveRequests
	var connLit *ast.FuncLit
	for _, fl := range goLits(run) {
		if strings.Contains(exprText(fl.Body), "serveRequests") {
			connLit = fl
		}
	}
	var teardown []string
	recoverConn := false
	if connLit != nil {
		ds := deferredLits(connLit.Body)
		if len(ds) > 0 {
			teardown = litCallSeq(ds[0], map[string]string{"s.connWg.Done": "wgDone", "conn.close": "connClose", "s.onCloseHandler": "onClose"})
		}
		recoverConn = hasDeferredRecover(connLit)
	}
	closeSeq := callSeq(closeFn, map[string]string{"c.requestsWg.Wait": "wait", "c.netConn.Close": "close"})
	waits := len(closeSeq) == 2 && closeSeq[0] == "wait" && closeSeq[1] == "close"
	stopSeq := callSeq(stop, map[string]string{"s.listener.Close": "closeListener", "s.shutdownCancel": "cancel", "s.connWg.Wait": "waitConns"})

	// readiness: every assignment to s.listenerReady is `err == nil`, or `true` on the success path only
	readyOK := run != nil
	if run != nil {
		stmts := run.Body.List
		for i, st := range stmts {
			as, ok := st.(*ast.AssignStmt)
			if !ok || len(as.Lhs) != 1 || exprText(as.Lhs[0]) != "s.listenerReady" {
				continue
			}
			rhs := exprText(as.Rhs[0])
			if rhs == "err == nil" {
				continue
			}
			// `true`: acceptable only if an `if err != nil { return }` guard precedes it after the Listen call
			guarded := false
			for j := i - 1; j >= 0; j-- {
				if is, ok := stmts[j].(*ast.IfStmt); ok && exprText(is.Cond) == "err != nil" {
					guarded = true
				}
				if strings.Contains(exprText(stmts[j]), "net.Listen") {
					break
				}
			}
			if !(rhs == "true" && guarded) {
				readyOK = false
			}
		}
		// assignments nested deeper (inside ifs) are not analysed: fail closed
		ast.Inspect(run.Body, func(n ast.Node) bool {
			if is, ok := n.(*ast.IfStmt); ok {
				if strings.Contains(exprText(is.Body), "s.listenerReady =") && exprText(is.Cond) != "err == nil" {
					readyOK = false
				}
			}
			return true
		})
	}

	ctxCloses, addGuarded, acceptContinues := false, false, false
	if run != nil {
		ast.Inspect(run.Body, func(n ast.Node) bool {
			switch x := n.(type) {
			case *ast.CommClause:
				if x.Comm != nil && strings.Contains(exprText(x.Comm), "s.shutdownCtx.Done()") {
					body := ""
					for _, b := range x.Body {
						body += exprText(b) + ";"
					}
					// the top-of-loop branch: returns nil
					if strings.Contains(body, "return nil") && strings.Contains(body, "s.listener.Close()") {
						ctxCloses = true
					}
				}
			case *ast.ForStmt:
				stmts := x.Body.List
				for i, st := range stmts {
					if strings.Contains(exprText(st), "s.connWg.Add(1)") {
						// the Add is preceded, under one mutex, by a check of the shutdown context, and
						// Stop cancels under the same mutex: check+Add is atomic w.r.t. the cancel
						mutex, checked := "", false
						for j := i - 1; j >= 0; j-- {
							t := exprText(stmts[j])
							if strings.HasSuffix(t, ".Unlock()") {
								break
							}
							if strings.Contains(t, "shutdownCtx") {
								checked = true
							}
							if strings.HasPrefix(t, "s.") && strings.HasSuffix(t, ".Lock()") {
								mutex = strings.TrimSuffix(t, ".Lock()")
								break
							}
						}
						unlocked := i+1 < len(stmts) && exprText(stmts[i+1]) == mutex+".Unlock()"
						stopSeqM := callSeq(stop, map[string]string{mutex + ".Lock": "L", "s.shutdownCancel": "C", mutex + ".Unlock": "U"})
						cancelUnder := false
						for x := 0; x+2 < len(stopSeqM)+0; x++ {
							if stopSeqM[x] == "L" && stopSeqM[x+1] == "C" && stopSeqM[x+2] == "U" {
								cancelUnder = true
							}
						}
						// Stop holding s.mu (read lock) for its whole duration also orders the two
						if mutex == "s.mu" {
							cancelUnder = true
						}
						addGuarded = mutex != "" && checked && unlocked && cancelUnder
					}
					if is, ok := st.(*ast.IfStmt); ok && exprText(is.Cond) == "err != nil" && i > 0 && strings.Contains(exprText(stmts[i-1]), "s.listener.Accept()") {
						// either the whole block ends in `continue`, or an inner `if ...Temporary()` block does
						ast.Inspect(is.Body, func(m ast.Node) bool {
							inner, ok := m.(*ast.IfStmt)
							if !ok {
								return true
							}
							if strings.Contains(exprText(inner.Cond), "Temporary()") && len(inner.Body.List) > 0 {
								if bs, ok := inner.Body.List[len(inner.Body.List)-1].(*ast.BranchStmt); ok && bs.Tok.String() == "continue" {
									acceptContinues = true
								}
							}
							return true
						})
						if len(is.Body.List) > 0 {
							if bs, ok := is.Body.List[len(is.Body.List)-1].(*ast.BranchStmt); ok && bs.Tok.String() == "continue" {
								acceptContinues = true
							}
						}
					}
				}
			}
			return true
		})
	}
	recoverReq := false
	for _, fl := range goLits(serve) {
		if strings.Contains(exprText(fl.Body), "router.serve") {
			recoverReq = hasDeferredRecover(fl)
		}
	}
	// a goroutine (or context.AfterFunc) that reacts to the cancelled context by unblocking reads
	unblocks := false
	for _, fn := range []*ast.FuncDecl{run, serve, findFunc(g, "newConn")} {
		if fn == nil {
			continue
		}
		ast.Inspect(fn.Body, func(n ast.Node) bool {
			fl, ok := n.(*ast.FuncLit)
			if !ok {
				return true
			}
			t := exprText(fl.Body)
			if strings.Contains(t, "shutdownCtx.Done()") && !strings.Contains(t, "serveRequests") &&
				(strings.Contains(t, "SetReadDeadline(") || strings.Contains(t, "SetDeadline(") || strings.Contains(t, ".Close()")) {
				unblocks = true
			}
			return true
		})
	}
	var sb strings.Builder
	sb.WriteString("\n/-- server life cycle: step orders and flags read off server.go / conn.go -/\n")
	sb.WriteString("def serverFacts : Server.Facts :=\n")
	sb.WriteString("  { teardownSeq := " + leanList(".", teardown) + ",\n")
	sb.WriteString("    connCloseWaitsHandlers := " + leanBool(waits) + ",\n")
	sb.WriteString("    stopSeq := " + leanList(".", stopSeq) + ",\n")
	sb.WriteString("    readyOnlyOnSuccess := " + leanBool(readyOK) + ",\n")
	sb.WriteString("    ctxBranchClosesListener := " + leanBool(ctxCloses) + ",\n")
	sb.WriteString("    addGuarded := " + leanBool(addGuarded) + ",\n")
	sb.WriteString("    acceptErrContinues := " + leanBool(acceptContinues) + ",\n")
	sb.WriteString("    recoverOnConn := " + leanBool(recoverConn) + ",\n")
	sb.WriteString("    recoverOnRequest := " + leanBool(recoverReq) + ",\n")
	sb.WriteString("    cancelUnblocksReads := " + leanBool(unblocks) + " }\n")
	return sb.String()
}
