package main

func emitRuntimeFacts(pkgs map[string]*parsed) string { return "" }
