package main

import (
	"go/ast"
	"strings"
)

// callSeq walks fn's body in source order and maps recognised calls to tokens; deferred
// calls are appended at the end in LIFO order (they run at function exit).
func callSeq(fn *ast.FuncDecl, table map[string]string) []string {
	if fn == nil {
		return nil
	}
	var seq, deferred []string
	var visit func(n ast.Node, inDefer bool)
	visit = func(n ast.Node, inDefer bool) {
		ast.Inspect(n, func(m ast.Node) bool {
			switch x := m.(type) {
			case *ast.FuncLit:
				return false // closures are analysed separately
			case *ast.DeferStmt:
				if tok, ok := table[exprText(x.Call.Fun)]; ok {
					deferred = append([]string{tok}, deferred...)
				}
				return false
			case *ast.CallExpr:
				if tok, ok := table[exprText(x.Fun)]; ok {
					seq = append(seq, tok)
				}
			}
			return true
		})
	}
	visit(fn.Body, false)
	return append(seq, deferred...)
}

func leanList(prefix string, toks []string) string {
	parts := make([]string, len(toks))
	for i, t := range toks {
		parts[i] = prefix + t
	}
	return "[" + strings.Join(parts, ", ") + "]"
}

func emitRuntimeFacts(pkgs map[string]*parsed) string {
	g := pkgs["gldap"]
	var sb strings.Builder

	// C05: micro-operation order of (*ResponseWriter).Write
	w := findFunc(g, "ResponseWriter.Write")
	seq := callSeq(w, map[string]string{
		"rw.writerMu.Lock": "lock", "rw.writerMu.Unlock": "unlock", "rw.writer.Write": "write", "rw.writer.Flush": "flush"})
	sb.WriteString("\n/-- (*ResponseWriter).Write: order of lock / buffer write / flush / unlock (deferred calls last) -/\n")
	sb.WriteString("def writeSeq : List Writer.WOp := " + leanList(".", seq) + "\n")

	// C05: every ResponseWriter of a connection shares the connection's writer and its one mutex
	perConn := false
	sr := findFunc(g, "conn.serveRequests")
	if sr != nil {
		ast.Inspect(sr.Body, func(n ast.Node) bool {
			if c, ok := n.(*ast.CallExpr); ok && exprText(c.Fun) == "newResponseWriter" && len(c.Args) >= 2 {
				perConn = exprText(c.Args[0]) == "c.writer" && exprText(c.Args[1]) == "&c.writerMu"
			}
			return true
		})
	}
	nrw := findFunc(g, "newResponseWriter")
	stores := false
	if nrw != nil {
		t := exprText(nrw.Body)
		stores = strings.Contains(t, "writerMu: lock") && strings.Contains(t, "writer: w")
	}
	sb.WriteString("\n/-- serveRequests hands every ResponseWriter the connection's own writer and its single writerMu -/\n")
	sb.WriteString("def writerLockPerConn : Bool := " + leanBool(perConn && stores) + "\n")
	return sb.String()
}
