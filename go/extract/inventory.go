package main

import (
	"bytes"
	"fmt"
	"go/ast"
	"go/printer"
	"go/token"
	"sort"
	"strings"
)

// The inventory is a normalised rendering of every function of the gldap and testdirectory
// packages: comments, logging statements, string literals and error-message arguments are
// removed; everything else (guards, assertions, indices, calls, order of statements) is
// kept. The check diffs the sections of the functions a property is anchored in against
// the committed expectation, so that a new, removed, moved or weakened guard or step is
// reported even before any input distinguishes the old and the new code.

func isLoggingCall(e ast.Expr) bool {
	call, ok := e.(*ast.CallExpr)
	if !ok {
		return false
	}
	if id, ok := call.Fun.(*ast.Ident); ok && id.Name == "verifPoint" {
		return true
	}
	sel, ok := call.Fun.(*ast.SelectorExpr)
	if !ok {
		return false
	}
	switch sel.Sel.Name {
	case "Debug", "Info", "Warn", "Error", "Trace", "Log":
		if inner, ok := sel.X.(*ast.SelectorExpr); ok && inner.Sel.Name == "logger" {
			return true
		}
		if id, ok := sel.X.(*ast.Ident); ok && id.Name == "logger" && sel.Sel.Name == "Log" {
			return true
		}
	case "Println", "Printf":
		if id, ok := sel.X.(*ast.Ident); ok && id.Name == "fmt" {
			return true
		}
	case "Helper":
		return true
	}
	return false
}

// normalise rewrites the function body in place (on a throw-away parse).
func normaliseBlock(b *ast.BlockStmt) {
	if b == nil {
		return
	}
	var keep []ast.Stmt
	for _, s := range b.List {
		if es, ok := s.(*ast.ExprStmt); ok && isLoggingCall(es.X) {
			continue
		}
		if ds, ok := s.(*ast.DeferStmt); ok && isLoggingCall(ds.Call) {
			continue
		}
		// `if logger.IsDebug() { ... }` blocks only log
		if is, ok := s.(*ast.IfStmt); ok {
			if call, ok := is.Cond.(*ast.CallExpr); ok {
				if sel, ok := call.Fun.(*ast.SelectorExpr); ok && sel.Sel.Name == "IsDebug" {
					// ... unless they also run code of the package itself (packet.Log, the pretty-printer)
					normaliseBlock(is.Body)
					if len(is.Body.List) == 0 {
						continue
					}
				}
			}
			// `if v, ok := interface{}(t).(HelperT); ok { v.Helper() }`
			if len(is.Body.List) == 1 {
				if es, ok := is.Body.List[0].(*ast.ExprStmt); ok && isLoggingCall(es.X) && is.Else == nil {
					if as, ok := is.Init.(*ast.AssignStmt); ok && len(as.Rhs) == 1 {
						if ta, ok := as.Rhs[0].(*ast.TypeAssertExpr); ok {
							if id, ok := ta.Type.(*ast.Ident); ok && id.Name == "HelperT" {
								continue
							}
						}
					}
				}
			}
		}
		// const op = "..." declarations
		if ds, ok := s.(*ast.DeclStmt); ok {
			if gd, ok := ds.Decl.(*ast.GenDecl); ok && gd.Tok == token.CONST {
				var specs []ast.Spec
				for _, sp := range gd.Specs {
					vs := sp.(*ast.ValueSpec)
					if len(vs.Names) == 1 && vs.Names[0].Name == "op" {
						continue
					}
					specs = append(specs, sp)
				}
				if len(specs) == 0 {
					continue
				}
				gd.Specs = specs
			}
		}
		keep = append(keep, s)
	}
	b.List = keep
}

type normaliser struct{}

func (normaliser) Visit(n ast.Node) ast.Visitor {
	switch x := n.(type) {
	case *ast.BlockStmt:
		normaliseBlock(x)
	case *ast.CaseClause:
		blk := &ast.BlockStmt{List: x.Body}
		normaliseBlock(blk)
		x.Body = blk.List
	case *ast.CommClause:
		blk := &ast.BlockStmt{List: x.Body}
		normaliseBlock(blk)
		x.Body = blk.List
	case *ast.CallExpr:
		// error construction: keep only that an error is built, drop the message and its
		// arguments - except type assertions inside them, which are evaluated eagerly and
		// can panic
		if sel, ok := x.Fun.(*ast.SelectorExpr); ok {
			if id, ok := sel.X.(*ast.Ident); ok && id.Name == "fmt" && (sel.Sel.Name == "Errorf" || sel.Sel.Name == "Sprintf") {
				var keep []ast.Expr
				for _, a := range x.Args {
					hasAssert := false
					ast.Inspect(a, func(m ast.Node) bool {
						switch m.(type) {
						case *ast.TypeAssertExpr, *ast.IndexExpr, *ast.StarExpr:
							hasAssert = true
						}
						return true
					})
					if hasAssert {
						keep = append(keep, a)
					}
				}
				x.Args = keep
			}
		}
	case *ast.BasicLit:
		if x.Kind == token.STRING {
			x.Value = `""`
		}
	}
	return normaliser{}
}

func funcKey(pkg string, d *ast.FuncDecl) string {
	name := d.Name.Name
	if d.Recv != nil && len(d.Recv.List) == 1 {
		t := d.Recv.List[0].Type
		if st, ok := t.(*ast.StarExpr); ok {
			t = st.X
		}
		if id, ok := t.(*ast.Ident); ok {
			name = id.Name + "." + name
		}
	}
	if pkg == "testdirectory" {
		name = "td." + name
	}
	return name
}

type sec struct{ key, body string }

// siteSections are cross-cutting inventories: every place in the two packages that sets a connection
// deadline, starts a goroutine, recovers a panic, or touches one of the wait groups - wherever it is, also
// in functions no property names. A new, removed or moved site changes the section.
func siteSections(pkgs map[string]*parsed) []sec {
	sites := map[string][]string{"sites.deadline": nil, "sites.go": nil, "sites.recover": nil, "sites.waitgroup": nil, "sites.connwriter": nil}
	for _, pname := range []string{"gldap", "testdirectory"} {
		p := pkgs[pname]
		if p == nil {
			continue
		}
		for i, f := range p.files {
			fn := p.names[i]
			if fn == "testing.go" || fn == "testingt.go" || fn == "codes.go" || strings.HasPrefix(fn, "verif_") {
				continue
			}
			for _, d := range f.Decls {
				fd, ok := d.(*ast.FuncDecl)
				if !ok || fd.Body == nil {
					continue
				}
				key := funcKey(pname, fd)
				var walk func(n ast.Node, depth int)
				render := func(e ast.Node) string {
					var buf bytes.Buffer
					_ = printer.Fprint(&buf, token.NewFileSet(), e)
					return strings.Join(strings.Fields(buf.String()), " ")
				}
				where := func(depth int) string {
					if depth == 0 {
						return key
					}
					return key + strings.Repeat("/func", depth)
				}
				walk = func(n ast.Node, depth int) {
					ast.Inspect(n, func(x ast.Node) bool {
						switch v := x.(type) {
						case *ast.FuncLit:
							if v != n {
								walk(v.Body, depth+1)
								return false
							}
						case *ast.GoStmt:
							sites["sites.go"] = append(sites["sites.go"], "  "+where(depth)+": go")
						case *ast.CallExpr:
							if id, ok := v.Fun.(*ast.Ident); ok && id.Name == "recover" {
								sites["sites.recover"] = append(sites["sites.recover"], "  "+where(depth)+": recover()")
							}
							if sel, ok := v.Fun.(*ast.SelectorExpr); ok {
								switch sel.Sel.Name {
								case "SetDeadline", "SetReadDeadline", "SetWriteDeadline":
									sites["sites.deadline"] = append(sites["sites.deadline"], "  "+where(depth)+": "+render(v))
								case "Write", "Flush", "WriteString", "Lock", "Unlock", "ReadFrom":
									if x := render(sel.X); strings.HasSuffix(x, ".writer") || strings.HasSuffix(x, "writerMu") || x == "writer" {
										sites["sites.connwriter"] = append(sites["sites.connwriter"], "  "+where(depth)+": "+render(sel)+"(..)")
									}
								case "Add", "Done", "Wait":
									if x := render(sel.X); strings.HasSuffix(x, "Wg") || strings.HasSuffix(x, "wg") {
										sites["sites.waitgroup"] = append(sites["sites.waitgroup"], "  "+where(depth)+": "+render(v))
									}
								}
							}
						}
						return true
					})
				}
				walk(fd.Body, 0)
			}
		}
	}
	var out []sec
	for k, v := range sites {
		sort.Strings(v)
		out = append(out, sec{k, strings.Join(v, "\n")})
	}
	return out
}

// alphaRename gives the variables declared inside the function (receiver, parameters, results, locals) positional
// names, so that renaming one of them is not an edit as far as the inventory is concerned.
func alphaRename(fd *ast.FuncDecl) {
	names := map[*ast.Object]string{}
	n := 0
	// first pass: which objects are declared inside (Object.Pos looks the declaring identifier up by name, so nothing
	// may be renamed yet)
	ast.Inspect(fd, func(x ast.Node) bool {
		id, ok := x.(*ast.Ident)
		if !ok || id.Obj == nil || id.Obj.Kind != ast.Var || id.Name == "_" {
			return true
		}
		if _, seen := names[id.Obj]; seen {
			return true
		}
		if pos := id.Obj.Pos(); pos < fd.Pos() || pos > fd.End() {
			return true
		}
		n++
		names[id.Obj] = fmt.Sprintf("v%d", n)
		return true
	})
	ast.Inspect(fd, func(x ast.Node) bool {
		if id, ok := x.(*ast.Ident); ok && id.Obj != nil {
			if nm, ok := names[id.Obj]; ok {
				id.Name = nm
			}
		}
		return true
	})
}

func emitInventory(pkgs map[string]*parsed) string {
	var secs []sec
	secs = append(secs, siteSections(pkgs)...)
	for _, pname := range []string{"gldap", "testdirectory"} {
		p := pkgs[pname]
		if p == nil {
			continue
		}
		for i, f := range p.files {
			fn := p.names[i]
			if fn == "testing.go" || fn == "testingt.go" || fn == "codes.go" {
				continue
			}
			for _, d := range f.Decls {
				fd, ok := d.(*ast.FuncDecl)
				if !ok || fd.Body == nil {
					continue
				}
				fd.Doc = nil
				ast.Walk(normaliser{}, fd.Body)
				alphaRename(fd)
				var buf bytes.Buffer
				fset := token.NewFileSet() // positions dropped: comments are not printed
				cfg := printer.Config{Mode: printer.RawFormat, Tabwidth: 1}
				_ = cfg.Fprint(&buf, fset, fd)
				var lines []string
				for _, l := range strings.Split(buf.String(), "\n") {
					l = strings.Join(strings.Fields(l), " ")
					if l == "" {
						continue
					}
					lines = append(lines, "  "+l)
				}
				secs = append(secs, sec{funcKey(pname, fd), strings.Join(lines, "\n")})
			}
		}
	}
	sort.Slice(secs, func(i, j int) bool { return secs[i].key < secs[j].key })
	var sb strings.Builder
	sb.WriteString("# GENERATED by /verif/go/extract from /repo - normalised function inventory\n")
	for _, s := range secs {
		sb.WriteString("func " + s.key + "\n" + s.body + "\n")
	}
	return sb.String()
}
