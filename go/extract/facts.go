package main

import (
	"bytes"
	"fmt"
	"go/ast"
	"go/printer"
	"go/token"
	"strings"
)

func exprText(e ast.Node) string {
	var buf bytes.Buffer
	_ = printer.Fprint(&buf, token.NewFileSet(), e)
	return strings.Join(strings.Fields(buf.String()), " ")
}

func findFunc(p *parsed, key string) *ast.FuncDecl {
	if p == nil {
		return nil
	}
	for _, f := range p.files {
		for _, d := range f.Decls {
			if fd, ok := d.(*ast.FuncDecl); ok && fd.Body != nil {
				name := fd.Name.Name
				if fd.Recv != nil && len(fd.Recv.List) == 1 {
					t := fd.Recv.List[0].Type
					if st, ok := t.(*ast.StarExpr); ok {
						t = st.X
					}
					if id, ok := t.(*ast.Ident); ok {
						name = id.Name + "." + name
					}
				}
				if name == key {
					return fd
				}
			}
		}
	}
	return nil
}

// uncheckedAsserts lists the text of every type assertion in fn that can panic: not in a
// comma-ok assignment, not a type switch, and not inside `if _, ok := X.(T); ok { ... }`
// for the same X.(T).
func uncheckedAsserts(fn *ast.FuncDecl) []string {
	if fn == nil {
		return []string{"<function missing>"}
	}
	checked := map[*ast.TypeAssertExpr]bool{}
	var guardedTexts []struct {
		body *ast.BlockStmt
		text string
	}
	ast.Inspect(fn.Body, func(n ast.Node) bool {
		switch s := n.(type) {
		case *ast.AssignStmt:
			if len(s.Lhs) == 2 && len(s.Rhs) == 1 {
				if ta, ok := s.Rhs[0].(*ast.TypeAssertExpr); ok {
					checked[ta] = true
				}
			}
		case *ast.ValueSpec:
			if len(s.Names) == 2 && len(s.Values) == 1 {
				if ta, ok := s.Values[0].(*ast.TypeAssertExpr); ok {
					checked[ta] = true
				}
			}
		case *ast.IfStmt:
			if as, ok := s.Init.(*ast.AssignStmt); ok && len(as.Lhs) == 2 && len(as.Rhs) == 1 {
				if ta, ok := as.Rhs[0].(*ast.TypeAssertExpr); ok {
					if id, ok := s.Cond.(*ast.Ident); ok && id.Name == exprText(as.Lhs[1]) {
						guardedTexts = append(guardedTexts, struct {
							body *ast.BlockStmt
							text string
						}{s.Body, exprText(ta)})
					}
				}
			}
		}
		return true
	})
	var out []string
	ast.Inspect(fn.Body, func(n ast.Node) bool {
		ta, ok := n.(*ast.TypeAssertExpr)
		if !ok || ta.Type == nil || checked[ta] {
			return true
		}
		txt := exprText(ta)
		for _, g := range guardedTexts {
			if g.text == txt && ta.Pos() >= g.body.Pos() && ta.End() <= g.body.End() {
				return true
			}
		}
		out = append(out, txt)
		return true
	})
	return out
}

// ifConds lists the normalised text of every if-condition in fn.
func ifConds(fn *ast.FuncDecl) []string {
	var out []string
	if fn == nil {
		return out
	}
	ast.Inspect(fn.Body, func(n ast.Node) bool {
		if s, ok := n.(*ast.IfStmt); ok {
			out = append(out, exprText(s.Cond))
		}
		return true
	})
	return out
}

func anyContains(l []string, subs ...string) bool {
	for _, s := range l {
		for _, sub := range subs {
			if strings.Contains(s, sub) {
				return true
			}
		}
	}
	return false
}

func contains(l []string, s string) bool {
	for _, x := range l {
		if x == s {
			return true
		}
	}
	return false
}

func leanBool(b bool) string {
	if b {
		return "true"
	}
	return "false"
}

// guardFacts computes the per-site guard flags of Gldap.Guards.
func guardFacts(pkgs map[string]*parsed) (map[string]bool, []string) {
	g := pkgs["gldap"]
	var notes []string
	flags := map[string]bool{}

	rp := findFunc(g, "packet.requestPacket")
	ua := uncheckedAsserts(rp)
	flags["bindVersionMsg"] = len(ua) == 0
	notes = append(notes, fmt.Sprintf("requestPacket unchecked assertions: %v", ua))

	dc := findFunc(g, "decodeControl")
	ua = uncheckedAsserts(dc)
	notes = append(notes, fmt.Sprintf("decodeControl unchecked assertions: %v", ua))
	flags["ctrlType"] = !contains(ua, "packet.Children[0].Value.(string)") && dc != nil
	flags["ctrlCrit"] = !contains(ua, "packet.Children[1].Value.(bool)") && dc != nil
	flags["pagingSize"] = !contains(ua, "value.Children[0].Value.(int64)") && dc != nil
	flags["ctrlValue"] = !contains(ua, "value.Value.(string)") && dc != nil
	conds := ifConds(dc)
	flags["pagingShape"] = anyContains(conds, "len(value.Children) < 2", "len(value.Children) != 2", "len(value.Children) <= 1")
	flags["beheraWarn"] = anyContains(conds, "len(child.Children) == 0", "len(child.Children) < 1", "len(child.Children) != 1")
	// any other unchecked assertion in the decode path is an unknown site: fail closed
	known := map[string]bool{"packet.Children[0].Value.(string)": true, "packet.Children[1].Value.(bool)": true,
		"value.Children[0].Value.(int64)": true, "value.Children[0].Value.(int64))": true, "value.Value.(string)": true}
	for _, a := range ua {
		if !known[a] {
			flags["ctrlType"] = false
			notes = append(notes, "unknown unchecked assertion in decodeControl: "+a)
		}
	}
	for _, fn := range []string{"packet.requestMessageID", "packet.requestType", "packet.modifyParameters", "packet.simpleBindParameters",
		"packet.addParameters", "packet.searchParmeters", "packet.deleteParameters", "packet.extendedOperationName",
		"packet.controlPacket", "packet.assert", "packet.assertApplicationRequest", "packet.basicValidation", "decodeAttribute", "newMessage"} {
		if u := uncheckedAsserts(findFunc(g, fn)); len(u) > 0 {
			flags["bindVersionMsg"] = false
			notes = append(notes, fmt.Sprintf("unchecked assertion in %s: %v", fn, u))
		}
	}

	cs := findFunc(g, "ConvertString")
	conds = ifConds(cs)
	flags["convertEmpty"] = anyContains(conds, "len(data) == 0", "len(data) < 1", "len(data) < 2", "len(s) == 0", "len(s) < 2")
	rl := findFunc(g, "readLength")
	conds = ifConds(rl)
	n := 0
	for _, c := range conds {
		if strings.Contains(c, "len(bytes)") {
			n++
		}
	}
	flags["readLenBounds"] = n >= 2
	mr := findFunc(g, "Request.NewModifyResponse")
	derefUnchecked := false
	if mr != nil {
		hasNilCheck := anyContains(ifConds(mr), "opts.withResponseCode == nil", "opts.withResponseCode != nil")
		ast.Inspect(mr.Body, func(n ast.Node) bool {
			if st, ok := n.(*ast.StarExpr); ok && exprText(st.X) == "opts.withResponseCode" && !hasNilCheck {
				derefUnchecked = true
			}
			return true
		})
	}
	flags["modifyRespCode"] = mr != nil && !derefUnchecked
	return flags, notes
}

func emitFacts(pkgs map[string]*parsed) string {
	var sb strings.Builder
	sb.WriteString("import GldapModel.Gldap.Core\nimport GldapModel.Generated.Consts\nimport GldapModel.Runtime.Writer\nimport GldapModel.Runtime.Server\nimport GldapModel.Runtime.ConnLoop\nimport GldapModel.Runtime.TlsGate\n/-! GENERATED by /verif/go/extract from /repo - do not edit. -/\nnamespace Gldap.Generated\n\n")
	flags, notes := guardFacts(pkgs)
	for _, n := range notes {
		sb.WriteString("-- " + n + "\n")
	}
	order := []string{"bindVersionMsg", "ctrlType", "ctrlCrit", "pagingShape", "pagingSize", "beheraWarn", "ctrlValue",
		"convertEmpty", "readLenBounds", "modifyRespCode"}
	sb.WriteString("def guards : Gldap.Guards :=\n  {")
	for i, k := range order {
		if i > 0 {
			sb.WriteString(",\n   ")
		}
		sb.WriteString(" " + k + " := " + leanBool(flags[k]))
	}
	sb.WriteString(" }\n")
	sb.WriteString("\n/-- NewControlBeheraPasswordPolicy range-checks the error code on both sides before narrowing -/\n")
	sb.WriteString("def beheraErrRange : Bool := " + leanBool(beheraErrRange(pkgs)) + "\n")
	sb.WriteString("\n/-- searchParmeters decodes the dnAttributes flag of extensible matches (a context-specific BOOLEAN, which ber leaves\n    undecoded) before it hands the filter to ldap.DecompileFilter -/\n")
	sb.WriteString("def filterDNAttrsDecoded : Bool := " + leanBool(filterDNAttrsDecoded(pkgs)) + "\n")
	sb.WriteString("\n/-- (*Mux).serve: route operation -> application code of the built-in refusal -/\n")
	sb.WriteString("def refusalTable : Option (List (List UInt8 × Nat)) := " + refusalTable(pkgs) + "\n")
	sb.WriteString(emitRuntimeFacts(pkgs))
	sb.WriteString("\nend Gldap.Generated\n")
	return sb.String()
}

// filterDNAttrsDecoded: in searchParmeters, before the call of ldap.DecompileFilter, a function of the package is
// called on the same filter element, and that function (walking And / Or / Not) assigns a bool to the Value of the
// children with tag MatchingRuleAssertionDNAttributes of elements with tag FilterExtensibleMatch.
func filterDNAttrsDecoded(pkgs map[string]*parsed) bool {
	g := pkgs["gldap"]
	sp := findFunc(g, "packet.searchParmeters")
	if sp == nil {
		return false
	}
	helper, arg, seenDecompile, ok := "", "", false, false
	ast.Inspect(sp.Body, func(n ast.Node) bool {
		c, isCall := n.(*ast.CallExpr)
		if !isCall {
			return true
		}
		switch fn := exprText(c.Fun); {
		case fn == "ldap.DecompileFilter" && len(c.Args) == 1:
			if !seenDecompile && helper != "" && exprText(c.Args[0]) == arg {
				ok = true
			}
			seenDecompile = true
		case !seenDecompile && len(c.Args) == 1 && !strings.Contains(fn, ".") && findFunc(g, fn) != nil && strings.Contains(exprText(c.Args[0]), "childFilter"):
			helper, arg = fn, exprText(c.Args[0])
		}
		return true
	})
	if !ok {
		return false
	}
	h := findFunc(g, helper)
	body := exprText(h.Body)
	for _, need := range []string{"ldap.FilterAnd", "ldap.FilterOr", "ldap.FilterNot", "ldap.FilterExtensibleMatch", "ldap.MatchingRuleAssertionDNAttributes", helper + "(child)", "len(b) == 1", "child.Value = b[0] != 0"} {
		if !strings.Contains(body, need) {
			return false
		}
	}
	return true
}

// beheraErrRange: some case of the constructor's switch rejects both withErrorCode > 8 and
// withErrorCode < -1 (or < 0 together with an explicit != -1).
func beheraErrRange(pkgs map[string]*parsed) bool {
	fn := findFunc(pkgs["gldap"], "NewControlBeheraPasswordPolicy")
	if fn == nil {
		return false
	}
	upper, lower := false, false
	ast.Inspect(fn.Body, func(n ast.Node) bool {
		var conds []ast.Expr
		switch s := n.(type) {
		case *ast.CaseClause:
			conds = s.List
		case *ast.IfStmt:
			conds = []ast.Expr{s.Cond}
		}
		for _, c := range conds {
			t := exprText(c)
			if strings.Contains(t, "withErrorCode > 8") || strings.Contains(t, "withErrorCode >= 9") {
				upper = true
			}
			if strings.Contains(t, "withErrorCode < -1") || strings.Contains(t, "withErrorCode <= -2") {
				lower = true
			}
		}
		return true
	})
	return upper && lower
}

// refusalTable extracts, from (*Mux).serve's built-in "no matching handler" answer, the table
// route operation -> response application code, when the answer's application code is
// computed from the request's route operation by a helper with a switch. Emits Lean source.
func refusalTable(pkgs map[string]*parsed) string {
	g := pkgs["gldap"]
	serve := findFunc(g, "Mux.serve")
	if serve == nil {
		return "none"
	}
	helper := ""
	ast.Inspect(serve.Body, func(n ast.Node) bool {
		call, ok := n.(*ast.CallExpr)
		if !ok {
			return true
		}
		if sel, ok := call.Fun.(*ast.SelectorExpr); !ok || sel.Sel.Name != "NewResponse" {
			return true
		}
		for _, a := range call.Args {
			ac, ok := a.(*ast.CallExpr)
			if !ok {
				continue
			}
			if id, ok := ac.Fun.(*ast.Ident); ok && id.Name == "WithApplicationCode" && len(ac.Args) == 1 {
				if hc, ok := ac.Args[0].(*ast.CallExpr); ok && len(hc.Args) == 1 && exprText(hc.Args[0]) == "req.routeOp" {
					if hid, ok := hc.Fun.(*ast.Ident); ok {
						helper = hid.Name
					}
				}
			}
		}
		return true
	})
	if helper == "" {
		return "none"
	}
	fn := findFunc(g, helper)
	if fn == nil {
		return "none"
	}
	var pairs []string
	ast.Inspect(fn.Body, func(n ast.Node) bool {
		cc, ok := n.(*ast.CaseClause)
		if !ok || len(cc.List) == 0 {
			return true
		}
		ret := ""
		for _, s := range cc.Body {
			if rs, ok := s.(*ast.ReturnStmt); ok && len(rs.Results) == 1 {
				if id, ok := rs.Results[0].(*ast.Ident); ok {
					ret = id.Name
				}
			}
		}
		if ret == "" {
			return true
		}
		for _, e := range cc.List {
			if id, ok := e.(*ast.Ident); ok {
				pairs = append(pairs, fmt.Sprintf("(%s, %s)", id.Name, ret))
			}
		}
		return true
	})
	return "some [" + strings.Join(pairs, ", ") + "]"
}
