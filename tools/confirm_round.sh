#!/bin/bash
# tools/confirm_round.sh <seed-root> <tag> : confirm every delivered change of a round that is not stored yet
export SEED_ROOT=$1 SEED_TAG=$2
cd /verif
for d in $SEED_ROOT/C*/out; do
  id=$(basename $(dirname $d))
  for k in 1 2 3; do
    [ -f $d/m$k.diff ] && [ -f $d/m$k.json ] && [ -f $d/m${k}_demo_test.go ] || continue
    [ -d seeded/$id-${SEED_TAG}m$k ] && continue
    [ -f $d/m$k.rejected ] && continue
    out=$(tools/confirm_seed.sh $id $k 2>&1); echo "$id m$k: $(echo "$out" | tail -1)"
    echo "$out" | grep -q CONFIRMED || echo "$out" > $d/m$k.rejected
  done
done
