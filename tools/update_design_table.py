#!/usr/bin/env python3
"""Rewrites the seeded-changes table of DESIGN.md (between the TABLE markers) from seeded/*/{meta,result}.json."""
import json, os, re
V = os.path.dirname(os.path.dirname(os.path.abspath(__file__)))
rows = []
for name in sorted(os.listdir(os.path.join(V, "seeded"))):
    d = os.path.join(V, "seeded", name)
    if not os.path.exists(os.path.join(d, "meta.json")):
        continue
    m = json.load(open(os.path.join(d, "meta.json")))
    r = json.load(open(os.path.join(d, "result.json"))) if os.path.exists(os.path.join(d, "result.json")) else {}
    own = r.get("checks", {}).get(m["property"], {})
    rp = own.get("replay") or {}
    noinput = any(l.endswith("no-failing-input-found") for l in own.get("lines", []))
    if not own:
        verdict = "not run"
    elif own.get("exit") == 0:
        verdict = "MISSED"
    elif noinput:
        verdict = "tie only (no-failing-input-found)"
    else:
        verdict = "failing input: %s `%s`" % (rp.get("stream") or "", (rp.get("key") or "").replace("|", "/")[:70])
    summ = re.sub(r"\s+", " ", m.get("summary", "")).replace("|", "/")
    rows.append("| %s | %s | %s | %s |" % (name, ", ".join(m.get("files", []))[:60], summ[:230], verdict))
table = "| id | files | change | caught by the check of its property |\n|---|---|---|---|\n" + "\n".join(rows)
p = os.path.join(V, "DESIGN.md")
s = open(p).read()
if "@@TABLE@@" in s:
    s = s.replace("@@TABLE@@", "<!-- TABLE:BEGIN -->\n" + table + "\n<!-- TABLE:END -->")
else:
    s = re.sub(r"<!-- TABLE:BEGIN -->.*?<!-- TABLE:END -->", lambda _: "<!-- TABLE:BEGIN -->\n" + table + "\n<!-- TABLE:END -->", s, flags=re.S)
open(p, "w").write(s)
print(len(rows), "rows")
