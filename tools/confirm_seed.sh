#!/bin/bash
# tools/confirm_seed.sh <Cnn> <k> : confirm a sub-agent's change m<k> for property Cnn in its scratch worktree
# (${SEED_ROOT:-/tmp/seed3}/Cnn/wt), then store it as /verif/seeded/Cnn-m<k>/{patch.diff,demo_test.go,demonstration.txt,meta.json}
set -u
export GOFLAGS=-mod=mod GOPROXY=off GOSUMDB=off GOTOOLCHAIN=local
ID=$1; K=$2
S=${SEED_ROOT:-/tmp/seed3}/$ID; WT=$S/wt; OUT=$S/out
V=/verif/seeded/$ID-${SEED_TAG:-}m$K
[ -f $OUT/m$K.diff ] || { echo "no such change"; exit 2; }
cd $WT && git checkout -q -- . && git clean -fdq
[ -z "$(git status --porcelain)" ] || { echo "worktree dirty"; exit 2; }
git apply $OUT/m$K.diff || { echo "REJECT: patch does not apply"; exit 1; }
if git diff --name-only | grep -q '_test.go$\|^verif_\|/verif_'; then echo "REJECT: touches tests or hook files"; git checkout -q -- .; exit 1; fi
LOG=$(mktemp)
{ echo "## build"; go build ./... && go build -tags verif ./... ; } >$LOG 2>&1 || { echo "REJECT: does not build"; cat $LOG; git checkout -q -- .; exit 1; }
for i in 1 2; do
  echo "## suite run $i" >>$LOG
  timeout 900 go test -vet=off -count=1 ./... >>$LOG 2>&1 || { echo "REJECT: suite fails"; tail -30 $LOG; git checkout -q -- .; exit 1; }
done
PKG=$(grep -m1 '^package ' $OUT/m${K}_demo_test.go | awk '{print $2}')
case "$PKG" in testdirectory*) DEMODIR=testdirectory;; *) DEMODIR=.;; esac
DEMOCMD=$(python3 - <<PY
import json,re
c=json.load(open('$OUT/m$K.json'))['demo_cmd']
m=re.search(r"-run[ =]+('([^']*)'|\"([^\"]*)\"|(\S+))",c)
pat=(m.group(2) or m.group(3) or m.group(4)) if m else 'Test'
flags=[]
if '-race' in c: flags.append('-race')
if '-tags verif' in c or '-tags=verif' in c: flags.append('-tags verif')
m=re.search(r'-count[ =]+(\d+)',c)
cnt=m.group(1) if m else '1'
env=' '.join(re.findall(r'\b(GOMAXPROCS=\d+|GORACE=\S+)',c))
print(("%s go test -vet=off -count=%s %s -run '%s' ." % (env,cnt,' '.join(flags),pat)).strip())
PY
)
RUNDIR=$WT/$DEMODIR
mkdir -p $WT/$DEMODIR; cp $OUT/m${K}_demo_test.go $WT/$DEMODIR/zz_demo_test.go
echo "## demonstration on the changed code: (cd $DEMODIR && $DEMOCMD)" >>$LOG
( cd $RUNDIR && timeout 900 bash -c "$DEMOCMD" ) >$LOG.c 2>&1; RC_CHANGED=$?
tail -40 $LOG.c >>$LOG
git checkout -q -- .; git clean -fdq   # (also the files the change ADDED)
cp $OUT/m${K}_demo_test.go $WT/$DEMODIR/zz_demo_test.go
echo "## demonstration on the unchanged code" >>$LOG
( cd $RUNDIR && timeout 900 bash -c "$DEMOCMD" ) >$LOG.u 2>&1; RC_CLEAN=$?
tail -15 $LOG.u >>$LOG
rm -f $WT/$DEMODIR/zz_demo_test.go; git clean -fdq
echo "changed rc=$RC_CHANGED clean rc=$RC_CLEAN"
if [ $RC_CHANGED -eq 0 ] || [ $RC_CLEAN -ne 0 ]; then echo "REJECT: demonstration does not discriminate"; tail -60 $LOG; exit 1; fi
mkdir -p $V
cp $OUT/m$K.diff $V/patch.diff; cp $OUT/m${K}_demo_test.go $V/demo_test.go; cp $LOG $V/demonstration.txt
python3 - <<PY
import json
m=json.load(open('$OUT/m$K.json'))
json.dump({"property":"$ID","summary":m.get("summary",""),"files":m.get("files",[]),"what_breaks":m.get("what_breaks",""),
 "needs":m.get("needs",""),"demo_dir":"$DEMODIR","demo_cmd":"""$DEMOCMD""","origin":"sub-agent given only the property text and a scratch worktree; confirmed by tools/confirm_seed.sh (builds with and without the verif tag, suite passes twice, demonstration fails on the change and passes on the unchanged code)"},
 open('$V/meta.json','w'),indent=1)
PY
rm -f $LOG $LOG.c $LOG.u
echo "CONFIRMED $V"
