#!/usr/bin/env python3
import json, os, sys
V = os.path.dirname(os.path.dirname(os.path.abspath(__file__)))
for n in sorted(os.listdir(os.path.join(V, "seeded"))):
    d = os.path.join(V, "seeded", n)
    if not os.path.exists(os.path.join(d, "result.json")):
        print(n, "(not run)"); continue
    r = json.load(open(os.path.join(d, "result.json"))); m = json.load(open(os.path.join(d, "meta.json")))
    e = r["checks"][m["property"]]; rp = e.get("replay", {})
    ties = [t["tie"] if isinstance(t, dict) else t for t in (rp.get("broken_ties") or [])]
    nofail = any(l.endswith("no-failing-input-found") for l in e["lines"])
    print("%-8s %-8s src=%-10s stream=%-14s key=%-50s ties=%s %s %ss" % (n, "DETECTED" if e["exit"] else "MISSED", rp.get("source"), rp.get("stream"),
          (rp.get("key") or "")[:50], ties, "NO-INPUT" if nofail else "", e["wall_s"]))
