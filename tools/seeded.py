#!/usr/bin/env python3
"""Runs the registered checks against one seeded change (or all of them).

  tools/seeded.py run seeded/<id> [--all]     apply patch.diff to /repo, run the property's own check
                                              (--all: every check), undo, write seeded/<id>/result.json
  tools/seeded.py runall [--all]              the same for every directory under seeded/
  tools/seeded.py table                       markdown table of the recorded results

/repo must be clean before and is clean afterwards (git apply / git apply -R, verified with git status).
Evidence written during these runs goes to work/seeded-evidence, never to evidence/.
"""
import json, os, subprocess, sys, time

VERIF = os.path.dirname(os.path.dirname(os.path.abspath(__file__)))
REPO = os.environ.get("VERIF_REPO", "/repo")


def sh(cmd, **kw):
    return subprocess.run(cmd, shell=True, stdout=subprocess.PIPE, stderr=subprocess.STDOUT, text=True, **kw)


def clean():
    return sh("git -C %s status --porcelain" % REPO).stdout.strip() == ""


def run_one(d, allchecks):
    meta = json.load(open(os.path.join(d, "meta.json")))
    patch = os.path.abspath(os.path.join(d, "patch.diff"))
    if not clean():
        sys.exit("/repo is not clean")
    r = sh("git -C %s apply %s" % (REPO, patch))
    if r.returncode != 0:
        sys.exit("patch does not apply: " + r.stdout)
    res = {"property": meta["property"], "checks": {}, "when": time.strftime("%Y-%m-%dT%H:%M:%SZ", time.gmtime())}
    try:
        manifest = json.load(open(os.path.join(VERIF, "MANIFEST.json")))
        pids = [c["property_id"] for c in manifest["checks"]] if allchecks else [meta["property"]]
        env = dict(os.environ, VERIF_EVIDENCE_DIR=os.path.join(VERIF, "work", "seeded-evidence"))
        for pid in pids:
            t0 = time.time()
            r = sh("./check %s quick" % pid, cwd=VERIF, env=env)
            lines = [l for l in r.stdout.splitlines() if l.startswith(("VIOLATION", "OK ", "KNOWN-FINDING"))]
            entry = {"exit": r.returncode, "lines": lines, "wall_s": round(time.time() - t0, 1)}
            for l in lines:
                if l.startswith("VIOLATION"):
                    rp = l.split("replay=")[1].split()[0]
                    try:
                        j = json.load(open(rp))
                        entry["replay"] = {k: (j.get(k) if not isinstance(j.get(k), str) else j.get(k)[:600])
                                           for k in ("source", "stream", "key", "what", "broken_ties")}
                        if j.get("cases"):
                            entry["replay"]["case"] = str(j["cases"][0])[:600]
                    except Exception as e:
                        entry["replay"] = {"error": str(e)}
            res["checks"][pid] = entry
    finally:
        sh("git -C %s apply -R %s" % (REPO, patch))
        if not clean():
            sh("git -C %s checkout -- . && git -C %s clean -fdq" % (REPO, REPO))
    res["detected_by"] = sorted(p for p, e in res["checks"].items() if e["exit"] != 0)
    res["own_check_detects"] = meta["property"] in res["detected_by"]
    res["with_failing_input"] = sorted(p for p, e in res["checks"].items()
                                       if e["exit"] != 0 and not any(l.endswith("no-failing-input-found") for l in e["lines"]))
    old = {}
    rp = os.path.join(d, "result.json")
    if os.path.exists(rp) and not allchecks:
        old = json.load(open(rp)).get("checks", {})
        old.update(res["checks"])
        res["checks"] = old
        res["detected_by"] = sorted(p for p, e in res["checks"].items() if e["exit"] != 0)
    json.dump(res, open(rp, "w"), indent=1)
    print("%s: own=%s detected_by=%s with_input=%s" % (os.path.basename(d), res["own_check_detects"], res["detected_by"], res["with_failing_input"]))


def table():
    rows = []
    for name in sorted(os.listdir(os.path.join(VERIF, "seeded"))):
        d = os.path.join(VERIF, "seeded", name)
        if not os.path.exists(os.path.join(d, "meta.json")):
            continue
        m = json.load(open(os.path.join(d, "meta.json")))
        r = json.load(open(os.path.join(d, "result.json"))) if os.path.exists(os.path.join(d, "result.json")) else {}
        own = r.get("checks", {}).get(m["property"], {})
        how = ""
        if own.get("replay"):
            how = "%s %s" % (own["replay"].get("source", ""), own["replay"].get("stream") or ",".join((t.get("tie","") if isinstance(t, dict) else str(t)) for t in (own["replay"].get("broken_ties") or [])))
            if any(l.endswith("no-failing-input-found") for l in own.get("lines", [])):
                how += " (no-failing-input-found)"
        rows.append("| %s | %s | %s | %s | %s |" % (name, m["summary"].replace("|", "/")[:140], "yes" if r.get("own_check_detects") else "NO",
                                                  how, ",".join(x for x in r.get("detected_by", []) if x != m["property"])))
    print("| id | change | caught by its check | how | also caught by |\n|---|---|---|---|---|")
    print("\n".join(rows))


if __name__ == "__main__":
    cmd = sys.argv[1]
    allc = "--all" in sys.argv
    if cmd == "run":
        run_one(sys.argv[2], allc)
    elif cmd == "runall":
        # optional substring filters: tools/seeded.py runall r3 r4   (only ids containing one of them)
        pats = [a for a in sys.argv[2:] if not a.startswith("--")]
        for name in sorted(os.listdir(os.path.join(VERIF, "seeded"))):
            d = os.path.join(VERIF, "seeded", name)
            if pats and not any(p in name for p in pats):
                continue
            if os.path.exists(os.path.join(d, "meta.json")):
                run_one(d, allc)
    elif cmd == "table":
        table()
