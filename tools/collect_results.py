#!/usr/bin/env python3
"""Copy seeded/<id>/result.json files from finished `vp run` snapshots into /verif/seeded, keeping the newest by `when`.
usage: tools/collect_results.py <run-number>..."""
import json, os, sys, glob, shutil
V = os.path.dirname(os.path.dirname(os.path.abspath(__file__)))
for n in sys.argv[1:]:
    for f in sorted(glob.glob("/root/.vp/runs/%s/verif/seeded/*/result.json" % n)):
        sid = os.path.basename(os.path.dirname(f))
        dst = os.path.join(V, "seeded", sid, "result.json")
        if not os.path.isdir(os.path.dirname(dst)):
            continue
        new = json.load(open(f)).get("when", "")
        old = json.load(open(dst)).get("when", "") if os.path.exists(dst) else ""
        if new > old:
            shutil.copy(f, dst)
            print("updated", sid, new)
