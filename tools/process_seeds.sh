#!/bin/bash
# confirm and run every delivered sub-agent change that has not been processed yet
cd /verif
for f in ${SEED_ROOT:-/tmp/seed3}/C*/out/m*.diff; do
  [ -f "$f" ] || continue
  id=$(echo $f | sed 's#${SEED_ROOT:-/tmp/seed3}/\(C[0-9]*\)/out/m\([0-9]*\).diff#\1#'); k=$(echo $f | sed 's#.*/m\([0-9]*\).diff#\1#')
  [ -f ${SEED_ROOT:-/tmp/seed3}/$id/out/m$k.json ] && [ -f ${SEED_ROOT:-/tmp/seed3}/$id/out/m${k}_demo_test.go ] || continue
  if [ ! -d seeded/$id-${SEED_TAG:-}m$k ] && [ ! -f ${SEED_ROOT:-/tmp/seed3}/$id/out/m$k.rejected ]; then
    out=$(tools/confirm_seed.sh $id $k 2>&1); echo "$id m$k: $(echo "$out" | tail -1)"
    echo "$out" | grep -q CONFIRMED || echo "$out" > ${SEED_ROOT:-/tmp/seed3}/$id/out/m$k.rejected
  fi
  if [ -d seeded/$id-${SEED_TAG:-}m$k ] && [ ! -f seeded/$id-${SEED_TAG:-}m$k/result.json ]; then tools/seeded.py run seeded/$id-${SEED_TAG:-}m$k; fi
done
