#!/bin/bash
# tools/try_seed.sh <seeded-id> <stream> [harness args...]
# Builds the harness against a scratch worktree of /repo with the seeded patch applied (never touches /repo or
# /verif/lean) and runs one stream with the already-built gmodel; prints the summary of failures / disagreements.
set -e
ID=$1; STREAM=$2; shift 2
export GOFLAGS=-mod=mod GOPROXY=off GOSUMDB=off GOTOOLCHAIN=local
WT=/root/scratch/try-$ID-$$
git -C /repo worktree add --detach $WT HEAD >/dev/null 2>&1
trap 'git -C /repo worktree remove --force $WT >/dev/null 2>&1; rm -f /root/scratch/try-$ID-$$.mod /root/scratch/try-$ID-$$.sum /root/scratch/try-$ID-$$.bin /root/scratch/try-$ID-$$.bin-race /root/scratch/try-$ID-$$.json' EXIT
git -C $WT apply /verif/seeded/$ID/patch.diff
sed "s#=> /repo#=> $WT#" /verif/go/harness/go.mod > /root/scratch/try-$ID-$$.mod
cp $WT/go.sum /root/scratch/try-$ID-$$.sum
(cd /verif/go/harness && go build -tags verif -modfile /root/scratch/try-$ID-$$.mod -o /root/scratch/try-$ID-$$.bin .)
EXTRA=""
if [ -n "$RACE" ]; then
  (cd /verif/go/harness && go build -race -tags verif -modfile /root/scratch/try-$ID-$$.mod -o /root/scratch/try-$ID-$$.bin-race .)
  EXTRA="-workerbin /root/scratch/try-$ID-$$.bin-race"
fi
/root/scratch/try-$ID-$$.bin $EXTRA -stream $STREAM -property X -out /root/scratch/try-$ID-$$.json "$@" 2>&1 | tail -2
python3 - /root/scratch/try-$ID-$$.json <<'PY'
import json,sys
r=json.load(open(sys.argv[1]))
print(r['histogram'], 'disagreements', r['disagreement_count'], 'failures', r['failure_count'])
for f in r['failures'][:4]: print('FAIL', f['key'], '|', f['what'][:300], '|', f['case']['line'][:200])
for f in r['disagreements'][:3]: print('DIS', f['case']['line'][:200], '| impl', f['impl'][:200], '| model', f['model'][:200])
PY
