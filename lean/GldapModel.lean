import GldapModel.Ber.Basic
import GldapModel.Ber.Node
import GldapModel.Ber.Parse
