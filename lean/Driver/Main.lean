import Driver.Codec
import GldapModel.Generated.Facts
import GldapModel.Gldap.ControlEncode
import GldapModel.Gldap.Response
import GldapModel.Gldap.Mux
import GldapModel.Directory.Bind
import GldapModel.Runtime.Writer
import GldapModel.Runtime.ConnLoop
import GldapModel.Directory.Store
import GldapModel.Spec.ClientEncode
import GldapModel.Gldap.Session
import GldapModel.Directory.BindSession
import GldapModel.Directory.StoreSession
import Driver.ServerReplay
import GldapModel.Gldap.Addr
import GldapModel.Gldap.Filter
/-! `gmodel`: one line in, one line out. The Go harness feeds the same cases to the real
    gldap and to this driver and diffs the two output streams. -/
open Ber Gldap Driver

def extTrue : Nat → Bytes → Bool := fun _ _ => true
def extFalse : Nat → Bytes → Bool := fun _ _ => false

/-- `ber <hex>`: model of ber.ReadPacket. Frames whose outcome depends on Real /
    GeneralizedTime validation are reported as `unmodelled`. -/
def doBer (bs : Bytes) : String :=
  let a := readPacket extTrue bs
  let b := readPacket extFalse bs
  match a, b with
  | some (n, rest), some _ => s!"ok {renderNode n} rest={rest.length}"
  | none, none => "err"
  | _, _ => "unmodelled"

/-- go-ldap's `DecompileFilter` is part of the model (`Gldap/Filter.lean`): the answer of the real function that the
    harness still sends along with every case is ignored, so every stream that reaches a search filter compares the
    model's decompiled string with the implementation's -/
def modelDecompile (_supplied : Option Bytes) : Node → Option Bytes :=
  Filter.decompile Generated.filterDNAttrsDecoded
def modelDecompileT (_supplied : List (Bytes × Option Bytes)) : Node → Option Bytes :=
  Filter.decompile Generated.filterDNAttrsDecoded

/-- `decode <hex> <decompiled filter hex | !>` -/
def doDecode (bs : Bytes) (dec : Option Bytes) : String :=
  let mk (ext) : Env := { ext := ext, decompile := modelDecompile dec }
  let a := serveFrame (mk extTrue) Generated.guards bs
  let b := serveFrame (mk extFalse) Generated.guards bs
  if a == b then renderOutcome renderMsg a else "unmodelled"

def parseBool (s : String) : Option Bool := if s == "1" then some true else if s == "0" then some false else none

/-- control description shared with the harness: `<kind> <fields...>` -/
def parseControl : List String → Option Control
  | ["str", o, c, v] => do pure (.str (← unhex o) (← parseBool c) (← unhex v))
  | ["dsait", c] => do pure (.manageDsaIT (← parseBool c))
  | ["paging", sz, ck] => do pure (.paging (← sz.toNat?) (← unhex ck))
  | ["behera", e, g, er] => do pure (.behera (← e.toInt?) (← g.toInt?) (← er.toInt?))
  | ["vchumust"] => some .vchuMustChange
  | ["vchuwarn", e] => do pure (.vchuWarning (← e.toInt?))
  | ["msnotif"] => some .msNotification
  | ["msshowdel"] => some .msShowDeleted
  | ["mslinkttl"] => some .msServerLinkTTL
  | _ => none

def parseOptNat (s : String) : Option (Option Nat) := if s == "-" then some none else s.toNat?.map some

def splitNE (s : String) (sep : String) : List String := (s.splitOn sep).filter (· ≠ "")

/-- `name=v1,v2` -/
def parseAttr (s : String) : Option (Bytes × List Bytes) :=
  match s.splitOn "=" with
  | [n, vs] => do
    let name ← unhex n
    let vals ← (splitNE vs ",").mapM unhex
    pure (name, vals)
  | _ => none

def parseROpt (s : String) : Option ROpt :=
  match s.splitOn ":" with
  | ["c", v] => v.toInt?.map .code
  | ["a", v] => v.toInt?.map .appCode
  | ["d", v] => (unhex v).map .diag
  | ["m", v] => (unhex v).map .matched
  | ["t", v] => ((splitNE v "|").mapM parseAttr).map .attrs
  | _ => none

def parseRSet (s : String) : Option RSet :=
  match s.splitOn ":" with
  | ["c", v] => v.toInt?.map .code
  | ["d", v] => (unhex v).map .diag
  | ["m", v] => (unhex v).map .matched
  | ["k", v] => ((splitNE v "/").mapM (fun d => parseControl (d.splitOn ","))).map .controls
  | ["t", v] => (parseAttr v).map (fun a => .addAttr a.1 a.2)
  | _ => none

def doResp (ctor : String) (mid : Int) (dn : Bytes) (opts : List ROpt) (sets : List RSet) : String :=
  let base : Option (Outcome Resp) :=
    match ctor with
    | "general" => some (.ok (newResponse mid opts))
    | "bind" => some (.ok (newBindResponse mid opts))
    | "extended" => some (.ok (newExtendedResponse mid opts))
    | "done" => some (.ok (newSearchDoneResponse mid opts))
    | "entry" => some (.ok (newSearchResponseEntry mid dn opts))
    | "modify" => some (newModifyResponse Generated.guards mid opts)
    | _ => none
  match base with
  | none => "bad-input"
  | some (.ok r) => hex (responseBytes (applySets r sets))
  | some .err => "err"
  | some .panic => "panic"

def stripPrefix (s p : String) : Option String := if s.startsWith p then some (s.drop p.length).toString else none

def renderEAttrs (l : List EAttr) : String :=
  "[" ++ join ";" (l.map fun a => s!"{hex a.name}:{join "," (a.values.map hex)}") ++ "]"

/-- route registrations: `b`, `s:<base>:<filter>:<scope>`, `e:<name>`, `m`, `a`, `d`, `D` (default), `U` (unbind);
    the handler of the k-th registration is the number k -/
def parseReg (k : Nat) (s : String) : Option (Reg Nat) :=
  match s.splitOn ":" with
  | ["b"] => some (.route .bind k)
  | ["s", b, f, sc] => do pure (.route (.search (← unhex b) (← unhex f) (← sc.toInt?)) k)
  | ["e", n] => do pure (.route (.extended (← unhex n)) k)
  | ["m"] => some (.route .modify k)
  | ["a"] => some (.route .add k)
  | ["d"] => some (.route .delete k)
  | ["D"] => some (.dflt k)
  | ["U"] => some (.unbind k)
  | _ => none

def parseRegs (l : List String) : Option (List (Reg Nat)) :=
  (l.zipIdx).mapM (fun (s, i) => parseReg i s)

def renderEffect : Effect Nat → String
  | .invoke h => s!"invoke {h}"
  | .refuse id tag code => s!"refuse id={id} tag={tag} code={code}"

/-- the model's `strings.EqualFold` is ASCII: a table with non-ASCII search criteria is outside it -/
def nonAsciiCriteria (regs : List (Reg Nat)) : Bool :=
  regs.any fun
    | .route (.search b f _) _ => (b ++ f).any (fun c => c.toNat ≥ 128)
    | _ => false

def doMux (regs : List (Reg Nat)) (bs : Bytes) (dec : Option Bytes) : String :=
  if nonAsciiCriteria regs then "unmodelled" else
  let env : Env := { ext := extTrue, decompile := modelDecompile dec }
  match serveFrame env Generated.guards bs with
  | .ok msg =>
    match msg with
    | .unbind _ => "unbind"
    | _ => join "," ((serve Generated.refusalTable (Mux.build regs) msg).map renderEffect)
  | .err => "decode-err"
  | .panic => "decode-panic"

/-- `<dnhex>/<name>=<v>,<v>/<name>=...` -/
def parseEntry (s : String) : Option Directory.Entry :=
  match s.splitOn "/" with
  | [] => none
  | dn :: attrs => do
    let d ← unhex dn
    let as ← (attrs.filter (· ≠ "")).mapM parseAttr
    pure ⟨d, as.map fun a => newEntryAttribute a.1 a.2⟩

def parseEntries (s : String) : Option (List Directory.Entry) := (splitNE s "|").mapM parseEntry

/-- one instrumentation event `label:conn:req` -/
structure Ev where
  label : String
  conn : Nat
  req : Nat

def parseEv (s : String) : Option Ev :=
  match s.splitOn ":" with
  | [l, c, r] => do pure ⟨l, ← c.toNat?, ← r.toNat?⟩
  | _ => none

def wopOfLabel : String → Option Writer.WOp
  | "w.locked" => some .lock
  | "w.written" => some .write
  | "w.flushed" => some .flush
  | "w.unlock" => some .unlock
  | _ => none

/-- replay the observed Write events of ONE connection through the writer model under the
    extracted micro-operation order: every event must be the operation the model's writer is
    at, and must be enabled (mutual exclusion). An aborted call (unlock before the end of the
    sequence: a failed write) ends the replay of that connection. -/
def replayWriter (seq : List Writer.WOp) (evs : List Ev) : String := Id.run do
  let counts := fun (w : Nat) => (evs.filter fun e => e.req == w && e.label == "w.locked").length
  let frames : Nat → List Bytes := fun w => List.replicate (counts w) [0]
  let mut s := Writer.init frames
  let mut i := 0
  for e in evs do
    match wopOfLabel e.label with
    | none => pure ()
    | some op =>
      let w := e.req
      match seq[s.pc w]? with
      | none => return s!"reject@{i} no-op-at-pc"
      | some cur =>
        if cur != op then
          if op == .unlock then return "accept" else return s!"reject@{i} event {e.label} but model is at another operation"
        let halves := if op == .write || op == .flush then 2 else 1
        for _ in [0:halves] do
          match Writer.step seq s w 0 with
          | none => return s!"reject@{i} {e.label} not enabled (mutex held by another writer)"
          | some s' => s := s'
    i := i + 1
  return "accept"

def doTraceWriter (evs : List Ev) : String :=
  if evs.isEmpty then "no-trace" else
  let conns := (evs.map (·.conn)).eraseDups
  let results := conns.map fun c => replayWriter Generated.writeSeq (evs.filter (·.conn == c))
  match results.find? (· ≠ "accept") with
  | some r => r
  | none => "accept"

def connEvOf (e : Ev) : Option ConnLoop.Ev :=
  match e.label with
  | "conn.start" => some .start
  | "loop.head" => some (.head e.req)
  | "loop.shutdown" => some (.shutdown e.req)
  | "loop.read" => some (.read e.req)
  | "loop.readerr" => some (.readerr e.req)
  | "loop.unbind" => some (.unbind e.req)
  | "loop.inline" => some (.inline e.req)
  | "loop.inlinedone" => some (.inlinedone e.req)
  | "loop.spawn" => some (.spawn e.req)
  | "req.start" => some (.reqStart e.req)
  | "req.done" => some (.reqDone e.req)
  | "req.recovered" => some (.reqRecovered e.req)
  | "conn.init" => some .init
  | "conn.recovered" => some .recovered
  | "conn.teardown" => some .teardown
  | "conn.wgdone" => some .wgdone
  | "conn.netclose" => some .netclose
  | "conn.closed" => some .closed
  | "conn.onclose" => some .onclose
  | "conn.oncloseend" => some .oncloseend
  | "conn.gone" => some .gone
  | _ => none

/-- replay one connection's events through the connection automaton under the extracted facts -/
def replayConn (F : ConnLoop.Facts) (c : Nat) (evs : List Ev) : String := Id.run do
  let mut s := ConnLoop.init
  let mut i := 0
  for e in evs do
    match connEvOf e with
    | none => pure ()
    | some ce =>
      match ConnLoop.step F s ce with
      | none => return s!"reject conn={c} at={i} event={e.label}:{e.req} phase={repr s.phase}"
      | some s' => s := s'
    i := i + 1
  return "accept"

def doTraceConn (all : List Ev) : String :=
  let evs := all.filter (fun e => e.conn > 0 && (connEvOf e).isSome)
  if evs.isEmpty then "no-trace" else
  let conns := (evs.map (·.conn)).eraseDups
  let results := conns.map fun c => replayConn Generated.connFacts c (evs.filter (·.conn == c))
  match results.find? (· ≠ "accept") with
  | some r => r
  | none =>
    -- the same trace, all goroutines together, through the server life-cycle LTS
    match ServerReplay.replay Generated.serverFacts (all.map fun e => ⟨e.label, e.conn, e.req⟩) with
    | "no-trace" => "accept"
    | v => v

def renderEntry (e : Directory.Entry) : String :=
  hex e.dn ++ "{" ++ join ";" (e.attrs.map fun a => s!"{hex a.name}={join "," (a.values.map hex)}") ++ "}"

/-- `<op>~<typehex>~<v>.<v>`; the values reach the handler BER-wrapped (C01) -/
def parseChange (s : String) : Option (Int × Bytes × List Bytes) :=
  match s.splitOn "~" with
  | [o, t, vs] => do
    let op ← o.toInt?
    let ty ← unhex t
    let vals ← (splitNE vs ".").mapM unhex
    pure (op, ty, vals.map Spec.wrap)
  | _ => none

def doStoreOp (st : Directory.Store) (op : String) : Option (Directory.Store × String) :=
  match op.splitOn ":" with
  | ["A", dn, attrs] => do
    let d ← unhex dn
    let as ← (splitNE attrs "&").mapM parseAttr
    let (st', code) := Directory.add st d as
    pure (st', s!"{code}")
  | ["M", dn, chs] => do
    let d ← unhex dn
    let cs ← (splitNE chs "&").mapM parseChange
    let (st', code) := Directory.modify st d cs
    pure (st', s!"{code}")
  | ["D", dn] => do
    let d ← unhex dn
    let (st', code) := Directory.delete st d
    pure (st', s!"{code}")
  | ["S", base, filter] => do
    let b ← unhex base
    let f ← unhex filter
    let (code, es) := Directory.search st b f
    pure (st, s!"{code}[{join "," (es.map renderEntry)}]")
  | ["U", us] => do
    let es ← parseEntries us
    pure ({ st with users := es }, "set")
  | ["G", gs] => do
    let es ← parseEntries gs
    pure ({ st with groups := es }, "set")
  | _ => none

def doStore (st : Directory.Store) (ops : List String) : String := Id.run do
  let mut s := st
  let mut saved := st.users
  let mut outs : List String := []
  for op in ops do
    -- `V`: the application keeps what the getter returns; `W`: it hands that list back to SetUsers
    if op == "V" then saved := s.users; outs := outs ++ ["saved"]
    else if op == "W" then s := { s with users := saved }; outs := outs ++ ["set"]
    else match doStoreOp s op with
      | none => return "bad-input"
      | some (s', o) => s := s'; outs := outs ++ [o]
  return join " | " outs

/-! ### `cenc`: the specification-side client encoder (Spec.clientEncode), so that what a real go-ldap
    client writes can be compared with what the C01 theorem quantifies over -/

def parseCCtl : List String → Option Spec.CCtl
  | ["str", o, c, v] => do pure (.generic (← unhex o) (← parseBool c) false (← unhex v))
  | ["dsait", c] => do pure (.manageDsaIT (← parseBool c) false)
  | ["paging", sz, ck] => do pure (.paging (← sz.toNat?) (← unhex ck))
  | ["behera", "-1", "-1", "-1"] => some .beheraEmpty
  | ["msnotif"] => some .msNotification
  | ["msshowdel"] => some .msShowDeleted
  | ["mslinkttl"] => some .msServerLinkTTL
  | _ => none

def parseCCtls (s : String) : Option (List Spec.CCtl) :=
  if s == "-" then some [] else (splitNE s "/").mapM (fun d => parseCCtl (d.splitOn ","))

def parseHexList (s : String) (sep : String) : Option (List Bytes) :=
  if s == "" then some [] else (s.splitOn sep).mapM unhex

def parseCChange (s : String) : Option Spec.CChange :=
  match s.splitOn "~" with
  | [op, ty, vs] => do pure ⟨← op.toInt?, ← unhex ty, ← parseHexList vs "."⟩
  | _ => none

def parseCAttr (s : String) : Option Spec.CAttr :=
  match s.splitOn "~" with
  | [ty, vs] => do pure ⟨← unhex ty, ← parseHexList vs "."⟩
  | _ => none

def parseCReq : List String → Option Spec.CReq
  | ["bind", id, dn, pw, cs] => do pure (.bind (← id.toInt?) (← unhex dn) (← unhex pw) (← parseCCtls cs))
  | ["search", id, base, sc, de, sz, tm, ty, f, attrs, cs] => do
      let fb ← unhex f
      let (fn, rest) ← readPacket extTrue fb
      if !rest.isEmpty then none
      pure (.search (← id.toInt?) (← unhex base) (← sc.toInt?) (← de.toInt?) (← sz.toInt?) (← tm.toInt?) (← parseBool ty) fn
        (← if attrs == "-" then some [] else parseHexList attrs ",") (← parseCCtls cs))
  | ["extended", id, name] => do pure (.extended (← id.toInt?) (← unhex name))
  | ["modify", id, dn, chs, cs] => do
      pure (.modify (← id.toInt?) (← unhex dn) (← if chs == "-" then some [] else (chs.splitOn "&").mapM parseCChange) (← parseCCtls cs))
  | ["add", id, dn, ats, cs] => do
      pure (.add (← id.toInt?) (← unhex dn) (← if ats == "-" then some [] else (ats.splitOn "&").mapM parseCAttr) (← parseCCtls cs))
  | ["delete", id, dn, cs] => do pure (.delete (← id.toInt?) (← unhex dn) (← parseCCtls cs))
  | ["unbind", id] => do pure (.unbind (← id.toInt?))
  | _ => none

def doCenc (toks : List String) : String :=
  match toks with
  | tt :: rest =>
    (match tt.toNat?, parseCReq rest with
     | some t, some r => if 0 < t ∧ t < 256 then hex (ser (Spec.clientEncode t.toUInt8 r)) else "bad-input"
     | _, _ => "bad-input")
  | [] => "bad-input"


/-- one scripted response: `<ctor>~<dnhex>~<opts>~<sets>` (fields as in the `resp` stream) -/
def parseRespSpec (s : String) : Option Session.RespSpec :=
  match s.splitOn "~" with
  | [ctor, dn, o, st] => do
    let d ← unhex dn
    let c : Session.Ctor ← (match ctor with
      | "general" => some .general | "bind" => some .bind | "extended" => some .extended
      | "done" => some .done | "entry" => some (.entry d) | "modify" => some .modify | _ => none)
    let opts ← (splitNE o ";").mapM parseROpt
    let sets ← (splitNE st ";").mapM parseRSet
    pure ⟨c, opts, sets⟩
  | _ => none

/-- `<script>!<script>!...`, one per registration; a script is `<resp>+<resp>+...` (`.` = writes nothing) -/
def parseScripts (s : String) : Option (List (List Session.RespSpec)) :=
  if s == "" then some [] else
  (s.splitOn "!").mapM fun sc => if sc == "." then some [] else (sc.splitOn "+").mapM parseRespSpec

/-- `<canonical filter node hex>:<decompiled hex | !>,...` -/
def parseFilterTable (s : String) : Option (List (Bytes × Option Bytes)) :=
  (splitNE s ",").mapM fun e =>
    match e.splitOn ":" with
    | [k, v] => do pure (← unhex k, ← (if v == "!" then some none else (unhex v).map some))
    | _ => none

def insertSorted (x : String) : List String → List String
  | [] => [x]
  | y :: ys => if x ≤ y then x :: y :: ys else y :: insertSorted x ys
def sortStrings (l : List String) : List String := l.foldr insertSorted []

def renderEnding : Session.Ending → String
  | .eof => "closed" | .closed => "closed" | .unbind => "unbind" | .crashed => "crashed"

/-- `session <lock|pipe> routes=.. scripts=.. filters=.. in=<hex>`: the whole conversation of one connection -/
def doSession (mode : String) (regs : List (Reg Nat)) (scripts : List (List Session.RespSpec))
    (ftab : List (Bytes × Option Bytes)) (input : Bytes) : String :=
  if nonAsciiCriteria regs then "unmodelled" else
  let cfg : Session.Cfg := { regs := regs, script := fun k _ => scripts.getD k [] }
  let run (ext) : List Bytes × Session.Ending × List (Nat × Int) :=
    let env : Env := { ext := ext, decompile := modelDecompileT ftab }
    let fuel := input.length + 1
    let r := Session.session env Generated.refusalTable Generated.guards cfg fuel input
    let calls := (Session.sessionMsgs env Generated.guards fuel input).flatMap (Session.callsFor Generated.refusalTable cfg)
    (r.1, r.2, calls)
  let a := run extTrue
  let b := run extFalse
  if a != b then "unmodelled" else
  let frames := a.1.map hex
  let frames := if mode.startsWith "pipe" then sortStrings frames else frames
  let calls := a.2.2.map fun c => s!"{c.1}:{c.2}"
  let calls := if mode.startsWith "pipe" then sortStrings calls else calls
  s!"end={renderEnding a.2.1} calls={join "," calls} frames={join "," frames}"

def handle (line : String) : String :=
  match (line.splitOn " ").filter (· ≠ "") with
  | ["ber", h] => match unhex h with
    | some bs => doBer bs
    | none => "bad-input"
  | ["decode", h, d] =>
    match unhex h, (if d == "!" then some none else (unhex d).map some) with
    | some bs, some dec => doDecode bs dec
    | _, _ => "bad-input"
  | "cenc" :: rest => doCenc rest
  | "ctrlenc" :: rest => match parseControl rest with
    | some c => hex (ser (encodeControl c))
    | none => "bad-input"
  | "convert" :: hs => match hs.mapM unhex with
    | some ss => renderOutcome renderHexList (convertString Generated.guards ss)
    | none => "bad-input"
  | ["sid2s", h] => match unhex h with
    | some b => (match sidToString b with | some s => s!"ok {hex s}" | none => "err")
    | none => "bad-input"
  | ["sidb", r, a] => match r.toNat?, a.toNat? with
    | some r, some a => hex (sidBytes r a)
    | _, _ => "bad-input"
  | ["newentry", dn, attrs] =>
    match unhex dn, (splitNE attrs ";").mapM parseAttr with
    | some dn, some as => s!"{hex (newEntry dn as).1} {renderEAttrs (newEntry dn as).2}"
    | _, _ => "bad-input"
  | ["resp", ctor, mid, dn, o, st] =>
    match mid.toInt?, unhex dn, stripPrefix o "opts=", stripPrefix st "sets=" with
    | some mid, some dn, some o, some st =>
      (match (splitNE o ";").mapM parseROpt, (splitNE st ";").mapM parseRSet with
       | some opts, some sets => doResp ctor mid dn opts sets
       | _, _ => "bad-input")
    | _, _, _, _ => "bad-input"
  | ["mux", r, h, d] =>
    match stripPrefix r "routes=", unhex h, (if d == "!" then some none else (unhex d).map some) with
    | some r, some bs, some dec =>
      (match parseRegs (splitNE r ";") with
       | some regs => doMux regs bs dec
       | none => "bad-input")
    | _, _, _ => "bad-input"
  | ["tdbind", a, u, dn, pw] =>
    match stripPrefix a "anon=", stripPrefix u "users=", unhex dn, unhex pw with
    | some a, some u, some dn, some pw =>
      (match parseBool a, parseEntries u with
       | some a, some us => s!"code={Directory.handleBind us a dn pw}"
       | _, _ => "bad-input")
    | _, _, _, _ => "bad-input"
  | "trace" :: "writer" :: evs => match evs.mapM parseEv with
    | some es => doTraceWriter es
    | none => "bad-input"
  | ["addr", a, pat, pah, res, pip] =>
    match unhex a, (stripPrefix pat "pat=").bind parseBool, (stripPrefix pah "pah=").bind parseBool,
          (stripPrefix res "res=").bind parseBool, (stripPrefix pip "pip=").bind parseBool with
    | some a, some pat, some pah, some res, some pip =>
      let host := match Addr.lastIdx Addr.colon a with | some i => a.take i | none => []
      let env : Addr.AddrEnv := { parseAddr := fun x => if x == host then pah else pat, resolves := fun _ => res, parseIP := fun _ => pip }
      (match Addr.validateAddrPort env a with
       | some out => s!"ok {hex out}"
       | none => "err")
    | _, _, _, _, _ => "bad-input"
  | "trace" :: "server" :: evs => match evs.mapM parseEv with
    | some es => ServerReplay.replay Generated.serverFacts (es.map fun e => ⟨e.label, e.conn, e.req⟩)
    | none => "bad-input"
  | "trace" :: "conn" :: evs => match evs.mapM parseEv with
    | some es => doTraceConn es
    | none => "bad-input"
  | ["tdstore", ud, gd, us, gs, ops] =>
    match (stripPrefix ud "userdn=").bind unhex, (stripPrefix gd "groupdn=").bind unhex,
          (stripPrefix us "users=").bind parseEntries, (stripPrefix gs "groups=").bind parseEntries, stripPrefix ops "ops=" with
    | some ud, some gd, some us, some gs, some ops => doStore ⟨us, gs, ud, gd⟩ (splitNE ops ";")
    | _, _, _, _, _ => "bad-input"
  | ["session", mode, r, sc, ft, inp] =>
    match stripPrefix r "routes=", stripPrefix sc "scripts=", stripPrefix ft "filters=", (stripPrefix inp "in=").bind unhex with
    | some r, some sc, some ft, some input =>
      (match parseRegs (splitNE r ";"), parseScripts sc, parseFilterTable ft with
       | some regs, some scripts, some ftab => doSession mode regs scripts ftab input
       | _, _, _ => "bad-input")
    | _, _, _, _ => "bad-input"
  | ["tdbindwire", a, c, u, inp] =>
    match (stripPrefix a "anon=").bind parseBool, (stripPrefix c "ctl=").bind parseBool, (stripPrefix u "users=").bind parseEntries,
          (stripPrefix inp "in=").bind unhex with
    | some a, some c, some us, some input =>
      let dctls : List Control := if c then [.str [49, 46, 50, 46, 51, 46, 52] false [118]] else []
      let run (ext) : List Bytes × Session.Ending :=
        let env : Env := { ext := ext, decompile := fun _ => none }
        Session.session env Generated.refusalTable Generated.guards (Directory.bindCfg us a dctls) (input.length + 1) input
      if run extTrue != run extFalse then "unmodelled" else
      s!"frames={join "," ((run extTrue).1.map hex)}"
    | _, _, _, _ => "bad-input"
  | ["tddir", a, c, ud, gd, u, gr, ft, inp] =>
    match (stripPrefix a "anon=").bind parseBool, (stripPrefix c "ctl=").bind parseBool, (stripPrefix ud "userdn=").bind unhex,
          (stripPrefix gd "groupdn=").bind unhex, (stripPrefix u "users=").bind parseEntries, (stripPrefix gr "groups=").bind parseEntries,
          (stripPrefix ft "filters=").bind parseFilterTable, (stripPrefix inp "in=").bind unhex with
    | some a, some c, some ud, some gd, some us, some gs, some ftab, some input =>
      let dctls : List Control := if c then [.str [49, 46, 50, 46, 51, 46, 52] false [118]] else []
      let d : Directory.Dir := { store := { users := us, groups := gs, userDN := ud, groupDN := gd }, allowAnon := a, dctls := dctls }
      let run (ext) : List Bytes × Session.Ending × Directory.Dir :=
        let env : Env := { ext := ext, decompile := modelDecompileT ftab }
        Directory.dirSession env Generated.refusalTable Generated.guards d (input.length + 1) input
      if run extTrue != run extFalse then "unmodelled" else
      let r := run extTrue
      s!"end={renderEnding r.2.1} frames={join "," (r.1.map hex)} users={join "|" (r.2.2.store.users.map renderEntry)} groups={join "|" (r.2.2.store.groups.map renderEntry)}"
    | _, _, _, _, _, _, _, _ => "bad-input"
  | ["behera", g, e, c] =>
    match parseOptNat g, parseOptNat e, parseOptNat c with
    | some g, some e, some c => renderOutcome renderControl (newBehera Generated.beheraErrRange g e c)
    | _, _, _ => "bad-input"
  | _ => "bad-op"

partial def loop (h : IO.FS.Stream) (out : IO.FS.Stream) : IO Unit := do
  let line ← h.getLine
  if line.isEmpty then return ()
  out.putStrLn (handle (line.trimAscii.toString))
  loop h out

def main : IO Unit := do
  let out ← IO.getStdout
  loop (← IO.getStdin) out
  out.flush
