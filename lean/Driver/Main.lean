import Driver.Codec
import GldapModel.Generated.Facts
import GldapModel.Gldap.ControlEncode
/-! `gmodel`: one line in, one line out. The Go harness feeds the same cases to the real
    gldap and to this driver and diffs the two output streams. -/
open Ber Gldap Driver

def extTrue : Nat → Bytes → Bool := fun _ _ => true
def extFalse : Nat → Bytes → Bool := fun _ _ => false

/-- `ber <hex>`: model of ber.ReadPacket. Frames whose outcome depends on Real /
    GeneralizedTime validation are reported as `unmodelled`. -/
def doBer (bs : Bytes) : String :=
  let a := readPacket extTrue bs
  let b := readPacket extFalse bs
  match a, b with
  | some (n, rest), some _ => s!"ok {renderNode n} rest={rest.length}"
  | none, none => "err"
  | _, _ => "unmodelled"

/-- `decode <hex> <decompiled filter hex | !>` -/
def doDecode (bs : Bytes) (dec : Option Bytes) : String :=
  let mk (ext) : Env := { ext := ext, decompile := fun _ => dec }
  let a := serveFrame (mk extTrue) Generated.guards bs
  let b := serveFrame (mk extFalse) Generated.guards bs
  if a == b then renderOutcome renderMsg a else "unmodelled"

def parseBool (s : String) : Option Bool := if s == "1" then some true else if s == "0" then some false else none

/-- control description shared with the harness: `<kind> <fields...>` -/
def parseControl : List String → Option Control
  | ["str", o, c, v] => do pure (.str (← unhex o) (← parseBool c) (← unhex v))
  | ["dsait", c] => do pure (.manageDsaIT (← parseBool c))
  | ["paging", sz, ck] => do pure (.paging (← sz.toNat?) (← unhex ck))
  | ["behera", e, g, er] => do pure (.behera (← e.toInt?) (← g.toInt?) (← er.toInt?))
  | ["vchumust"] => some .vchuMustChange
  | ["vchuwarn", e] => do pure (.vchuWarning (← e.toInt?))
  | ["msnotif"] => some .msNotification
  | ["msshowdel"] => some .msShowDeleted
  | ["mslinkttl"] => some .msServerLinkTTL
  | _ => none

def parseOptNat (s : String) : Option (Option Nat) := if s == "-" then some none else s.toNat?.map some

def handle (line : String) : String :=
  match (line.splitOn " ").filter (· ≠ "") with
  | ["ber", h] => match unhex h with
    | some bs => doBer bs
    | none => "bad-input"
  | ["decode", h, d] =>
    match unhex h, (if d == "!" then some none else (unhex d).map some) with
    | some bs, some dec => doDecode bs dec
    | _, _ => "bad-input"
  | "ctrlenc" :: rest => match parseControl rest with
    | some c => hex (ser (encodeControl c))
    | none => "bad-input"
  | ["behera", g, e, c] =>
    match parseOptNat g, parseOptNat e, parseOptNat c with
    | some g, some e, some c => renderOutcome renderControl (newBehera Generated.beheraErrRange g e c)
    | _, _, _ => "bad-input"
  | _ => "bad-op"

partial def loop (h : IO.FS.Stream) (out : IO.FS.Stream) : IO Unit := do
  let line ← h.getLine
  if line.isEmpty then return ()
  out.putStrLn (handle (line.trimAscii.toString))
  loop h out

def main : IO Unit := do
  let out ← IO.getStdout
  loop (← IO.getStdin) out
  out.flush
