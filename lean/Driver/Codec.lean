import GldapModel.Gldap.Packet
/-! Line-protocol helpers for the `gmodel` driver: hex, canonical rendering. -/
namespace Driver
open Ber Gldap

def hexDigit (n : Nat) : Char := if n < 10 then Char.ofNat (48 + n) else Char.ofNat (87 + n)
def hex (bs : Bytes) : String :=
  if bs.isEmpty then "-" else
  String.ofList (bs.flatMap fun b => [hexDigit (b.toNat / 16), hexDigit (b.toNat % 16)])

def hexVal (c : Char) : Option Nat :=
  if '0' ≤ c ∧ c ≤ '9' then some (c.toNat - '0'.toNat)
  else if 'a' ≤ c ∧ c ≤ 'f' then some (c.toNat - 'a'.toNat + 10) else none
def unhexL : List Char → Option Bytes
  | [] => some []
  | a :: b :: rest => do
    let x ← hexVal a; let y ← hexVal b; let r ← unhexL rest
    pure ((x*16+y).toUInt8 :: r)
  | _ => none
def unhex (s : String) : Option Bytes := if s == "-" then some [] else unhexL s.toList

def join (sep : String) (l : List String) : String := sep.intercalate l

mutual
partial def renderNode : Node → String
  | .prim c t content => s!"P{c}.{t}:{hex content}"
  | .cons c t kids => s!"C{c}.{t}[{join "," (kids.map renderNode)}]"
end

def renderBool (b : Bool) : String := if b then "1" else "0"

def renderControl : Control → String
  | .str oid crit v => s!"str({hex oid},{renderBool crit},{hex v})"
  | .manageDsaIT crit => s!"dsait({renderBool crit})"
  | .paging sz ck => s!"paging({sz},{hex ck})"
  | .behera e g er => s!"behera({e},{g},{er})"
  | .vchuMustChange => "vchumust"
  | .vchuWarning e => s!"vchuwarn({e})"
  | .msNotification => "msnotif"
  | .msShowDeleted => "msshowdel"
  | .msServerLinkTTL => "mslinkttl"

def renderControls (cs : List Control) : String := s!"[{join ";" (cs.map renderControl)}]"
def renderHexList (l : List Bytes) : String := s!"[{join "," (l.map hex)}]"

def renderMsg : Msg → String
  | .bind id u p cs => s!"bind id={id} user={hex u} pass={hex p} ctrls={renderControls cs}"
  | .search id b sc de sz tm ty f ats cs =>
    s!"search id={id} base={hex b} scope={sc} deref={de} size={sz} time={tm} typesonly={renderBool ty} filter={hex f} attrs={renderHexList ats} ctrls={renderControls cs}"
  | .extended id n => s!"extended id={id} name={hex n}"
  | .modify id dn chs cs =>
    let ch := chs.map fun c => s!"{c.op}:{hex c.type}:{join "," (c.vals.map hex)}"
    s!"modify id={id} dn={hex dn} changes=[{join ";" ch}] ctrls={renderControls cs}"
  | .add id dn attrs cs =>
    let ats := attrs.map fun a => s!"{hex a.type}:{join "," (a.vals.map hex)}"
    s!"add id={id} dn={hex dn} attrs=[{join ";" ats}] ctrls={renderControls cs}"
  | .delete id dn cs => s!"delete id={id} dn={hex dn} ctrls={renderControls cs}"
  | .unbind id => s!"unbind id={id}"

def renderOutcome {α} (f : α → String) : Outcome α → String
  | .ok a => s!"ok {f a}"
  | .err => "err"
  | .panic => "panic"

end Driver
