import GldapModel.Runtime.Server
import GldapModel.Generated.Facts
/-! Replay of a whole server's instrumentation trace (Run, every Stop call, every connection
    goroutine, in the tracer's global order) through the life-cycle LTS `Runtime.Server` under
    the extracted facts: **trace inclusion at server level**.

The tracer's order is a legal linearisation of each goroutine's own events and of every pair of
events ordered by a lock or a wait, but an instrumentation point sits *after* an acquire-like
operation and *before* a release-like one, so the operation itself took effect somewhere between
two points. Three of the LTS's steps are such operations with effects on another goroutine:
Stop's "close the listener", Stop's "cancel the context" and Run's `net.Listen` (under `s.mu`,
which Stop read-holds). The replay therefore places

* a Stop step at its own instrumentation point (`stop.lclosed`, `stop.cancelled`) - or *earlier*,
  when an event of Run shows that its effect has already been observed (`run.ctxdone`, an accepted
  connection that was not added, the final `run.accepterr`);
* a step of Run that the trace shows was decided *before* that effect (a `run.accepted` /
  `run.added` logged late) just before the Stop step, by looking ahead;
* `run.listened` before the interval of overlapping Stop calls it was logged in.

Everything else is replayed where it was logged. A trace the LTS cannot follow is a rejected
trace. -/
namespace ServerReplay
open Server

structure Ev where
  label : String
  conn : Nat
  req : Nat

structure RS where
  s : Srv
  pendTop : Bool := false      -- `run.looptop` seen, the select not yet resolved
  earlyClose : Nat := 0        -- Stop steps already performed ahead of their instrumentation point
  earlyCancel : Nat := 0

def nextRun : List Ev → Option String
  | [] => none
  | e :: es => if e.label.startsWith "run." then some e.label else nextRun es

def findStopAt (s : Srv) (k : Nat) : Option Nat :=
  (s.stops.zipIdx.find? (fun p => p.1 == StopPc.at k)).map (·.2)
def findStopIdle (s : Srv) : Option Nat :=
  (s.stops.zipIdx.find? (fun p => p.1 == StopPc.idle)).map (·.2)

abbrev R := Except String

def app (F : Facts) (r : RS) (l : Label) (what : String) : R RS :=
  match step F r.s l with
  | some s' => .ok { r with s := s' }
  | none => .error s!"{what}: step {repr l} not enabled (run={repr r.s.run} lst={repr r.s.lst} cancelled={r.s.cancelled} connWg={r.s.connWg} stops={repr r.s.stops})"

/-- resolve a pending loop top as the non-cancelled branch (the select fell through to Accept) -/
def resolveTop (F : Facts) (r : RS) : R RS :=
  if r.pendTop then do
    if r.s.cancelled then throw "run.looptop: the accept loop went on to Accept although the context was already cancelled"
    let r ← app F r .runLoopTop "run.looptop"
    pure { r with pendTop := false }
  else pure r

/-- Run's steps whose outcome was decided before the listener is closed -/
def runBeforeClose (F : Facts) (r : RS) (rest : List Ev) : R RS := do
  if nextRun rest == some "run.accepted" then
    let r ← resolveTop F r
    if r.s.run == .accepting then app F r .runAcceptOk "run.accepted (before the listener was closed)" else pure r
  else pure r

/-- Run's steps whose outcome was decided before the context is cancelled -/
def runBeforeCancel (F : Facts) (r : RS) (rest : List Ev) : R RS := do
  let nr := nextRun rest
  let r ← (if r.pendTop && nr != some "run.ctxdone" then resolveTop F r else pure r)
  if r.s.run == .accepted && nr == some "run.added" then app F r .runSpawn "run.added (before the cancel)" else pure r

def doClose (F : Facts) (r : RS) (rest : List Ev) (early : Bool) : R RS := do
  match findStopAt r.s 0 with
  | none => throw "stop: no Stop call is about to close the listener"
  | some i =>
    let r ← runBeforeClose F r rest
    let r ← app F r (.stopStep i) "stop: close listener"
    pure (if early then { r with earlyClose := r.earlyClose + 1 } else r)

def doCancel (F : Facts) (r : RS) (rest : List Ev) (early : Bool) : R RS := do
  let r ← (match findStopAt r.s 1 with
    | some _ => pure r
    | none => doClose F r rest true)      -- the same Stop call has not logged its listener close yet
  match findStopAt r.s 1 with
  | none => throw "stop: no Stop call is about to cancel the context"
  | some i =>
    let r ← runBeforeCancel F r rest
    let r ← app F r (.stopStep i) "stop: cancel"
    pure (if early then { r with earlyCancel := r.earlyCancel + 1 } else r)

def ensureCancelled (F : Facts) (r : RS) (rest : List Ev) : R RS :=
  if r.s.cancelled then pure r else doCancel F r rest true

def ensureClosed (F : Facts) (r : RS) (rest : List Ev) : R RS :=
  if r.s.lst == .closed then pure r else doClose F r rest true

def connOf (r : RS) (c : Nat) : Option Conn := findConn r.s.conns c

/-- the teardown step the connection is at must be of this kind -/
def teardownStep (F : Facts) (r : RS) (c : Nat) (kind : TStep) (what : String) : R RS :=
  match connOf r c with
  | none => pure r      -- a connection the accept loop did not add (closed at once): its goroutine never ran
  | some x =>
    match x.gor with
    | .exited k =>
      if F.teardownSeq[k]? == some kind then app F r (.teardown c) what
      else throw s!"{what}: connection {c} is at teardown step {k} = {repr (F.teardownSeq[k]?)}, the code performed {repr kind}"
    | g => throw s!"{what}: connection {c} is not tearing down ({repr g})"

def stepEv (F : Facts) (r : RS) (e : Ev) (rest : List Ev) : R RS := do
  match e.label with
  | "run.listened" =>
    if r.s.run != .notStarted then pure r else
    app F r (.runListen (nextRun rest != some "run.listenfailed")) "run.listened"
  | "run.listenfailed" => pure r
  | "run.looptop" =>
    -- an accepted connection that was not added: the guarded branch, i.e. the context was cancelled
    let r ← (if r.s.run == .accepted then do
        let r ← ensureCancelled F r rest
        app F r .runSpawn "run: accepted connection not added"
      else pure r)
    pure { r with pendTop := true }
  | "run.ctxdone" =>
    -- this IS the pending loop top, resolved as the cancelled branch: a cancel placed here (the context was seen done
    -- before Stop's own instrumentation point was logged) must not resolve it the other way
    let r ← ensureCancelled F { r with pendTop := false } rest
    let r ← app F r .runLoopTop "run.ctxdone"
    pure { r with pendTop := false }
  | "run.accepterr" =>
    let r ← resolveTop F r
    if nextRun rest == some "run.looptop" then app F r .runAcceptErr "run.accepterr (temporary)"
    else do
      let r ← ensureClosed F r rest
      app F r .runAcceptClosed "run.accepterr (listener closed)"
  | "run.accepted" =>
    let r ← resolveTop F r
    if r.s.run == .accepted then pure r else app F r .runAcceptOk "run.accepted"
  | "run.added" =>
    if r.s.run == .accepted then app F r .runSpawn "run.added" else pure r   -- performed before a cancel by look-ahead
  | "stop.begin" =>
    match findStopIdle r.s with
    | some i => app F r (.stopStep i) "stop.begin"
    | none => throw "stop.begin: more Stop calls than announced"
  | "stop.lclosed" =>
    if r.earlyClose > 0 then pure { r with earlyClose := r.earlyClose - 1 } else doClose F r rest false
  | "stop.cancelled" =>
    if r.earlyCancel > 0 then pure { r with earlyCancel := r.earlyCancel - 1 } else doCancel F r rest false
  | "stop.waited" =>
    match findStopAt r.s 2 with
    | some i => app F r (.stopStep i) "stop.waited"
    | none => throw "stop.waited: no Stop call is waiting for the connections"
  | "stop.return" => pure r
  | "conn.teardown" =>
    (match connOf r e.conn with
     | some _ => app F r (.connExit e.conn) "conn.teardown"
     | none => throw s!"conn.teardown: connection {e.conn} was never added by the accept loop")
  | "loop.spawn" => app F r (.handlerStart e.conn) "loop.spawn"
  | "req.done" => app F r (.handlerEnd e.conn) "req.done"
  | "conn.netclose" => teardownStep F r e.conn .connClose "conn.netclose"
  | "conn.onclose" => teardownStep F r e.conn .onClose "conn.onclose"
  | "conn.wgdone" =>
    -- without an OnClose handler the step exists but has no instrumentation point
    let r ← (match connOf r e.conn with
      | some x => (match x.gor with
          | .exited k => if F.teardownSeq[k]? == some .onClose then app F r (.teardown e.conn) "onClose (no handler)" else pure r
          | _ => pure r)
      | none => pure r)
    teardownStep F r e.conn .wgDone "conn.wgdone"
  | _ => pure r

/-- `run.listened` is logged after `s.mu` was released; Stop read-holds `s.mu` from its first to its
    last statement. A `run.listened` logged inside an interval of overlapping Stop calls therefore
    belongs in front of that interval. -/
def hoistListen (evs : List Ev) : List Ev := Id.run do
  let mut out : Array Ev := #[]
  let mut active := 0
  let mut start := 0
  for e in evs do
    if e.label == "stop.begin" then
      if active == 0 then start := out.size
      active := active + 1
      out := out.push e
    else if e.label == "stop.return" then
      active := active - 1
      out := out.push e
    else if (e.label == "run.listened") && active > 0 then
      out := (out.extract 0 start).push e ++ out.extract start out.size
      start := start + 1
    else out := out.push e
  return out.toList

def replayLoop (F : Facts) : RS → List Ev → Nat → String
  | _, [], _ => "accept"
  | r, e :: rest, i =>
    match stepEv F r e rest with
    | .ok r' => replayLoop F r' rest (i + 1)
    | .error msg => s!"reject server at={i} event={e.label}:{e.conn}:{e.req} {msg}"

/-- the verdict for one server's trace -/
def replay (F : Facts) (evs : List Ev) : String :=
  let evs := hoistListen evs
  let nStops := (evs.filter (·.label == "stop.begin")).length
  -- a Stop that returned early (error from the listener) is outside the model
  let waited := (evs.filter (·.label == "stop.waited")).length
  if waited != nStops then "no-trace" else
  if !(evs.any (·.label == "run.listened")) then "no-trace" else
  replayLoop F { s := init nStops } evs 0

end ServerReplay
