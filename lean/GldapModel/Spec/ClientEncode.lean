import GldapModel.Gldap.Packet
/-! The client side, written from RFC 4511's ASN.1 (and RFC 2696 / the Behera and VChu
    drafts for controls) independently of gldap: what a conforming client such as go-ldap
    puts on the wire. All tags and positions here are literals from the RFCs, never
    `Generated.*`, so a change of a constant in gldap's source breaks the round trip. -/
namespace Spec
open Ber Gldap

def octet (s : Bytes) : Node := .prim 0 4 s
def int (tag : Nat) (i : Int) : Node := .prim 0 tag (encodeInteger i)
/-- BOOLEAN; `tt` is the octet the peer uses for TRUE (0xFF per RFC 4511, 0x01 in asn1-ber's
    `NewBoolean`; any non-zero octet is TRUE in BER) -/
def bool (tt : UInt8) (b : Bool) : Node := .prim 0 1 [if b then tt else 0]
def seq (ks : List Node) : Node := .cons 0 16 ks
def set (ks : List Node) : Node := .cons 0 17 ks

/-- OIDs as the RFCs / drafts give them ("1.2.840.113556.1.4.319", ...) -/
def oidPaging : Bytes := [49, 46, 50, 46, 56, 52, 48, 46, 49, 49, 51, 53, 53, 54, 46, 49, 46, 52, 46, 51, 49, 57]
def oidBehera : Bytes := [49, 46, 51, 46, 54, 46, 49, 46, 52, 46, 49, 46, 52, 50, 46, 50, 46, 50, 55, 46, 56, 46, 53, 46, 49]
def oidVChuMustChange : Bytes := [50, 46, 49, 54, 46, 56, 52, 48, 46, 49, 46, 49, 49, 51, 55, 51, 48, 46, 51, 46, 52, 46, 52]
def oidVChuWarning : Bytes := [50, 46, 49, 54, 46, 56, 52, 48, 46, 49, 46, 49, 49, 51, 55, 51, 48, 46, 51, 46, 52, 46, 53]
def oidManageDsaIT : Bytes := [50, 46, 49, 54, 46, 56, 52, 48, 46, 49, 46, 49, 49, 51, 55, 51, 48, 46, 51, 46, 52, 46, 50]
def oidMsNotification : Bytes := [49, 46, 50, 46, 56, 52, 48, 46, 49, 49, 51, 53, 53, 54, 46, 49, 46, 52, 46, 53, 50, 56]
def oidMsShowDeleted : Bytes := [49, 46, 50, 46, 56, 52, 48, 46, 49, 49, 51, 53, 53, 54, 46, 49, 46, 52, 46, 52, 49, 55]
def oidMsServerLinkTTL : Bytes := [49, 46, 50, 46, 56, 52, 48, 46, 49, 49, 51, 53, 53, 54, 46, 49, 46, 52, 46, 50, 51, 48, 57]

def typedOids : List Bytes :=
  [oidPaging, oidBehera, oidVChuMustChange, oidVChuWarning, oidManageDsaIT, oidMsNotification,
   oidMsShowDeleted, oidMsServerLinkTTL]

/-- a control as the client means it -/
inductive CCtl where
  | generic (oid : Bytes) (crit : Bool) (explicitCrit : Bool) (value : Bytes)
  | manageDsaIT (crit : Bool) (explicitCrit : Bool)
  | paging (size : Nat) (cookie : Bytes)
  | beheraEmpty
  | beheraExpire (e : Int) | beheraGrace (g : Int) | beheraError (e : Nat)
  | vchuMustChange
  | vchuWarning (digits : Bytes)
  | msNotification | msShowDeleted | msServerLinkTTL

/-- RFC 4511 4.1.11 Control ::= SEQUENCE { controlType, criticality DEFAULT FALSE, controlValue OPTIONAL } -/
def encodeCtl (tt : UInt8) : CCtl → Node
  | .generic oid crit ex v =>
      seq ([octet oid] ++ (if crit || ex then [bool tt crit] else []) ++ (if v.isEmpty then [] else [octet v]))
  | .manageDsaIT crit ex => seq ([octet oidManageDsaIT] ++ (if crit || ex then [bool tt crit] else []))
  | .paging size cookie => seq [octet oidPaging, octet (ser (seq [int 2 size, octet cookie]))]
  | .beheraEmpty => seq [octet oidBehera]
  | .beheraExpire e => seq [octet oidBehera, octet (ser (seq [.cons 2 0 [.prim 2 0 (encodeInteger e)]]))]
  | .beheraGrace g => seq [octet oidBehera, octet (ser (seq [.cons 2 0 [.prim 2 1 (encodeInteger g)]]))]
  | .beheraError e => seq [octet oidBehera, octet (ser (seq [.prim 2 1 [e.toUInt8]]))]
  | .vchuMustChange => seq [octet oidVChuMustChange]
  | .vchuWarning ds => seq [octet oidVChuWarning, octet ds]
  | .msNotification => seq [octet oidMsNotification]
  | .msShowDeleted => seq [octet oidMsShowDeleted]
  | .msServerLinkTTL => seq [octet oidMsServerLinkTTL]

/-- what the handler must see for that control -/
def expectedCtl (decimal : Bytes → Int) : CCtl → Control
  | .generic oid crit _ v => .str oid crit v
  | .manageDsaIT crit _ => .manageDsaIT crit
  | .paging size cookie => .paging size cookie
  | .beheraEmpty => .behera (-1) (-1) (-1)
  | .beheraExpire e => .behera e (-1) (-1)
  | .beheraGrace g => .behera (-1) g (-1)
  | .beheraError e => .behera (-1) (-1) e
  | .vchuMustChange => .vchuMustChange
  | .vchuWarning ds => .vchuWarning (decimal ds)
  | .msNotification => .msNotification
  | .msShowDeleted => .msShowDeleted
  | .msServerLinkTTL => .msServerLinkTTL

structure CChange where
  op : Int
  type : Bytes
  vals : List Bytes

structure CAttr where
  type : Bytes
  vals : List Bytes

/-- a request as the client means it; `filter` is the already-compiled filter tree -/
inductive CReq where
  | bind (id : Int) (dn pw : Bytes) (ctls : List CCtl)
  | search (id : Int) (base : Bytes) (scope deref size time : Int) (typesOnly : Bool) (filter : Node)
      (attrs : List Bytes) (ctls : List CCtl)
  | extended (id : Int) (name : Bytes)
  | modify (id : Int) (dn : Bytes) (changes : List CChange) (ctls : List CCtl)
  | add (id : Int) (dn : Bytes) (attrs : List CAttr) (ctls : List CCtl)
  | delete (id : Int) (dn : Bytes) (ctls : List CCtl)
  | unbind (id : Int)

def envelope (tt : UInt8) (id : Int) (op : Node) (ctls : List CCtl) : Node :=
  seq ([int 2 id, op] ++ (if ctls.isEmpty then [] else [.cons 2 0 (ctls.map (encodeCtl tt))]))

def encodeChange (c : CChange) : Node := seq [int 10 c.op, seq [octet c.type, set (c.vals.map octet)]]
def encodeAttr (a : CAttr) : Node := seq [octet a.type, set (a.vals.map octet)]

/-- RFC 4511 LDAPMessage for each of the seven operations -/
def clientEncode (tt : UInt8) : CReq → Node
  | .bind id dn pw ctls => envelope tt id (.cons 1 0 [int 2 3, octet dn, .prim 2 0 pw]) ctls
  | .search id base scope deref size time ty f attrs ctls =>
      envelope tt id (.cons 1 3 [octet base, int 10 scope, int 10 deref, int 2 size, int 2 time, bool tt ty, f,
        seq (attrs.map octet)]) ctls
  | .extended id name => envelope tt id (.cons 1 23 [.prim 2 0 name]) []
  | .modify id dn chs ctls => envelope tt id (.cons 1 6 [octet dn, seq (chs.map encodeChange)]) ctls
  | .add id dn attrs ctls => envelope tt id (.cons 1 8 [octet dn, seq (attrs.map encodeAttr)]) ctls
  | .delete id dn ctls => envelope tt id (.prim 1 10 dn) ctls
  | .unbind id => envelope tt id (.prim 1 2 []) []

/-- the BER octet-string wrapping `ConvertString` inverts -/
def wrap (v : Bytes) : Bytes := ser (octet v)

end Spec
