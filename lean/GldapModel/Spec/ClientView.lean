import GldapModel.Spec.ClientEncode
/-! An independent, strict reader of controls written from RFC 4511 4.1.11, RFC 2696, the
    Behera draft (section 6.2) and the VChu draft: what a conforming LDAP client recovers from
    a control on the wire. It shares no code with gldap's `decodeControl`. -/
namespace Spec
open Ber Gldap

structure RawCtl where
  oid : Bytes
  crit : Bool
  value : Option Bytes
  deriving Repr, DecidableEq

/-- Control ::= SEQUENCE { controlType LDAPOID, criticality BOOLEAN DEFAULT FALSE,
    controlValue OCTET STRING OPTIONAL } -/
def readRaw : Node → Option RawCtl
  | .cons 0 16 [.prim 0 4 oid] => some ⟨oid, false, none⟩
  | .cons 0 16 [.prim 0 4 oid, .prim 0 1 [b]] => some ⟨oid, b != 0, none⟩
  | .cons 0 16 [.prim 0 4 oid, .prim 0 4 v] => some ⟨oid, false, some v⟩
  | .cons 0 16 [.prim 0 4 oid, .prim 0 1 [b], .prim 0 4 v] => some ⟨oid, b != 0, some v⟩
  | _ => none

/-- what the client learns -/
inductive CView where
  | generic (oid : Bytes) (crit : Bool) (value : Bytes)
  | manageDsaIT (crit : Bool)
  | paging (size : Int) (cookie : Bytes)
  | behera (expire grace : Option Int) (error : Option Nat)
  | vchuMustChange
  | vchuWarning (expire : Int)
  | msNotification | msShowDeleted | msServerLinkTTL
  deriving Repr, DecidableEq

/-- PasswordPolicyResponseValue ::= SEQUENCE { warning [0] CHOICE { timeBeforeExpiration [0]
    INTEGER, graceAuthNsRemaining [1] INTEGER } OPTIONAL, error [1] ENUMERATED OPTIONAL } -/
def readBehera : List Node → Option CView
  | [] => some (.behera none none none)
  | [.cons 2 0 [.prim 2 0 w]] => (parseInt64 w).map fun e => .behera (some e) none none
  | [.cons 2 0 [.prim 2 1 w]] => (parseInt64 w).map fun g => .behera none (some g) none
  | [.prim 2 1 [e]] => some (.behera none none (some e.toNat))
  | _ => none

/-- decimal digits with optional sign (the VChu draft sends the expiry as a string) -/
def readDecimal (s : Bytes) : Option Int := Gldap.parseDecimal s

def readCtl (ext : Nat → Bytes → Bool) (n : Node) : Option CView :=
  match readRaw n with
  | none => none
  | some r =>
    if r.oid = oidManageDsaIT then some (.manageDsaIT r.crit)
    else if r.oid = oidPaging then
      match r.value with
      | none => none
      | some v =>
        match readPacket ext v with
        | some (.cons 0 16 [.prim 0 2 sz, .prim 0 4 ck], []) => (parseInt64 sz).map fun s => .paging s ck
        | _ => none
    else if r.oid = oidBehera then
      match r.value with
      | none => some (.behera none none none)
      | some v =>
        match readPacket ext v with
        | some (.cons 0 16 kids, []) => readBehera kids
        | _ => none
    else if r.oid = oidVChuMustChange then some .vchuMustChange
    else if r.oid = oidVChuWarning then
      match r.value with
      | none => none
      | some v => (readDecimal v).map .vchuWarning
    else if r.oid = oidMsNotification then some .msNotification
    else if r.oid = oidMsShowDeleted then some .msShowDeleted
    else if r.oid = oidMsServerLinkTTL then some .msServerLinkTTL
    else some (.generic r.oid r.crit (r.value.getD []))

end Spec

namespace Spec
open Ber Gldap

/-- what a client learns from one response message -/
inductive RView where
  | result (id : Int) (appTag : Nat) (code : Int) (matched diag : Bytes) (controls : List CView)
  | entry (id : Int) (dn : Bytes) (attrs : List (Bytes × List Bytes))
  deriving Repr, DecidableEq

def octetContent : Node → Option Bytes
  | .prim 0 4 s => some s
  | _ => none

/-- PartialAttribute ::= SEQUENCE { type AttributeDescription, vals SET OF AttributeValue } -/
def readAttr : Node → Option (Bytes × List Bytes)
  | .cons 0 16 [.prim 0 4 name, .cons 0 17 vals] => (vals.mapM octetContent).map fun vs => (name, vs)
  | _ => none

/-- Controls ::= SEQUENCE OF control, tagged [0] -/
def readControls (ext : Nat → Bytes → Bool) : List Node → Option (List CView)
  | [] => some []
  | [.cons 2 0 cs] => cs.mapM (readCtl ext)
  | _ => none

/-- LDAPMessage ::= SEQUENCE { messageID, protocolOp, controls [0] OPTIONAL } where protocolOp is
    a SearchResultEntry or any response carrying the COMPONENTS OF LDAPResult (RFC 4511 4.1.9,
    4.5.2); strict: exactly these shapes, universal INTEGER / ENUMERATED / OCTET STRING -/
def readResponse (ext : Nat → Bytes → Bool) : Node → Option RView
  | .cons 0 16 [.prim 0 2 idb, .cons 1 4 [.prim 0 4 dn, .cons 0 16 attrs]] =>
      match parseInt64 idb, attrs.mapM readAttr with
      | some id, some as => some (.entry id dn as)
      | _, _ => none
  | .cons 0 16 (.prim 0 2 idb :: .cons 1 tag [.prim 0 10 cb, .prim 0 4 m, .prim 0 4 d] :: rest) =>
      match parseInt64 idb, parseInt64 cb, readControls ext rest with
      | some id, some code, some cs => some (.result id tag code m d cs)
      | _, _, _ => none
  | _ => none

end Spec
