import GldapModel.Proofs.Values
/-! Request-direction control round trip: gldap's `decodeControl` applied to the RFC encoding
    of a control returns the control the client meant (all nine typed controls and generic
    OIDs), for every guard setting and every behaviour of the third-party validators. -/
namespace Gldap
open Ber Spec Gldap.Generated

@[simp] theorem octet_kids (s : Bytes) : (Spec.octet s).kids = [] := rfl
@[simp] theorem octet_data (s : Bytes) : (Spec.octet s).data = s := rfl
@[simp] theorem seq_kids (ks : List Node) : (Spec.seq ks).kids = ks := rfl
@[simp] theorem cons_kids (c t : Nat) (ks : List Node) : (Node.cons c t ks).kids = ks := rfl
@[simp] theorem prim_data (c t : Nat) (s : Bytes) : (Node.prim c t s).data = s := rfl
@[simp] theorem prim_tag (c t : Nat) (s : Bytes) : (Node.prim c t s).tag = t := rfl
@[simp] theorem cons_tag (c t : Nat) (ks : List Node) : (Node.cons c t ks).tag = t := rfl

/-- which client controls the theorem covers: ranges from the property's quantifier -/
def _root_.Spec.CCtl.WF : CCtl → Prop
  | .generic oid _ _ _ => oid ∉ typedOids
  | .manageDsaIT _ _ => True
  | .paging size cookie => size < 2^32 ∧ cookie.length < 2^31 - 64
  | .beheraEmpty => True
  | .beheraExpire e => 0 ≤ e ∧ e < 2^63
  | .beheraGrace g => 0 ≤ g ∧ g < 2^63
  | .beheraError e => e ≤ 8
  | .vchuMustChange => True
  | .vchuWarning ds => ∃ e, parseDecimal ds = some e
  | .msNotification => True
  | .msShowDeleted => True
  | .msServerLinkTTL => True

/-- Go's `strconv.ParseInt` is the reference for the expiry digits -/
def decimalOf (ds : Bytes) : Int := (parseDecimal ds).getD 0

/-! ### the header -/

theorem header1 (g : Guards) (oid : Bytes) :
    ctrlHeader g (Spec.seq [Spec.octet oid]) = .ok (oid, false, none) := by
  simp [ctrlHeader, ctrlTypeOf, valueOf_octet, bind, pure]

theorem header2b (g : Guards) (tt : UInt8) (htt : tt ≠ 0) (oid : Bytes) (b : Bool) :
    ctrlHeader g (Spec.seq [Spec.octet oid, Spec.bool tt b]) = .ok (oid, b, none) := by
  simp [ctrlHeader, ctrlTypeOf, valueOf_octet, valueOf_bool tt htt, bind, pure]

theorem header2v (g : Guards) (oid v : Bytes) :
    ctrlHeader g (Spec.seq [Spec.octet oid, Spec.octet v]) = .ok (oid, false, some (Spec.octet v)) := by
  simp [ctrlHeader, ctrlTypeOf, valueOf_octet, bind, pure]

theorem header3 (g : Guards) (tt : UInt8) (htt : tt ≠ 0) (oid v : Bytes) (b : Bool) :
    ctrlHeader g (Spec.seq [Spec.octet oid, Spec.bool tt b, Spec.octet v]) = .ok (oid, b, some (Spec.octet v)) := by
  simp [ctrlHeader, ctrlTypeOf, valueOf_octet, valueOf_bool tt htt, bind, pure]

theorem decodeControl_of_header (env : Env) (g : Guards) (n : Node) (ty crit v)
    (h : ctrlHeader g n = .ok (ty, crit, v)) : decodeControl env g n = ctrlDispatch env g ty crit v := by
  simp [decodeControl, h, bind]

/-! ### the dispatch on the OID: the generated OIDs are the RFC ones and pairwise distinct -/

theorem dispatch_dsait (env g crit v) : ctrlDispatch env g oidManageDsaIT crit v = .ok (.manageDsaIT crit) := by
  have h1 : oidManageDsaIT = ControlTypeManageDsaIT := by decide
  simp [ctrlDispatch, ← h1, pure]
theorem dispatch_paging (env g crit v) : ctrlDispatch env g oidPaging crit v = decodePaging env g v := by
  have h1 : oidPaging ≠ ControlTypeManageDsaIT := by decide
  have h2 : oidPaging = ControlTypePaging := by decide
  simp [ctrlDispatch, h1, ← h2]
theorem dispatch_behera (env g crit v) : ctrlDispatch env g oidBehera crit v = decodeBehera env g v := by
  have h1 : oidBehera ≠ ControlTypeManageDsaIT := by decide
  have h2 : oidBehera ≠ ControlTypePaging := by decide
  have h3 : oidBehera = ControlTypeBeheraPasswordPolicy := by decide
  simp [ctrlDispatch, h1, h2, ← h3]
theorem dispatch_vchuMust (env g crit v) : ctrlDispatch env g oidVChuMustChange crit v = .ok .vchuMustChange := by
  have h1 : oidVChuMustChange ≠ ControlTypeManageDsaIT := by decide
  have h2 : oidVChuMustChange ≠ ControlTypePaging := by decide
  have h3 : oidVChuMustChange ≠ ControlTypeBeheraPasswordPolicy := by decide
  have h4 : oidVChuMustChange = ControlTypeVChuPasswordMustChange := by decide
  simp [ctrlDispatch, h1, h2, h3, ← h4, pure]
theorem dispatch_vchuWarn (env g crit v) : ctrlDispatch env g oidVChuWarning crit v = decodeVChuWarning v := by
  have h1 : oidVChuWarning ≠ ControlTypeManageDsaIT := by decide
  have h2 : oidVChuWarning ≠ ControlTypePaging := by decide
  have h3 : oidVChuWarning ≠ ControlTypeBeheraPasswordPolicy := by decide
  have h4 : oidVChuWarning ≠ ControlTypeVChuPasswordMustChange := by decide
  have h5 : oidVChuWarning = ControlTypeVChuPasswordWarning := by decide
  simp [ctrlDispatch, h1, h2, h3, h4, ← h5]
theorem dispatch_msNotif (env g crit v) : ctrlDispatch env g oidMsNotification crit v = .ok .msNotification := by
  have h1 : oidMsNotification ≠ ControlTypeManageDsaIT := by decide
  have h2 : oidMsNotification ≠ ControlTypePaging := by decide
  have h3 : oidMsNotification ≠ ControlTypeBeheraPasswordPolicy := by decide
  have h4 : oidMsNotification ≠ ControlTypeVChuPasswordMustChange := by decide
  have h5 : oidMsNotification ≠ ControlTypeVChuPasswordWarning := by decide
  have h6 : oidMsNotification = ControlTypeMicrosoftNotification := by decide
  simp [ctrlDispatch, h1, h2, h3, h4, h5, ← h6, pure]
theorem dispatch_msShow (env g crit v) : ctrlDispatch env g oidMsShowDeleted crit v = .ok .msShowDeleted := by
  have h1 : oidMsShowDeleted ≠ ControlTypeManageDsaIT := by decide
  have h2 : oidMsShowDeleted ≠ ControlTypePaging := by decide
  have h3 : oidMsShowDeleted ≠ ControlTypeBeheraPasswordPolicy := by decide
  have h4 : oidMsShowDeleted ≠ ControlTypeVChuPasswordMustChange := by decide
  have h5 : oidMsShowDeleted ≠ ControlTypeVChuPasswordWarning := by decide
  have h6 : oidMsShowDeleted ≠ ControlTypeMicrosoftNotification := by decide
  have h7 : oidMsShowDeleted = ControlTypeMicrosoftShowDeleted := by decide
  simp [ctrlDispatch, h1, h2, h3, h4, h5, h6, ← h7, pure]
theorem dispatch_msTTL (env g crit v) : ctrlDispatch env g oidMsServerLinkTTL crit v = .ok .msServerLinkTTL := by
  have h1 : oidMsServerLinkTTL ≠ ControlTypeManageDsaIT := by decide
  have h2 : oidMsServerLinkTTL ≠ ControlTypePaging := by decide
  have h3 : oidMsServerLinkTTL ≠ ControlTypeBeheraPasswordPolicy := by decide
  have h4 : oidMsServerLinkTTL ≠ ControlTypeVChuPasswordMustChange := by decide
  have h5 : oidMsServerLinkTTL ≠ ControlTypeVChuPasswordWarning := by decide
  have h6 : oidMsServerLinkTTL ≠ ControlTypeMicrosoftNotification := by decide
  have h7 : oidMsServerLinkTTL ≠ ControlTypeMicrosoftShowDeleted := by decide
  have h8 : oidMsServerLinkTTL = ControlTypeMicrosoftServerLinkTTL := by decide
  simp [ctrlDispatch, h1, h2, h3, h4, h5, h6, h7, ← h8, pure]

theorem dispatch_generic (env g oid crit v) (h : oid ∉ typedOids) :
    ctrlDispatch env g oid crit v = decodeGeneric g oid crit v := by
  have e : ControlTypePaging = oidPaging ∧ ControlTypeBeheraPasswordPolicy = oidBehera ∧
    ControlTypeVChuPasswordMustChange = oidVChuMustChange ∧ ControlTypeVChuPasswordWarning = oidVChuWarning ∧
    ControlTypeManageDsaIT = oidManageDsaIT ∧ ControlTypeMicrosoftNotification = oidMsNotification ∧
    ControlTypeMicrosoftShowDeleted = oidMsShowDeleted ∧ ControlTypeMicrosoftServerLinkTTL = oidMsServerLinkTTL := by
    decide
  obtain ⟨e1, e2, e3, e4, e5, e6, e7, e8⟩ := e
  simp only [typedOids, List.mem_cons, List.not_mem_nil, or_false, not_or] at h
  obtain ⟨h1, h2, h3, h4, h5, h6, h7, h8⟩ := h
  simp [ctrlDispatch, e1, e2, e3, e4, e5, e6, e7, e8, h1, h2, h3, h4, h5, h6, h7, h8]

/-! ### nested values -/

theorem valueChildren_octet_ser (env : Env) (inner : Node) (hw : inner.WF env.ext) :
    valueChildren env (Spec.octet (ser inner)) = .ok [inner] := by
  have h := readPacket_ser env.ext inner [] hw
  simp only [List.append_nil] at h
  simp [valueChildren, valueOf_octet, h]

theorem wf_prim_ctx (ext) (c t : Nat) (content : Bytes) (hc : c = 1 ∨ c = 2 ∨ c = 3) (ht : t < 31)
    (hl : content.length ≤ maxPrim) : (Node.prim c t content).WF ext := by
  refine ⟨by omega, ht, hl, ?_⟩
  have : (c != 0) = true := by simp; omega
  simp [primOK, this]

theorem wf_int (ext) (i : Int) (h : Int64 i) : (Spec.int 2 i).WF ext := by
  have := encodeInteger_length_le i h
  refine ⟨by omega, by omega, by simp [maxPrim]; omega, by simp [primOK]⟩

theorem wf_octet (ext) (s : Bytes) (h : s.length ≤ maxPrim) : (Spec.octet s).WF ext :=
  ⟨by omega, by omega, h, by simp [primOK]⟩

theorem decode_paging (env : Env) (g : Guards) (tt : UInt8) (size : Nat) (cookie : Bytes)
    (hs : size < 2^32) (hc : cookie.length < 2^31 - 64) :
    decodeControl env g (encodeCtl tt (.paging size cookie)) = .ok (.paging size cookie) := by
  have hi : Int64 (size : Int) := by constructor <;> omega
  have hcl : cookie.length ≤ maxPrim := by simp [maxPrim]; omega
  have hw : (Spec.seq [Spec.int 2 size, Spec.octet cookie]).WF env.ext := by
    have h1 := ser_prim_length_le 0 2 (encodeInteger size) (by omega) (by have := encodeInteger_length_le _ hi; omega)
    have h2 := ser_prim_length_le 0 4 cookie (by omega) (by omega)
    have := encodeInteger_length_le _ hi
    refine ⟨by omega, by omega, ?_, wf_int _ _ hi, by simp [Spec.int, isEOC], wf_octet _ _ hcl, by simp [Spec.octet, isEOC], trivial⟩
    simp only [serAll, List.length_append, List.length_nil, Spec.int, Spec.octet] at *
    omega
  have hv := valueChildren_octet_ser env _ hw
  rw [encodeCtl, decodeControl_of_header env g _ _ _ _ (header2v g _ _), dispatch_paging]
  simp only [decodePaging, hv, bind]
  have hw32 : wrap32 (size : Int) = size := by simp [wrap32]; omega
  simp [valueOf_int2 _ hi, hw32, pure]

theorem toInt8_small (e : Nat) (h : e ≤ 8) : toInt8 e = e := by simp [toInt8]; omega

theorem wf_seq1 (ext) (k : Node) (hk : k.WF ext) (he : isEOC k = false) (hl : (ser k).length < 2^62) :
    (Spec.seq [k]).WF ext := by
  refine ⟨by omega, by omega, ?_, hk, he, trivial⟩
  simp only [serAll, List.length_append, List.length_nil]; omega

theorem decode_behera_warning (env : Env) (g : Guards) (tag : Nat) (v : Int) (ht : tag = 0 ∨ tag = 1)
    (hv : 0 ≤ v ∧ v < 2^63) :
    decodeControl env g (Spec.seq [Spec.octet oidBehera,
        Spec.octet (ser (Spec.seq [.cons 2 0 [.prim 2 tag (encodeInteger v)]]))]) =
      .ok (if tag = 0 then .behera v (-1) (-1) else .behera (-1) v (-1)) := by
  have hi : Int64 v := by constructor <;> omega
  have h8 := encodeInteger_length_le v hi
  have hwp : (Node.prim 2 tag (encodeInteger v)).WF env.ext :=
    wf_prim_ctx _ 2 tag _ (by omega) (by omega) (by simp [maxPrim]; omega)
  have hlp := ser_prim_length_le 2 tag (encodeInteger v) (by omega) (by omega)
  have hwc : (Node.cons 2 0 [.prim 2 tag (encodeInteger v)]).WF env.ext := by
    refine ⟨by omega, by omega, ?_, hwp, by simp [isEOC], trivial⟩
    simp only [serAll, List.length_append, List.length_nil]; omega
  have hlc := ser_cons_length_le 2 0 [.prim 2 tag (encodeInteger v)] (by omega)
    (by simp only [serAll, List.length_append, List.length_nil]; omega)
  have hw : (Spec.seq [.cons 2 0 [.prim 2 tag (encodeInteger v)]]).WF env.ext :=
    wf_seq1 _ _ hwc (by simp [isEOC]) (by simp only [serAll, List.length_append, List.length_nil] at hlc; omega)
  have hvc := valueChildren_octet_ser env _ hw
  rw [decodeControl_of_header env g _ _ _ _ (header2v g _ _), dispatch_behera]
  simp only [decodeBehera, hvc, bind]
  rcases ht with rfl | rfl <;>
    simp [beheraLoop, parseInt64_encodeInteger v hi, pure]

theorem decode_behera_error (env : Env) (g : Guards) (tt : UInt8) (e : Nat) (he : e ≤ 8) :
    decodeControl env g (encodeCtl tt (.beheraError e)) = .ok (.behera (-1) (-1) e) := by
  have hwp : (Node.prim 2 1 [e.toUInt8]).WF env.ext :=
    wf_prim_ctx _ 2 1 _ (by omega) (by omega) (by simp [maxPrim])
  have hlp := ser_prim_length_le 2 1 [e.toUInt8] (by omega) (by have : ([e.toUInt8] : Bytes).length = 1 := rfl; omega)
  have hw : (Spec.seq [.prim 2 1 [e.toUInt8]]).WF env.ext :=
    wf_seq1 _ _ hwp (by simp [isEOC]) (by have : ([e.toUInt8] : Bytes).length = 1 := rfl; omega)
  have hvc := valueChildren_octet_ser env _ hw
  have hb : e.toUInt8.toNat = e := by rw [Nat.toUInt8, UInt8.toNat_ofNat']; omega
  rw [encodeCtl, decodeControl_of_header env g _ _ _ _ (header2v g _ _), dispatch_behera]
  simp only [decodeBehera, hvc, bind]
  have : ¬ (e > 8) := by omega
  simp [beheraLoop, hb, this, toInt8_small e he, pure]

/-- every control kind, in the request direction -/
theorem decodeControl_encodeCtl (env : Env) (g : Guards) (tt : UInt8) (htt : tt ≠ 0) (c : CCtl) (hw : c.WF) :
    decodeControl env g (encodeCtl tt c) = .ok (expectedCtl decimalOf c) := by
  cases c with
  | generic oid crit ex v =>
    simp only [CCtl.WF] at hw
    simp only [encodeCtl, expectedCtl]
    by_cases hce : (crit || ex) = true <;> by_cases hv : v.isEmpty = true
    · have : v = [] := by simpa using hv
      subst this
      simp only [hce, hv, if_true, List.append_nil, List.cons_append, List.nil_append]
      rw [decodeControl_of_header env g _ _ _ _ (header2b g tt htt _ _), dispatch_generic _ _ _ _ _ hw]
      simp [decodeGeneric, pure]
    · simp only [hce, hv, if_true, List.cons_append, List.nil_append, Bool.false_eq_true, if_false]
      rw [decodeControl_of_header env g _ _ _ _ (header3 g tt htt _ _ _), dispatch_generic _ _ _ _ _ hw]
      simp [decodeGeneric, valueOf_octet, pure]
    · have : v = [] := by simpa using hv
      subst this
      have hc : crit = false := by cases crit <;> simp_all
      simp only [hce, hv, if_true, List.append_nil, Bool.false_eq_true, if_false]
      rw [decodeControl_of_header env g _ _ _ _ (header1 g _), dispatch_generic _ _ _ _ _ hw]
      simp [decodeGeneric, pure, hc]
    · have hc : crit = false := by cases crit <;> simp_all
      simp only [hce, hv, List.cons_append, List.nil_append, Bool.false_eq_true, if_false]
      rw [decodeControl_of_header env g _ _ _ _ (header2v g _ _), dispatch_generic _ _ _ _ _ hw]
      simp [decodeGeneric, valueOf_octet, hc, pure]
  | manageDsaIT crit ex =>
    simp only [encodeCtl, expectedCtl]
    by_cases hce : (crit || ex) = true
    · simp only [hce, if_true, List.cons_append, List.nil_append]
      rw [decodeControl_of_header env g _ _ _ _ (header2b g tt htt _ _), dispatch_dsait]
    · have hc : crit = false := by cases crit <;> simp_all
      simp only [hce, List.append_nil, Bool.false_eq_true, if_false]
      rw [decodeControl_of_header env g _ _ _ _ (header1 g _), dispatch_dsait, hc]
  | paging size cookie => exact decode_paging env g tt size cookie hw.1 hw.2
  | beheraEmpty =>
    rw [encodeCtl, decodeControl_of_header env g _ _ _ _ (header1 g _), dispatch_behera]
    simp [decodeBehera, expectedCtl, pure]
  | beheraExpire e =>
    have := decode_behera_warning env g 0 e (Or.inl rfl) hw
    simpa [encodeCtl, expectedCtl] using this
  | beheraGrace e =>
    have := decode_behera_warning env g 1 e (Or.inr rfl) hw
    simpa [encodeCtl, expectedCtl] using this
  | beheraError e => simpa [expectedCtl] using decode_behera_error env g tt e hw
  | vchuMustChange =>
    rw [encodeCtl, decodeControl_of_header env g _ _ _ _ (header1 g _), dispatch_vchuMust]; rfl
  | vchuWarning ds =>
    obtain ⟨e, he⟩ := hw
    rw [encodeCtl, decodeControl_of_header env g _ _ _ _ (header2v g _ _), dispatch_vchuWarn]
    simp [decodeVChuWarning, he, expectedCtl, decimalOf, pure]
  | msNotification =>
    rw [encodeCtl, decodeControl_of_header env g _ _ _ _ (header1 g _), dispatch_msNotif]; rfl
  | msShowDeleted =>
    rw [encodeCtl, decodeControl_of_header env g _ _ _ _ (header1 g _), dispatch_msShow]; rfl
  | msServerLinkTTL =>
    rw [encodeCtl, decodeControl_of_header env g _ _ _ _ (header1 g _), dispatch_msTTL]; rfl

/-- any number of controls, in any order -/
theorem decodeControls_encode (env : Env) (g : Guards) (tt : UInt8) (htt : tt ≠ 0) (cs : List CCtl) (hw : ∀ c ∈ cs, c.WF) :
    decodeControls env g (cs.map (encodeCtl tt)) = .ok (cs.map (expectedCtl decimalOf)) := by
  induction cs with
  | nil => simp [decodeControls]
  | cons c cs ih =>
    have h1 := decodeControl_encodeCtl env g tt htt c (hw c (by simp))
    have h2 := ih (fun c hc => hw c (by simp [hc]))
    simp [decodeControls, h1, h2, bind, pure]

end Gldap
