import GldapModel.Proofs.StoreLemmas
/-! Index bookkeeping of `find`: from the zipIdx/filter form to a plain recursion, and what a
    unique hit means for `eraseIdx` / `modify` / lookup. -/
namespace Directory
open Ber Gldap

/-- positions (counted from `k`) of the entries satisfying `p` -/
def idxs {α : Type} (p : α → Bool) : Nat → List α → List Nat
  | _, [] => []
  | k, e :: es => if p e then k :: idxs p (k + 1) es else idxs p (k + 1) es

theorem zipIdx_filter_idxs {α : Type} (p : α → Bool) (k : Nat) (es : List α) :
    ((es.zipIdx k).filter fun (x : α × Nat) => p x.1).map (·.2) = idxs p k es := by
  induction es generalizing k with
  | nil => rfl
  | cons e es ih =>
    simp only [List.zipIdx_cons, List.filter_cons, idxs]
    split
    · simp only [List.map_cons]; rw [ih]
    · exact ih (k + 1)

theorem findIdx_eq_idxs (f : Bytes) (es : List Entry) :
    findIdx f es = idxs (fun e => matchFilter f e.dn) 0 es := by
  unfold findIdx
  exact zipIdx_filter_idxs (fun e => matchFilter f e.dn) 0 es

theorem idxs_congr {α : Type} (p q : α → Bool) (k : Nat) (es : List α) (h : ∀ e ∈ es, p e = q e) :
    idxs p k es = idxs q k es := by
  induction es generalizing k with
  | nil => rfl
  | cons e es ih =>
    simp only [idxs, h e (by simp)]
    rw [ih (k + 1) (fun x hx => h x (by simp [hx]))]

theorem idxs_none {α : Type} (p : α → Bool) (k : Nat) (es : List α) (h : ∀ e ∈ es, p e = false) :
    idxs p k es = [] := by
  induction es generalizing k with
  | nil => rfl
  | cons e es ih =>
    simp only [idxs, h e (by simp)]
    exact ih (k + 1) (fun x hx => h x (by simp [hx]))

/-- exactly one hit, at position `l.length` -/
theorem idxs_unique {α : Type} (p : α → Bool) (k : Nat) (l r : List α) (x : α)
    (hl : ∀ e ∈ l, p e = false) (hx : p x = true) (hr : ∀ e ∈ r, p e = false) :
    idxs p k (l ++ x :: r) = [k + l.length] := by
  induction l generalizing k with
  | nil => simp [idxs, hx, idxs_none p (k + 1) r hr]
  | cons a l ih =>
    simp only [List.cons_append, idxs, hl a (by simp)]
    rw [ih (k + 1) (fun e he => hl e (by simp [he]))]
    simp only [Bool.false_eq_true, if_false, List.length_cons]
    congr 1; omega

theorem idxs_nonempty {α : Type} (p : α → Bool) (k : Nat) (es : List α) (x : α) (hx : x ∈ es) (hp : p x = true) :
    idxs p k es ≠ [] := by
  induction es generalizing k with
  | nil => simp at hx
  | cons e es ih =>
    simp only [idxs]
    split
    · simp
    · rename_i hpe
      rcases List.mem_cons.mp hx with rfl | h
      · exact absurd hp hpe
      · exact ih (k + 1) h

/-- entries keyed by DN without repetition split around a present key -/
theorem split_at_key {α : Type} (key : α → Bytes) (es : List α) (hn : (es.map key).Nodup) (x : α) (hx : x ∈ es) :
    ∃ l r, es = l ++ x :: r ∧ (∀ e ∈ l, key e ≠ key x) ∧ (∀ e ∈ r, key e ≠ key x) := by
  obtain ⟨l, r, rfl⟩ := List.append_of_mem hx
  refine ⟨l, r, rfl, ?_, ?_⟩
  · intro e he hd
    simp only [List.map_append, List.map_cons] at hn
    have := (List.nodup_append.mp hn).2.2 (key e) (List.mem_map_of_mem he) (key x) (by simp)
    exact this hd
  · intro e he hd
    simp only [List.map_append, List.map_cons] at hn
    have := (List.nodup_append.mp hn).2.1
    simp only [List.nodup_cons] at this
    exact this.1 (by rw [← hd]; exact List.mem_map_of_mem he)

theorem split_at_dn (es : List Entry) (hn : (es.map (·.dn)).Nodup) (x : Entry) (hx : x ∈ es) :
    ∃ l r, es = l ++ x :: r ∧ (∀ e ∈ l, e.dn ≠ x.dn) ∧ (∀ e ∈ r, e.dn ≠ x.dn) :=
  split_at_key (·.dn) es hn x hx

theorem filter_ne_split (l r : List Entry) (x : Entry)
    (hl : ∀ e ∈ l, e.dn ≠ x.dn) (hr : ∀ e ∈ r, e.dn ≠ x.dn) :
    (l ++ x :: r).filter (fun e => e.dn != x.dn) = l ++ r := by
  have h1 : l.filter (fun e => e.dn != x.dn) = l := List.filter_eq_self.mpr (fun e he => by simp [hl e he])
  have h2 : r.filter (fun e => e.dn != x.dn) = r := List.filter_eq_self.mpr (fun e he => by simp [hr e he])
  simp [List.filter_append, List.filter_cons, h1, h2]

theorem map_if_split (l r : List Entry) (x : Entry) (f : Entry → Entry)
    (hl : ∀ e ∈ l, e.dn ≠ x.dn) (hr : ∀ e ∈ r, e.dn ≠ x.dn) :
    (l ++ x :: r).map (fun e => if e.dn == x.dn then f e else e) = l ++ f x :: r := by
  have h1 : l.map (fun e => if e.dn == x.dn then f e else e) = l := by
    conv => rhs; rw [← List.map_id l]
    exact List.map_congr_left (fun e he => by simp [hl e he])
  have h2 : r.map (fun e => if e.dn == x.dn then f e else e) = r := by
    conv => rhs; rw [← List.map_id r]
    exact List.map_congr_left (fun e he => by simp [hr e he])
  rw [List.map_append, List.map_cons, h1, h2]
  simp

theorem eraseIdx_split {α : Type} (l r : List α) (x : α) : (l ++ x :: r).eraseIdx l.length = l ++ r := by
  induction l with
  | nil => rfl
  | cons a l ih => simp only [List.cons_append, List.length_cons, List.eraseIdx_cons_succ, ih]

theorem modify_split {α : Type} (l r : List α) (x : α) (f : α → α) : (l ++ x :: r).modify l.length f = l ++ f x :: r := by
  induction l with
  | nil => rfl
  | cons a l ih => simp only [List.cons_append, List.length_cons, List.modify_succ_cons, ih]

theorem set_split {α : Type} (l r : List α) (x y : α) : (l ++ x :: r).set l.length y = l ++ y :: r := by
  induction l with
  | nil => rfl
  | cons a l ih => simp only [List.cons_append, List.length_cons, List.set_cons_succ, ih]

end Directory
