import GldapModel.Proofs.Server2
namespace Server

theorem pending_append (a b : List Conn) : pending (a ++ b) = pending a + pending b := by
  induction a with
  | nil => simp [pending]
  | cons x xs ih => simp [pending, ih]; omega

theorem inv_step_spawn (s s' : Srv) (h : Inv s) (hs : stepCore goodFacts s .runSpawn = some s') : Inv s' := by
  simp only [stepCore, goodFacts] at hs
  split at hs
  · rename_i hrun
    simp only [if_true] at hs
    split at hs
    · -- cancelled: connection refused, nothing added
      simp at hs; subst hs
      exact { h with
        idsLt := by intro c hc'; have := h.idsLt c hc'; simp; exact this.1
        lstNotStarted := by simp
        lstReturned := by simp }
    · rename_i hcanc
      simp at hs; subst hs
      have hnoRet : ¬ ∃ p ∈ s.stops, p = StopPc.returned := by
        intro ⟨p, hp, e⟩
        have := h.canc p hp (by subst e; rfl)
        exact hcanc this
      constructor
      · simp [pending_append, pending, h.wg]
      · intro c hc; simp at hc
        rcases hc with hc | rfl
        · exact h.ok c hc
        · simp [ConnOK]
      · simp only [List.map_append, List.map_cons, List.map_nil]
        rw [List.nodup_append]
        refine ⟨h.ids, by simp, ?_⟩
        intro a ha b hb
        simp at hb; subst hb
        simp at ha
        obtain ⟨c, hc, rfl⟩ := ha
        have := (h.idsLt c hc).2 (Or.inr hrun)
        omega
      · intro c hc; simp at hc
        rcases hc with hc | rfl
        · have := h.idsLt c hc; simp; exact this.1
        · simp
      · exact h.canc
      · exact h.stopAt
      · intro hex; exact absurd hex hnoRet
      · simp
      · simp
      · exact h.rdy
  · simp at hs

theorem mem_set_cases {α} {l : List α} {i : Nat} {v p : α} (h : p ∈ l.set i v) : p = v ∨ p ∈ l := by
  rcases List.mem_or_eq_of_mem_set h with h | h
  · exact Or.inr h
  · exact Or.inl h

theorem pending_zero {cs : List Conn} (h : pending cs = 0) : ∀ c ∈ cs, c.gor = .gone := by
  induction cs with
  | nil => simp
  | cons a as ih =>
    simp only [pending] at h
    intro c hc
    rcases List.mem_cons.mp hc with rfl | hc
    · by_cases hg : c.gor = .gone
      · exact hg
      · simp [hg] at h
    · exact ih (by omega) c hc

theorem inv_step_stop (s s' : Srv) (i : Nat) (h : Inv s) (hs : stepCore goodFacts s (.stopStep i) = some s') : Inv s' := by
  simp only [stepCore, goodFacts] at hs
  split at hs
  · -- idle -> at 0
    rename_i hi
    simp at hs; subst hs
    exact { h with
      canc := by
        intro p hp hpc
        rcases mem_set_cases hp with rfl | hp
        · simp [stopPastCancel] at hpc
        · exact h.canc p hp hpc
      stopAt := by
        intro p hp k e
        rcases mem_set_cases hp with rfl | hp
        · simp at e; omega
        · exact h.stopAt p hp k e
      done := by
        intro ⟨p, hp, e⟩
        rcases mem_set_cases hp with rfl | hp
        · simp at e
        · exact h.done ⟨p, hp, e⟩ }
  · rename_i k hk
    have hmem : StopPc.at k ∈ s.stops := List.mem_of_getElem? hk
    have hk3 := h.stopAt _ hmem k rfl
    have hcase : k = 0 ∨ k = 1 ∨ k = 2 := by omega
    rcases hcase with rfl | rfl | rfl
    · -- closeListener
      simp at hs; subst hs
      exact { h with
        canc := by
          intro p hp hpc
          rcases mem_set_cases hp with rfl | hp
          · simp [stopPastCancel] at hpc
          · exact h.canc p hp hpc
        stopAt := by
          intro p hp k e
          rcases mem_set_cases hp with rfl | hp
          · simp at e; omega
          · exact h.stopAt p hp k e
        done := by
          intro ⟨p, hp, e⟩
          rcases mem_set_cases hp with rfl | hp
          · simp at e
          · exact h.done ⟨p, hp, e⟩
        lstNotStarted := by intro hr; simp [h.lstNotStarted hr]
        lstReturned := by intro e he; simp; split <;> simp_all
        rdy := by intro hr; have := h.rdy hr; simp; split <;> simp_all }
    · -- cancel
      simp at hs; subst hs
      exact { h with
        canc := by intro p hp hpc; rfl
        stopAt := by
          intro p hp k e
          rcases mem_set_cases hp with rfl | hp
          · simp at e; omega
          · exact h.stopAt p hp k e
        done := by
          intro ⟨p, hp, e⟩
          rcases mem_set_cases hp with rfl | hp
          · simp at e
          · exact h.done ⟨p, hp, e⟩ }
    · -- waitConns
      simp at hs
      obtain ⟨hz, rfl⟩ := hs
      have hall := pending_zero (by rw [← h.wg]; exact hz)
      exact { h with
        canc := by
          intro p hp hpc
          rcases mem_set_cases hp with rfl | hp
          · exact h.canc _ hmem (by simp [stopPastCancel])
          · exact h.canc p hp hpc
        stopAt := by
          intro p hp k e
          rcases mem_set_cases hp with rfl | hp
          · simp at e
          · exact h.stopAt p hp k e
        done := by intro _; exact hall }
  · simp at hs

end Server
