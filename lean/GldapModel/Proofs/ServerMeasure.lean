import GldapModel.Proofs.Server6
/-! A ranking function for the server's own steps: every server-only label (the server's code, a handler
    returning, the teardown, a read loop ending because of the cancelled context) strictly decreases it.
    Hence, without further client actions, the server can take only boundedly many steps. -/
namespace Server

def Label.serverOnly : Label → Bool
  | .runListen _ | .runLoopTop | .runAcceptClosed | .runSpawn | .stopStep _ | .handlerEnd _ | .teardown _
  | .connExitShutdown _ => true
  | _ => false

def connM (c : Conn) : Nat :=
  c.live + (match c.gor with
    | .serving => 4
    | .exited k => 3 - k
    | .gone => 0)

def runRank : RunPc → Nat
  | .returned _ => 0
  | .accepting => 1
  | .loopTop => 2
  | .notStarted => 3
  | .accepted => 7

def stopRank : StopPc → Nat
  | .idle => 4
  | .at k => 3 - k
  | .returned => 0

def mu (s : Srv) : Nat := runRank s.run + (s.stops.map stopRank).sum + (s.conns.map connM).sum

theorem sum_set (l : List StopPc) (i : Nat) (p v : StopPc) (h : l[i]? = some p) :
    ((l.set i v).map stopRank).sum + stopRank p = (l.map stopRank).sum + stopRank v := by
  induction l generalizing i with
  | nil => simp at h
  | cons a as ih =>
    cases i with
    | zero =>
      simp at h; subst h
      simp only [List.set_cons_zero, List.map_cons, List.sum_cons]; omega
    | succ j =>
      simp only [List.getElem?_cons_succ] at h
      have := ih j h
      simp only [List.set_cons_succ, List.map_cons, List.sum_cons]; omega

theorem sum_modConn (cs : List Conn) (c : Nat) (f : Conn → Conn) (x : Conn)
    (hn : (cs.map (·.id)).Nodup) (hx : findConn cs c = some x) :
    ((modConn cs c f).map connM).sum + connM x = (cs.map connM).sum + connM (f x) := by
  induction cs with
  | nil => simp [findConn] at hx
  | cons a as ih =>
    simp only [List.map_cons, List.nodup_cons] at hn
    simp only [findConn, List.find?_cons] at hx
    by_cases ha : a.id = c
    · simp only [ha, decide_true] at hx
      have hax : x = a := by simpa using hx.symm
      subst hax
      -- no other element has this id
      have hrest : modConn as c f = as := by
        unfold modConn
        conv => rhs; rw [← List.map_id as]
        apply List.map_congr_left
        intro y hy
        have : y.id ≠ c := fun e => hn.1 (by rw [ha, ← e]; exact List.mem_map_of_mem hy)
        simp [this]
      have hm : modConn (x :: as) c f = f x :: modConn as c f := by simp [modConn, ha]
      rw [hm, hrest]
      simp only [List.map_cons, List.sum_cons]; omega
    · simp only [ha, decide_false] at hx
      have hx' : findConn as c = some x := by simpa [findConn] using hx
      have := ih hn.2 hx'
      have hm : modConn (a :: as) c f = a :: modConn as c f := by simp [modConn, ha]
      rw [hm]
      simp only [List.map_cons, List.sum_cons]; omega

/-- every server-only step of the core relation strictly decreases the measure -/
theorem mu_stepCore (s s' : Srv) (l : Label) (h : Inv s) (hl : l.serverOnly = true ∨ ∃ c, l = .connExit c)
    (hs : stepCore goodFacts s l = some s') : mu s' < mu s := by
  cases l with
  | runListen ok =>
    simp only [stepCore] at hs
    split at hs
    · rename_i hc
      cases hs
      cases ok <;> simp [mu, hc.1, runRank]
    · cases hs
  | runLoopTop =>
    simp only [stepCore] at hs
    split at hs
    · rename_i hc
      split at hs <;> (cases hs; simp [mu, hc, runRank])
    · cases hs
  | runAcceptClosed =>
    simp only [stepCore] at hs
    split at hs
    · rename_i hc; cases hs; simp [mu, hc.1, runRank]
    · cases hs
  | runSpawn =>
    simp only [stepCore, goodFacts, if_true] at hs
    split at hs
    · rename_i hc
      split at hs
      · cases hs; simp [mu, hc, runRank]
      · cases hs; simp [mu, hc, runRank, connM]; omega
    · cases hs
  | stopStep i =>
    simp only [stepCore] at hs
    split at hs
    · -- idle
      rename_i hi
      cases hs
      have := sum_set s.stops i .idle (.at 0) hi
      have e1 : stopRank .idle = 4 := rfl
      have e2 : stopRank (.at 0) = 3 := rfl
      rw [e1, e2] at this
      have e3 : (if goodFacts.stopSeq.length = 0 then StopPc.returned else StopPc.at 0) = .at 0 := by decide
      unfold mu; dsimp only; rw [e3]; omega
    · rename_i k hi
      have hk := h.stopAt _ (List.mem_of_getElem? hi) k rfl
      have hk3 : k = 0 ∨ k = 1 ∨ k = 2 := by omega
      rcases hk3 with rfl | rfl | rfl
      · simp [goodFacts] at hs; cases hs
        have := sum_set s.stops i (.at 0) (.at 1) hi
        have e1 : stopRank (.at 0) = 3 := rfl
        have e2 : stopRank (.at 1) = 2 := rfl
        rw [e1, e2] at this
        unfold mu; dsimp only; omega
      · simp [goodFacts] at hs; cases hs
        have := sum_set s.stops i (.at 1) (.at 2) hi
        have e1 : stopRank (.at 1) = 2 := rfl
        have e2 : stopRank (.at 2) = 1 := rfl
        rw [e1, e2] at this
        unfold mu; dsimp only; omega
      · simp [goodFacts] at hs
        obtain ⟨_, rfl⟩ := hs
        have := sum_set s.stops i (.at 2) .returned hi
        have e1 : stopRank (.at 2) = 1 := rfl
        have e2 : stopRank .returned = 0 := rfl
        rw [e1, e2] at this
        unfold mu; dsimp only; omega
    · cases hs
  | handlerEnd c =>
    simp only [stepCore] at hs
    split at hs
    · rename_i x hx
      split at hs
      · rename_i hlive
        cases hs
        have := sum_modConn s.conns c (fun x => { x with live := x.live - 1 }) x h.ids hx
        simp only [mu, connM] at this ⊢
        omega
      · cases hs
    · cases hs
  | connExit c =>
    simp only [stepCore] at hs
    split at hs
    · rename_i x hx
      split at hs
      · rename_i hserv
        cases hs
        have := sum_modConn s.conns c (fun x => { x with gor := .exited 0 }) x h.ids hx
        simp only [mu, connM, hserv] at this ⊢
        omega
      · cases hs
    · cases hs
  | teardown c =>
    simp only [stepCore] at hs
    split at hs
    · rename_i x hx
      obtain ⟨hxm, _⟩ := findConn_some hx
      have hxok := h.ok x hxm
      split at hs
      · rename_i k hk
        have hk3 : k = 0 ∨ k = 1 ∨ k = 2 := by
          unfold ConnOK at hxok; rw [hk] at hxok
          match k, hxok with
          | 0, _ => simp
          | 1, _ => simp
          | 2, _ => simp
        rcases hk3 with rfl | rfl | rfl
        · simp [goodFacts] at hs
          obtain ⟨_, rfl⟩ := hs
          have := sum_modConn s.conns c (fun x => { x with gor := .exited 1, netClosed := x.netClosed + 1 }) x h.ids hx
          simp only [mu, connM, hk] at this ⊢
          omega
        · simp [goodFacts] at hs
          subst hs
          have := sum_modConn s.conns c (fun x => { x with gor := .exited 2, onClosed := x.onClosed + 1 }) x h.ids hx
          simp only [mu, connM, hk] at this ⊢
          omega
        · simp [goodFacts] at hs
          subst hs
          have := sum_modConn s.conns c (fun x => { x with gor := .gone }) x h.ids hx
          simp only [mu, connM, hk] at this ⊢
          omega
      · cases hs
    · cases hs
  | runAcceptOk => rcases hl with hl | ⟨c, hc⟩ <;> simp_all [Label.serverOnly]
  | runAcceptErr => rcases hl with hl | ⟨c, hc⟩ <;> simp_all [Label.serverOnly]
  | handlerStart c => rcases hl with hl | ⟨c', hc⟩ <;> simp_all [Label.serverOnly]
  | connExitShutdown c => simp [stepCore] at hs
  | connPanic c => simp [stepCore] at hs
  | handlerPanic c => simp [stepCore] at hs

theorem mu_step (s s' : Srv) (l : Label) (h : Inv s) (hl : l.serverOnly = true)
    (hs : step goodFacts s l = some s') : mu s' < mu s := by
  cases l with
  | connExitShutdown c =>
    simp only [step, goodFacts] at hs
    split at hs
    · exact mu_stepCore s s' (.connExit c) h (Or.inr ⟨c, rfl⟩) hs
    · cases hs
  | connPanic c => simp [Label.serverOnly] at hl
  | handlerPanic c => simp [Label.serverOnly] at hl
  | runListen ok => exact mu_stepCore s s' _ h (Or.inl hl) (by simpa [step] using hs)
  | runLoopTop => exact mu_stepCore s s' _ h (Or.inl hl) (by simpa [step] using hs)
  | runAcceptOk => simp [Label.serverOnly] at hl
  | runAcceptClosed => exact mu_stepCore s s' _ h (Or.inl hl) (by simpa [step] using hs)
  | runAcceptErr => simp [Label.serverOnly] at hl
  | runSpawn => exact mu_stepCore s s' _ h (Or.inl hl) (by simpa [step] using hs)
  | stopStep i => exact mu_stepCore s s' _ h (Or.inl hl) (by simpa [step] using hs)
  | connExit c => simp [Label.serverOnly] at hl
  | handlerStart c => simp [Label.serverOnly] at hl
  | handlerEnd c => exact mu_stepCore s s' _ h (Or.inl hl) (by simpa [step] using hs)
  | teardown c => exact mu_stepCore s s' _ h (Or.inl hl) (by simpa [step] using hs)

/-- a run of server-only steps from a state satisfying the invariant is no longer than the measure -/
theorem mu_run (ls : List Label) (s s' : Srv) (h : Inv s) (hl : ∀ l ∈ ls, l.serverOnly = true)
    (hr : run goodFacts s ls = some s') : ls.length + mu s' ≤ mu s := by
  induction ls generalizing s with
  | nil => simp [run] at hr; subst hr; simp
  | cons l ls ih =>
    simp only [run] at hr
    cases hs : step goodFacts s l with
    | none => simp [hs] at hr
    | some s1 =>
      simp [hs] at hr
      have h1 := mu_step s s1 l h (hl l (by simp)) hs
      have h2 := ih s1 (inv_step s s1 l h hs) (fun x hx => hl x (by simp [hx])) hr
      simp only [List.length_cons]; omega

end Server
