import GldapModel.Runtime.Server
namespace Server

def pending : List Conn → Nat
  | [] => 0
  | c :: cs => (if c.gor = .gone then 0 else 1) + pending cs

/-- per-connection bookkeeping for the good teardown order [connClose, onClose, wgDone] -/
def ConnOK (c : Conn) : Prop :=
  match c.gor with
  | .serving => c.netClosed = 0 ∧ c.onClosed = 0
  | .exited 0 => c.netClosed = 0 ∧ c.onClosed = 0
  | .exited 1 => c.netClosed = 1 ∧ c.onClosed = 0 ∧ c.live = 0
  | .exited 2 => c.netClosed = 1 ∧ c.onClosed = 1 ∧ c.live = 0
  | .exited _ => False
  | .gone => c.netClosed = 1 ∧ c.onClosed = 1 ∧ c.live = 0

def stopPastCancel : StopPc → Bool
  | .at k => k ≥ 2
  | .returned => true
  | .idle => false

structure Inv (s : Srv) : Prop where
  wg : s.connWg = pending s.conns
  ok : ∀ c ∈ s.conns, ConnOK c
  ids : (s.conns.map (·.id)).Nodup
  idsLt : ∀ c ∈ s.conns, c.id ≤ s.nextConn ∧ ((s.run = .accepting ∨ s.run = .accepted) → c.id < s.nextConn)
  canc : ∀ p ∈ s.stops, stopPastCancel p = true → s.cancelled = true
  stopAt : ∀ p ∈ s.stops, ∀ k, p = .at k → k < 3
  done : (∃ p ∈ s.stops, p = .returned) → ∀ c ∈ s.conns, c.gor = .gone
  lstNotStarted : s.run = .notStarted → s.lst = .none
  lstReturned : ∀ e, s.run = .returned e → s.lst ≠ .open
  rdy : s.ready = true → s.lst ≠ .none

theorem inv_init (n : Nat) : Inv (init n) := by
  constructor
  · simp [init, pending]
  · simp [init]
  · simp [init]
  · simp [init]
  · intro p hp h; simp [init, List.mem_replicate] at hp; rw [hp.2] at h; simp [stopPastCancel] at h
  · intro p hp k h; simp [init, List.mem_replicate] at hp; rw [hp.2] at h; simp at h
  · intro ⟨p, hp, h⟩; simp [init, List.mem_replicate] at hp; rw [hp.2] at h; simp at h
  · simp [init]
  · simp [init]
  · simp [init]

theorem findConn_some {cs : List Conn} {c : Nat} {x : Conn} (h : findConn cs c = some x) :
    x ∈ cs ∧ x.id = c := by
  unfold findConn at h
  exact ⟨List.mem_of_find?_eq_some h, by simpa using List.find?_some h⟩

theorem modConn_ids (cs : List Conn) (c : Nat) (f : Conn → Conn) (hf : ∀ x, (f x).id = x.id) :
    (modConn cs c f).map (·.id) = cs.map (·.id) := by
  induction cs with
  | nil => rfl
  | cons a as ih =>
    simp only [modConn, List.map_cons] at ih ⊢
    rw [ih]; split <;> simp [hf]

theorem mem_modConn {cs : List Conn} {c : Nat} {f : Conn → Conn} {y : Conn} (h : y ∈ modConn cs c f) :
    ∃ x ∈ cs, y = if x.id = c then f x else x := by
  simp only [modConn, List.mem_map] at h
  obtain ⟨x, hx, rfl⟩ := h
  exact ⟨x, hx, rfl⟩

theorem pending_modConn_same (cs : List Conn) (c : Nat) (f : Conn → Conn)
    (hf : ∀ x ∈ cs, x.id = c → ((f x).gor = .gone ↔ x.gor = .gone)) :
    pending (modConn cs c f) = pending cs := by
  induction cs with
  | nil => rfl
  | cons a as ih =>
    simp only [modConn, List.map_cons, pending] at ih ⊢
    rw [ih (fun x hx => hf x (List.mem_cons_of_mem _ hx))]
    by_cases ha : a.id = c
    · simp only [ha, if_true]
      have := hf a (List.mem_cons_self) ha
      by_cases hg : a.gor = .gone <;> simp [hg, this]
    · simp [ha]

theorem pending_modConn_gone (cs : List Conn) (c : Nat) (f : Conn → Conn) (x : Conn)
    (hx : x ∈ cs) (hid : x.id = c) (hn : (cs.map (·.id)).Nodup)
    (h1 : x.gor ≠ .gone) (h2 : ∀ y, y.id = c → (f y).gor = .gone) :
    pending (modConn cs c f) + 1 = pending cs := by
  induction cs with
  | nil => simp at hx
  | cons a as ih =>
    simp only [List.map_cons, List.nodup_cons] at hn
    simp only [modConn, List.map_cons, pending] at ih ⊢
    rcases List.mem_cons.mp hx with rfl | hx'
    · simp only [hid, if_true, h2 x hid, h1, if_false]
      have : pending (List.map (fun y => if y.id = c then f y else y) as) = pending as := by
        apply pending_modConn_same
        intro y hy hyc
        exfalso; apply hn.1; rw [hid, ← hyc]; exact List.mem_map_of_mem hy
      rw [this]; omega
    · have hac : a.id ≠ c := by
        intro e; apply hn.1; rw [e, ← hid]; exact List.mem_map_of_mem hx'
      simp only [hac, if_false]
      have := ih hx' hn.2
      omega

end Server
