import GldapModel.Spec.ClientEncode
import GldapModel.Ber.RoundTrip
/-! Value-level facts shared by the round-trip proofs (C01, C04, C14). -/
namespace Gldap
open Ber Spec

def Int64 (i : Int) : Prop := -(2^63) ≤ i ∧ i < 2^63

theorem valueOf_int2 (i : Int) (h : Int64 i) : valueOf (Spec.int 2 i) = .int i := by
  simp [Spec.int, valueOf, parseIntLoose, parseInt64_encodeInteger i h]

theorem valueOf_int10 (i : Int) (h : Int64 i) : valueOf (Spec.int 10 i) = .int i := by
  simp [Spec.int, valueOf, parseIntLoose, parseInt64_encodeInteger i h]

theorem valueOf_bool (tt : UInt8) (htt : tt ≠ 0) (b : Bool) : valueOf (Spec.bool tt b) = .bool b := by
  cases b
  · simp [Spec.bool, valueOf, parseIntLoose, parseInt64, beNat]
  · have h0 : tt.toNat ≠ 0 := fun h => htt (UInt8.toNat_inj.mp (by simpa using h))
    have h1 := tt.toNat_lt
    simp only [Spec.bool, valueOf, parseIntLoose, parseInt64, beNat, if_true, List.length_cons, List.length_nil,
      List.foldl_cons, List.foldl_nil]
    simp
    split <;> simp <;> omega

theorem valueOf_octet (s : Bytes) : valueOf (Spec.octet s) = .str s := by
  simp [Spec.octet, valueOf]

@[simp] theorem isKind_int (t : Nat) (i : Int) : isKind (Spec.int t i) 0 false (some t) = true := by
  simp [Spec.int, isKind, Node.cls, Node.constructed, Node.tag]
@[simp] theorem isKind_octet (s : Bytes) : isKind (Spec.octet s) 0 false (some 4) = true := rfl
@[simp] theorem isKind_bool (tt : UInt8) (b : Bool) : isKind (Spec.bool tt b) 0 false (some 1) = true := rfl
@[simp] theorem isKind_seq (ks : List Node) : isKind (Spec.seq ks) 0 true (some 16) = true := rfl
@[simp] theorem isKind_set (ks : List Node) : isKind (Spec.set ks) 0 true (some 17) = true := rfl

theorem encodeInteger_length_le (i : Int) (h : Int64 i) : (encodeInteger i).length ≤ 8 := by
  have := int64Length_spec i h
  simp [encodeInteger, encBE_length]; omega

theorem encLen_length_le (n : Nat) (h : n < 2^63) : (encLen n).length ≤ 9 := by
  unfold encLen
  split
  · simp
  · have := natBE_length_le n 8 (by omega) (by simp at h ⊢; omega)
    simp; omega

theorem ser_prim_length_le (c t : Nat) (content : Bytes) (ht : t < 31) (h : content.length < 2^63) :
    (ser (.prim c t content)).length ≤ 10 + content.length := by
  have h1 : (encId c false t).length = 1 := by simp [encId, ht]
  have h2 := encLen_length_le content.length h
  simp only [ser, List.length_append, h1]; omega

theorem ser_cons_length_le (c t : Nat) (kids : List Node) (ht : t < 31) (h : (serAll kids).length < 2^63) :
    (ser (.cons c t kids)).length ≤ 10 + (serAll kids).length := by
  have h1 : (encId c true t).length = 1 := by simp [encId, ht]
  have h2 := encLen_length_le (serAll kids).length h
  simp only [ser, List.length_append, h1]; omega

end Gldap
