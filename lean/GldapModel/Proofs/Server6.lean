import GldapModel.Proofs.Server5
/-! Liveness of the process (C07) and a few run/stop facts, for the repaired facts. -/
namespace Server

theorem stepCore_alive (F : Facts) (s s' : Srv) (l : Label) (hs : stepCore F s l = some s') : s'.alive = s.alive := by
  cases l <;> simp only [stepCore] at hs
  all_goals (repeat' split at hs)
  all_goals first
    | (simp only [Option.some.injEq] at hs; subst hs; rfl)
    | (simp at hs; done)
    | (cases hs; done)

/-- if every goroutine that can run handler or decode code has a recover, no step kills the
    process - whatever fault is injected, at whatever point -/
theorem step_alive (F : Facts) (hc : F.recoverOnConn = true) (hr : F.recoverOnRequest = true)
    (s s' : Srv) (l : Label) (hs : step F s l = some s') : s'.alive = s.alive := by
  cases l with
  | connExitShutdown c =>
    simp only [step] at hs
    split at hs
    · exact stepCore_alive F s s' _ hs
    · cases hs
  | connPanic c => simp only [step, hc, if_true] at hs; exact stepCore_alive F s s' _ hs
  | handlerPanic c => simp only [step, hr, if_true] at hs; exact stepCore_alive F s s' _ hs
  | runListen ok => exact stepCore_alive F s s' _ (by simpa [step] using hs)
  | runLoopTop => exact stepCore_alive F s s' _ (by simpa [step] using hs)
  | runAcceptOk => exact stepCore_alive F s s' _ (by simpa [step] using hs)
  | runAcceptClosed => exact stepCore_alive F s s' _ (by simpa [step] using hs)
  | runAcceptErr => exact stepCore_alive F s s' _ (by simpa [step] using hs)
  | runSpawn => exact stepCore_alive F s s' _ (by simpa [step] using hs)
  | stopStep i => exact stepCore_alive F s s' _ (by simpa [step] using hs)
  | connExit c => exact stepCore_alive F s s' _ (by simpa [step] using hs)
  | handlerStart c => exact stepCore_alive F s s' _ (by simpa [step] using hs)
  | handlerEnd c => exact stepCore_alive F s s' _ (by simpa [step] using hs)
  | teardown c => exact stepCore_alive F s s' _ (by simpa [step] using hs)

theorem run_alive (F : Facts) (hc : F.recoverOnConn = true) (hr : F.recoverOnRequest = true)
    (ls : List Label) (s s' : Srv) (h : run F s ls = some s') : s'.alive = s.alive := by
  induction ls generalizing s with
  | nil => simp [run] at h; subst h; rfl
  | cons l ls ih =>
    simp only [run] at h
    cases hs : step F s l with
    | none => simp [hs] at h
    | some s1 => simp [hs] at h; rw [ih s1 h, step_alive F hc hr s s1 l hs]

end Server
