import GldapModel.Proofs.Server3
namespace Server

theorem eq_of_same_id {cs : List Conn} (hn : (cs.map (·.id)).Nodup) {x y : Conn}
    (hx : x ∈ cs) (hy : y ∈ cs) (e : x.id = y.id) : x = y := by
  induction cs with
  | nil => simp at hx
  | cons a as ih =>
    simp only [List.map_cons, List.nodup_cons] at hn
    rcases List.mem_cons.mp hx with rfl | hx' <;> rcases List.mem_cons.mp hy with rfl | hy'
    · rfl
    · exfalso; apply hn.1; rw [e]; exact List.mem_map_of_mem hy'
    · exfalso; apply hn.1; rw [← e]; exact List.mem_map_of_mem hx'
    · exact ih hn.2 hx' hy'

/-- generic lemma: updating connection `c` by an id-preserving `f` that keeps ConnOK and gone-ness -/
theorem inv_modConn_same (s : Srv) (c : Nat) (f : Conn → Conn) (h : Inv s)
    (hid : ∀ x, (f x).id = x.id)
    (hok : ∀ x ∈ s.conns, x.id = c → ConnOK (f x))
    (hg : ∀ x ∈ s.conns, x.id = c → ((f x).gor = .gone ↔ x.gor = .gone)) :
    Inv { s with conns := modConn s.conns c f } := by
  constructor
  · simp only; rw [pending_modConn_same _ _ _ hg]; exact h.wg
  · intro y hy
    obtain ⟨x, hx, rfl⟩ := mem_modConn hy
    split
    · rename_i e; exact hok x hx e
    · exact h.ok x hx
  · simp only; rw [modConn_ids _ _ _ hid]; exact h.ids
  · intro y hy
    obtain ⟨x, hx, rfl⟩ := mem_modConn hy
    have := h.idsLt x hx
    split <;> simp [hid] <;> exact this
  · exact h.canc
  · exact h.stopAt
  · intro hex y hy
    obtain ⟨x, hx, rfl⟩ := mem_modConn hy
    have := h.done hex x hx
    split
    · rename_i e; exact (hg x hx e).mpr this
    · exact this
  · exact h.lstNotStarted
  · exact h.lstReturned
  · exact h.rdy

theorem inv_step_conn (s s' : Srv) (c : Nat) (l : Label) (h : Inv s)
    (hl : l = .connExit c ∨ l = .handlerStart c ∨ l = .handlerEnd c)
    (hs : stepCore goodFacts s l = some s') : Inv s' := by
  rcases hl with rfl | rfl | rfl
  all_goals (simp only [stepCore] at hs)
  · split at hs
    · rename_i x hx
      obtain ⟨hxm, hxid⟩ := findConn_some hx
      split at hs
      · rename_i hserv
        simp at hs; subst hs
        apply inv_modConn_same s c _ h (by intro x; rfl)
        · intro y hy hyc
          have := h.ok y hy
          have hyx : y = x := by
            have := h.ids
            exact eq_of_same_id this hy hxm (by rw [hyc, hxid])
          subst hyx
          simp [ConnOK, hserv] at this ⊢; exact this
        · intro y hy hyc
          have hyx : y = x := eq_of_same_id h.ids hy hxm (by rw [hyc, hxid])
          subst hyx; simp [hserv]
      · simp at hs
    · simp at hs
  · split at hs
    · rename_i x hx
      obtain ⟨hxm, hxid⟩ := findConn_some hx
      split at hs
      · rename_i hserv
        simp at hs; subst hs
        apply inv_modConn_same s c _ h (by intro x; rfl)
        · intro y hy hyc
          have hyx : y = x := eq_of_same_id h.ids hy hxm (by rw [hyc, hxid])
          subst hyx
          have := h.ok y hy
          simp [ConnOK, hserv] at this ⊢; exact this
        · intro y hy hyc; simp
      · simp at hs
    · simp at hs
  · split at hs
    · rename_i x hx
      obtain ⟨hxm, hxid⟩ := findConn_some hx
      split at hs
      · rename_i hlive
        simp at hs; subst hs
        apply inv_modConn_same s c _ h (by intro x; rfl)
        · intro y hy hyc
          have hyx : y = x := eq_of_same_id h.ids hy hxm (by rw [hyc, hxid])
          subst hyx
          have := h.ok y hy
          unfold ConnOK at this ⊢
          simp only
          split <;> simp_all <;> omega
        · intro y hy hyc; simp
      · simp at hs
    · simp at hs

end Server
