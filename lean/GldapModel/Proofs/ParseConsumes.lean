import GldapModel.Ber.Parse
/-! The BER reader makes progress: a successful `readPacket` leaves strictly less of the stream
    (at least the identifier and the length octet are consumed). This is what makes "read frame
    after frame until the stream ends" terminate, and what the fuel of `Session.session` rests on. -/
namespace Ber

theorem readHighTag_len (acc cnt : Nat) (bs : Bytes) (t : Nat) (rest : Bytes)
    (h : readHighTag acc cnt bs = some (t, rest)) : rest.length + 1 ≤ bs.length := by
  induction bs generalizing acc cnt with
  | nil => simp [readHighTag] at h
  | cons b bs ih =>
    simp only [readHighTag] at h
    split at h
    · contradiction
    · split at h
      · contradiction
      · split at h
        · injection h with h; injection h with _ h2; subst h2; simp
        · have := ih _ _ h; simp; omega

theorem readIdent_len (bs : Bytes) (c : Nat) (k : Bool) (t : Nat) (rest : Bytes)
    (h : readIdent bs = some (c, k, t, rest)) : rest.length + 1 ≤ bs.length := by
  cases bs with
  | nil => simp [readIdent] at h
  | cons b bs =>
    simp only [readIdent] at h
    split at h
    · injection h with h; simp only [Prod.mk.injEq] at h; obtain ⟨_, _, _, h4⟩ := h; subst h4; simp
    · split at h
      · contradiction
      · rename_i tag rest' hh
        injection h with h; simp only [Prod.mk.injEq] at h; obtain ⟨_, _, _, h4⟩ := h; subst h4
        have := readHighTag_len 0 0 bs _ _ hh
        simp; omega

set_option maxRecDepth 8192 in
theorem readLen_len (bs : Bytes) (l : Option Nat) (rest : Bytes)
    (h : readLen bs = some (l, rest)) : rest.length + 1 ≤ bs.length := by
  cases bs with
  | nil => simp [readLen] at h
  | cons b bs =>
    simp only [readLen] at h
    split at h
    · contradiction
    · split at h
      · injection h with h; simp only [Prod.mk.injEq] at h; obtain ⟨_, h2⟩ := h; subst h2; simp
      · split at h
        · injection h with h; simp only [Prod.mk.injEq] at h; obtain ⟨_, h2⟩ := h; subst h2; simp
        · split at h
          · contradiction
          · split at h
            · contradiction
            · split at h
              · injection h with h; simp only [Prod.mk.injEq] at h; obtain ⟨_, h2⟩ := h; subst h2
                simp [List.length_drop]
              · split at h
                · injection h with h; simp only [Prod.mk.injEq] at h; obtain ⟨_, h2⟩ := h; subst h2
                  simp [List.length_drop]
                · contradiction

mutual
theorem parse_len (ext : Nat → Bytes → Bool) (fuel : Nat) (bs : Bytes) (n : Node) (rest : Bytes)
    (h : parse ext fuel bs = some (n, rest)) : rest.length + 2 ≤ bs.length := by
  match fuel with
  | 0 => simp [parse] at h
  | fuel + 1 =>
    simp only [parse] at h
    split at h
    · contradiction
    · rename_i cls cons tag r1 hid
      have h1 := readIdent_len bs _ _ _ _ hid
      split at h
      · contradiction
      · rename_i len r2 hlen
        have h2 := readLen_len r1 _ _ hlen
        split at h
        · -- constructed
          split at h
          · rename_i nlen
            split at h
            · contradiction
            · rename_i kids rest' hk
              injection h with h; simp only [Prod.mk.injEq] at h; obtain ⟨_, hr⟩ := h; subst hr
              have := kidsDef_len ext fuel nlen r2 _ _ hk
              omega
          · split at h
            · contradiction
            · rename_i kids rest' hk
              injection h with h; simp only [Prod.mk.injEq] at h; obtain ⟨_, hr⟩ := h; subst hr
              have := kidsIndef_len ext fuel r2 _ _ hk
              omega
        · -- primitive
          split at h
          · contradiction
          · rename_i nlen
            split at h
            · contradiction
            · split at h
              · contradiction
              · split at h
                · injection h with h; simp only [Prod.mk.injEq] at h; obtain ⟨_, hr⟩ := h; subst hr
                  simp only [List.length_drop]; omega
                · contradiction
theorem kidsDef_len (ext : Nat → Bytes → Bool) (fuel remaining : Nat) (bs : Bytes) (ks : List Node) (rest : Bytes)
    (h : kidsDef ext fuel remaining bs = some (ks, rest)) : rest.length ≤ bs.length := by
  match fuel with
  | 0 => simp [kidsDef] at h
  | fuel + 1 =>
    simp only [kidsDef] at h
    split at h
    · injection h with h; simp only [Prod.mk.injEq] at h; obtain ⟨_, hr⟩ := h; subst hr; exact Nat.le_refl _
    · split at h
      · contradiction
      · rename_i child rest' hp
        have h1 := parse_len ext fuel bs _ _ hp
        split at h
        · contradiction
        · split at h
          · contradiction
          · split at h
            · contradiction
            · rename_i ks' rest'' hk
              injection h with h; simp only [Prod.mk.injEq] at h; obtain ⟨_, hr⟩ := h; subst hr
              have := kidsDef_len ext fuel _ rest' _ _ hk
              omega
theorem kidsIndef_len (ext : Nat → Bytes → Bool) (fuel : Nat) (bs : Bytes) (ks : List Node) (rest : Bytes)
    (h : kidsIndef ext fuel bs = some (ks, rest)) : rest.length ≤ bs.length := by
  match fuel with
  | 0 => simp [kidsIndef] at h
  | fuel + 1 =>
    simp only [kidsIndef] at h
    split at h
    · contradiction
    · rename_i child rest' hp
      have h1 := parse_len ext fuel bs _ _ hp
      split at h
      · injection h with h; simp only [Prod.mk.injEq] at h; obtain ⟨_, hr⟩ := h; subst hr; omega
      · split at h
        · contradiction
        · rename_i ks' rest'' hk
          injection h with h; simp only [Prod.mk.injEq] at h; obtain ⟨_, hr⟩ := h; subst hr
          have := kidsIndef_len ext fuel rest' _ _ hk
          omega
end

/-- every packet read takes at least two bytes off the stream -/
theorem readPacket_len (ext : Nat → Bytes → Bool) (bs : Bytes) (n : Node) (rest : Bytes)
    (h : readPacket ext bs = some (n, rest)) : rest.length + 2 ≤ bs.length :=
  parse_len ext _ bs n rest h

end Ber
