import GldapModel.Proofs.Server1
namespace Server

theorem stopping_false_iff (s : Srv) : stopping s = false ↔ ∀ p ∈ s.stops, ∀ k, p ≠ .at k := by
  unfold stopping
  rw [Bool.eq_false_iff]
  simp only [ne_eq, List.any_eq_true, not_exists, not_and]
  constructor
  · intro h p hp k e; subst e; exact h _ hp rfl
  · intro h p hp; cases p <;> simp
    rename_i k; exact h _ hp k rfl

theorem inv_step_run (s s' : Srv) (l : Label) (h : Inv s)
    (hl : l = .runListen true ∨ l = .runListen false ∨ l = .runLoopTop ∨ l = .runAcceptOk ∨
          l = .runAcceptClosed ∨ l = .runAcceptErr)
    (hs : stepCore goodFacts s l = some s') : Inv s' := by
  rcases hl with rfl | rfl | rfl | rfl | rfl | rfl
  all_goals (simp only [stepCore, goodFacts] at hs)
  · -- listen ok
    split at hs
    · rename_i hc; simp at hs; subst hs
      exact { h with
        idsLt := by intro c hc'; have := h.idsLt c hc'; simp; exact this.1
        lstNotStarted := by simp
        lstReturned := by simp
        rdy := by simp }
    · simp at hs
  · -- listen fails
    split at hs
    · rename_i hc; simp at hs; subst hs
      have hl := h.lstNotStarted hc.1
      exact { h with
        idsLt := by intro c hc'; have := h.idsLt c hc'; simp; exact this.1
        lstNotStarted := by simp
        lstReturned := by intro e _; simp [hl]
        rdy := by simp }
    · simp at hs
  · -- loop top
    split at hs
    · rename_i hc
      split at hs
      · simp at hs; subst hs
        exact { h with
          idsLt := by intro c hc'; have := h.idsLt c hc'; simp; omega
          lstNotStarted := by simp
          lstReturned := by intro e _; simp; split <;> simp_all
          rdy := by intro hr; have := h.rdy hr; simp; split <;> simp_all }
      · simp at hs; subst hs
        exact { h with
          idsLt := by intro c hc'; have := h.idsLt c hc'; simp; omega
          lstNotStarted := by simp
          lstReturned := by simp }
    · simp at hs
  · -- accept ok
    split at hs
    · rename_i hc; simp at hs; subst hs
      exact { h with
        idsLt := by intro c hc'; have := h.idsLt c hc'; simp; exact ⟨this.1, this.2 (Or.inl hc.1)⟩
        lstNotStarted := by simp
        lstReturned := by simp }
    · simp at hs
  · -- accept on closed listener
    split at hs
    · rename_i hc; simp at hs; subst hs
      exact { h with
        idsLt := by intro c hc'; have := h.idsLt c hc'; simp; exact this.1
        lstNotStarted := by simp
        lstReturned := by intro e _; simp [hc.2] }
    · simp at hs
  · -- accept error: keep accepting
    split at hs
    · rename_i hc; simp at hs; subst hs
      exact { h with
        idsLt := by intro c hc'; have := h.idsLt c hc'; simp; exact this.1
        lstNotStarted := by simp
        lstReturned := by simp }
    · simp at hs

end Server
