import GldapModel.Gldap.ControlEncode
/-! `strconv.ParseInt(strconv.FormatInt(i, 10), 10, 64) = i` for every int64 (byte-level models). -/
namespace Gldap
open Ber

def shift (acc : Nat) (n : Nat) : Nat :=
  if h : n < 10 then acc * 10 + n else shift acc (n / 10) * 10 + n % 10
decreasing_by omega

theorem shift_zero (n : Nat) : shift 0 n = n := by
  induction n using Nat.strongRecOn with
  | _ n ih =>
    unfold shift
    split
    · simp
    · rw [ih (n / 10) (by omega)]; omega

theorem digit_toNat (k : Nat) (h : k < 10) : ((48 + k).toUInt8).toNat = 48 + k := by
  rw [Nat.toUInt8, UInt8.toNat_ofNat']; omega

theorem digitStep_digit (acc k : Nat) (h : k < 10) : digitStep acc (48 + k).toUInt8 = some (acc * 10 + k) := by
  unfold digitStep
  rw [digit_toNat k h, if_pos (by omega)]
  congr 1; omega

theorem foldlM_decDigits (n acc : Nat) : (decDigits n).foldlM digitStep acc = some (shift acc n) := by
  induction n using Nat.strongRecOn generalizing acc with
  | _ n ih =>
    unfold decDigits shift
    split
    · rename_i h
      rw [List.foldlM_cons, digitStep_digit acc n h]; rfl
    · rename_i h
      rw [List.foldlM_append, ih (n / 10) (by omega)]
      rw [Option.bind_eq_bind, Option.bind_some, List.foldlM_cons, digitStep_digit _ (n % 10) (by omega)]; rfl

theorem decDigits_ne_nil (n : Nat) : decDigits n ≠ [] := by
  unfold decDigits; split <;> simp

theorem parseDigits_decDigits (n : Nat) : parseDigits (decDigits n) = some n := by
  have h := foldlM_decDigits n 0
  rw [shift_zero] at h
  cases hd : decDigits n with
  | nil => exact absurd hd (decDigits_ne_nil n)
  | cons d ds =>
    rw [hd] at h
    simpa [parseDigits] using h

theorem decDigits_head (n : Nat) : ∃ d ds, decDigits n = d :: ds ∧ 48 ≤ d.toNat ∧ d.toNat ≤ 57 := by
  induction n using Nat.strongRecOn with
  | _ n ih =>
    unfold decDigits
    split
    · rename_i h
      exact ⟨_, [], rfl, by rw [digit_toNat n h]; omega, by rw [digit_toNat n h]; omega⟩
    · obtain ⟨d, ds, hd, h1, h2⟩ := ih (n / 10) (by omega)
      exact ⟨d, ds ++ [(48 + n % 10).toUInt8], by rw [hd]; rfl, h1, h2⟩


theorem int64Range_ok (i : Int) (h : -(2^63) ≤ i ∧ i < 2^63) : int64Range i = some i := by
  unfold int64Range; rw [if_pos h]

theorem parseDecimal_cons (c : UInt8) (rest : Bytes) : parseDecimal (c :: rest) =
    if c.toNat = 45 then (parseDigits rest).bind (fun n => int64Range (-(n : Int)))
    else if c.toNat = 43 then (parseDigits rest).bind (fun n => int64Range (n : Int))
    else (parseDigits (c :: rest)).bind (fun n => int64Range (n : Int)) := rfl

theorem parseDecimal_formatInt (i : Int) (h : -(2^63) ≤ i ∧ i < 2^63) : parseDecimal (formatInt i) = some i := by
  unfold formatInt
  split
  · rename_i hneg
    have hp := parseDigits_decDigits (-i).toNat
    have h45 : ((45 : UInt8).toNat = 45) := by decide
    have : (-((-i).toNat : Int)) = i := by omega
    rw [parseDecimal_cons, if_pos h45, hp, Option.bind_some, this]
    exact int64Range_ok i h
  · rename_i hnn
    obtain ⟨d, ds, hd, h1, h2⟩ := decDigits_head i.toNat
    have hp := parseDigits_decDigits i.toNat
    rw [hd] at hp ⊢
    have n45 : ¬ d.toNat = 45 := by omega
    have n43 : ¬ d.toNat = 43 := by omega
    have : ((i.toNat : Nat) : Int) = i := by omega
    rw [parseDecimal_cons, if_neg n45, if_neg n43, hp, Option.bind_some, this]
    exact int64Range_ok i h

end Gldap
