import GldapModel.Proofs.Server6
/-! Invariants that do not depend on the other facts: readiness (C17) and connection ids (C09),
    proved for EVERY value of the remaining facts. -/
namespace Server

/-- readiness invariant -/
structure RInv (s : Srv) : Prop where
  notStarted : s.run = .notStarted → s.lst = .none ∧ s.ready = false
  rdy : s.ready = true → s.lst ≠ .none

theorem rinv_init (n : Nat) : RInv (init n) := ⟨by simp [init], by simp [init]⟩

theorem rinv_stepCore (F : Facts) (hF : F.readyOnlyOnSuccess = true) (s s' : Srv) (l : Label) (h : RInv s)
    (hs : stepCore F s l = some s') : RInv s' := by
  obtain ⟨h1, h2⟩ := h
  cases l <;> simp only [stepCore] at hs
  all_goals (repeat' split at hs)
  all_goals first
    | (cases hs; done)
    | (simp at hs; done)
    | (simp only [Option.some.injEq] at hs; subst hs
       constructor
       · intro hr; simp_all
       · intro hr; simp_all)

theorem rinv_step (F : Facts) (hF : F.readyOnlyOnSuccess = true) (s s' : Srv) (l : Label) (h : RInv s)
    (hs : step F s l = some s') : RInv s' := by
  cases l with
  | connExitShutdown c =>
    simp only [step] at hs
    split at hs
    · exact rinv_stepCore F hF s s' _ h hs
    · cases hs
  | connPanic c =>
    simp only [step] at hs
    repeat' split at hs
    all_goals first
      | exact rinv_stepCore F hF s s' _ h hs
      | (cases hs; done)
      | (simp only [Option.some.injEq] at hs; subst hs; exact ⟨h.1, h.2⟩)
  | handlerPanic c =>
    simp only [step] at hs
    repeat' split at hs
    all_goals first
      | exact rinv_stepCore F hF s s' _ h hs
      | (cases hs; done)
      | (simp only [Option.some.injEq] at hs; subst hs; exact ⟨h.1, h.2⟩)
  | runListen ok => exact rinv_stepCore F hF s s' _ h (by simpa [step] using hs)
  | runLoopTop => exact rinv_stepCore F hF s s' _ h (by simpa [step] using hs)
  | runAcceptOk => exact rinv_stepCore F hF s s' _ h (by simpa [step] using hs)
  | runAcceptClosed => exact rinv_stepCore F hF s s' _ h (by simpa [step] using hs)
  | runAcceptErr => exact rinv_stepCore F hF s s' _ h (by simpa [step] using hs)
  | runSpawn => exact rinv_stepCore F hF s s' _ h (by simpa [step] using hs)
  | stopStep i => exact rinv_stepCore F hF s s' _ h (by simpa [step] using hs)
  | connExit c => exact rinv_stepCore F hF s s' _ h (by simpa [step] using hs)
  | handlerStart c => exact rinv_stepCore F hF s s' _ h (by simpa [step] using hs)
  | handlerEnd c => exact rinv_stepCore F hF s s' _ h (by simpa [step] using hs)
  | teardown c => exact rinv_stepCore F hF s s' _ h (by simpa [step] using hs)

theorem rinv_run (F : Facts) (hF : F.readyOnlyOnSuccess = true) (ls : List Label) (s s' : Srv) (h : RInv s)
    (hr : run F s ls = some s') : RInv s' := by
  induction ls generalizing s with
  | nil => simp [run] at hr; subst hr; exact h
  | cons l ls ih =>
    simp only [run] at hr
    cases hs : step F s l with
    | none => simp [hs] at hr
    | some s1 => simp [hs] at hr; exact ih s1 (rinv_step F hF s s1 l h hs) hr

end Server

namespace Server

def idsOf (s : Srv) : List Nat := s.conns.map (·.id)

/-- connection-id invariant: ids handed out are positive, bounded by the counter, strictly
    below it while an accept is in flight, and pairwise distinct -/
structure IInv (s : Srv) : Prop where
  nodup : (idsOf s).Nodup
  pos : ∀ i ∈ idsOf s, 0 < i ∧ i ≤ s.nextConn
  lt : (s.run = .accepting ∨ s.run = .accepted) → 0 < s.nextConn ∧ ∀ i ∈ idsOf s, i < s.nextConn

theorem iinv_init (n : Nat) : IInv (init n) := ⟨by simp [idsOf, init], by simp [idsOf, init], by simp [init]⟩

theorem idsOf_mod (s : Srv) (c : Nat) (f : Conn → Conn) (hf : ∀ x, (f x).id = x.id) (s' : Srv)
    (h : s'.conns = modConn s.conns c f) : idsOf s' = idsOf s := by
  unfold idsOf; rw [h]; exact modConn_ids s.conns c f hf

/-- how a core step changes (ids, counter, run state) -/
theorem stepCore_ids (F : Facts) (s s' : Srv) (l : Label) (hs : stepCore F s l = some s') :
    (idsOf s' = idsOf s ∧ s'.nextConn = s.nextConn ∧ (s'.run = s.run ∨ (s'.run ≠ .accepted ∧ (s'.run = .accepting → False)) ∨
        (s.run = .accepting ∧ s'.run = .accepted)))
    ∨ (idsOf s' = idsOf s ∧ s'.nextConn = s.nextConn + 1 ∧ s.run = .loopTop ∧ s'.run ≠ .accepted)
    ∨ (s.run = .accepted ∧ s'.run = .loopTop ∧ s'.nextConn = s.nextConn ∧
        (idsOf s' = idsOf s ∨ idsOf s' = idsOf s ++ [s.nextConn])) := by
  cases l <;> simp only [stepCore] at hs
  all_goals (repeat' split at hs)
  all_goals first
    | (cases hs; done)
    | (simp at hs; done)
    | (simp only [Option.some.injEq] at hs; subst hs
       first
        | (left; refine ⟨rfl, rfl, ?_⟩; simp_all; done)
        | (left; refine ⟨?_, rfl, Or.inl rfl⟩; unfold idsOf; exact modConn_ids _ _ _ (fun _ => rfl))
        | (right; left; refine ⟨rfl, rfl, by assumption, ?_⟩; simp; done)
        | (right; right; simp_all [idsOf]; done))

theorem iinv_stepCore (F : Facts) (s s' : Srv) (l : Label) (h : IInv s) (hs : stepCore F s l = some s') : IInv s' := by
  obtain ⟨hn, hp, hl⟩ := h
  rcases stepCore_ids F s s' l hs with ⟨e1, e2, e3⟩ | ⟨e1, e2, e3, e4⟩ | ⟨e1, e2, e3, e4⟩
  · refine ⟨by rw [e1]; exact hn, by rw [e1, e2]; exact hp, ?_⟩
    intro hr
    rw [e1, e2]
    rcases e3 with e3 | ⟨e3, e3'⟩ | ⟨e3, e3'⟩
    · rw [e3] at hr; exact hl hr
    · rcases hr with hr | hr
      · exact absurd hr (fun h => e3' h)
      · exact absurd hr e3
    · exact hl (Or.inl e3)
  · refine ⟨by rw [e1]; exact hn, ?_, ?_⟩
    · intro i hi; rw [e1] at hi; rw [e2]; have := hp i hi; omega
    · intro hr
      rw [e1, e2]
      refine ⟨by omega, fun i hi => ?_⟩
      have := hp i hi; omega
  · have hlt := hl (Or.inr e1)
    rcases e4 with e4 | e4
    · refine ⟨by rw [e4]; exact hn, by rw [e4, e3]; exact hp, ?_⟩
      intro hr; rw [e2] at hr; rcases hr with hr | hr <;> cases hr
    · refine ⟨?_, ?_, ?_⟩
      · rw [e4]
        refine List.nodup_append.mpr ⟨hn, by simp, ?_⟩
        intro a ha b hb
        simp at hb; subst hb
        have := hlt.2 a ha; omega
      · intro i hi
        rw [e4] at hi; rw [e3]
        rcases List.mem_append.mp hi with hi | hi
        · exact hp i hi
        · simp at hi; subst hi; exact ⟨hlt.1, Nat.le_refl _⟩
      · intro hr; rw [e2] at hr; rcases hr with hr | hr <;> cases hr

theorem iinv_step (F : Facts) (s s' : Srv) (l : Label) (h : IInv s) (hs : step F s l = some s') : IInv s' := by
  cases l with
  | connExitShutdown c =>
    simp only [step] at hs
    split at hs
    · exact iinv_stepCore F s s' _ h hs
    · cases hs
  | connPanic c =>
    simp only [step] at hs
    repeat' split at hs
    all_goals first
      | exact iinv_stepCore F s s' _ h hs
      | (cases hs; done)
      | (simp only [Option.some.injEq] at hs; subst hs; exact ⟨h.1, h.2, h.3⟩)
  | handlerPanic c =>
    simp only [step] at hs
    repeat' split at hs
    all_goals first
      | exact iinv_stepCore F s s' _ h hs
      | (cases hs; done)
      | (simp only [Option.some.injEq] at hs; subst hs; exact ⟨h.1, h.2, h.3⟩)
  | runListen ok => exact iinv_stepCore F s s' _ h (by simpa [step] using hs)
  | runLoopTop => exact iinv_stepCore F s s' _ h (by simpa [step] using hs)
  | runAcceptOk => exact iinv_stepCore F s s' _ h (by simpa [step] using hs)
  | runAcceptClosed => exact iinv_stepCore F s s' _ h (by simpa [step] using hs)
  | runAcceptErr => exact iinv_stepCore F s s' _ h (by simpa [step] using hs)
  | runSpawn => exact iinv_stepCore F s s' _ h (by simpa [step] using hs)
  | stopStep i => exact iinv_stepCore F s s' _ h (by simpa [step] using hs)
  | connExit c => exact iinv_stepCore F s s' _ h (by simpa [step] using hs)
  | handlerStart c => exact iinv_stepCore F s s' _ h (by simpa [step] using hs)
  | handlerEnd c => exact iinv_stepCore F s s' _ h (by simpa [step] using hs)
  | teardown c => exact iinv_stepCore F s s' _ h (by simpa [step] using hs)

theorem iinv_run (F : Facts) (ls : List Label) (s s' : Srv) (h : IInv s) (hr : run F s ls = some s') : IInv s' := by
  induction ls generalizing s with
  | nil => simp [run] at hr; subst hr; exact h
  | cons l ls ih =>
    simp only [run] at hr
    cases hs : step F s l with
    | none => simp [hs] at hr
    | some s1 => simp [hs] at hr; exact ih s1 (iinv_step F s s1 l h hs) hr

end Server
