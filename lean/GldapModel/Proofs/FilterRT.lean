import GldapModel.Gldap.Filter
/-! Helper lemmas for the filter round trip (`Props/C01.lean`): what `DecompileFilter` returns on the
    RFC 4511 encoding of a filter is the filter's RFC 4515 string. -/
namespace Gldap.Filter
open Ber

theorem subLoop_encode (first : Bool) (subs : List Sub) :
    subLoop first (subs.map encodeSub) = renderSubs first subs := by
  induction subs generalizing first with
  | nil => simp [subLoop, renderSubs]
  | cons s ss ih =>
    cases s <;> cases first <;> simp [subLoop, renderSubs, encodeSub, Node.tag, Node.data, ih]

theorem dnFlag_true (tt : UInt8) (htt : tt ≠ 0) : dnFlag true (.prim 2 4 [tt]) = some true := by
  simp [dnFlag, valueOf, Node.data, htt]

theorem leaf_ext (tt : UInt8) (htt : tt ≠ 0) (rule type : Option Bytes) (value : Bytes) (dn : Bool) :
    leaf true 9 (encodeExt tt rule type value dn) (serAll (encodeExt tt rule type value dn)) =
      some (type.getD [] ++ (if dn then [58, 100, 110] else []) ++
        (match rule with | some r => (if r.isEmpty then [] else 58 :: r) | none => []) ++ [58, 61] ++ escape value) := by
  cases rule <;> cases type <;> cases dn <;>
    simp [leaf, encodeExt, extLoop, extRender, Node.tag, Node.data, dnFlag_true tt htt]

mutual
theorem decompile_encode (tt : UInt8) (htt : tt ≠ 0) : ∀ f : Filter, decompile true (encode tt f) = some (render f)
  | .and fs => by simp [encode, decompile, render, decompileAll_encodeAll tt htt fs]
  | .or fs => by simp [encode, decompile, render, decompileAll_encodeAll tt htt fs]
  | .not f => by simp [encode, decompile, decompileFirst, render, decompile_encode tt htt f]
  | .eq a v => by simp [encode, decompile, render, leaf, ava, octet, Node.data]
  | .substr a subs => by simp [encode, decompile, render, leaf, octet, Node.data, Node.kids, subLoop_encode]
  | .ge a v => by simp [encode, decompile, render, leaf, ava, octet, Node.data]
  | .le a v => by simp [encode, decompile, render, leaf, ava, octet, Node.data]
  | .present a => by simp [encode, decompile, render, leaf]
  | .approx a v => by simp [encode, decompile, render, leaf, ava, octet, Node.data]
  | .ext rule type value dn => by
      simp only [encode, decompile, render]
      simp [leaf_ext tt htt]
      cases rule <;> rfl
theorem decompileAll_encodeAll (tt : UInt8) (htt : tt ≠ 0) :
    ∀ fs : List Filter, decompileAll true (encodeAll tt fs) = some (renderAll fs)
  | [] => by simp [encodeAll, decompileAll, renderAll]
  | f :: fs => by
      simp [encodeAll, decompileAll, renderAll, decompile_encode tt htt f, decompileAll_encodeAll tt htt fs]
end

end Gldap.Filter
