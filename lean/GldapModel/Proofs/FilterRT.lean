import GldapModel.Gldap.Filter
/-! Helper lemmas for the filter round trip (`Props/C01.lean`): what `DecompileFilter` returns on the
    RFC 4511 encoding of a filter is the filter's RFC 4515 string. -/
namespace Gldap.Filter
open Ber

theorem subLoop_encode (first : Bool) (subs : List Sub) :
    subLoop first (subs.map encodeSub) = renderSubs first subs := by
  induction subs generalizing first with
  | nil => simp [subLoop, renderSubs]
  | cons s ss ih =>
    cases s <;> cases first <;> simp [subLoop, renderSubs, encodeSub, Node.tag, Node.data, ih]

theorem dnFlag_true (tt : UInt8) (htt : tt ≠ 0) : dnFlag true (.prim 2 4 [tt]) = some true := by
  simp [dnFlag, valueOf, Node.data, htt]

theorem leaf_ext (tt : UInt8) (htt : tt ≠ 0) (rule type : Option Bytes) (value : Bytes) (dn : Bool) :
    leaf true 9 (encodeExt tt rule type value dn) (serAll (encodeExt tt rule type value dn)) =
      some (type.getD [] ++ (if dn then [58, 100, 110] else []) ++
        (match rule with | some r => (if r.isEmpty then [] else 58 :: r) | none => []) ++ [58, 61] ++ escape value) := by
  cases rule <;> cases type <;> cases dn <;>
    simp [leaf, encodeExt, extLoop, extRender, Node.tag, Node.data, dnFlag_true tt htt]

mutual
theorem decompile_encode (tt : UInt8) (htt : tt ≠ 0) : ∀ f : Filter, decompile true (encode tt f) = some (render f)
  | .and fs => by simp [encode, decompile, render, decompileAll_encodeAll tt htt fs]
  | .or fs => by simp [encode, decompile, render, decompileAll_encodeAll tt htt fs]
  | .not f => by simp [encode, decompile, decompileFirst, render, decompile_encode tt htt f]
  | .eq a v => by simp [encode, decompile, render, leaf, ava, octet, Node.data]
  | .substr a subs => by simp [encode, decompile, render, leaf, octet, Node.data, Node.kids, subLoop_encode]
  | .ge a v => by simp [encode, decompile, render, leaf, ava, octet, Node.data]
  | .le a v => by simp [encode, decompile, render, leaf, ava, octet, Node.data]
  | .present a => by simp [encode, decompile, render, leaf]
  | .approx a v => by simp [encode, decompile, render, leaf, ava, octet, Node.data]
  | .ext rule type value dn => by
      simp only [encode, decompile, render]
      simp [leaf_ext tt htt]
      cases rule <;> rfl
theorem decompileAll_encodeAll (tt : UInt8) (htt : tt ≠ 0) :
    ∀ fs : List Filter, decompileAll true (encodeAll tt fs) = some (renderAll fs)
  | [] => by simp [encodeAll, decompileAll, renderAll]
  | f :: fs => by
      simp [encodeAll, decompileAll, renderAll, decompile_encode tt htt f, decompileAll_encodeAll tt htt fs]
end

/-! ### the repair is conservative -/

theorem dnFlag_mono (c : Node) (b : Bool) (h : dnFlag false c = some b) : dnFlag true c = some b := by
  unfold dnFlag at *
  cases hv : valueOf c <;> simp only [hv] at h ⊢ <;> try exact h
  split at h <;> simp at h

theorem extLoop_mono : ∀ (cs : List Node) (a r : ExtAcc), extLoop false cs a = some r → extLoop true cs a = some r
  | [], a, r, h => by simpa [extLoop] using h
  | c :: cs, a, r, h => by
    unfold extLoop at h ⊢
    by_cases h1 : c.tag = 1
    · simp only [h1, if_true] at h ⊢; exact extLoop_mono cs _ r h
    · by_cases h2 : c.tag = 2
      · simp only [h1, h2, if_false, if_true] at h ⊢; exact extLoop_mono cs _ r h
      · by_cases h3 : c.tag = 3
        · simp only [h1, h2, h3, if_false, if_true] at h ⊢; exact extLoop_mono cs _ r h
        · by_cases h4 : c.tag = 4
          · simp only [h1, h2, h3, h4, if_false, if_true] at h ⊢
            cases hd : dnFlag false c with
            | none => simp [hd] at h
            | some b =>
              rw [dnFlag_mono c b hd]
              simp only [hd, Option.bind_some] at h ⊢
              exact extLoop_mono cs _ r h
          · simp only [h1, h2, h3, h4, if_false] at h ⊢; exact extLoop_mono cs _ r h

theorem leaf_mono (t : Nat) (kids : List Node) (data s : Bytes) (h : leaf false t kids data = some s) :
    leaf true t kids data = some s := by
  unfold leaf at h ⊢
  by_cases h9 : t = 9
  · subst h9
    simp only [show (9 : Nat) ≠ 3 by decide, show (9 : Nat) ≠ 4 by decide, show (9 : Nat) ≠ 5 by decide,
      show (9 : Nat) ≠ 6 by decide, show (9 : Nat) ≠ 7 by decide, show (9 : Nat) ≠ 8 by decide, if_false, if_true] at h ⊢
    cases he : extLoop false kids {} with
    | none => simp [he] at h
    | some r => rw [extLoop_mono kids {} r he]; simpa [he] using h
  · simp only [h9, if_false] at h ⊢; exact h

mutual
/-- the repair (decoding the dnAttributes flag before decompiling) only turns errors into answers: whatever the
    pre-fix pipeline delivered as the filter string, the repaired one delivers too -/
theorem decompile_mono : ∀ (n : Node) (s : Bytes), decompile false n = some s → decompile true n = some s
  | .prim c t content, s, h => by
    unfold decompile at h ⊢
    by_cases h0 : t = 0
    · simpa [h0] using h
    · by_cases h1 : t = 1
      · simpa [h0, h1] using h
      · by_cases h2 : t = 2
        · simp [h0, h1, h2] at h
        · simp only [h0, h1, h2, if_false] at h ⊢
          cases hl : leaf false t [] content with
          | none => simp [hl] at h
          | some x => rw [leaf_mono t [] content x hl]; simpa [hl] using h
  | .cons c t kids, s, h => by
    unfold decompile at h ⊢
    by_cases h0 : t = 0
    · simp only [h0, if_true] at h ⊢
      cases ha : decompileAll false kids with
      | none => simp [ha] at h
      | some x => rw [decompileAll_mono kids x ha]; simpa [ha] using h
    · by_cases h1 : t = 1
      · simp only [h0, h1, if_false, if_true] at h ⊢
        cases ha : decompileAll false kids with
        | none => simp [ha] at h
        | some x => rw [decompileAll_mono kids x ha]; simpa [ha] using h
      · by_cases h2 : t = 2
        · simp only [h0, h1, h2, if_false, if_true] at h ⊢
          cases ha : decompileFirst false kids with
          | none => simp [ha] at h
          | some x => rw [decompileFirst_mono kids x ha]; simpa [ha] using h
        · simp only [h0, h1, h2, if_false] at h ⊢
          cases hl : leaf false t kids (serAll kids) with
          | none => simp [hl] at h
          | some x => rw [leaf_mono t kids _ x hl]; simpa [hl] using h
theorem decompileFirst_mono : ∀ (ks : List Node) (s : Bytes), decompileFirst false ks = some s → decompileFirst true ks = some s
  | [], s, h => by simp [decompileFirst] at h
  | k :: _, s, h => by
    unfold decompileFirst at h ⊢
    exact decompile_mono k s h
theorem decompileAll_mono : ∀ (ks : List Node) (s : Bytes), decompileAll false ks = some s → decompileAll true ks = some s
  | [], s, h => by simpa [decompileAll] using h
  | k :: ks, s, h => by
    unfold decompileAll at h ⊢
    cases hk : decompile false k with
    | none => simp [hk] at h
    | some a =>
      rw [decompile_mono k a hk]
      simp only [hk] at h ⊢
      cases hr : decompileAll false ks with
      | none => simp [hr] at h
      | some b => rw [decompileAll_mono ks b hr]; simpa [hr] using h
end

/-! ### assertion values survive: `escape` has a left inverse -/

def unhexDigit (c : UInt8) : Nat := if c.toNat ≤ 57 then c.toNat - 48 else c.toNat - 87

/-- the inverse of `escape` (RFC 4515 `\\xx`), a proof device: go-ldap's own unescaping is not modelled -/
def unescape : Bytes → Bytes
  | c :: h :: l :: rest =>
    if c = 92 then (unhexDigit h * 16 + unhexDigit l).toUInt8 :: unescape rest else c :: unescape (h :: l :: rest)
  | c :: rest => c :: unescape rest
  | [] => []
termination_by l => l.length

theorem unescape_esc (h l : UInt8) (rest : Bytes) :
    unescape (92 :: h :: l :: rest) = (unhexDigit h * 16 + unhexDigit l).toUInt8 :: unescape rest := by
  rw [unescape]; simp

theorem unescape_plain (c : UInt8) (hc : c ≠ 92) (rest : Bytes) : unescape (c :: rest) = c :: unescape rest := by
  match rest with
  | [] => rw [unescape]; simp [unescape]
  | [a] => rw [unescape]; simp [unescape]
  | a :: b :: r => rw [unescape]; simp [hc]

theorem unhex_hex (n : Nat) (h : n < 16) : unhexDigit (hexDigit n) = n := by
  have : ∀ n, n < 16 → unhexDigit (hexDigit n) = n := by decide
  exact this n h

theorem byte_split (c : UInt8) : (c.toNat / 16 * 16 + c.toNat % 16).toUInt8 = c := by
  have h : c.toNat / 16 * 16 + c.toNat % 16 = c.toNat := by omega
  rw [h]; simp

theorem unescape_escape (v : Bytes) : unescape (escape v) = v := by
  induction v with
  | nil => simp [escape]; rw [unescape]
  | cons c cs ih =>
    unfold escape
    by_cases hm : mustEscape c = true
    · have h1 : c.toNat / 16 < 16 := by have := c.toNat_lt; omega
      have h2 : c.toNat % 16 < 16 := by omega
      simp only [hm, if_true, unescape_esc, unhex_hex _ h1, unhex_hex _ h2, byte_split, ih]
    · have hc : c ≠ 92 := by
        intro h; subst h; simp [mustEscape] at hm
      simp [hm, unescape_plain c hc, ih]

theorem escape_injective (a b : Bytes) (h : escape a = escape b) : a = b := by
  have := congrArg unescape h
  simpa [unescape_escape] using this


/-- two assertions on the same attribute with the same operator render alike only if their values are equal -/
theorem ava_render_injective (a op v v' : Bytes) (h : paren (a ++ op ++ escape v) = paren (a ++ op ++ escape v')) : v = v' := by
  simp only [paren, List.cons.injEq, true_and] at h
  have h2 := List.append_cancel_right h
  have h3 := List.append_cancel_left h2
  exact escape_injective v v' h3

end Gldap.Filter
