import GldapModel.Proofs.Server4
namespace Server

theorem inv_step_teardown (s s' : Srv) (c : Nat) (h : Inv s)
    (hs : stepCore goodFacts s (.teardown c) = some s') : Inv s' := by
  simp only [stepCore] at hs
  split at hs
  · rename_i x hx
    obtain ⟨hxm, hxid⟩ := findConn_some hx
    have hxok := h.ok x hxm
    split at hs
    · rename_i k hk
      have hk3 : k = 0 ∨ k = 1 ∨ k = 2 := by
        unfold ConnOK at hxok; rw [hk] at hxok
        match k, hxok with
        | 0, _ => simp
        | 1, _ => simp
        | 2, _ => simp
      rcases hk3 with rfl | rfl | rfl
      · -- connClose (waits for handlers)
        simp [goodFacts] at hs
        obtain ⟨hlive, rfl⟩ := hs
        apply inv_modConn_same s c _ h (by intro x; rfl)
        · intro y hy hyc
          have hyx : y = x := eq_of_same_id h.ids hy hxm (by rw [hyc, hxid])
          subst hyx
          simp [ConnOK, hk] at hxok ⊢
          omega
        · intro y hy hyc
          have hyx : y = x := eq_of_same_id h.ids hy hxm (by rw [hyc, hxid])
          subst hyx; simp [hk]
      · -- onClose
        simp [goodFacts] at hs
        subst hs
        apply inv_modConn_same s c _ h (by intro x; rfl)
        · intro y hy hyc
          have hyx : y = x := eq_of_same_id h.ids hy hxm (by rw [hyc, hxid])
          subst hyx
          simp [ConnOK, hk] at hxok ⊢
          omega
        · intro y hy hyc
          have hyx : y = x := eq_of_same_id h.ids hy hxm (by rw [hyc, hxid])
          subst hyx; simp [hk]
      · -- wgDone: the goroutine is gone
        simp [goodFacts] at hs
        subst hs
        have hne : x.gor ≠ .gone := by rw [hk]; simp
        have hp := pending_modConn_gone s.conns c (fun x => { x with gor := .gone }) x hxm hxid h.ids hne (by intro y _; rfl)
        constructor
        · simp only; have := h.wg; omega
        · intro y hy
          obtain ⟨z, hz, rfl⟩ := mem_modConn hy
          split
          · rename_i e
            have hzx : z = x := eq_of_same_id h.ids hz hxm (by rw [e, hxid])
            subst hzx
            simp [ConnOK, hk] at hxok ⊢; exact hxok
          · exact h.ok z hz
        · simp only; rw [modConn_ids _ _ _ (by intro x; rfl)]; exact h.ids
        · intro y hy
          obtain ⟨z, hz, rfl⟩ := mem_modConn hy
          have := h.idsLt z hz
          split <;> simp <;> exact this
        · exact h.canc
        · exact h.stopAt
        · intro hex y hy
          obtain ⟨z, hz, rfl⟩ := mem_modConn hy
          split
          · rfl
          · exact h.done hex z hz
        · exact h.lstNotStarted
        · exact h.lstReturned
        · exact h.rdy
    · simp at hs
  · simp at hs

theorem inv_stepCore (s s' : Srv) (l : Label) (h : Inv s) (hs : stepCore goodFacts s l = some s') : Inv s' := by
  cases l with
  | runListen ok => cases ok
                    · exact inv_step_run s s' _ h (by simp) hs
                    · exact inv_step_run s s' _ h (by simp) hs
  | runLoopTop => exact inv_step_run s s' _ h (by simp) hs
  | runAcceptOk => exact inv_step_run s s' _ h (by simp) hs
  | runAcceptClosed => exact inv_step_run s s' _ h (by simp) hs
  | runAcceptErr => exact inv_step_run s s' _ h (by simp) hs
  | runSpawn => exact inv_step_spawn s s' h hs
  | stopStep i => exact inv_step_stop s s' i h hs
  | connExit c => exact inv_step_conn s s' c _ h (by simp) hs
  | handlerStart c => exact inv_step_conn s s' c _ h (by simp) hs
  | handlerEnd c => exact inv_step_conn s s' c _ h (by simp) hs
  | teardown c => exact inv_step_teardown s s' c h hs
  | connExitShutdown c => simp [stepCore] at hs
  | connPanic c => simp [stepCore] at hs
  | handlerPanic c => simp [stepCore] at hs

/-- with the repaired facts the fault / shutdown labels reduce to core steps -/
theorem step_good (s : Srv) (l : Label) (s' : Srv) (hs : step goodFacts s l = some s') :
    ∃ l', stepCore goodFacts s l' = some s' := by
  cases l with
  | connExitShutdown c =>
    simp only [step, goodFacts] at hs
    split at hs
    · exact ⟨_, hs⟩
    · cases hs
  | connPanic c => simp only [step, goodFacts, if_true] at hs; exact ⟨_, hs⟩
  | handlerPanic c => simp only [step, goodFacts, if_true] at hs; exact ⟨_, hs⟩
  | runListen ok => exact ⟨_, by simpa [step] using hs⟩
  | runLoopTop => exact ⟨_, by simpa [step] using hs⟩
  | runAcceptOk => exact ⟨_, by simpa [step] using hs⟩
  | runAcceptClosed => exact ⟨_, by simpa [step] using hs⟩
  | runAcceptErr => exact ⟨_, by simpa [step] using hs⟩
  | runSpawn => exact ⟨_, by simpa [step] using hs⟩
  | stopStep i => exact ⟨_, by simpa [step] using hs⟩
  | connExit c => exact ⟨_, by simpa [step] using hs⟩
  | handlerStart c => exact ⟨_, by simpa [step] using hs⟩
  | handlerEnd c => exact ⟨_, by simpa [step] using hs⟩
  | teardown c => exact ⟨_, by simpa [step] using hs⟩

theorem inv_step (s s' : Srv) (l : Label) (h : Inv s) (hs : step goodFacts s l = some s') : Inv s' := by
  obtain ⟨l', hl'⟩ := step_good s l s' hs
  exact inv_stepCore s s' l' h hl'

theorem inv_run (ls : List Label) (s s' : Srv) (h : Inv s) (hr : run goodFacts s ls = some s') : Inv s' := by
  induction ls generalizing s with
  | nil => simp [run] at hr; subst hr; exact h
  | cons l ls ih =>
    simp only [run] at hr
    cases hs : step goodFacts s l with
    | none => simp [hs] at hr
    | some s1 => simp [hs] at hr; exact ih s1 (inv_step s s1 l h hs) hr

/-- C12 on the model with the repaired facts: for every schedule of Run, any number of Stop
    calls, any number of connections, handlers and teardown interleavings - once a Stop has
    returned and Run has returned, the listener is not open and every accepted connection's
    goroutine is gone with exactly one close, exactly one OnClose and no live handler. -/
theorem C12_quiescent_good (n : Nat) (ls : List Label) (s : Srv) (hr : run goodFacts (init n) ls = some s)
    (hstop : ∃ p ∈ s.stops, p = .returned) (hrun : ∃ e, s.run = .returned e) :
    s.lst ≠ .open ∧ ∀ c ∈ s.conns, c.gor = .gone ∧ c.live = 0 ∧ c.netClosed = 1 ∧ c.onClosed = 1 := by
  have h := inv_run ls (init n) s (inv_init n) hr
  obtain ⟨e, he⟩ := hrun
  refine ⟨h.lstReturned e he, ?_⟩
  intro c hc
  have hg := h.done hstop c hc
  have := h.ok c hc
  simp [ConnOK, hg] at this
  exact ⟨hg, this.2.2, this.1, this.2.1⟩

theorem C09_unique_good (n : Nat) (ls : List Label) (s : Srv) (hr : run goodFacts (init n) ls = some s) :
    (s.conns.map (·.id)).Nodup ∧ ∀ c ∈ s.conns, c.id ≤ s.nextConn :=
  let h := inv_run ls (init n) s (inv_init n) hr
  ⟨h.ids, fun c hc => (h.idsLt c hc).1⟩

theorem C08_at_most_once_good (n : Nat) (ls : List Label) (s : Srv) (hr : run goodFacts (init n) ls = some s) :
    ∀ c ∈ s.conns, c.netClosed ≤ 1 ∧ c.onClosed ≤ 1 ∧ (c.onClosed = 1 → c.netClosed = 1 ∧ c.live = 0) := by
  have h := inv_run ls (init n) s (inv_init n) hr
  intro c hc
  have := h.ok c hc
  unfold ConnOK at this
  split at this <;> simp_all

theorem C17_ready_good (n : Nat) (ls : List Label) (s : Srv) (hr : run goodFacts (init n) ls = some s) :
    s.ready = true → s.lst ≠ .none :=
  (inv_run ls (init n) s (inv_init n) hr).rdy

end Server
