import GldapModel.Proofs.ParseConsumes
/-! The BER reader is *streaming*: what it returns for the first element of a stream does not
    depend on what follows that element, nor on how much fuel it was given beyond what it needed.
    (`parse_ser` says this for canonical encodings; here it is for every byte string the reader
    accepts: indefinite lengths, padded lengths, high tag numbers, anything.) -/
namespace Ber

theorem readHighTag_ext (acc cnt : Nat) (bs t : Bytes) (tag : Nat) (rest : Bytes)
    (h : readHighTag acc cnt bs = some (tag, rest)) : readHighTag acc cnt (bs ++ t) = some (tag, rest ++ t) := by
  induction bs generalizing acc cnt with
  | nil => simp [readHighTag] at h
  | cons b bs ih =>
    simp only [readHighTag, List.cons_append] at h ⊢
    split at h
    · contradiction
    · rename_i h1
      simp only [h1, if_false]
      split at h
      · contradiction
      · rename_i h2
        simp only [h2, if_false]
        split at h
        · rename_i h3
          simp only [h3, if_true]
          injection h with h; simp only [Prod.mk.injEq] at h; obtain ⟨ha, hb⟩ := h; subst ha; subst hb; rfl
        · rename_i h3
          simp only [h3, if_false]
          exact ih _ _ h

theorem readIdent_ext (bs t : Bytes) (c : Nat) (k : Bool) (tag : Nat) (rest : Bytes)
    (h : readIdent bs = some (c, k, tag, rest)) : readIdent (bs ++ t) = some (c, k, tag, rest ++ t) := by
  cases bs with
  | nil => simp [readIdent] at h
  | cons b bs =>
    simp only [readIdent, List.cons_append] at h ⊢
    split at h
    · rename_i h1
      simp only [h1, if_true]
      injection h with h; simp only [Prod.mk.injEq] at h
      obtain ⟨h1, h2, h3, h4⟩ := h; subst h1; subst h2; subst h3; subst h4; rfl
    · rename_i h1
      simp only [h1, if_false]
      split at h
      · contradiction
      · rename_i tg r hh
        rw [readHighTag_ext 0 0 bs t tg r hh]
        injection h with h; simp only [Prod.mk.injEq] at h
        obtain ⟨h1, h2, h3, h4⟩ := h; subst h1; subst h2; subst h3; subst h4; rfl

set_option maxRecDepth 8192 in
theorem readLen_ext (bs t : Bytes) (l : Option Nat) (rest : Bytes)
    (h : readLen bs = some (l, rest)) : readLen (bs ++ t) = some (l, rest ++ t) := by
  cases bs with
  | nil => simp [readLen] at h
  | cons b bs =>
    simp only [readLen, List.cons_append] at h ⊢
    split at h
    · contradiction
    · rename_i h1
      simp only [h1, if_false]
      split at h
      · rename_i h2
        simp only [h2, if_true]
        injection h with h; simp only [Prod.mk.injEq] at h; obtain ⟨ha, hb⟩ := h; subst ha; subst hb; rfl
      · rename_i h2
        simp only [h2, if_false]
        split at h
        · rename_i h3
          simp only [h3, if_true]
          injection h with h; simp only [Prod.mk.injEq] at h; obtain ⟨ha, hb⟩ := h; subst ha; subst hb; rfl
        · rename_i h3
          simp only [h3, if_false]
          split at h
          · contradiction
          · rename_i h4
            simp only [h4, if_false]
            split at h
            · contradiction
            · rename_i h5
              have hk : b.toNat - 128 ≤ bs.length := by omega
              have h5' : ¬ ((bs ++ t).length < b.toNat - 128) := by simp only [List.length_append]; omega
              simp only [h5', if_false, List.take_append_of_le_length hk, List.drop_append_of_le_length hk]
              split at h
              · rename_i h6
                simp only [h6, if_true]
                injection h with h; simp only [Prod.mk.injEq] at h; obtain ⟨ha, hb⟩ := h; subst ha; subst hb; rfl
              · rename_i h6
                simp only [h6, if_false]
                split at h
                · rename_i h7
                  simp only [h7, if_true]
                  injection h with h; simp only [Prod.mk.injEq] at h; obtain ⟨ha, hb⟩ := h; subst ha; subst hb; rfl
                · contradiction

mutual
theorem parse_ext (ext : Nat → Bytes → Bool) (fuel : Nat) (bs t : Bytes) (n : Node) (rest : Bytes)
    (h : parse ext fuel bs = some (n, rest)) : parse ext fuel (bs ++ t) = some (n, rest ++ t) := by
  match fuel with
  | 0 => simp [parse] at h
  | fuel + 1 =>
    simp only [parse] at h ⊢
    split at h
    · contradiction
    · rename_i cls cons tag r1 hid
      rw [readIdent_ext bs t _ _ _ _ hid]
      simp only
      split at h
      · contradiction
      · rename_i len r2 hlen
        rw [readLen_ext r1 t _ _ hlen]
        simp only
        split at h
        · rename_i hc
          simp only [hc, if_true]
          split at h
          · rename_i nlen
            split at h
            · contradiction
            · rename_i kids rest' hk
              rw [kidsDef_ext ext fuel nlen r2 t kids rest' hk]
              injection h with h; simp only [Prod.mk.injEq] at h; obtain ⟨ha, hb⟩ := h; subst ha; subst hb; rfl
          · split at h
            · contradiction
            · rename_i kids rest' hk
              rw [kidsIndef_ext ext fuel r2 t kids rest' hk]
              injection h with h; simp only [Prod.mk.injEq] at h; obtain ⟨ha, hb⟩ := h; subst ha; subst hb; rfl
        · rename_i hc
          simp only [hc, if_false, Bool.false_eq_true]
          split at h
          · contradiction
          · rename_i nlen
            split at h
            · contradiction
            · rename_i h1
              simp only [h1, if_false]
              split at h
              · contradiction
              · rename_i h2
                have hk : nlen ≤ r2.length := by omega
                have h2' : ¬ ((r2 ++ t).length < nlen) := by simp only [List.length_append]; omega
                simp only [h2', if_false, List.take_append_of_le_length hk, List.drop_append_of_le_length hk]
                split at h
                · rename_i h3
                  simp only [h3, if_true]
                  injection h with h; simp only [Prod.mk.injEq] at h; obtain ⟨ha, hb⟩ := h; subst ha; subst hb; rfl
                · contradiction
theorem kidsDef_ext (ext : Nat → Bytes → Bool) (fuel remaining : Nat) (bs t : Bytes) (ks : List Node) (rest : Bytes)
    (h : kidsDef ext fuel remaining bs = some (ks, rest)) : kidsDef ext fuel remaining (bs ++ t) = some (ks, rest ++ t) := by
  match fuel with
  | 0 => simp [kidsDef] at h
  | fuel + 1 =>
    simp only [kidsDef] at h ⊢
    split at h
    · rename_i h0
      simp only [h0, if_true]
      injection h with h; simp only [Prod.mk.injEq] at h; obtain ⟨ha, hb⟩ := h; subst ha; subst hb; rfl
    · rename_i h0
      simp only [h0, if_false]
      split at h
      · contradiction
      · rename_i child rest' hp
        have hl := parse_len ext fuel bs child rest' hp
        rw [parse_ext ext fuel bs t child rest' hp]
        simp only
        have hcons : (bs ++ t).length - (rest' ++ t).length = bs.length - rest'.length := by
          simp only [List.length_append]; omega
        rw [hcons]
        split at h
        · contradiction
        · rename_i h1
          simp only [h1, if_false]
          split at h
          · contradiction
          · rename_i h2
            simp only [h2, if_false]
            split at h
            · contradiction
            · rename_i ks' rest'' hk
              rw [kidsDef_ext ext fuel _ rest' t ks' rest'' hk]
              injection h with h; simp only [Prod.mk.injEq] at h; obtain ⟨ha, hb⟩ := h; subst ha; subst hb; rfl
theorem kidsIndef_ext (ext : Nat → Bytes → Bool) (fuel : Nat) (bs t : Bytes) (ks : List Node) (rest : Bytes)
    (h : kidsIndef ext fuel bs = some (ks, rest)) : kidsIndef ext fuel (bs ++ t) = some (ks, rest ++ t) := by
  match fuel with
  | 0 => simp [kidsIndef] at h
  | fuel + 1 =>
    simp only [kidsIndef] at h ⊢
    split at h
    · contradiction
    · rename_i child rest' hp
      rw [parse_ext ext fuel bs t child rest' hp]
      simp only
      split at h
      · rename_i h1
        simp only [h1, if_true]
        injection h with h; simp only [Prod.mk.injEq] at h; obtain ⟨ha, hb⟩ := h; subst ha; subst hb; rfl
      · rename_i h1
        simp only [h1, if_false]
        split at h
        · contradiction
        · rename_i ks' rest'' hk
          rw [kidsIndef_ext ext fuel rest' t ks' rest'' hk]
          injection h with h; simp only [Prod.mk.injEq] at h; obtain ⟨ha, hb⟩ := h; subst ha; subst hb; rfl
end

mutual
theorem parse_fuel (ext : Nat → Bytes → Bool) (fuel : Nat) (bs : Bytes) (r : Node × Bytes)
    (h : parse ext fuel bs = some r) : parse ext (fuel + 1) bs = some r := by
  match fuel with
  | 0 => simp [parse] at h
  | fuel + 1 =>
    rw [parse] at h
    rw [parse]
    try dsimp only at h ⊢
    split at h
    · contradiction
    · rename_i cls cons tag r1 hid
      try simp only
      split at h
      · contradiction
      · rename_i len r2 hlen
        try simp only
        split at h
        · rename_i hc
          simp only [hc, if_true]
          split at h
          · rename_i nlen
            split at h
            · contradiction
            · rename_i kids rest' hk
              rw [kidsDef_fuel ext fuel nlen r2 _ hk]
              exact h
          · split at h
            · contradiction
            · rename_i kids rest' hk
              rw [kidsIndef_fuel ext fuel r2 _ hk]
              exact h
        · rename_i hc
          simp only [hc, if_false, Bool.false_eq_true]
          exact h
theorem kidsDef_fuel (ext : Nat → Bytes → Bool) (fuel remaining : Nat) (bs : Bytes) (r : List Node × Bytes)
    (h : kidsDef ext fuel remaining bs = some r) : kidsDef ext (fuel + 1) remaining bs = some r := by
  match fuel with
  | 0 => simp [kidsDef] at h
  | fuel + 1 =>
    rw [kidsDef] at h
    rw [kidsDef]
    try dsimp only at h ⊢
    split at h
    · rename_i h0
      simp only [h0, if_true]
      exact h
    · rename_i h0
      simp only [h0, if_false]
      split at h
      · contradiction
      · rename_i child rest' hp
        rw [parse_fuel ext fuel bs _ hp]
        try simp only
        split at h
        · contradiction
        · rename_i h1
          simp only [h1, if_false]
          split at h
          · contradiction
          · rename_i h2
            simp only [h2, if_false]
            split at h
            · contradiction
            · rename_i ks' rest'' hk
              rw [kidsDef_fuel ext fuel _ rest' _ hk]
              exact h
theorem kidsIndef_fuel (ext : Nat → Bytes → Bool) (fuel : Nat) (bs : Bytes) (r : List Node × Bytes)
    (h : kidsIndef ext fuel bs = some r) : kidsIndef ext (fuel + 1) bs = some r := by
  match fuel with
  | 0 => simp [kidsIndef] at h
  | fuel + 1 =>
    rw [kidsIndef] at h
    rw [kidsIndef]
    try dsimp only at h ⊢
    split at h
    · contradiction
    · rename_i child rest' hp
      rw [parse_fuel ext fuel bs _ hp]
      try simp only
      split at h
      · rename_i h1
        simp only [h1, if_true]
        exact h
      · rename_i h1
        simp only [h1, if_false]
        split at h
        · contradiction
        · rename_i ks' rest'' hk
          rw [kidsIndef_fuel ext fuel rest' _ hk]
          exact h
end

theorem parse_fuel_le (ext : Nat → Bytes → Bool) (f f' : Nat) (bs : Bytes) (r : Node × Bytes)
    (h : parse ext f bs = some r) (hle : f ≤ f') : parse ext f' bs = some r := by
  induction hle with
  | refl => exact h
  | step _ ih => exact parse_fuel ext _ bs r ih

/-- **The reader is streaming.** What `ber.ReadPacket` returns for the first element of a
    stream is the same whatever follows it on the stream. -/
theorem readPacket_ext (ext : Nat → Bytes → Bool) (bs t : Bytes) (n : Node) (rest : Bytes)
    (h : readPacket ext bs = some (n, rest)) : readPacket ext (bs ++ t) = some (n, rest ++ t) := by
  unfold readPacket at h ⊢
  have h1 := parse_ext ext (fuelFor bs) bs t n rest h
  exact parse_fuel_le ext (fuelFor bs) (fuelFor (bs ++ t)) (bs ++ t) _ h1 (by simp [fuelFor]; omega)

end Ber
