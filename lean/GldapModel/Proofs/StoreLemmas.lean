import GldapModel.Directory.Store
/-! Lemmas about `match` on the filter "(dn)" for well-formed DNs. -/
namespace Directory
open Ber Gldap

/-- a DN the store property talks about: non-empty, none of `( ) * |` or newline, no outer spaces -/
structure CleanDN (d : Bytes) : Prop where
  ne : d ≠ []
  chars : ∀ b ∈ d, b.toNat ≠ 40 ∧ b.toNat ≠ 41 ∧ b.toNat ≠ 42 ∧ b.toNat ≠ 124 ∧ b.toNat ≠ 10
  first : ∀ a t, d = a :: t → isSpace a = false
  last : ∀ i z, d = i ++ [z] → isSpace z = false

theorem closeParen_clean (d rest : Bytes) (h : ∀ b ∈ d, b.toNat ≠ 41 ∧ b.toNat ≠ 10) :
    closeParen (d ++ 41 :: rest) = some (d ++ [41], rest) := by
  induction d with
  | nil => simp [closeParen]
  | cons b bs ih =>
    have hb := h b (by simp)
    have hb10 : (b.toNat == 10) = false := by simp [hb.2]
    have hb41 : (b.toNat == 41) = false := by simp [hb.1]
    simp only [List.cons_append, closeParen, hb10, hb41, Bool.false_eq_true, if_false]
    rw [ih (fun x hx => h x (by simp [hx]))]
    rfl

theorem findParens_paren (d : Bytes) (h : ∀ b ∈ d, b.toNat ≠ 40 ∧ b.toNat ≠ 41 ∧ b.toNat ≠ 10) (f : Nat) (hf : 2 ≤ f) :
    findParens f (paren d) = [paren d] := by
  obtain ⟨f', rfl⟩ : ∃ f', f = f' + 2 := ⟨f - 2, by omega⟩
  have hc := closeParen_clean d [] (fun b hb => ⟨(h b hb).2.1, (h b hb).2.2⟩)
  simp only [paren, List.cons_append, List.nil_append, List.singleton_append] at hc ⊢
  have h40 : ((40 : UInt8).toNat == 40) = true := by decide
  simp only [findParens, h40, if_true, hc]

theorem snoc_cases (s : Bytes) : s = [] ∨ ∃ i z, s = i ++ [z] := by
  rcases List.eq_nil_or_concat s with h | ⟨i, z, h⟩
  · exact Or.inl h
  · exact Or.inr ⟨i, z, by simpa using h⟩

theorem trimLeft_noop (cut : UInt8 → Bool) (s : Bytes) (h : ∀ a t, s = a :: t → cut a = false) : trimLeft cut s = s := by
  cases s with
  | nil => rfl
  | cons a t => simp [trimLeft, h a t rfl]

theorem trim_noop (cut : UInt8 → Bool) (s : Bytes) (h1 : ∀ a t, s = a :: t → cut a = false)
    (h2 : ∀ i z, s = i ++ [z] → cut z = false) : trim cut s = s := by
  unfold trim
  rw [trimLeft_noop cut s h1]
  rcases snoc_cases s with rfl | ⟨i, z, rfl⟩
  · rfl
  · have : (i ++ [z]).reverse = z :: i.reverse := by simp
    rw [this, trimLeft_noop cut _ (fun a t e => by cases e; exact h2 i z rfl)]
    simp

/-- `strings.Contains(s, s)` -/
theorem isPrefix_refl (s : Bytes) : isPrefix s s = true := by
  induction s with
  | nil => rfl
  | cons a t ih => simp [isPrefix, ih]

theorem containsBytes_refl (s : Bytes) : containsBytes s s = true := by
  cases s with
  | nil => rfl
  | cons a t => simp [containsBytes, isPrefix_refl]

/-- stripping the parentheses that `find` wraps around a clean DN gives the DN back -/
theorem cleanElement_paren (d : Bytes) (h : CleanDN d) : cleanElement (paren d) = d := by
  obtain ⟨a, t, rfl⟩ : ∃ a t, d = a :: t := by
    cases d with
    | nil => exact absurd rfl h.ne
    | cons a t => exact ⟨a, t, rfl⟩
  have ha := h.chars a (by simp)
  have hfirst := h.first a t rfl
  -- 1. ReplaceAll "*"
  have e1 : (paren (a :: t)).filter (fun b => b.toNat != 42) = paren (a :: t) := by
    apply List.filter_eq_self.mpr
    intro b hb
    simp only [paren, List.mem_append, List.mem_singleton, List.mem_cons] at hb
    rcases hb with (hb | hb) | hb
    · simp at hb; subst hb; decide
    · have := h.chars b (by simpa using hb); simp [this.2.2.1]
    · simp at hb; subst hb; decide
  -- the three trims on "(" ++ d ++ ")"
  have e2 : trim (fun b => b.toNat == 124 || b.toNat == 40) (paren (a :: t)) = (a :: t) ++ [41] := by
    unfold trim
    have hl : trimLeft (fun b => b.toNat == 124 || b.toNat == 40) (paren (a :: t)) = (a :: t) ++ [41] := by
      simp [paren, trimLeft, ha.1, ha.2.2.2.1]
    rw [hl]
    have hr : ((a :: t) ++ [41]).reverse = 41 :: (a :: t).reverse := by simp
    rw [hr, trimLeft_noop _ _ (fun x y e => by cases e; decide)]
    simp
  have e3 : trim (fun b => b.toNat == 40) ((a :: t) ++ [41]) = (a :: t) ++ [41] := by
    apply trim_noop
    · intro x y e; simp only [List.cons_append] at e; cases e; simp [ha.1]
    · intro i z e
      have : z = 41 := by
        have h1 : ((a :: t) ++ [(41:UInt8)]).getLast? = some 41 := by rw [List.getLast?_append]; rfl
        have h2 : (i ++ [z]).getLast? = some z := by simp
        rw [e, h2] at h1
        exact Option.some.inj h1
      subst this; decide
  have e4 : trim (fun b => b.toNat == 41) ((a :: t) ++ [41]) = a :: t := by
    unfold trim
    have hl : trimLeft (fun b => b.toNat == 41) ((a :: t) ++ [41]) = (a :: t) ++ [41] :=
      trimLeft_noop _ _ (fun x y e => by simp only [List.cons_append] at e; cases e; simp [ha.2.1])
    rw [hl]
    have hr : ((a :: t) ++ [41]).reverse = 41 :: (a :: t).reverse := by simp
    rw [hr]
    have h41 : ((41 : UInt8).toNat == 41) = true := by decide
    simp only [trimLeft, h41, if_true]
    rcases snoc_cases (a :: t) with e | ⟨i, z, e⟩
    · cases e
    · have hz := h.chars z (by rw [e]; simp)
      rw [e]
      have : (i ++ [z]).reverse = z :: i.reverse := by simp
      rw [this, trimLeft_noop _ _ (fun x y e' => by cases e'; simp [hz.2.1])]
      simp
  have e5 : trim isSpace (a :: t) = a :: t := trim_noop _ _ (fun x y e => by cases e; exact hfirst) h.last
  simp only [cleanElement, e1, e2, e3, e4, e5]

/-- on the filter "(dn)" of a clean DN, `match` is the substring test -/
theorem matchFilter_paren (d x : Bytes) (h : CleanDN d) : matchFilter (paren d) x = containsBytes x d := by
  unfold matchFilter
  rw [findParens_paren d (fun b hb => ⟨(h.chars b hb).1, (h.chars b hb).2.1, (h.chars b hb).2.2.2.2⟩) _
    (by simp [paren])]
  first
    | (simp only [List.any_cons, List.any_nil, Bool.or_false, cleanElement_paren d h]; done)
    | (simp only [List.any_cons, List.any_nil, Bool.or_false]; rw [cleanElement_paren d h])
    | (rw [cleanElement_paren d h])

end Directory
