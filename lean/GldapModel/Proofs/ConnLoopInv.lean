import GldapModel.Runtime.ConnLoop
/-! Invariants of the per-connection automaton. -/
namespace ConnLoop

def Phase.isLoop : Phase → Bool
  | .fresh | .atHead | .reading _ | .gotRequest _ | .inHandler _ => true
  | _ => false

def Ev.isLoopEv : Ev → Bool
  | .head _ | .shutdown _ | .read _ | .readerr _ | .unbind _ | .inline _ | .inlinedone _ | .spawn _ | .start => true
  | _ => false

/-- events that read or dispatch a request -/
def Ev.servesRequest : Ev → Bool
  | .head _ | .read _ | .unbind _ | .inline _ | .spawn _ => true
  | _ => false

def headNo : Ev → Option Nat | .head r => some r | _ => none

/-- every step appends exactly its event to the log -/
theorem step_log (F : Facts) (s s' : St) (e : Ev) (h : step F s e = some s') : s'.log = s.log ++ [e] := by
  unfold step at h
  simp only at h
  repeat' split at h
  all_goals first
    | contradiction
    | (cases h; done)
    | (simp only [Option.some.injEq] at h; subst h; rfl)

theorem run_log (F : Facts) (es : List Ev) (s s' : St) (h : run F s es = some s') : s'.log = s.log ++ es := by
  induction es generalizing s with
  | nil => simp [run] at h; subst h; simp
  | cons e es ih =>
    simp only [run] at h
    cases hs : step F s e with
    | none => simp [hs] at h
    | some s1 =>
      simp [hs] at h
      rw [ih s1 h, step_log F s s1 e hs]; simp

theorem run_append (F : Facts) (a b : List Ev) (s s' : St) (h : run F s (a ++ b) = some s') :
    ∃ m, run F s a = some m ∧ run F m b = some s' := by
  induction a generalizing s with
  | nil => exact ⟨s, rfl, h⟩
  | cons e es ih =>
    simp only [List.cons_append, run] at h ⊢
    cases hs : step F s e with
    | none => simp [hs] at h
    | some s1 => simp [hs] at h ⊢; exact ih s1 h

/-- once the loop is over no request is read or dispatched any more -/
theorem after_loop (F : Facts) (s s' : St) (e : Ev) (hp : s.phase.isLoop = false) (h : step F s e = some s') :
    s'.phase.isLoop = false ∧ e.servesRequest = false := by
  unfold step at h
  simp only at h
  repeat' split at h
  all_goals first
    | contradiction
    | (cases h; done)
    | (simp only [Option.some.injEq] at h; subst h; simp_all [Phase.isLoop, Ev.servesRequest]; done)

theorem after_loop_run (F : Facts) (es : List Ev) (s s' : St) (hp : s.phase.isLoop = false) (h : run F s es = some s') :
    s'.phase.isLoop = false ∧ ∀ e ∈ es, e.servesRequest = false := by
  induction es generalizing s with
  | nil => simp [run] at h; subst h; exact ⟨hp, by simp⟩
  | cons e es ih =>
    simp only [run] at h
    cases hs : step F s e with
    | none => simp [hs] at h
    | some s1 =>
      simp [hs] at h
      obtain ⟨h1, h2⟩ := after_loop F s s1 e hp hs
      obtain ⟨h3, h4⟩ := ih s1 h1 h
      exact ⟨h3, by intro x hx; rcases List.mem_cons.mp hx with rfl | hx; exact h2; exact h4 x hx⟩

/-- an unbind event ends the loop -/
theorem unbind_exits (F : Facts) (s s' : St) (r : Nat) (h : step F s (.unbind r) = some s') : s'.phase = .exited := by
  unfold step at h
  simp only at h
  repeat' split at h
  all_goals first
    | contradiction
    | (cases h; done)
    | (simp only [Option.some.injEq] at h; subst h; rfl)

/-- while an inline handler runs, nothing is read or dispatched -/
theorem in_handler (F : Facts) (s s' : St) (e : Ev) (r : Nat) (hp : s.phase = .inHandler r) (h : step F s e = some s') :
    (s'.phase = .inHandler r ∧ e.servesRequest = false) ∨ e = .inlinedone r ∨ e = .recovered := by
  unfold step at h
  simp only at h
  repeat' split at h
  all_goals first
    | contradiction
    | (cases h; done)
    | (simp only [Option.some.injEq] at h; subst h; simp_all [Ev.servesRequest]; done)

/-- how a step changes the request counter -/
theorem step_reqs (F : Facts) (s s' : St) (e : Ev) (h : step F s e = some s') :
    (e = .head (s.reqs + 1) ∧ s'.reqs = s.reqs + 1) ∨ (headNo e = none ∧ s'.reqs = s.reqs) := by
  unfold step at h
  simp only at h
  repeat' split at h
  all_goals first
    | contradiction
    | (cases h; done)
    | (simp only [Option.some.injEq] at h; subst h; right; exact ⟨rfl, rfl⟩)
    | (simp only [Option.some.injEq] at h; subst h; left; rename_i hc; obtain ⟨_, rfl⟩ := hc; exact ⟨rfl, rfl⟩)

/-- numbering: the `head` events seen so far are 1, 2, ..., reqs -/
theorem heads_run (F : Facts) (es : List Ev) (s s' : St) (hi : s.log.filterMap headNo = List.range' 1 s.reqs)
    (h : run F s es = some s') : s'.log.filterMap headNo = List.range' 1 s'.reqs := by
  induction es generalizing s with
  | nil => simp [run] at h; subst h; exact hi
  | cons e es ih =>
    simp only [run] at h
    cases hs : step F s e with
    | none => simp [hs] at h
    | some s1 =>
      simp [hs] at h
      apply ih s1 _ h
      rw [step_log F s s1 e hs, List.filterMap_append, hi]
      rcases step_reqs F s s1 e hs with ⟨rfl, hr⟩ | ⟨hn, hr⟩
      · rw [hr]; simp [headNo, List.range'_1_concat]; omega
      · rw [hr]; simp [hn]

/-- the request being read / dispatched carries the current number -/
def CurInv (s : St) : Prop :=
  ∀ r, (s.phase = .reading r ∨ s.phase = .gotRequest r ∨ s.phase = .inHandler r) → r = s.reqs

theorem cur_step (F : Facts) (s s' : St) (e : Ev) (hi : CurInv s) (h : step F s e = some s') : CurInv s' := by
  unfold CurInv at *
  unfold step at h
  simp only at h
  repeat' split at h
  all_goals first
    | contradiction
    | (cases h; done)
    | (simp only [Option.some.injEq] at h; subst h; intro r hr; simp_all; done)
    | (simp only [Option.some.injEq] at h; subst h; intro r hr
       simp only at hr
       first
        | exact hi r hr
        | (rcases hr with hr | hr | hr <;> first | cases hr | (injection hr with hr; subst hr; apply hi; simp_all)))

theorem cur_run (F : Facts) (es : List Ev) (s s' : St) (hi : CurInv s) (h : run F s es = some s') : CurInv s' := by
  induction es generalizing s with
  | nil => simp [run] at h; subst h; exact hi
  | cons e es ih =>
    simp only [run] at h
    cases hs : step F s e with
    | none => simp [hs] at h
    | some s1 => simp [hs] at h; exact ih s1 (cur_step F s s1 e hi hs) h

end ConnLoop

namespace ConnLoop

/-- the close waits for every handler that was handed a goroutine -/
theorem netclose_after_handlers (F : Facts) (hF : F.closeWaitsHandlers = true) (s s' : St)
    (h : step F s .netclose = some s') : ∀ r ∈ s.spawned, r ∈ s.finished := by
  unfold step at h
  simp only at h
  repeat' split at h
  all_goals first
    | contradiction
    | (cases h; done)
    | (rename_i hc
       intro r hr
       have hp := hc.2.1 hF
       unfold pendingHandlers at hp
       have := List.filter_eq_nil_iff.mp hp r hr
       simpa using this)

def countEv (e : Ev) (l : List Ev) : Nat := (l.filter (· == e)).length

/-- bookkeeping: the counters are the numbers of `netclose` / `oncloseend` events -/
theorem step_counts (F : Facts) (s s' : St) (e : Ev) (h : step F s e = some s') :
    s'.netClosed = s.netClosed + (if e = .netclose then 1 else 0) ∧
    s'.onClosed = s.onClosed + (if e = .oncloseend then 1 else 0) := by
  unfold step at h
  simp only at h
  repeat' split at h
  all_goals first
    | contradiction
    | (cases h; done)
    | (simp only [Option.some.injEq] at h; subst h; simp; done)


theorem inline_enters (F : Facts) (m m' : St) (r : Nat) (hs : step F m (.inline r) = some m') :
    m'.phase = .inHandler r := by
  unfold step at hs
  simp only at hs
  repeat' split at hs
  all_goals first
    | contradiction
    | (cases hs; done)
    | (simp only [Option.some.injEq] at hs; subst hs; rename_i heq _ _; injection heq with heq; subst heq; rfl)

theorem in_handler_run (F : Facts) (mid : List Ev) (m s : St) (r : Nat) (hp : m.phase = .inHandler r)
    (h : run F m mid = some s) (h1 : Ev.inlinedone r ∉ mid) (h2 : Ev.recovered ∉ mid) :
    ∀ e ∈ mid, e.servesRequest = false := by
  induction mid generalizing m with
  | nil => simp
  | cons e es ih =>
    simp only [run] at h
    cases hs : step F m e with
    | none => simp [hs] at h
    | some m' =>
      simp [hs] at h
      have hne1 : e ≠ .inlinedone r := fun he => h1 (by simp [he])
      have hne2 : e ≠ .recovered := fun he => h2 (by simp [he])
      rcases in_handler F m m' e r hp hs with ⟨hp', hne'⟩ | he | he
      · intro x hx
        rcases List.mem_cons.mp hx with rfl | hx
        · exact hne'
        · exact ih m' hp' h (fun hh => h1 (by simp [hh])) (fun hh => h2 (by simp [hh])) x hx
      · exact absurd he hne1
      · exact absurd he hne2

end ConnLoop
