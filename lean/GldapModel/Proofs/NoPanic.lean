import GldapModel.Gldap.Packet
/-! Helper lemmas: with every decode-path guard in place no clause of the decode model can
    produce `panic`, for any tree. -/
namespace Gldap
open Ber

theorem np_valueChildren (env : Env) (v : Node) : NoPanic (valueChildren env v) := by
  unfold valueChildren; split
  · split <;> simp
  · simp

theorem np_beheraLoop (g : Guards) (hw : g.beheraWarn = true) (l : List Node) (acc) :
    NoPanic (beheraLoop g l acc) := by
  induction l generalizing acc with
  | nil => simp [beheraLoop]
  | cons c rest ih =>
    obtain ⟨e, gr, er⟩ := acc
    unfold beheraLoop
    split
    · split
      · exact np_fail hw
      · split
        · simp
        · split
          · exact ih _
          · split <;> exact ih _
    · split
      · split
        · split
          · simp
          · exact ih _
        · simp
      · exact ih _

theorem np_ctrlTypeOf (g : Guards) (h : g.ctrlType = true) (k : Node) : NoPanic (ctrlTypeOf g k) := by
  unfold ctrlTypeOf; split
  · simp
  · exact np_fail h

theorem np_ctrlHeader (g : Guards) (h2 : g.ctrlType = true) (h3 : g.ctrlCrit = true) (n : Node) :
    NoPanic (ctrlHeader g n) := by
  unfold ctrlHeader
  split
  · simp
  · apply np_bind (np_ctrlTypeOf g h2 _); intro; simp
  · apply np_bind (np_ctrlTypeOf g h2 _); intro; split <;> simp
  · apply np_bind (np_ctrlTypeOf g h2 _); intro; split
    · simp
    · exact np_fail h3
  · simp

theorem np_decodePaging (env : Env) (g : Guards) (h4 : g.pagingShape = true) (h5 : g.pagingSize = true) (v) :
    NoPanic (decodePaging env g v) := by
  unfold decodePaging
  split
  · simp
  · apply np_bind (np_valueChildren _ _); intro kids
    split
    · simp
    · split
      · split
        · simp
        · exact np_fail h5
      · exact np_fail h4

theorem np_decodeBehera (env : Env) (g : Guards) (h6 : g.beheraWarn = true) (v) :
    NoPanic (decodeBehera env g v) := by
  unfold decodeBehera
  split
  · simp
  · apply np_bind (np_valueChildren _ _); intro kids
    split
    · simp
    · apply np_bind (np_beheraLoop g h6 _ _); intro ⟨_, _, _⟩; simp

theorem np_decodeVChuWarning (v) : NoPanic (decodeVChuWarning v) := by
  unfold decodeVChuWarning
  split
  · simp
  · split <;> simp

theorem np_decodeGeneric (g : Guards) (h7 : g.ctrlValue = true) (ty crit v) :
    NoPanic (decodeGeneric g ty crit v) := by
  unfold decodeGeneric
  split
  · simp
  · split
    · simp
    · exact np_fail h7

theorem decodeControl_total (env : Env) (g : Guards) (hg : g.decodeAll = true) (n : Node) :
    NoPanic (decodeControl env g n) := by
  simp only [Guards.decodeAll, Bool.and_eq_true] at hg
  obtain ⟨⟨⟨⟨⟨⟨_, h2⟩, h3⟩, h4⟩, h5⟩, h6⟩, h7⟩ := hg
  unfold decodeControl
  apply np_bind (np_ctrlHeader g h2 h3 n)
  intro ⟨ty, crit, value⟩
  simp only [ctrlDispatch]
  repeat' split
  all_goals first
    | (simp; done)
    | exact np_decodePaging env g h4 h5 _
    | exact np_decodeBehera env g h6 _
    | exact np_decodeVChuWarning _
    | exact np_decodeGeneric g h7 _ _ _

theorem np_decodeControls (env : Env) (g : Guards) (hg : g.decodeAll = true) (l : List Node) :
    NoPanic (decodeControls env g l) := by
  induction l with
  | nil => simp [decodeControls]
  | cons c cs ih =>
    unfold decodeControls
    apply np_bind (decodeControl_total env g hg c); intro x
    apply np_bind ih; intro xs; simp

theorem np_controlsOf (env : Env) (g : Guards) (hg : g.decodeAll = true) (p : Node) :
    NoPanic (controlsOf env g p) := by
  unfold controlsOf
  split
  · simp
  · split
    · simp
    · split
      · simp
      · exact np_decodeControls env g hg _

theorem np_requestPacket (g : Guards) (h1 : g.bindVersionMsg = true) (p : Node) :
    NoPanic (requestPacket g p) := by
  unfold requestPacket
  repeat' split
  all_goals first
    | (simp; done)
    | exact np_fail h1

theorem np_intChild (r i t) : NoPanic (intChild r i t) := by
  unfold intChild; repeat' split
  all_goals simp
theorem np_boolChild (r i) : NoPanic (boolChild r i) := by
  unfold boolChild; repeat' split
  all_goals simp
theorem np_octetChild (r i) : NoPanic (octetChild r i) := by
  unfold octetChild; repeat' split
  all_goals simp
theorem np_octetList (l) : NoPanic (octetList l) := by
  induction l with
  | nil => simp [octetList]
  | cons k ks ih =>
    unfold octetList; split
    · simp
    · apply np_bind ih; intro; simp

theorem np_requestType (g : Guards) (h1 : g.bindVersionMsg = true) (p : Node) : NoPanic (requestType g p) := by
  unfold requestType
  apply np_bind (np_requestPacket g h1 p); intro r
  repeat' split
  all_goals simp

theorem np_requestMessageID (p : Node) : NoPanic (requestMessageID p) := by
  unfold requestMessageID
  repeat' split
  all_goals simp

theorem np_simpleBindParameters (env : Env) (g : Guards) (hg : g.decodeAll = true) (p : Node) :
    NoPanic (simpleBindParameters env g p) := by
  have h1 : g.bindVersionMsg = true := by simp [Guards.decodeAll] at hg; exact hg.1.1.1.1.1.1
  unfold simpleBindParameters
  apply np_bind (np_requestPacket g h1 p); intro r
  repeat' split
  all_goals first
    | (simp; done)
    | (apply np_bind (np_controlsOf env g hg p); intro; simp)

theorem np_searchParameters (env : Env) (g : Guards) (hg : g.decodeAll = true) (p : Node) :
    NoPanic (searchParameters env g p) := by
  have h1 : g.bindVersionMsg = true := by simp [Guards.decodeAll] at hg; exact hg.1.1.1.1.1.1
  unfold searchParameters
  apply np_bind (np_requestPacket g h1 p); intro r
  split
  · simp
  · apply np_bind (np_octetChild _ _); intro
    apply np_bind (np_intChild _ _ _); intro
    apply np_bind (np_intChild _ _ _); intro
    apply np_bind (np_intChild _ _ _); intro
    apply np_bind (np_intChild _ _ _); intro
    apply np_bind (np_boolChild _ _); intro
    repeat' split
    all_goals first
      | (simp; done)
      | (apply np_bind (np_octetList _); intro
         apply np_bind (np_controlsOf env g hg p); intro; simp)

theorem np_decodeChange (c : Node) : NoPanic (decodeChange c) := by
  unfold decodeChange
  split
  · simp
  · apply np_bind (np_intChild _ _ _); intro
    repeat' split
    all_goals first
      | (simp; done)
      | (apply np_bind (np_octetChild _ _); intro; first | (simp; done) | (split <;> simp))

theorem np_decodeChanges (l) : NoPanic (decodeChanges l) := by
  induction l with
  | nil => simp [decodeChanges]
  | cons k ks ih =>
    unfold decodeChanges
    apply np_bind (np_decodeChange k); intro
    apply np_bind ih; intro; simp

theorem np_modifyParameters (env : Env) (g : Guards) (hg : g.decodeAll = true) (p : Node) :
    NoPanic (modifyParameters env g p) := by
  have h1 : g.bindVersionMsg = true := by simp [Guards.decodeAll] at hg; exact hg.1.1.1.1.1.1
  unfold modifyParameters
  apply np_bind (np_requestPacket g h1 p); intro r
  split
  · simp
  · apply np_bind (np_octetChild _ _); intro
    repeat' split
    all_goals first
      | (simp; done)
      | (apply np_bind (np_decodeChanges _); intro
         apply np_bind (np_controlsOf env g hg p); intro; simp)

theorem np_decodeAttribute (a : Node) : NoPanic (decodeAttribute a) := by
  unfold decodeAttribute
  split
  · simp
  · apply np_bind (np_octetChild _ _); intro
    repeat' split
    all_goals first
      | (simp; done)
      | (apply np_bind (np_octetList _); intro; simp)

theorem np_decodeAttributes (l) : NoPanic (decodeAttributes l) := by
  induction l with
  | nil => simp [decodeAttributes]
  | cons k ks ih =>
    unfold decodeAttributes
    apply np_bind (np_decodeAttribute k); intro
    apply np_bind ih; intro; simp

theorem np_addParameters (env : Env) (g : Guards) (hg : g.decodeAll = true) (p : Node) :
    NoPanic (addParameters env g p) := by
  have h1 : g.bindVersionMsg = true := by simp [Guards.decodeAll] at hg; exact hg.1.1.1.1.1.1
  unfold addParameters
  apply np_bind (np_requestPacket g h1 p); intro r
  split
  · simp
  · apply np_bind (np_octetChild _ _); intro
    repeat' split
    all_goals first
      | (simp; done)
      | (apply np_bind (np_decodeAttributes _); intro
         apply np_bind (np_controlsOf env g hg p); intro; simp)

theorem np_deleteParameters (env : Env) (g : Guards) (hg : g.decodeAll = true) (p : Node) :
    NoPanic (deleteParameters env g p) := by
  have h1 : g.bindVersionMsg = true := by simp [Guards.decodeAll] at hg; exact hg.1.1.1.1.1.1
  unfold deleteParameters
  apply np_bind (np_requestPacket g h1 p); intro r
  split
  · simp
  · apply np_bind (np_controlsOf env g hg p); intro; simp

theorem np_extendedOperationName (g : Guards) (h1 : g.bindVersionMsg = true) (p : Node) :
    NoPanic (extendedOperationName g p) := by
  unfold extendedOperationName
  apply np_bind (np_requestPacket g h1 p); intro r
  repeat' split
  all_goals simp

theorem np_newMessage (env : Env) (g : Guards) (hg : g.decodeAll = true) (p : Node) :
    NoPanic (newMessage env g p) := by
  have h1 : g.bindVersionMsg = true := by simp [Guards.decodeAll] at hg; exact hg.1.1.1.1.1.1
  unfold newMessage
  apply np_bind (np_requestType g h1 p); intro ty
  apply np_bind (np_requestMessageID p); intro id
  cases ty <;> simp only
  · apply np_bind (np_simpleBindParameters env g hg p); intro ⟨_, _, _⟩; simp
  · apply np_bind (np_searchParameters env g hg p); intro; simp
  · apply np_bind (np_extendedOperationName g h1 p); intro; simp
  · apply np_bind (np_modifyParameters env g hg p); intro ⟨_, _, _⟩; simp
  · apply np_bind (np_addParameters env g hg p); intro ⟨_, _, _⟩; simp
  · apply np_bind (np_deleteParameters env g hg p); intro ⟨_, _⟩; simp
  · simp

end Gldap
