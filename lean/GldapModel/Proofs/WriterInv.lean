import GldapModel.Runtime.Writer
namespace Writer
open Ber

theorem flat_append (d : List (Nat × Bytes)) (w : Nat) (f : Bytes) : flat (d ++ [(w, f)]) = flat d ++ f := by
  simp [flat]

theorem half_false_of_pc0 {frames} {s : WS} (h : Inv frames s) (x : Nat) (h0 : s.pc x = 0) : s.half x = false := by
  cases hh : s.half x
  · rfl
  · exact absurd h0 (h.halfOwn x hh)

theorem others_idle {frames} {s : WS} (h : Inv frames s) (w : Nat) (hm : s.mutex = some w ∨ s.mutex = none) :
    ∀ x, x ≠ w → s.pc x = 0 := by
  intro x hx
  by_cases hp : s.pc x = 0
  · exact hp
  · have := h.own x hp
    rcases hm with hm | hm <;> rw [hm] at this <;> simp at this
    exact absurd this.symm hx

theorem inv_step (frames) (s s' : WS) (w k : Nat) (h : Inv frames s)
    (hs : step good s w k = some s') : Inv frames s' := by
  unfold step at hs
  split at hs
  · simp at hs
  · rename_i f rest htodo
    have hpc := h.pcs w
    have hcase : s.pc w = 0 ∨ s.pc w = 1 ∨ s.pc w = 2 ∨ s.pc w = 3 := by omega
    rcases hcase with h0 | h1 | h2 | h3
    · -- lock
      simp only [h0, good, List.getElem?_cons_zero] at hs
      split at hs
      · rename_i hfree
        simp only [Option.some.injEq] at hs
        subst hs
        obtain ⟨hb, hw⟩ := h.free hfree
        have hothers := others_idle h w (Or.inr hfree)
        have hhalf := half_false_of_pc0 h w h0
        constructor
        · intro x; by_cases hx : x = w <;> simp [advance, h0, hx, upd]; exact h.pcs x
        · intro x; by_cases hx : x = w
          · subst hx; simp [advance, h0]
          · simp [advance, h0, hx, hothers x hx]
        · intro x hm; simp [advance, h0] at hm; subst hm; simp [advance, h0]
        · intro x hh; simp [advance, h0] at hh
          have := h.halfOwn x hh
          by_cases hx : x = w
          · subst hx; simp [advance, h0]
          · exact absurd (hothers x hx) this
        · intro hm; simp [advance, h0] at hm
        · intro x hm; simp [advance, h0] at hm; subst hm
          refine ⟨f, rest, by simp [advance, h0, htodo], ?_⟩
          simp [advance, h0, hb, hw, hhalf]
        · intro x; simpa [advance, h0] using h.acct x
      · simp at hs
    · -- write (two halves)
      have hm : s.mutex = some w := h.own w (by omega)
      have hothers := others_idle h w (Or.inl hm)
      obtain ⟨f', rest', htodo', c1, c2, c3, c4, c5⟩ := h.held w hm
      rw [htodo] at htodo'; simp at htodo'; obtain ⟨rfl, rfl⟩ := htodo'
      simp only [h1, good, List.getElem?_cons_succ, List.getElem?_cons_zero] at hs
      split at hs
      · rename_i hh
        simp only [Option.some.injEq] at hs; subst hs
        obtain ⟨hb, hw⟩ := c1 ⟨h1, hh⟩
        constructor
        · exact h.pcs
        · exact h.own
        · exact h.own'
        · intro x hx; by_cases hxw : x = w
          · subst hxw; show s.pc x ≠ 0; omega
          · simp [hxw] at hx; exact h.halfOwn x hx
        · intro hf; simp [hm] at hf
        · intro x hx; simp [hm] at hx; subst hx
          refine ⟨f, rest, htodo, ?_⟩
          simp [h1, hb, hw]
        · exact h.acct
      · rename_i hh
        have hh' : s.half w = true := by cases hq : s.half w <;> simp_all
        simp only [Option.some.injEq] at hs; subst hs
        obtain ⟨hb, hseen, hw⟩ := c2 ⟨h1, hh'⟩
        constructor
        · intro x; by_cases hx : x = w <;> simp [advance, h1, good, hx, upd]; exact h.pcs x
        · intro x; by_cases hx : x = w
          · subst hx; simp [advance, h1, good, hm]
          · simp [advance, h1, good, hx, hothers x hx]
        · intro x hx; simp [advance, h1, good, hm] at hx; subst hx; simp [advance, h1, good]
        · intro x hx; by_cases hxw : x = w
          · subst hxw; simp [advance, h1, good]
          · simp [advance, h1, good, hxw] at hx; have := h.halfOwn x hx; exact absurd (hothers x hxw) this
        · intro hf; simp [advance, h1, good, hm] at hf
        · intro x hx; simp [advance, h1, good, hm] at hx; subst hx
          refine ⟨f, rest, by simp [advance, h1, good, htodo], ?_⟩
          simp [advance, h1, good, hseen, hw]
        · intro x; simpa [advance, h1, good] using h.acct x
    · -- flush (two halves)
      have hm : s.mutex = some w := h.own w (by omega)
      have hothers := others_idle h w (Or.inl hm)
      obtain ⟨f', rest', htodo', c1, c2, c3, c4, c5⟩ := h.held w hm
      rw [htodo] at htodo'; simp at htodo'; obtain ⟨rfl, rfl⟩ := htodo'
      simp only [h2, good, List.getElem?_cons_succ, List.getElem?_cons_zero] at hs
      split at hs
      · rename_i hh
        simp only [Option.some.injEq] at hs; subst hs
        have hw := c3 ⟨h2, hh⟩
        constructor
        · exact h.pcs
        · exact h.own
        · exact h.own'
        · intro x hx; by_cases hxw : x = w
          · subst hxw; show s.pc x ≠ 0; omega
          · simp [hxw] at hx; exact h.halfOwn x hx
        · intro hf; simp [hm] at hf
        · intro x hx; simp [hm] at hx; subst hx
          refine ⟨f, rest, htodo, ?_⟩
          simp [h2, hw]
        · exact h.acct
      · rename_i hh
        have hh' : s.half w = true := by cases hq : s.half w <;> simp_all
        simp only [Option.some.injEq] at hs; subst hs
        have hw := c4 ⟨h2, hh'⟩
        constructor
        · intro x; by_cases hx : x = w <;> simp [advance, h2, good, hx, upd]; exact h.pcs x
        · intro x; by_cases hx : x = w
          · subst hx; simp [advance, h2, good, hm]
          · simp [advance, h2, good, hx, hothers x hx]
        · intro x hx; simp [advance, h2, good, hm] at hx; subst hx; simp [advance, h2, good]
        · intro x hx; by_cases hxw : x = w
          · subst hxw; simp [advance, h2, good]
          · simp [advance, h2, good, hxw] at hx; have := h.halfOwn x hx; exact absurd (hothers x hxw) this
        · intro hf; simp [advance, h2, good, hm] at hf
        · intro x hx; simp [advance, h2, good, hm] at hx; subst hx
          refine ⟨f, rest, by simp [advance, h2, good, htodo], ?_⟩
          simp [advance, h2, good, hw]
        · intro x; simpa [advance, h2, good] using h.acct x
    · -- unlock = last op: completes the call
      have hm : s.mutex = some w := h.own w (by omega)
      have hothers := others_idle h w (Or.inl hm)
      obtain ⟨f', rest', htodo', c1, c2, c3, c4, c5⟩ := h.held w hm
      rw [htodo] at htodo'; simp at htodo'; obtain ⟨rfl, rfl⟩ := htodo'
      obtain ⟨hh, hb, hw⟩ := c5 h3
      simp only [h3, good, List.getElem?_cons_succ, List.getElem?_cons_zero, Option.some.injEq] at hs
      subst hs
      constructor
      · intro x; by_cases hx : x = w <;> simp [advance, h3, good, hx, upd]; exact h.pcs x
      · intro x hx; by_cases hxw : x = w
        · subst hxw; simp [advance, h3, good] at hx
        · simp [advance, h3, good, hxw] at hx; exact absurd (hothers x hxw) hx
      · intro x hx; simp [advance, h3, good] at hx
      · intro x hx; by_cases hxw : x = w
        · subst hxw; simp [advance, h3, good] at hx; rw [hh] at hx; exact absurd hx (by simp)
        · simp [advance, h3, good, hxw] at hx; have := h.halfOwn x hx; exact absurd (hothers x hxw) this
      · intro _; simp [advance, h3, good, hb, hw, flat_append]
      · intro x hx; simp [advance, h3, good] at hx
      · intro x; by_cases hxw : x = w
        · subst hxw
          have := h.acct x
          simp [advance, h3, good, List.filter_append] at this ⊢
          rw [← this, htodo]
        · have := h.acct x
          have hne : ¬ (w = x) := fun e => hxw e.symm
          simp [advance, h3, good, List.filter_append, hxw, hne] at this ⊢
          exact this

theorem inv_run (frames) (ls : List (Nat × Nat)) (s s' : WS) (h : Inv frames s)
    (hr : run good s ls = some s') : Inv frames s' := by
  induction ls generalizing s with
  | nil => simp [run] at hr; subst hr; exact h
  | cons l ls ih =>
    obtain ⟨w, k⟩ := l
    simp only [run] at hr
    cases hs : step good s w k with
    | none => simp [hs] at hr
    | some s1 => simp [hs] at hr; exact ih s1 (inv_step frames s s1 w k h hs) hr

/-- C05 on the model: whenever the mutex is free, the wire is exactly the concatenation of the
    completed frames, and per writer completed ++ remaining = what it set out to write. -/
theorem C05_whole_frames (frames : Nat → List Bytes) (ls : List (Nat × Nat)) (s : WS)
    (hr : run good (init frames) ls = some s) (hfree : s.mutex = none) :
    s.wire = flat s.done ∧ ∀ w, ((s.done.filter (·.1 = w)).map (·.2)) ++ s.todo w = frames w := by
  have h := inv_run frames ls (init frames) s (inv_init frames) hr
  exact ⟨(h.free hfree).2, h.acct⟩

end Writer
