import GldapModel.Proofs.FilterRT
/-! # The rendered filter string determines the filter (helper lemmas)

`Filter.render` is what the handler receives (`decompile_encode`). For filters within RFC 4511 / 4515's
grammar (`Filter.WF`: attribute descriptions, matching rules and types made of letters, digits, `-`, `.`
and `;`; substring parts non-empty, `initial` only first, `final` only last; an extensible match with a type
or a rule, the rule not spelled `dn`) it is injective - and more: it is a prefix code
(`render f ++ r = render g ++ r' → f = g ∧ r = r'`), which is what makes lists of filters unambiguous. -/
namespace Gldap.Filter
open Ber

/-- a byte of an attribute description, matching rule or type: letter, digit, `-`, `.`, `;` -/
def plainByte (c : UInt8) : Bool :=
  (48 ≤ c.toNat && c.toNat ≤ 57) || (65 ≤ c.toNat && c.toNat ≤ 90) || (97 ≤ c.toNat && c.toNat ≤ 122) ||
  c.toNat == 45 || c.toNat == 46 || c.toNat == 59

def Plain (s : Bytes) : Prop := ∀ c ∈ s, plainByte c = true

theorem plain_ne (c : UInt8) (h : plainByte c = true) (n : Nat)
    (hn : n = 33 ∨ n = 38 ∨ n = 40 ∨ n = 41 ∨ n = 42 ∨ n = 58 ∨ n = 60 ∨ n = 61 ∨ n = 62 ∨ n = 92 ∨ n = 124 ∨ n = 126) :
    c.toNat ≠ n := by
  simp only [plainByte, Bool.or_eq_true, Bool.and_eq_true, decide_eq_true_eq, beq_iff_eq] at h
  omega

/-- the split lemma: a string is cut uniquely at its first byte with property `p` -/
theorem split_unique (p : UInt8 → Bool) (a a' : Bytes) (s s' : UInt8) (r r' : Bytes)
    (ha : ∀ c ∈ a, p c = false) (ha' : ∀ c ∈ a', p c = false) (hs : p s = true) (hs' : p s' = true)
    (h : a ++ s :: r = a' ++ s' :: r') : a = a' ∧ s = s' ∧ r = r' := by
  induction a generalizing a' with
  | nil =>
    cases a' with
    | nil => simp at h; exact ⟨rfl, h.1, h.2⟩
    | cons x xs =>
      simp at h
      have := ha' x (by simp)
      rw [← h.1, hs] at this; cases this
  | cons x xs ih =>
    cases a' with
    | nil =>
      simp at h
      have := ha x (by simp)
      rw [h.1, hs'] at this; cases this
    | cons y ys =>
      simp at h
      obtain ⟨hxy, hrest⟩ := h
      have := ih ys (fun c hc => ha c (by simp [hc])) (fun c hc => ha' c (by simp [hc])) hrest
      exact ⟨by rw [hxy, this.1], this.2⟩

/-- the same when the string simply ends: a string without `p`-bytes is not one with -/
theorem split_end (p : UInt8 → Bool) (a a' : Bytes) (s : UInt8) (r : Bytes)
    (ha' : ∀ c ∈ a', p c = false) (hs : p s = true) (h : a ++ s :: r = a') : False := by
  have : s ∈ a' := by rw [← h]; simp
  have := ha' s this
  rw [hs] at this; cases this

/-- what `escape` writes contains no parenthesis and no asterisk -/
theorem escape_clean (v : Bytes) : ∀ c ∈ escape v, c ≠ 40 ∧ c ≠ 41 ∧ c ≠ 42 := by
  induction v with
  | nil => simp [escape]
  | cons x xs ih =>
    unfold escape
    by_cases hm : mustEscape x = true
    · simp only [hm, if_true]
      intro c hc
      simp only [List.mem_cons] at hc
      rcases hc with h | h | h | h
      · subst h; decide
      · subst h
        have : x.toNat / 16 < 16 := by have := x.toNat_lt; omega
        have hh : ∀ n, n < 16 → hexDigit n ≠ 40 ∧ hexDigit n ≠ 41 ∧ hexDigit n ≠ 42 := by decide
        exact hh _ this
      · subst h
        have : x.toNat % 16 < 16 := by omega
        have hh : ∀ n, n < 16 → hexDigit n ≠ 40 ∧ hexDigit n ≠ 41 ∧ hexDigit n ≠ 42 := by decide
        exact hh _ this
      · exact ih c h
    · simp only [hm]
      intro c hc
      simp only [Bool.false_eq_true, if_false, List.mem_cons] at hc
      rcases hc with h | h
      · subst h
        simp only [mustEscape, Bool.or_eq_true, decide_eq_true_eq, beq_iff_eq, not_or] at hm
        exact ⟨hm.1.1.1.1.2, hm.1.1.1.2, hm.1.2⟩
      · exact ih c h

theorem escape_ne_nil (v : Bytes) (h : v ≠ []) : escape v ≠ [] := by
  cases v with
  | nil => exact absurd rfl h
  | cons x xs => unfold escape; split <;> simp

/-! ### substrings -/

/-- RFC 4511 SubstringFilter: parts are non-empty, `initial` only first, `final` only last -/
def SubsWF : Bool → List Sub → Prop
  | _, [] => True
  | first, .initial v :: ss => first = true ∧ v ≠ [] ∧ SubsWF false ss
  | _, .any v :: ss => v ≠ [] ∧ SubsWF false ss
  | _, .final v :: ss => v ≠ [] ∧ ss = []

def is42 (c : UInt8) : Bool := c == 42

theorem escape_no42 (v : Bytes) : ∀ c ∈ escape v, is42 c = false := by
  intro c hc
  have := (escape_clean v c hc).2.2
  simp [is42, this]

theorem escape_head (v : Bytes) (h : v ≠ []) : ∃ c t, escape v = c :: t ∧ c ≠ 42 := by
  cases he : escape v with
  | nil => exact absurd he (escape_ne_nil v h)
  | cons c t => exact ⟨c, t, rfl, (escape_clean v c (by rw [he]; simp)).2.2⟩

theorem renderSubs_injective : ∀ (first : Bool) (a b : List Sub), SubsWF first a → SubsWF first b →
    renderSubs first a = renderSubs first b → a = b
  | _, [], [], _, _, _ => rfl
  | first, [], x :: xs, _, hb, h => by
    exfalso
    cases x with
    | initial v =>
      obtain ⟨c, t, hc, _⟩ := escape_head v hb.2.1
      simp [renderSubs, hc] at h
    | any v =>
      obtain ⟨c, t, hc, _⟩ := escape_head v hb.1
      cases first <;> simp [renderSubs, hc] at h
    | final v =>
      obtain ⟨c, t, hc, _⟩ := escape_head v hb.1
      cases first <;> simp [renderSubs, hc] at h
  | first, x :: xs, [], ha, _, h => by
    exfalso
    cases x with
    | initial v =>
      obtain ⟨c, t, hc, _⟩ := escape_head v ha.2.1
      simp [renderSubs, hc] at h
    | any v =>
      obtain ⟨c, t, hc, _⟩ := escape_head v ha.1
      cases first <;> simp [renderSubs, hc] at h
    | final v =>
      obtain ⟨c, t, hc, _⟩ := escape_head v ha.1
      cases first <;> simp [renderSubs, hc] at h
  | first, .initial v :: xs, .initial w :: ys, ha, hb, h => by
    simp only [renderSubs, List.append_assoc, List.singleton_append] at h
    obtain ⟨h1, _, h3⟩ := split_unique is42 _ _ 42 42 _ _ (escape_no42 v) (escape_no42 w) rfl rfl h
    rw [escape_injective v w h1, renderSubs_injective false xs ys ha.2.2 hb.2.2 h3]
  | first, .initial v :: xs, .any w :: ys, ha, hb, h => by
    exfalso
    obtain ⟨c, t, hc, hne⟩ := escape_head v ha.2.1
    have hf : first = true := ha.1
    subst hf
    simp [renderSubs, hc] at h
    exact hne h.1
  | first, .initial v :: xs, .final w :: ys, ha, hb, h => by
    exfalso
    obtain ⟨c, t, hc, hne⟩ := escape_head v ha.2.1
    have hf : first = true := ha.1
    subst hf
    simp [renderSubs, hc] at h
    exact hne h.1
  | first, .any v :: xs, .initial w :: ys, ha, hb, h => by
    exfalso
    obtain ⟨c, t, hc, hne⟩ := escape_head w hb.2.1
    have hf : first = true := hb.1
    subst hf
    simp [renderSubs, hc] at h
    exact hne h.1.symm
  | first, .final v :: xs, .initial w :: ys, ha, hb, h => by
    exfalso
    obtain ⟨c, t, hc, hne⟩ := escape_head w hb.2.1
    have hf : first = true := hb.1
    subst hf
    simp [renderSubs, hc] at h
    exact hne h.1.symm
  | first, .any v :: xs, .any w :: ys, ha, hb, h => by
    simp only [renderSubs, List.append_assoc, List.singleton_append] at h
    have h' := List.append_cancel_left h
    obtain ⟨h1, _, h3⟩ := split_unique is42 _ _ 42 42 _ _ (escape_no42 v) (escape_no42 w) rfl rfl h'
    rw [escape_injective v w h1, renderSubs_injective false xs ys ha.2 hb.2 h3]
  | first, .any v :: xs, .final w :: ys, ha, hb, h => by
    exfalso
    have hy : ys = [] := hb.2
    subst hy
    simp only [renderSubs, List.append_assoc, List.singleton_append, List.append_nil] at h
    have h' := List.append_cancel_left h
    exact split_end is42 _ _ 42 _ (escape_no42 w) rfl h'
  | first, .final v :: xs, .any w :: ys, ha, hb, h => by
    exfalso
    have hx : xs = [] := ha.2
    subst hx
    simp only [renderSubs, List.append_assoc, List.singleton_append, List.append_nil] at h
    have h' := List.append_cancel_left h
    exact split_end is42 _ _ 42 _ (escape_no42 v) rfl h'.symm
  | first, .final v :: xs, .final w :: ys, ha, hb, h => by
    have hx : xs = [] := ha.2
    have hy : ys = [] := hb.2
    subst hx; subst hy
    simp only [renderSubs, List.append_assoc, List.append_nil] at h
    have h' := List.append_cancel_left h
    rw [escape_injective v w h']

theorem renderSubs_has42 (a : List Sub) (hne : a ≠ []) (h : SubsWF true a) : (42 : UInt8) ∈ renderSubs true a := by
  cases a with
  | nil => exact absurd rfl hne
  | cons x xs => cases x <;> simp [renderSubs]

theorem renderSubs_ne_star (a : List Sub) (hne : a ≠ []) (h : SubsWF true a) : renderSubs true a ≠ [42] := by
  cases a with
  | nil => exact absurd rfl hne
  | cons x xs =>
    cases x with
    | initial v =>
      obtain ⟨c, t, hc, hn⟩ := escape_head v h.2.1
      simp [renderSubs, hc, hn]
    | any v => simp [renderSubs]
    | final v =>
      obtain ⟨c, t, hc, _⟩ := escape_head v h.1
      simp [renderSubs, hc]

/-! ### extensible match: the segments between the colons -/

def is58 (c : UInt8) : Bool := c == 58

theorem plain_no58 (s : Bytes) (h : Plain s) : ∀ c ∈ s, is58 c = false := by
  intro c hc
  have := plain_ne c (h c hc) 58 (by simp)
  simp only [is58, beq_eq_false_iff_ne, ne_eq]
  intro h2; apply this; rw [h2]; rfl

/-- `:seg:seg...:=value` -/
def segsRender (segs : List Bytes) (ev : Bytes) : Bytes := segs.flatMap (fun s => 58 :: s) ++ 58 :: 61 :: ev

theorem segs_unique : ∀ (a b : List Bytes) (ev ev' : Bytes), (∀ s ∈ a, Plain s ∧ s ≠ []) → (∀ s ∈ b, Plain s ∧ s ≠ []) →
    segsRender a ev = segsRender b ev' → a = b ∧ ev = ev'
  | [], [], ev, ev', _, _, h => by simpa [segsRender] using h
  | [], s :: ss, ev, ev', _, hb, h => by
    exfalso
    obtain ⟨hp, hne⟩ := hb s (by simp)
    cases s with
    | nil => exact hne rfl
    | cons c t =>
      simp [segsRender] at h
      exact plain_ne c (hp c (by simp)) 61 (by simp) (by rw [← h.1]; rfl)
  | s :: ss, [], ev, ev', ha, _, h => by
    exfalso
    obtain ⟨hp, hne⟩ := ha s (by simp)
    cases s with
    | nil => exact hne rfl
    | cons c t =>
      simp [segsRender] at h
      exact plain_ne c (hp c (by simp)) 61 (by simp) (by rw [h.1]; rfl)
  | s :: ss, t :: ts, ev, ev', ha, hb, h => by
    have h1 : s ++ 58 :: (segsRender ss ev).tail = t ++ 58 :: (segsRender ts ev').tail ∧ True := by
      refine ⟨?_, trivial⟩
      have e1 : ∀ (l : List Bytes) (e : Bytes), segsRender l e = 58 :: (segsRender l e).tail := by
        intro l e; cases l <;> simp [segsRender]
      simp only [segsRender, List.flatMap_cons, List.cons_append, List.append_assoc, List.cons.injEq, true_and] at h
      have := e1 ss ev; have := e1 ts ev'
      simp only [segsRender] at *
      rw [← e1 ss ev, ← e1 ts ev'] <;> simpa [segsRender] using h
    obtain ⟨hs, _, hr⟩ := split_unique is58 s t 58 58 _ _ (plain_no58 s (ha s (by simp)).1) (plain_no58 t (hb t (by simp)).1) rfl rfl h1.1
    have e1 : ∀ (l : List Bytes) (e : Bytes), segsRender l e = 58 :: (segsRender l e).tail := by
      intro l e; cases l <;> simp [segsRender]
    have h2 : segsRender ss ev = segsRender ts ev' := by rw [e1 ss ev, e1 ts ev', hr]
    obtain ⟨h3, h4⟩ := segs_unique ss ts ev ev' (fun x hx => ha x (by simp [hx])) (fun x hx => hb x (by simp [hx])) h2
    exact ⟨by rw [hs, h3], h4⟩

/-! ### the filters that are no and / or / not: attribute part, first operator byte, remainder -/

def isOp (c : UInt8) : Bool := c == 61 || c == 62 || c == 60 || c == 126 || c == 58

theorem plain_noOp (s : Bytes) (h : Plain s) : ∀ c ∈ s, isOp c = false := by
  intro c hc
  have hp := h c hc
  have h1 := plain_ne c hp 61 (by simp)
  have h2 := plain_ne c hp 62 (by simp)
  have h3 := plain_ne c hp 60 (by simp)
  have h4 := plain_ne c hp 126 (by simp)
  have h5 := plain_ne c hp 58 (by simp)
  have e : ∀ n : Nat, n < 256 → c.toNat ≠ n → (c == n.toUInt8) = false := by
    intro n hn hne
    simp only [beq_eq_false_iff_ne, ne_eq]
    intro hc2; apply hne; rw [hc2]; simp; omega
  simp only [isOp, Bool.or_eq_false_iff]
  exact ⟨⟨⟨⟨e 61 (by omega) h1, e 62 (by omega) h2⟩, e 60 (by omega) h3⟩, e 126 (by omega) h4⟩, e 58 (by omega) h5⟩

def extSegs (rule : Option Bytes) (dn : Bool) : List Bytes :=
  (if dn then [[100, 110]] else []) ++ (match rule with | some r => [r] | none => [])

def leafA : Filter → Bytes
  | .eq a _ => a | .substr a _ => a | .ge a _ => a | .le a _ => a | .present a => a | .approx a _ => a
  | .ext _ type _ _ => type.getD []
  | _ => []
def leafS : Filter → UInt8
  | .eq .. => 61 | .substr .. => 61 | .present .. => 61 | .ge .. => 62 | .le .. => 60 | .approx .. => 126 | .ext .. => 58
  | _ => 61
def leafR : Filter → Bytes
  | .eq _ v => escape v | .substr _ subs => renderSubs true subs | .present _ => [42]
  | .ge _ v => 61 :: escape v | .le _ v => 61 :: escape v | .approx _ v => 61 :: escape v
  | .ext rule _ value dn => (segsRender (extSegs rule dn) (escape value)).tail
  | _ => []
def isLeaf : Filter → Bool
  | .and _ => false | .or _ => false | .not _ => false | _ => true

/-- the grammar's side conditions on a filter that is no and / or / not -/
def LeafWF : Filter → Prop
  | .eq a _ => Plain a | .ge a _ => Plain a | .le a _ => Plain a | .approx a _ => Plain a | .present a => Plain a
  | .substr a subs => Plain a ∧ subs ≠ [] ∧ SubsWF true subs
  | .ext rule type _ _ =>
      (∀ r, rule = some r → Plain r ∧ r ≠ [] ∧ r ≠ [100, 110]) ∧ (∀ t, type = some t → Plain t ∧ t ≠ [])
  | _ => True

def leafBody (f : Filter) : Bytes := leafA f ++ leafS f :: leafR f

theorem segsRender_head (l : List Bytes) (e : Bytes) : segsRender l e = 58 :: (segsRender l e).tail := by
  cases l <;> simp [segsRender]

theorem render_leaf (f : Filter) (hl : isLeaf f = true) (hw : LeafWF f) : render f = paren (leafBody f) := by
  cases f with
  | and _ => simp [isLeaf] at hl
  | or _ => simp [isLeaf] at hl
  | not _ => simp [isLeaf] at hl
  | eq a v => simp [render, leafBody, leafA, leafS, leafR]
  | substr a subs => simp [render, leafBody, leafA, leafS, leafR]
  | ge a v => simp [render, leafBody, leafA, leafS, leafR]
  | le a v => simp [render, leafBody, leafA, leafS, leafR]
  | present a => simp [render, leafBody, leafA, leafS, leafR]
  | approx a v => simp [render, leafBody, leafA, leafS, leafR]
  | ext rule type value dn =>
    have hx : (if dn then [58, 100, 110] else []) ++
        (match rule with | some r => (if r.isEmpty then [] else 58 :: r) | none => []) ++ [58, 61] ++ escape value =
        segsRender (extSegs rule dn) (escape value) := by
      cases rule with
      | none => cases dn <;> simp [segsRender, extSegs]
      | some r =>
        have hr : r ≠ [] := (hw.1 r rfl).2.1
        have : r.isEmpty = false := by cases r <;> simp_all
        cases dn <;> simp [segsRender, extSegs, this]
    simp only [render, leafBody, leafA, leafS, leafR]
    rw [← segsRender_head, ← hx]
    simp [List.append_assoc]
    cases rule <;> rfl

theorem leafA_plain (f : Filter) (hw : LeafWF f) : Plain (leafA f) := by
  cases f with
  | and _ => intro c hc; simp [leafA] at hc
  | or _ => intro c hc; simp [leafA] at hc
  | not _ => intro c hc; simp [leafA] at hc
  | eq a v => exact hw
  | substr a subs => exact hw.1
  | ge a v => exact hw
  | le a v => exact hw
  | present a => exact hw
  | approx a v => exact hw
  | ext rule type value dn =>
    cases type with
    | none => intro c hc; simp [leafA] at hc
    | some t => exact (hw.2 t rfl).1

theorem leafS_isOp (f : Filter) : isOp (leafS f) = true := by
  cases f <;> rfl

theorem extSegs_ok (rule : Option Bytes) (dn : Bool) (h : ∀ r, rule = some r → Plain r ∧ r ≠ [] ∧ r ≠ [100, 110]) :
    ∀ s ∈ extSegs rule dn, Plain s ∧ s ≠ [] := by
  have hdn : Plain [100, 110] := by
    intro c hc; simp at hc; rcases hc with h | h <;> subst h <;> decide
  intro s hs
  cases rule with
  | none => cases dn <;> simp [extSegs] at hs; subst hs; exact ⟨hdn, by simp⟩
  | some r =>
    have hr := h r rfl
    cases dn <;> simp [extSegs] at hs
    · subst hs; exact ⟨hr.1, hr.2.1⟩
    · rcases hs with hs | hs <;> subst hs
      · exact ⟨hdn, by simp⟩
      · exact ⟨hr.1, hr.2.1⟩

theorem extSegs_inj (rule rule' : Option Bytes) (dn dn' : Bool)
    (h : ∀ r, rule = some r → Plain r ∧ r ≠ [] ∧ r ≠ [100, 110]) (h' : ∀ r, rule' = some r → Plain r ∧ r ≠ [] ∧ r ≠ [100, 110])
    (he : extSegs rule dn = extSegs rule' dn') : rule = rule' ∧ dn = dn' := by
  cases rule with
  | none =>
    cases rule' with
    | none => cases dn <;> cases dn' <;> simp [extSegs] at he ⊢
    | some r' =>
      have := (h' r' rfl).2.2
      cases dn <;> cases dn' <;> simp [extSegs] at he ⊢
      exact this he.symm
  | some r =>
    cases rule' with
    | none =>
      have := (h r rfl).2.2
      cases dn <;> cases dn' <;> simp [extSegs] at he ⊢
      exact this he
    | some r' =>
      have h1 := (h r rfl).2.2
      have h2 := (h' r' rfl).2.2
      cases dn <;> cases dn' <;> simp [extSegs] at he ⊢ <;> first | exact he | (exact absurd he.1 h1) | (exact absurd he.1.symm h2) | skip

theorem leaf_inj (f g : Filter) (hf : isLeaf f = true) (hg : isLeaf g = true) (wf : LeafWF f) (wg : LeafWF g)
    (h : leafBody f = leafBody g) : f = g := by
  obtain ⟨hA, hS, hR⟩ := split_unique isOp (leafA f) (leafA g) (leafS f) (leafS g) (leafR f) (leafR g)
    (plain_noOp _ (leafA_plain f wf)) (plain_noOp _ (leafA_plain g wg)) (leafS_isOp f) (leafS_isOp g) h
  cases f <;> cases g
  all_goals (first
    | (simp [isLeaf] at hf; done)
    | (simp [isLeaf] at hg; done)
    | (simp [leafS] at hS; done)
    | skip)
  case eq.eq a v a' v' =>
    simp only [leafA, leafR] at hA hR
    rw [hA, escape_injective v v' hR]
  case eq.substr a v a' subs =>
    exfalso
    simp only [leafR] at hR
    have := renderSubs_has42 subs wg.2.1 wg.2.2
    rw [← hR] at this
    exact (escape_clean v 42 this).2.2 rfl
  case eq.present a v a' =>
    exfalso
    simp only [leafR] at hR
    exact (escape_clean v 42 (by rw [hR]; simp)).2.2 rfl
  case substr.eq a subs a' v =>
    exfalso
    simp only [leafR] at hR
    have := renderSubs_has42 subs wf.2.1 wf.2.2
    rw [hR] at this
    exact (escape_clean v 42 this).2.2 rfl
  case substr.substr a subs a' subs' =>
    simp only [leafA, leafR] at hA hR
    rw [hA, renderSubs_injective true subs subs' wf.2.2 wg.2.2 hR]
  case substr.present a subs a' =>
    exfalso
    simp only [leafR] at hR
    exact renderSubs_ne_star subs wf.2.1 wf.2.2 hR
  case present.eq a a' v =>
    exfalso
    simp only [leafR] at hR
    exact (escape_clean v 42 (by rw [← hR]; simp)).2.2 rfl
  case present.substr a a' subs =>
    exfalso
    simp only [leafR] at hR
    exact renderSubs_ne_star subs wg.2.1 wg.2.2 hR.symm
  case present.present a a' =>
    simp only [leafA] at hA
    rw [hA]
  case ge.ge a v a' v' =>
    simp only [leafA, leafR, List.cons.injEq, true_and] at hA hR
    rw [hA, escape_injective v v' hR]
  case le.le a v a' v' =>
    simp only [leafA, leafR, List.cons.injEq, true_and] at hA hR
    rw [hA, escape_injective v v' hR]
  case approx.approx a v a' v' =>
    simp only [leafA, leafR, List.cons.injEq, true_and] at hA hR
    rw [hA, escape_injective v v' hR]
  case ext.ext rule type value dn rule' type' value' dn' =>
    simp only [leafA, leafR] at hA hR
    have hseg : segsRender (extSegs rule dn) (escape value) = segsRender (extSegs rule' dn') (escape value') := by
      rw [segsRender_head (extSegs rule dn), segsRender_head (extSegs rule' dn'), hR]
    have hdn : Plain [100, 110] := by intro c hc; simp at hc; rcases hc with h | h <;> subst h <;> decide
    have hs1 := extSegs_ok rule dn wf.1
    have hs2 := extSegs_ok rule' dn' wg.1
    obtain ⟨h1, h2⟩ := segs_unique _ _ _ _ hs1 hs2 hseg
    have hv := escape_injective value value' h2
    obtain ⟨h3, h4⟩ := extSegs_inj rule rule' dn dn' wf.1 wg.1 h1
    have ht : type = type' := by
      cases type with
      | none =>
        cases type' with
        | none => rfl
        | some t' => exact absurd (by simpa using hA.symm) (wg.2 t' rfl).2
      | some t =>
        cases type' with
        | none => exact absurd (by simpa using hA) (wf.2 t rfl).2
        | some t' => simp at hA; rw [hA]
    rw [h3, h4, hv, ht]


/-! ### bytes of a rendered leaf -/

theorem renderSubs_no41 : ∀ (first : Bool) (a : List Sub), ∀ c ∈ renderSubs first a, c ≠ 41
  | _, [], c, hc => by simp [renderSubs] at hc
  | first, x :: xs, c, hc => by
    cases x with
    | initial v =>
      simp only [renderSubs, List.mem_append, List.mem_singleton] at hc
      rcases hc with (h | h) | h
      · exact (escape_clean v c h).2.1
      · subst h; decide
      · exact renderSubs_no41 false xs c h
    | any v =>
      simp only [renderSubs, List.mem_append, List.mem_singleton] at hc
      rcases hc with ((h | h) | h) | h
      · cases first <;> simp at h; subst h; decide
      · exact (escape_clean v c h).2.1
      · subst h; decide
      · exact renderSubs_no41 false xs c h
    | final v =>
      simp only [renderSubs, List.mem_append] at hc
      rcases hc with (h | h) | h
      · cases first <;> simp at h; subst h; decide
      · exact (escape_clean v c h).2.1
      · exact renderSubs_no41 false xs c h

theorem plain_no41 (s : Bytes) (h : Plain s) : ∀ c ∈ s, c ≠ 41 := by
  intro c hc hcc
  exact plain_ne c (h c hc) 41 (by simp) (by rw [hcc]; rfl)

theorem segsRender_no41 (l : List Bytes) (e : Bytes) (hl : ∀ s ∈ l, Plain s) (he : ∀ c ∈ e, c ≠ 41) :
    ∀ c ∈ segsRender l e, c ≠ 41 := by
  intro c hc
  simp only [segsRender, List.mem_append, List.mem_flatMap, List.mem_cons] at hc
  rcases hc with ⟨s, hs, h | h⟩ | h | h | h
  · subst h; decide
  · exact plain_no41 s (hl s hs) c h
  · subst h; decide
  · subst h; decide
  · exact he c h

theorem leafBody_no41 (f : Filter) (hl : isLeaf f = true) (hw : LeafWF f) : ∀ c ∈ leafBody f, c ≠ 41 := by
  intro c hc
  simp only [leafBody, List.mem_append, List.mem_cons] at hc
  rcases hc with h | h | h
  · exact plain_no41 _ (leafA_plain f hw) c h
  · subst h; cases f <;> simp [leafS]
  · cases f with
    | and _ => simp [isLeaf] at hl
    | or _ => simp [isLeaf] at hl
    | not _ => simp [isLeaf] at hl
    | eq a v => exact (escape_clean v c h).2.1
    | substr a subs => exact renderSubs_no41 true subs c h
    | ge a v =>
      simp only [leafR, List.mem_cons] at h
      rcases h with h | h
      · subst h; decide
      · exact (escape_clean v c h).2.1
    | le a v =>
      simp only [leafR, List.mem_cons] at h
      rcases h with h | h
      · subst h; decide
      · exact (escape_clean v c h).2.1
    | present a => simp only [leafR, List.mem_singleton] at h; subst h; decide
    | approx a v =>
      simp only [leafR, List.mem_cons] at h
      rcases h with h | h
      · subst h; decide
      · exact (escape_clean v c h).2.1
    | ext rule type value dn =>
      simp only [leafR] at h
      have hm : c ∈ segsRender (extSegs rule dn) (escape value) := by
        rw [segsRender_head]; exact List.mem_cons_of_mem _ h
      exact segsRender_no41 _ _ (fun s hs => (extSegs_ok rule dn hw.1 s hs).1) (fun c hc => (escape_clean value c hc).2.1) c hm

/-- the first byte inside the parentheses of a leaf is none of `&`, `|`, `!` -/
theorem leafBody_head (f : Filter) (hw : LeafWF f) : ∃ c t, leafBody f = c :: t ∧ c ≠ 38 ∧ c ≠ 124 ∧ c ≠ 33 := by
  cases ha : leafA f with
  | nil =>
    refine ⟨leafS f, leafR f, by simp [leafBody, ha], ?_⟩
    cases f <;> simp [leafS]
  | cons x xs =>
    refine ⟨x, xs ++ leafS f :: leafR f, by simp [leafBody, ha], ?_⟩
    have hp := leafA_plain f hw x (by rw [ha]; simp)
    have e : ∀ n : Nat, n < 256 → x.toNat ≠ n → x ≠ n.toUInt8 := by
      intro n hn hne hx; apply hne; rw [hx]; simp; omega
    exact ⟨e 38 (by omega) (plain_ne x hp 38 (by simp)), e 124 (by omega) (plain_ne x hp 124 (by simp)),
           e 33 (by omega) (plain_ne x hp 33 (by simp))⟩

/-! ### the whole filter: `render` is a prefix code -/

mutual
/-- a filter within RFC 4511 / 4515's grammar -/
def WF : Filter → Prop
  | .and fs => WFAll fs
  | .or fs => WFAll fs
  | .not f => WF f
  | .eq a v => LeafWF (.eq a v)
  | .substr a s => LeafWF (.substr a s)
  | .ge a v => LeafWF (.ge a v)
  | .le a v => LeafWF (.le a v)
  | .present a => LeafWF (.present a)
  | .approx a v => LeafWF (.approx a v)
  | .ext r t v d => LeafWF (.ext r t v d)
def WFAll : List Filter → Prop
  | [] => True
  | f :: fs => WF f ∧ WFAll fs
end

def is41 (c : UInt8) : Bool := c == 41

theorem WF_leaf (f : Filter) (hl : isLeaf f = true) (h : WF f) : LeafWF f := by
  cases f <;> first | (simp [isLeaf] at hl; done) | (simpa [WF] using h)

theorem render_head (f : Filter) : ∃ t, render f = 40 :: t := by
  cases f <;> simp [render, paren]

/-- a leaf against anything -/
theorem leaf_vs (f g : Filter) (r r' : Bytes) (hl : isLeaf f = true) (wf : LeafWF f) (wg : WF g)
    (h : render f ++ r = render g ++ r') : f = g ∧ r = r' := by
  rw [render_leaf f hl wf] at h
  by_cases hg : isLeaf g = true
  · have wg' := WF_leaf g hg wg
    rw [render_leaf g hg wg'] at h
    simp only [paren, List.cons_append, List.append_assoc, List.cons.injEq, true_and, true_and] at h
    have n1 : ∀ c ∈ leafBody f, is41 c = false := by
      intro c hc; simp [is41, leafBody_no41 f hl wf c hc]
    have n2 : ∀ c ∈ leafBody g, is41 c = false := by
      intro c hc; simp [is41, leafBody_no41 g hg wg' c hc]
    obtain ⟨h1, _, h3⟩ := split_unique is41 _ _ 41 41 _ _ n1 n2 rfl rfl h
    exact ⟨leaf_inj f g hl hg wf wg' h1, h3⟩
  · exfalso
    obtain ⟨c, t, hc, h38, h124, h33⟩ := leafBody_head f wf
    cases g with
    | and gs => simp [paren, render, hc] at h; exact h38 h.1
    | or gs => simp [paren, render, hc] at h; exact h124 h.1
    | not g1 => simp [paren, render, hc] at h; exact h33 h.1
    | eq _ _ => simp [isLeaf] at hg
    | substr _ _ => simp [isLeaf] at hg
    | ge _ _ => simp [isLeaf] at hg
    | le _ _ => simp [isLeaf] at hg
    | present _ => simp [isLeaf] at hg
    | approx _ _ => simp [isLeaf] at hg
    | ext _ _ _ _ => simp [isLeaf] at hg

mutual
/-- `render` is a prefix code on well-formed filters: what follows a rendered filter never changes how it is read -/
theorem render_prefix : ∀ (f g : Filter) (r r' : Bytes), WF f → WF g → render f ++ r = render g ++ r' → f = g ∧ r = r'
  | .and fs, g, r, r', wf, wg, h => by
    cases g with
    | and gs =>
      simp only [render, paren, List.cons_append, List.append_assoc, List.cons.injEq, true_and, List.singleton_append] at h
      obtain ⟨h1, h2⟩ := renderAll_prefix fs gs r r' wf wg h
      exact ⟨by rw [h1], h2⟩
    | or gs => simp [render, paren] at h
    | not g1 => simp [render, paren] at h
    | eq a v => exact absurd (leaf_vs _ _ r' r rfl wg wf h.symm).1 (by simp)
    | substr a s => exact absurd (leaf_vs _ _ r' r rfl wg wf h.symm).1 (by simp)
    | ge a v => exact absurd (leaf_vs _ _ r' r rfl wg wf h.symm).1 (by simp)
    | le a v => exact absurd (leaf_vs _ _ r' r rfl wg wf h.symm).1 (by simp)
    | present a => exact absurd (leaf_vs _ _ r' r rfl wg wf h.symm).1 (by simp)
    | approx a v => exact absurd (leaf_vs _ _ r' r rfl wg wf h.symm).1 (by simp)
    | ext a b c d => exact absurd (leaf_vs _ _ r' r rfl wg wf h.symm).1 (by simp)
  | .or fs, g, r, r', wf, wg, h => by
    cases g with
    | or gs =>
      simp only [render, paren, List.cons_append, List.append_assoc, List.cons.injEq, true_and, List.singleton_append] at h
      obtain ⟨h1, h2⟩ := renderAll_prefix fs gs r r' wf wg h
      exact ⟨by rw [h1], h2⟩
    | and gs => simp [render, paren] at h
    | not g1 => simp [render, paren] at h
    | eq a v => exact absurd (leaf_vs _ _ r' r rfl wg wf h.symm).1 (by simp)
    | substr a s => exact absurd (leaf_vs _ _ r' r rfl wg wf h.symm).1 (by simp)
    | ge a v => exact absurd (leaf_vs _ _ r' r rfl wg wf h.symm).1 (by simp)
    | le a v => exact absurd (leaf_vs _ _ r' r rfl wg wf h.symm).1 (by simp)
    | present a => exact absurd (leaf_vs _ _ r' r rfl wg wf h.symm).1 (by simp)
    | approx a v => exact absurd (leaf_vs _ _ r' r rfl wg wf h.symm).1 (by simp)
    | ext a b c d => exact absurd (leaf_vs _ _ r' r rfl wg wf h.symm).1 (by simp)
  | .not f1, g, r, r', wf, wg, h => by
    cases g with
    | not g1 =>
      simp only [render, paren, List.cons_append, List.append_assoc, List.cons.injEq, true_and, List.singleton_append] at h
      obtain ⟨h1, h2⟩ := render_prefix f1 g1 (41 :: r) (41 :: r') wf wg h
      exact ⟨by rw [h1], by simpa using h2⟩
    | and gs => simp [render, paren] at h
    | or gs => simp [render, paren] at h
    | eq a v => exact absurd (leaf_vs _ _ r' r rfl wg wf h.symm).1 (by simp)
    | substr a s => exact absurd (leaf_vs _ _ r' r rfl wg wf h.symm).1 (by simp)
    | ge a v => exact absurd (leaf_vs _ _ r' r rfl wg wf h.symm).1 (by simp)
    | le a v => exact absurd (leaf_vs _ _ r' r rfl wg wf h.symm).1 (by simp)
    | present a => exact absurd (leaf_vs _ _ r' r rfl wg wf h.symm).1 (by simp)
    | approx a v => exact absurd (leaf_vs _ _ r' r rfl wg wf h.symm).1 (by simp)
    | ext a b c d => exact absurd (leaf_vs _ _ r' r rfl wg wf h.symm).1 (by simp)
  | .eq a v, g, r, r', wf, wg, h => leaf_vs _ g r r' rfl wf wg h
  | .substr a s, g, r, r', wf, wg, h => leaf_vs _ g r r' rfl wf wg h
  | .ge a v, g, r, r', wf, wg, h => leaf_vs _ g r r' rfl wf wg h
  | .le a v, g, r, r', wf, wg, h => leaf_vs _ g r r' rfl wf wg h
  | .present a, g, r, r', wf, wg, h => leaf_vs _ g r r' rfl wf wg h
  | .approx a v, g, r, r', wf, wg, h => leaf_vs _ g r r' rfl wf wg h
  | .ext a b c d, g, r, r', wf, wg, h => leaf_vs _ g r r' rfl wf wg h
theorem renderAll_prefix : ∀ (fs gs : List Filter) (r r' : Bytes), WFAll fs → WFAll gs →
    renderAll fs ++ 41 :: r = renderAll gs ++ 41 :: r' → fs = gs ∧ r = r'
  | [], [], r, r', _, _, h => by simpa [renderAll] using h
  | [], g :: gs, r, r', _, _, h => by
    obtain ⟨t, ht⟩ := render_head g
    simp [renderAll, ht] at h
  | f :: fs, [], r, r', _, _, h => by
    obtain ⟨t, ht⟩ := render_head f
    simp [renderAll, ht] at h
  | f :: fs, g :: gs, r, r', wf, wg, h => by
    simp only [renderAll, List.append_assoc] at h
    obtain ⟨h1, h2⟩ := render_prefix f g _ _ wf.1 wg.1 h
    obtain ⟨h3, h4⟩ := renderAll_prefix fs gs r r' wf.2 wg.2 h2
    exact ⟨by rw [h1, h3], h4⟩
end

/-- the string the handler receives determines the client's filter -/
theorem render_injective (f g : Filter) (wf : WF f) (wg : WF g) (h : render f = render g) : f = g :=
  (render_prefix f g [] [] wf wg (by simpa using h)).1

end Gldap.Filter
