import GldapModel.Gldap.Core
/-! PLACEHOLDER until the extractor emits it. -/
namespace Gldap.Generated
def guards : Gldap.Guards := Gldap.noGuards
end Gldap.Generated
