import GldapModel.Gldap.Session
import GldapModel.Directory.Store
import GldapModel.Directory.BindSession
/-! # The test directory on a connection: a session whose handler scripts depend on, and change,
    the directory's store

testdirectory/directory.go `Start` registers nine handlers on one mux (in this order: default
route, bind, StartTLS, the three search routes, modify, add, delete); each handler is a script
of `New*Response` constructor calls, setter calls and `Write`s over the store of
`Directory.Store`. `dirSession` is `Gldap.Session.session` with that configuration, the store
threaded through the requests in the order they are read (the directory serialises its handlers
with `d.mu`; a client that waits for each answer sees exactly this order). StartTLS is outside
this model (its handler's script is empty; the correspondence stream sends none). -/
namespace Directory
open Ber Gldap Gldap.Generated Gldap.Session

/-- what the directory is configured with, and what it holds -/
structure Dir where
  store : Store
  allowAnon : Bool
  dctls : List Control       -- `SetControls`
  deriving Repr, DecidableEq

def startTLSOid : Bytes :=   -- gldap.ExtendedOperationStartTLS "1.3.6.1.4.1.1466.20037"
  [49, 46, 51, 46, 54, 46, 49, 46, 52, 46, 49, 46, 49, 52, 54, 54, 46, 50, 48, 48, 51, 55]

/-- `Start`'s registrations; the k-th handler is `k` -/
def dirRegs (s : Store) : List (Reg Nat) :=
  [.dflt 0, .route .bind 1, .route (.extended startTLSOid) 2,
   .route (.search s.userDN [] 0) 3, .route (.search s.groupDN [] 0) 4, .route (.search [] [] 0) 5,
   .route .modify 6, .route .add 7, .route .delete 8]

def notHandledDiag : Bytes :=   -- "intentionally not handled"
  [105, 110, 116, 101, 110, 116, 105, 111, 110, 97, 108, 108, 121, 32, 110, 111, 116, 32, 104, 97, 110, 100, 108, 101, 100]
def entryExistsDiag : Bytes :=  -- "entry exists for DN: "
  [101, 110, 116, 114, 121, 32, 101, 120, 105, 115, 116, 115, 32, 102, 111, 114, 32, 68, 78, 58, 32]
def moreThanOnePre : Bytes :=   -- "more than one match: "
  [109, 111, 114, 101, 32, 116, 104, 97, 110, 32, 111, 110, 101, 32, 109, 97, 116, 99, 104, 58, 32]
def entriesPost : Bytes :=      -- " entries"
  [32, 101, 110, 116, 114, 105, 101, 115]

/-- `fmt.Sprintf("more than one match: %d entries", n)` -/
def moreThanOneDiag (n : Nat) : Bytes := moreThanOnePre ++ (toString n).toUTF8.toList ++ entriesPost

/-- one matching entry as the search handlers write it: `NewSearchResponseEntry(e.DN)`, then
    `AddAttribute(attr.Name, attr.Values)` for each attribute -/
def entrySpec (e : Entry) : RespSpec := ⟨.entry e.dn, [], e.attrs.map fun a => .addAttr a.name a.values⟩

/-- the SearchResultDone the three search handlers `defer`: noSuchObject unless something was found -/
def doneSpec (dctls : List Control) (found : Bool) : RespSpec :=
  ⟨.done, [.code ResultNoSuchObject],
   if found then (if dctls.isEmpty then [.code ResultSuccess] else [.controls dctls, .code ResultSuccess]) else []⟩

/-- a search handler's writes, given what it found -/
def searchScript (dctls : List Control) (r : Nat × List Entry) : List RespSpec :=
  r.2.map entrySpec ++ [doneSpec dctls (!r.2.isEmpty)]

def chgOf (c : Change) : Int × Bytes × List Bytes := (c.op, c.type, c.vals)
def attrOf (a : Attr) : Bytes × List Bytes := (a.type, a.vals)

/-- `handleAdd`'s response -/
def addScript (s : Store) (dn : Bytes) : List RespSpec :=
  [⟨.general, [.appCode ApplicationAddResponse, .code ResultOperationsError],
    if (findIdx (paren dn) s.users).isEmpty then [.code ResultSuccess]
    else [.code ResultEntryAlreadyExists, .diag (entryExistsDiag ++ dn)]⟩]

/-- the setter calls of `handleDelete` for one of its two lookups -/
def foundSets : List Nat → Option (List RSet)
  | [] => none
  | [_] => some [.code ResultSuccess]
  | l => some [.code ResultInappropriateMatching, .diag (moreThanOneDiag l.length)]

/-- `handleDelete`'s response -/
def deleteScript (s : Store) (dn : Bytes) : List RespSpec :=
  [⟨.general, [.code ResultNoSuchObject, .appCode ApplicationDelResponse],
    match foundSets (findIdx (paren dn) s.users) with
    | some sets => sets
    | none => (foundSets (findIdx (paren dn) s.groups)).getD []⟩]

/-- `handleModify`'s response: the matched DN is set once exactly one entry is found -/
def modifyScript (s : Store) (dn : Bytes) : List RespSpec :=
  let hits := match findIdx (paren dn) s.users with
    | [] => (findIdx dn s.groups).filterMap (s.groups[·]?)
    | l => l.filterMap (s.users[·]?)
  [⟨.modify, [.code ResultNoSuchObject],
    match hits with
    | [] => []
    | [e] => [.matched e.dn, .code ResultSuccess]
    | l => [.code ResultInappropriateMatching, .diag (moreThanOneDiag l.length)]⟩]

/-- what handler `h` of `dirRegs` writes for a decoded message, over the store as it is -/
def dirScript (d : Dir) (h : Nat) (msg : Msg) : List RespSpec :=
  match h, msg with
  | 0, _ => [⟨.general, [.diag notHandledDiag], []⟩]
  | 1, m => bindScript d.store.users d.allowAnon d.dctls m
  | 3, .search _ base _ _ _ _ _ f _ _ => searchScript d.dctls (searchVia d.store .users base f)
  | 4, .search _ base _ _ _ _ _ f _ _ => searchScript d.dctls (searchVia d.store .groups base f)
  | 5, .search _ base _ _ _ _ _ f _ _ => searchScript d.dctls (searchVia d.store .generic base f)
  | 6, .modify _ dn _ _ => modifyScript d.store dn
  | 7, .add _ dn _ _ => addScript d.store dn
  | 8, .delete _ dn _ => deleteScript d.store dn
  | _, _ => []

def dirCfg (d : Dir) : Cfg := { regs := dirRegs d.store, script := dirScript d }

/-- the store after the handler of a decoded message has run -/
def dirUpdate (s : Store) : Msg → Store
  | .add _ dn attrs _ => (add s dn (attrs.map attrOf)).1
  | .modify _ dn chs _ => (modify s dn (chs.map chgOf)).1
  | .delete _ dn _ => (delete s dn).1
  | _ => s

def Dir.after (d : Dir) (msg : Msg) : Dir := { d with store := dirUpdate d.store msg }

/-- `serveRequests` of a connection to the directory: frames written, how the read loop ended,
    and the directory afterwards -/
def dirSession (env : Env) (table : Option (List (Bytes × Nat))) (g : Guards) :
    Dir → Nat → Bytes → List Bytes × Ending × Dir
  | d, 0, _ => ([], .eof, d)
  | d, fuel + 1, bs =>
    if bs.isEmpty then ([], .eof, d)
    else match serveFrame env g bs with
      | .err => ([], .closed, d)
      | .panic => ([], .crashed, d)
      | .ok msg =>
        if msg.isUnbind then (respondUnbind g (dirCfg d) msg.id, .unbind, d)
        else
          let r := dirSession env table g (d.after msg) fuel (frameRest env bs)
          (respond table g (dirCfg d) msg ++ r.1, r.2.1, r.2.2)

end Directory
