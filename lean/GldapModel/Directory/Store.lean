import GldapModel.Directory.Bind
import GldapModel.Gldap.Mux
/-! testdirectory/directory.go: `match` / `find`, the add / modify / delete / search handlers and
    the routing of searches between them. Library functions are re-implemented at byte level:
    the regular expression `\((.*?)\)` (`FindAllString`), `ReplaceAll`, `Trim`, `TrimSpace`
    (ASCII), `Contains`. -/
namespace Directory
open Ber Gldap Gldap.Generated

/-- from just after a `(`: the shortest run up to and including the next `)`, provided no
    newline comes first (`.` does not match `\n`) -/
def closeParen : Bytes → Option (Bytes × Bytes)
  | [] => none
  | b :: bs =>
    if b.toNat == 10 then none
    else if b.toNat == 41 then some ([b], bs)
    else (closeParen bs).map fun (m, r) => (b :: m, r)

/-- `regexp.MustCompile("\\((.*?)\\)").FindAllString(s, -1)` -/
def findParens : Nat → Bytes → List Bytes
  | 0, _ => []
  | _+1, [] => []
  | f+1, b :: bs =>
    if b.toNat == 40 then
      match closeParen bs with
      | some (m, rest) => (b :: m) :: findParens f rest
      | none => findParens f bs
    else findParens f bs

def trimLeft (cut : UInt8 → Bool) : Bytes → Bytes
  | [] => []
  | b :: bs => if cut b then trimLeft cut bs else b :: bs

/-- `strings.Trim(s, cutset)` -/
def trim (cut : UInt8 → Bool) (s : Bytes) : Bytes := (trimLeft cut (trimLeft cut s).reverse).reverse

def isSpace (b : UInt8) : Bool := b.toNat == 32 || (9 ≤ b.toNat && b.toNat ≤ 13)

/-- the clean-up `match` applies to each regexp match -/
def cleanElement (e : Bytes) : Bytes :=
  let e := e.filter (fun b => b.toNat != 42)                     -- ReplaceAll(e, "*", "")
  let e := trim (fun b => b.toNat == 124 || b.toNat == 40) e       -- Trim(e, "|(")
  let e := trim (fun b => b.toNat == 40) e                         -- Trim(e, "(")
  let e := trim (fun b => b.toNat == 41) e                         -- Trim(e, ")")
  trim isSpace e                                                   -- TrimSpace (ASCII)

def isPrefix : Bytes → Bytes → Bool
  | [], _ => true
  | _ :: _, [] => false
  | a :: as, b :: bs => a == b && isPrefix as bs

/-- `strings.Contains(hay, needle)` -/
def containsBytes : Bytes → Bytes → Bool
  | [], needle => needle.isEmpty
  | h :: hs, needle => isPrefix needle (h :: hs) || containsBytes hs needle

/-- `match(filter, attr)` -/
def matchFilter (filter attr : Bytes) : Bool :=
  (findParens (filter.length + 1) filter).any fun e => containsBytes attr (cleanElement e)

/-- `find`: positions of the entries whose DN matches -/
def findIdx (filter : Bytes) (entries : List Entry) : List Nat :=
  (entries.zipIdx.filter fun (e, _) => matchFilter filter e.dn).map (·.2)

def paren (dn : Bytes) : Bytes := [40] ++ dn ++ [41]

structure Store where
  users : List Entry
  groups : List Entry
  userDN : Bytes
  groupDN : Bytes
  deriving Repr, DecidableEq

/-- `attrs[a.Type] = a.Vals` over the request's attribute list: the last occurrence of a name wins -/
def attrMap (attrs : List (Bytes × List Bytes)) : List (Bytes × List Bytes) :=
  attrs.foldl (fun m a => (m.filter fun x => x.1 != a.1) ++ [a]) []

def mkEntry (dn : Bytes) (attrs : List (Bytes × List Bytes)) : Entry :=
  ⟨dn, (newEntry dn (attrMap attrs)).2⟩

/-- `handleAdd` -/
def add (s : Store) (dn : Bytes) (attrs : List (Bytes × List Bytes)) : Store × Nat :=
  if (findIdx (paren dn) s.users).isEmpty then ({ s with users := s.users ++ [mkEntry dn attrs] }, ResultSuccess)
  else (s, ResultEntryAlreadyExists)

def lastIdxOf (name : Bytes) (attrs : List EAttr) : Option Nat :=
  (attrs.zipIdx.filter fun (a, _) => a.name == name).getLast?.map (·.2)

/-- one change of `handleModify` -/
def applyChange (attrs : List EAttr) (op : Int) (ty : Bytes) (vals : List Bytes) : List EAttr :=
  match lastIdxOf ty attrs with
  | some i =>
    if op == 0 then attrs.modify i (fun a => a.addValue vals)
    else if op == 1 then attrs.eraseIdx i
    else if op == 2 then attrs.set i (newEntryAttribute ty vals)
    else attrs
  | none => if op == 0 then attrs ++ [newEntryAttribute ty vals] else attrs

def applyChanges (attrs : List EAttr) (chs : List (Int × Bytes × List Bytes)) : List EAttr :=
  chs.foldl (fun a c => applyChange a c.1 c.2.1 c.2.2) attrs

/-- `handleModify`: users are looked up with "(dn)", groups - only if no user matched - with the
    bare dn -/
def modify (s : Store) (dn : Bytes) (chs : List (Int × Bytes × List Bytes)) : Store × Nat :=
  match findIdx (paren dn) s.users with
  | [i] => ({ s with users := s.users.modify i fun e => { e with attrs := applyChanges e.attrs chs } }, ResultSuccess)
  | _ :: _ :: _ => (s, ResultInappropriateMatching)
  | [] =>
    match findIdx dn s.groups with
    | [i] => ({ s with groups := s.groups.modify i fun e => { e with attrs := applyChanges e.attrs chs } }, ResultSuccess)
    | _ :: _ :: _ => (s, ResultInappropriateMatching)
    | [] => (s, ResultNoSuchObject)

/-- `handleDelete` -/
def delete (s : Store) (dn : Bytes) : Store × Nat :=
  match findIdx (paren dn) s.users with
  | [i] => ({ s with users := s.users.eraseIdx i }, ResultSuccess)
  | _ :: _ :: _ => (s, ResultInappropriateMatching)
  | [] =>
    match findIdx (paren dn) s.groups with
    | [i] => ({ s with groups := s.groups.eraseIdx i }, ResultSuccess)
    | _ :: _ :: _ => (s, ResultInappropriateMatching)
    | [] => (s, ResultNoSuchObject)

def memberAttr : Bytes := [109, 101, 109, 98, 101, 114]         -- "member"
def memberEq : Bytes := [109, 101, 109, 98, 101, 114, 61]       -- "member="

/-- `findMembers`: one hit per matching member value (a group may appear several times) -/
def findMembers (filter : Bytes) (groups : List Entry) : List Nat :=
  groups.zipIdx.flatMap fun (g, i) =>
    ((getAttributeValues g memberAttr).filter fun m => matchFilter filter (memberEq ++ m)).map fun _ => i

/-- which handler the directory's mux gives a search to (first matching route of Start's table) -/
inductive SearchRoute where | users | groups | generic
  deriving Repr, DecidableEq

def routeSearch (s : Store) (base : Bytes) : SearchRoute :=
  if !s.userDN.isEmpty && equalFold base s.userDN then .users
  else if s.userDN.isEmpty then .users   -- an empty criterion matches every base DN
  else if s.groupDN.isEmpty || equalFold base s.groupDN then .groups
  else .generic

/-- the three search handlers (`handleSearchUsers`, `handleSearchGroups`, `handleSearchGeneric`): result code and
    the entries written, in order -/
def searchVia (s : Store) (r : SearchRoute) (base filter : Bytes) : Nat × List Entry :=
  match r with
  | .users =>
    let es := (findIdx filter s.users).filterMap (s.users[·]?)
    if es.isEmpty then (ResultNoSuchObject, []) else (ResultSuccess, es)
  | .groups =>
    let byMember := findMembers filter s.groups
    let byDN := (findIdx filter s.groups).filter fun i => !byMember.contains i
    let es := (byMember ++ byDN).filterMap (s.groups[·]?)
    if es.isEmpty then (ResultNoSuchObject, []) else (ResultSuccess, es)
  | .generic =>
    let f := if containsBytes base s.userDN then paren base else filter
    let es := (findIdx f s.users).filterMap (s.users[·]?) ++ (findIdx f s.groups).filterMap (s.groups[·]?)
    if es.isEmpty then (ResultNoSuchObject, []) else (ResultSuccess, es)

/-- a search as the directory answers it: the mux's choice of handler, then that handler -/
def search (s : Store) (base filter : Bytes) : Nat × List Entry :=
  searchVia s (routeSearch s base) base filter

end Directory
