import GldapModel.Gldap.Helpers
import GldapModel.Generated.Consts
/-! testdirectory/directory.go `handleBind`. -/
namespace Directory
open Ber Gldap Gldap.Generated

structure Entry where
  dn : Bytes
  attrs : List EAttr
  deriving Repr, DecidableEq

/-- `Entry.GetAttributeValues`: the values of the FIRST attribute with that name -/
def getAttributeValues (e : Entry) (name : Bytes) : List Bytes :=
  match e.attrs.find? (fun a => a.name == name) with
  | some a => a.values
  | none => []

def passwordAttr : Bytes := [112, 97, 115, 115, 119, 111, 114, 100]   -- "password"

/-- does this user entry accept the credentials? -/
def userAccepts (dn pw : Bytes) (u : Entry) : Bool :=
  u.dn == dn &&
  (match getAttributeValues u passwordAttr with
   | v :: _ => v == pw
   | [] => false)

/-- the result code `handleBind` writes for a simple bind -/
def handleBind (users : List Entry) (allowAnon : Bool) (dn pw : Bytes) : Nat :=
  if pw.isEmpty && allowAnon then ResultSuccess
  else if users.any (userAccepts dn pw) then ResultSuccess
  else ResultInvalidCredentials

end Directory
