import GldapModel.Gldap.Session
import GldapModel.Directory.Bind
/-! The test directory's bind handler as a handler script of the session model
    (testdirectory/directory.go `handleBind`: `NewBindResponse` with invalidCredentials, then
    `SetResultCode(success)`, and `SetControls(d.controls...)` after a password match). -/
namespace Directory
open Ber Gldap Gldap.Generated Gldap.Session

/-- what `handleBind` does with its response object, as a script -/
def bindScript (users : List Entry) (allowAnon : Bool) (dctls : List Control) : Msg → List RespSpec
  | .bind _ dn pw _ =>
    if pw.isEmpty && allowAnon then [⟨.bind, [.code ResultInvalidCredentials], [.code ResultSuccess]⟩]
    else if users.any (userAccepts dn pw) then
      [⟨.bind, [.code ResultInvalidCredentials],
        if dctls.isEmpty then [.code ResultSuccess] else [.code ResultSuccess, .controls dctls]⟩]
    else [⟨.bind, [.code ResultInvalidCredentials], []⟩]
  | _ => [⟨.bind, [.code ResultInvalidCredentials], []⟩]

/-- the directory's mux as far as binds are concerned: one bind route -/
def bindCfg (users : List Entry) (allowAnon : Bool) (dctls : List Control) : Cfg :=
  { regs := [.route .bind 0], script := fun _ msg => bindScript users allowAnon dctls msg }

/-- the response object the handler ends up writing -/
def bindAnswer (users : List Entry) (allowAnon : Bool) (dctls : List Control) (id : Int) (dn pw : Bytes) : Resp :=
  { baseResp .bind id with
    code := handleBind users allowAnon dn pw,
    controls := if (pw.isEmpty && allowAnon) then [] else if users.any (userAccepts dn pw) then dctls else [] }

end Directory
