/-! # Runtime.Access - lock discipline and the access table (C15)

Part 1 (threads as lists of acquire / release / access operations, standard mutex semantics):
whoever holds a mutex in its ghost lockset really owns it, hence two different threads are never
both inside sections protected by a common mutex. Part 2: the access table extracted from the
source (one row per syntactic field access: field, read/write, mutexes held, goroutine context,
function) is checked against a per-field policy; every conflicting pair of rows is then justified
by a common mutex, by confinement to one goroutine, or by being read-only after publication. -/
namespace Access

inductive Op where
  | acq (m : Nat) | rel (m : Nat) | acc (v : Nat) (w : Bool)
  deriving Repr, DecidableEq

structure St where
  held : Nat → Option Nat          -- mutex ↦ owner thread
  pc : Nat → Nat                   -- thread ↦ index into its program
  ls : Nat → List Nat              -- ghost: thread ↦ mutexes it acquired and not yet released

def upd {α} (f : Nat → α) (k : Nat) (v : α) : Nat → α := fun x => if x = k then v else f x

/-- thread `t` executes its next op -/
def step (prog : Nat → List Op) (s : St) (t : Nat) : Option St :=
  match (prog t)[s.pc t]? with
  | none => none
  | some (.acq m) =>
    if s.held m = none then
      some { held := upd s.held m (some t), pc := upd s.pc t (s.pc t + 1), ls := upd s.ls t (m :: s.ls t) }
    else none
  | some (.rel m) =>
    if m ∈ s.ls t then      -- well-bracketed programs only release what they hold
      some { held := upd s.held m none, pc := upd s.pc t (s.pc t + 1), ls := upd s.ls t ((s.ls t).erase m) }
    else none
  | some (.acc _ _) => some { s with pc := upd s.pc t (s.pc t + 1) }

def run (prog : Nat → List Op) : St → List Nat → Option St
  | s, [] => some s
  | s, t :: ts => (step prog s t).bind (run prog · ts)

def init : St := { held := fun _ => none, pc := fun _ => 0, ls := fun _ => [] }

/-- ghost lockset is sound: whoever lists m holds m; no duplicates -/
structure Inv (s : St) : Prop where
  owns : ∀ t m, m ∈ s.ls t → s.held m = some t
  nodup : ∀ t, (s.ls t).Nodup

theorem inv_step (prog) (s s' : St) (t : Nat) (h : Inv s) (hs : step prog s t = some s') : Inv s' := by
  unfold step at hs
  split at hs
  · simp at hs
  · rename_i m _
    split at hs
    · rename_i hfree
      simp at hs; subst hs
      constructor
      · intro t' m' hm'
        by_cases ht : t' = t
        · subst ht
          simp [upd] at hm' ⊢
          rcases hm' with rfl | hm'
          · simp
          · have := h.owns _ _ hm'
            by_cases e : m' = m
            · subst e; rw [hfree] at this; simp at this
            · simp [e, this]
        · simp [upd, ht] at hm' ⊢
          have := h.owns _ _ hm'
          by_cases e : m' = m
          · subst e; rw [hfree] at this; simp at this
          · simp [e, this]
      · intro t'
        by_cases ht : t' = t
        · subst ht; simp [upd]
          refine ⟨?_, h.nodup _⟩
          intro hm; have := h.owns _ _ hm; rw [hfree] at this; simp at this
        · simp [upd, ht]; exact h.nodup _
    · simp at hs
  · rename_i m _
    split at hs
    · rename_i hmem
      simp at hs; subst hs
      have hown := h.owns t m hmem
      constructor
      · intro t' m' hm'
        by_cases ht : t' = t
        · subst ht
          simp [upd] at hm' ⊢
          have hne : m' ≠ m := by
            intro e; subst e
            exact absurd hm' (List.Nodup.not_mem_erase (h.nodup _))
          simp [hne]
          exact h.owns _ _ (List.mem_of_mem_erase hm')
        · simp [upd, ht] at hm' ⊢
          have := h.owns _ _ hm'
          by_cases e : m' = m
          · subst e; rw [hown] at this; simp at this; exact absurd this.symm ht
          · simp [e, this]
      · intro t'
        by_cases ht : t' = t
        · subst ht; simp [upd]; exact (h.nodup _).erase _
        · simp [upd, ht]; exact h.nodup _
    · simp at hs
  · simp at hs; subst hs
    exact ⟨h.owns, h.nodup⟩

theorem inv_run (prog) (ts : List Nat) (s s' : St) (h : Inv s) (hr : run prog s ts = some s') : Inv s' := by
  induction ts generalizing s with
  | nil => simp [run] at hr; subst hr; exact h
  | cons t ts ih =>
    simp only [run] at hr
    cases hs : step prog s t with
    | none => simp [hs] at hr
    | some s1 => simp [hs] at hr; exact ih s1 (inv_step prog s s1 t h hs) hr

/-- Two different threads are never both about to access while both (ghost-)hold a common mutex. -/
theorem no_race_under_common_lock (prog) (ts : List Nat) (s : St) (hr : run prog init ts = some s)
    (t1 t2 : Nat) (hne : t1 ≠ t2) (m : Nat) (h1 : m ∈ s.ls t1) (h2 : m ∈ s.ls t2) : False := by
  have h := inv_run prog ts init s ⟨by simp [init], by simp [init]⟩ hr
  have a := h.owns _ _ h1
  have b := h.owns _ _ h2
  rw [a] at b; simp at b; exact hne b



/-! ## Part 2: the access table -/

/-- one syntactic access. `ctx`: 0 constructor / before the object is shared, 1 set-up before Run
    (route registration, Server.Router), 2 the goroutine running Run, 3 a connection's own
    goroutine, 4 a request goroutine / handler, 5 any application goroutine -/
structure Row where
  field : String
  write : Bool
  locks : List String
  ctx : Nat
  fn : String
  deriving Repr, DecidableEq

inductive Policy where
  | lockedBy (m : String)                 -- every access after publication holds m
  | writerLocked (m : String) (owner : Nat) -- all writes by one context under m; other contexts access only under m
  | immutable                             -- written only before publication (ctx 0) or during set-up (ctx 1), read-only afterwards
  | ownedBy (ctx : Nat)                   -- touched by one goroutine context only (one instance per object)
  | sync                                  -- a synchronisation object (mutex, wait group) or a field only used through one
  deriving Repr, DecidableEq

def rowOK (p : Policy) (r : Row) : Bool :=
  match p with
  | .lockedBy m => r.ctx == 0 || r.locks.contains m
  | .writerLocked m owner =>
      r.ctx == 0 || (if r.write then r.ctx == owner && r.locks.contains m else r.ctx == owner || r.locks.contains m)
  | .immutable => r.ctx == 0 || r.ctx == 1 || !r.write
  | .ownedBy c => r.ctx == 0 || r.ctx == c
  | .sync => true

def tableOK (policy : String → Policy) (rows : List Row) : Bool := rows.all fun r => rowOK (policy r.field) r

/-- two accesses that could race: same field, at least one write, both after publication -/
def conflicting (a b : Row) : Bool := a.field == b.field && (a.write || b.write) && a.ctx != 0 && b.ctx != 0

/-- what makes a conflicting pair harmless -/
def justified (policy : String → Policy) (a b : Row) : Bool :=
  match policy a.field with
  | .sync => true
  | .lockedBy m => a.locks.contains m && b.locks.contains m
  | .writerLocked m owner => (a.locks.contains m && b.locks.contains m) || (a.ctx == owner && b.ctx == owner)
  | .immutable => a.ctx == 1 || b.ctx == 1      -- a set-up write, ordered before Run by the property's premise
  | .ownedBy c => a.ctx == c && b.ctx == c

/-- if every row complies with its field's policy, every conflicting pair is justified -/
theorem justified_of_tableOK (policy : String → Policy) (rows : List Row) (h : tableOK policy rows = true)
    (a b : Row) (ha : a ∈ rows) (hb : b ∈ rows) (hc : conflicting a b = true) : justified policy a b = true := by
  have ra := List.all_eq_true.mp h a ha
  have rb := List.all_eq_true.mp h b hb
  simp only [conflicting, Bool.and_eq_true, bne_iff_ne, ne_eq, beq_iff_eq, Bool.or_eq_true] at hc
  obtain ⟨⟨⟨hf, hw⟩, ha0⟩, hb0⟩ := hc
  rw [← hf] at rb
  unfold justified
  unfold rowOK at ra rb
  cases hp : policy a.field with
  | sync => rfl
  | lockedBy m => simp_all
  | immutable =>
    simp only [hp] at ra rb
    rcases hw with hw | hw <;> simp_all
  | ownedBy c => simp_all
  | writerLocked m owner =>
    simp only [hp] at ra rb
    rcases hw with hw | hw
    · simp only [hw, if_true] at ra
      by_cases hbw : b.write = true
      · simp_all
      · simp_all
        rcases rb with rb | rb
        · exact Or.inr rb
        · exact Or.inl rb
    · simp only [hw, if_true] at rb
      by_cases haw : a.write = true
      · simp_all
      · simp_all
        rcases ra with ra | ra
        · exact Or.inr ra
        · exact Or.inl ra

end Access
