import GldapModel.Ber.RoundTrip
/-! # Runtime.Writer - N handlers writing responses on one connection

`(*ResponseWriter).Write` as a list of micro-operations (`Generated.writeSeq`, extracted from
response.go) executed by any number of writers over a shared mutex and a shared,
NON-thread-safe buffered writer: `bufio.Write` and `Flush` are modelled in two halves (read
the buffer state, then update it; a write may spill any prefix to the wire), so that a
missing or misplaced lock tears, merges, loses or duplicates bytes in the model as in Go. -/
namespace Writer
open Ber

inductive WOp where | lock | write | flush | unlock
  deriving Repr, DecidableEq

structure WS where
  mutex : Option Nat
  buf : Bytes
  wire : Bytes
  pc : Nat → Nat
  half : Nat → Bool
  seen : Nat → Bytes
  todo : Nat → List Bytes
  done : List (Nat × Bytes)

def upd {α} (f : Nat → α) (w : Nat) (v : α) : Nat → α := fun x => if x = w then v else f x
@[simp] theorem upd_same {α} (f : Nat → α) (w : Nat) (v : α) : upd f w v w = v := by simp [upd]
@[simp] theorem upd_other {α} (f : Nat → α) (w x : Nat) (v : α) (h : x ≠ w) : upd f w v x = f x := by simp [upd, h]

/-- finish the micro-op at index pc: advance, or complete the call if it was the last one -/
def advance (seq : List WOp) (s : WS) (w : Nat) (f : Bytes) (rest : List Bytes) : WS :=
  if s.pc w + 1 = seq.length then
    { s with pc := upd s.pc w 0, todo := upd s.todo w rest, done := s.done ++ [(w, f)] }
  else { s with pc := upd s.pc w (s.pc w + 1) }

def step (seq : List WOp) (s : WS) (w : Nat) (k : Nat) : Option WS :=
  match s.todo w with
  | [] => none
  | f :: rest =>
    match seq[s.pc w]? with
    | none => none
    | some .lock => if s.mutex = none then some (advance seq { s with mutex := some w } w f rest) else none
    | some .unlock => some (advance seq { s with mutex := none } w f rest)
    | some .write =>
      if s.half w = false then some { s with seen := upd s.seen w s.buf, half := upd s.half w true }
      else
        let all := s.seen w ++ f
        some (advance seq { s with wire := s.wire ++ all.take k, buf := all.drop k, half := upd s.half w false } w f rest)
    | some .flush =>
      if s.half w = false then some { s with wire := s.wire ++ s.buf, half := upd s.half w true }
      else some (advance seq { s with buf := [], half := upd s.half w false } w f rest)

def run (seq : List WOp) : WS → List (Nat × Nat) → Option WS
  | s, [] => some s
  | s, (w, k) :: ls => (step seq s w k).bind (run seq · ls)

def init (frames : Nat → List Bytes) : WS :=
  { mutex := none, buf := [], wire := [], pc := fun _ => 0, half := fun _ => false,
    seen := fun _ => [], todo := frames, done := [] }

def good : List WOp := [.lock, .write, .flush, .unlock]

def flat (d : List (Nat × Bytes)) : Bytes := (d.map (·.2)).flatten

structure Inv (frames : Nat → List Bytes) (s : WS) : Prop where
  pcs : ∀ w, s.pc w < 4
  own : ∀ w, s.pc w ≠ 0 → s.mutex = some w
  own' : ∀ w, s.mutex = some w → s.pc w ≠ 0
  halfOwn : ∀ w, s.half w = true → s.pc w ≠ 0
  free : s.mutex = none → s.buf = [] ∧ s.wire = flat s.done
  held : ∀ w, s.mutex = some w → ∃ f rest, s.todo w = f :: rest ∧
      ((s.pc w = 1 ∧ s.half w = false → s.buf = [] ∧ s.wire = flat s.done) ∧
       (s.pc w = 1 ∧ s.half w = true → s.buf = [] ∧ s.seen w = [] ∧ s.wire = flat s.done) ∧
       (s.pc w = 2 ∧ s.half w = false → s.wire ++ s.buf = flat s.done ++ f) ∧
       (s.pc w = 2 ∧ s.half w = true → s.wire = flat s.done ++ f) ∧
       (s.pc w = 3 → s.half w = false ∧ s.buf = [] ∧ s.wire = flat s.done ++ f))
  acct : ∀ w, ((s.done.filter (·.1 = w)).map (·.2)) ++ s.todo w = frames w

theorem inv_init (frames) : Inv frames (init frames) := by
  constructor <;> simp [init, flat]

end Writer
