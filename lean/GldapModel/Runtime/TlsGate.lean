/-! # Runtime.TlsGate - which connections can reach a handler when Run is given a TLS config

crypto/tls is trusted: `beh c` says whether client c completes a handshake that satisfies the
configuration (valid ClientHello, and - if client certificates are required - a certificate
issued by the configured CA). The model covers gldap's plumbing: is the listener wrapped before
the accept loop, is the loop accepting on the wrapped listener. -/
namespace TlsGate

structure Facts where
  wrapBeforeLoop : Bool        -- `s.listener = tls.NewListener(...)` dominates the accept loop when a config is given
  acceptOnServerListener : Bool -- the loop calls `s.listener.Accept()` (the wrapped one), not a saved plain listener
  mtlsRequiresAndVerifies : Bool -- testdirectory WithMTLS: ClientAuth = RequireAndVerifyClientCert
  mtlsClientCAsSet : Bool        -- ... and ClientCAs = the directory's CA pool
  deriving Repr, DecidableEq

def goodFacts : Facts := ⟨true, true, true, true⟩

structure Conn where
  id : Nat
  wrapped : Bool
  hsDone : Bool
  hsOK : Bool
  closed : Bool
  dispatched : Nat
  deriving Repr, DecidableEq

inductive Ev where
  | accept (c : Nat) | handshake (c : Nat) (ok : Bool) | dispatch (c : Nat) | close (c : Nat)
  deriving Repr, DecidableEq

def upd (cs : List Conn) (c : Nat) (f : Conn → Conn) : List Conn := cs.map fun x => if x.id = c then f x else x

/-- `cfg`: Run was given a TLS configuration -/
def step (F : Facts) (cfg : Bool) (beh : Nat → Bool) (cs : List Conn) : Ev → Option (List Conn)
  | .accept c =>
      if cs.any (·.id == c) then none
      else some (cs ++ [⟨c, cfg && F.wrapBeforeLoop && F.acceptOnServerListener, false, false, false, 0⟩])
  | .handshake c ok =>
      match cs.find? (·.id == c) with
      | some x => if x.wrapped ∧ !x.hsDone ∧ !x.closed ∧ ok = beh c
                  then some (upd cs c fun x => { x with hsDone := true, hsOK := ok }) else none
      | none => none
  | .dispatch c =>
      match cs.find? (·.id == c) with
      | some x => if !x.closed ∧ (x.wrapped → x.hsOK) then some (upd cs c fun x => { x with dispatched := x.dispatched + 1 }) else none
      | none => none
  | .close c => some (upd cs c fun x => { x with closed := true })

def run (F : Facts) (cfg : Bool) (beh : Nat → Bool) : List Conn → List Ev → Option (List Conn)
  | cs, [] => some cs
  | cs, e :: es => (step F cfg beh cs e).bind (run F cfg beh · es)

end TlsGate
