import GldapModel.Runtime.Server
/-! # Runtime.ConnLoop - one connection's goroutines, event by event

Labels are exactly the instrumentation events of conn.go / server.go (the `verifPoint`
labels), so an observed per-connection event sequence of the real server is replayed through
`step` unchanged. The automaton is parametrised by the extracted facts: how each request
kind is dispatched, the teardown order, whether `conn.close` waits for the handlers. -/
namespace ConnLoop
open Server (TStep)

inductive Dispatch where | inlineThenReturn | inline | goroutine
  deriving Repr, DecidableEq

structure Facts where
  idIncrementAtHead : Bool          -- `requestID++` is the first statement of the loop body
  unbind : Dispatch                 -- how an Unbind request is dispatched
  startTLS : Dispatch               -- how a StartTLS request is dispatched
  other : Dispatch                  -- every other request
  writerPerIteration : Bool         -- the ResponseWriter is created inside the loop, from the connection's current writer
  teardownSeq : List TStep
  closeWaitsHandlers : Bool
  deriving Repr, DecidableEq

def goodFacts : Facts :=
  { idIncrementAtHead := true, unbind := .inlineThenReturn, startTLS := .inline, other := .goroutine,
    writerPerIteration := true, teardownSeq := [.connClose, .onClose, .wgDone], closeWaitsHandlers := true }

inductive Phase where
  | fresh                 -- accepted, goroutine not yet running
  | atHead                -- top of the for loop (before requestID++)
  | reading (r : Nat)     -- blocked in / returning from readRequest for request r
  | gotRequest (r : Nat)  -- request r decoded, before the dispatch switch
  | inHandler (r : Nat)   -- an inline handler (StartTLS / unbind) runs on the connection goroutine
  | exited                -- serveRequests returned (or panicked and was recovered)
  | tearing (k : Nat)     -- executing step k of the deferred teardown
  | gone
  deriving Repr, DecidableEq

inductive Ev where
  | start | head (r : Nat) | shutdown (r : Nat) | read (r : Nat) | readerr (r : Nat)
  | unbind (r : Nat) | inline (r : Nat) | inlinedone (r : Nat) | spawn (r : Nat)
  | reqStart (r : Nat) | reqDone (r : Nat) | reqRecovered (r : Nat) | init
  | recovered | teardown | wgdone | netclose | closed | onclose | oncloseend | gone
  deriving Repr, DecidableEq

structure St where
  phase : Phase
  reqs : Nat                -- requests numbered so far
  spawned : List Nat        -- requests handed to their own goroutine
  running : List Nat        -- ... whose handler goroutine has started and not finished
  finished : List Nat
  netClosed : Nat
  closing : Bool
  onClosed : Nat
  inOnClose : Bool
  writerGen : Nat           -- bumped by initConn (StartTLS swap)
  log : List Ev
  writers : List (Nat × Nat) := []   -- request number ↦ generation of the connection writer its ResponseWriter wraps
  startGen : Nat := 0                -- the generation when serveRequests was entered
  deriving Repr, DecidableEq

def init : St := ⟨.fresh, 0, [], [], [], 0, false, 0, false, 0, [], [], 0⟩

/-- the generation of the connection writer a `ResponseWriter` created now wraps -/
def writerGenFor (F : Facts) (s : St) : Nat := if F.writerPerIteration then s.writerGen else s.startGen

def pendingHandlers (s : St) : List Nat := s.spawned.filter (fun r => !s.finished.contains r)

def tstepAt (F : Facts) (k : Nat) : Option TStep := F.teardownSeq[k]?

/-- one event; `none` = the event is not possible in this state under these facts -/
def step (F : Facts) (s : St) (e : Ev) : Option St :=
  let s' := { s with log := s.log ++ [e] }
  match e, s.phase with
  | .start, .fresh => some { s' with phase := .atHead, startGen := s.writerGen }
  | .init, _ => some { s' with writerGen := s.writerGen + 1 }          -- initConn (newConn, StartTLS)
  | .head r, .atHead =>
      -- `newResponseWriter(c.writer, ...)` right after `requestID++`: the writer the connection has NOW (or, were the
      -- ResponseWriter created once outside the loop, the one it had when the loop was entered)
      if F.idIncrementAtHead ∧ r = s.reqs + 1 then
        some { s' with phase := .reading r, reqs := r,
                       writers := s.writers ++ [(r, writerGenFor F s)] }
      else none
  | .shutdown r, .reading r' => if r = r' then some { s' with phase := .exited } else none
  | .readerr r, .reading r' => if r = r' then some { s' with phase := .exited } else none
  | .read r, .reading r' => if r = r' then some { s' with phase := .gotRequest r } else none
  | .unbind r, .gotRequest r' =>
      if r = r' ∧ F.unbind = .inlineThenReturn then some { s' with phase := .exited } else none
  | .inline r, .gotRequest r' =>
      if r = r' ∧ F.startTLS = .inline then some { s' with phase := .inHandler r } else none
  | .inlinedone r, .inHandler r' => if r = r' then some { s' with phase := .atHead } else none
  | .spawn r, .gotRequest r' =>
      if r = r' ∧ F.other = .goroutine then some { s' with phase := .atHead, spawned := s.spawned ++ [r] } else none
  | .reqStart r, _ =>
      if s.spawned.contains r ∧ !s.running.contains r ∧ !s.finished.contains r then some { s' with running := s.running ++ [r] } else none
  | .reqDone r, _ =>
      if s.running.contains r then some { s' with running := s.running.erase r, finished := s.finished ++ [r] } else none
  | .reqRecovered r, _ =>
      -- a handler panic caught on the request's own goroutine: that goroutine still runs its deferred Done
      if s.running.contains r then some s' else none
  | .recovered, p =>
      -- a panic on the connection goroutine, caught by its deferred recover: the loop is over
      -- (also while the inline unbind handler runs: the `unbind` event precedes the handler call)
      (match p with
       | .fresh | .tearing _ | .gone => none
       | _ => some { s' with phase := .exited })
  | .teardown, .exited => some { s' with phase := .tearing 0 }
  | .wgdone, .tearing k => if tstepAt F k = some .wgDone then some { s' with phase := .tearing (k+1) } else none
  | .netclose, .tearing k =>
      if tstepAt F k = some .connClose ∧ (F.closeWaitsHandlers = true → pendingHandlers s = []) ∧ s.closing = false
      then some { s' with netClosed := s.netClosed + 1, closing := true } else none
  | .closed, .tearing k =>
      if tstepAt F k = some .connClose ∧ s.closing = true then some { s' with phase := .tearing (k+1), closing := false } else none
  | .onclose, .tearing k =>
      if tstepAt F k = some .onClose ∧ !s.inOnClose then some { s' with inOnClose := true } else none
  | .oncloseend, .tearing k =>
      if tstepAt F k = some .onClose ∧ s.inOnClose then some { s' with phase := .tearing (k+1), inOnClose := false, onClosed := s.onClosed + 1 } else none
  | .gone, .tearing k => if k = F.teardownSeq.length then some { s' with phase := .gone } else none
  | _, _ => none

def run (F : Facts) : St → List Ev → Option St
  | s, [] => some s
  | s, e :: es => (step F s e).bind (run F · es)

end ConnLoop
