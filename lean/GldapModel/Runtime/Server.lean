/-! # Runtime.Server - the server life cycle as a labelled transition system

`Run` (listen, accept loop, spawning connection goroutines), any number of concurrent `Stop`
calls, connection goroutines (read loop abstracted to `serving | exited k | gone`, handlers
as a counter) and their deferred teardown - all parametrised by `Facts`, the step orders and
flags the extractor reads off server.go / conn.go. Nondeterminism (scheduler, clients,
faults) lives in the label sequence; `step` returns `none` for a label that is not enabled. -/
namespace Server

inductive TStep where | wgDone | connClose | onClose   deriving Repr, DecidableEq
inductive SStep where | closeListener | cancel | waitConns   deriving Repr, DecidableEq

structure Facts where
  teardownSeq : List TStep
  connCloseWaitsHandlers : Bool
  stopSeq : List SStep
  readyOnlyOnSuccess : Bool
  ctxBranchClosesListener : Bool
  addGuarded : Bool
  acceptErrContinues : Bool
  recoverOnConn : Bool          -- the connection goroutine defers a recover()
  recoverOnRequest : Bool       -- every per-request goroutine defers a recover()
  cancelUnblocksReads : Bool    -- cancelling the shutdown context unblocks connections waiting in a read
  deriving Repr, DecidableEq

def goodFacts : Facts :=
  { teardownSeq := [.connClose, .onClose, .wgDone], connCloseWaitsHandlers := true,
    stopSeq := [.closeListener, .cancel, .waitConns], readyOnlyOnSuccess := true,
    ctxBranchClosesListener := true, addGuarded := true, acceptErrContinues := true,
    recoverOnConn := true, recoverOnRequest := true, cancelUnblocksReads := true }

/-- what the extractor reports for the pinned tree -/
def pinnedFacts : Facts :=
  { teardownSeq := [.wgDone, .connClose, .onClose], connCloseWaitsHandlers := true,
    stopSeq := [.closeListener, .cancel, .waitConns], readyOnlyOnSuccess := false,
    ctxBranchClosesListener := false, addGuarded := false, acceptErrContinues := false,
    recoverOnConn := true, recoverOnRequest := false, cancelUnblocksReads := false }

inductive Lst where | none | open | closed   deriving Repr, DecidableEq
inductive RunPc where
  | notStarted | loopTop | accepting | accepted | returned (err : Bool)
  deriving Repr, DecidableEq
inductive StopPc where | idle | at (k : Nat) | returned   deriving Repr, DecidableEq
inductive Gor where | serving | exited (k : Nat) | gone   deriving Repr, DecidableEq

structure Conn where
  id : Nat
  gor : Gor
  live : Nat            -- running handlers (requestsWg)
  netClosed : Nat
  onClosed : Nat
  deriving Repr, DecidableEq

structure Srv where
  run : RunPc
  stops : List StopPc
  lst : Lst
  ready : Bool
  cancelled : Bool
  connWg : Nat
  nextConn : Nat
  conns : List Conn
  alive : Bool            -- the process has not been killed by an unrecovered panic
  deriving Repr, DecidableEq

inductive Label where
  | runListen (ok : Bool) | runLoopTop | runAcceptOk | runAcceptClosed | runAcceptErr | runSpawn
  | stopStep (i : Nat)
  | connExit (c : Nat)            -- read loop returns (eof, error, unbind, shutdown branch, recovered panic)
  | handlerStart (c : Nat) | handlerEnd (c : Nat)
  | teardown (c : Nat)
  | connExitShutdown (c : Nat)    -- server-only: the read loop ends because of the cancelled context
  | connPanic (c : Nat)           -- a panic on the connection goroutine (gldap's own decode, inline handler)
  | handlerPanic (c : Nat)        -- a panic in a handler running on its own goroutine
  deriving Repr, DecidableEq

def stopping (s : Srv) : Bool := s.stops.any (fun p => match p with | .at _ => true | _ => false)

def modConn (cs : List Conn) (c : Nat) (f : Conn → Conn) : List Conn :=
  cs.map (fun x => if x.id = c then f x else x)

def findConn (cs : List Conn) (c : Nat) : Option Conn := cs.find? (·.id = c)

def stepCore (F : Facts) (s : Srv) : Label → Option Srv
  | .runListen ok =>
    if s.run = .notStarted ∧ stopping s = false then
      some { s with lst := if ok then .open else s.lst,
                    ready := ok || !F.readyOnlyOnSuccess,
                    run := if ok then .loopTop else .returned true }
    else none
  | .runLoopTop =>
    if s.run = .loopTop then
      if s.cancelled then
        some { s with nextConn := s.nextConn + 1, run := .returned false,
                      lst := if F.ctxBranchClosesListener ∧ s.lst = .open then .closed else s.lst }
      else some { s with nextConn := s.nextConn + 1, run := .accepting }
    else none
  | .runAcceptOk => if s.run = .accepting ∧ s.lst = .open then some { s with run := .accepted } else none
  | .runAcceptClosed => if s.run = .accepting ∧ s.lst = .closed then some { s with run := .returned false } else none
  | .runAcceptErr =>
    if s.run = .accepting then
      some { s with run := if F.acceptErrContinues then .loopTop else .returned true }
    else none
  | .runSpawn =>
    if s.run = .accepted then
      if F.addGuarded then
        -- the cancellation check and `connWg.Add(1)` are atomic with respect to Stop's cancel
        if s.cancelled then some { s with run := .loopTop }     -- connection closed, not served
        else some { s with run := .loopTop, connWg := s.connWg + 1,
                           conns := s.conns ++ [{ id := s.nextConn, gor := .serving, live := 0, netClosed := 0, onClosed := 0 }] }
      else some { s with run := .loopTop, connWg := s.connWg + 1,
                         conns := s.conns ++ [{ id := s.nextConn, gor := .serving, live := 0, netClosed := 0, onClosed := 0 }] }
    else none
  | .stopStep i =>
    match s.stops[i]? with
    | some .idle => some { s with stops := s.stops.set i (if F.stopSeq.length = 0 then .returned else .at 0) }
    | some (.at k) =>
      match F.stopSeq[k]? with
      | none => none
      | some op =>
        let next : StopPc := if k + 1 = F.stopSeq.length then .returned else .at (k+1)
        match op with
        | .closeListener => some { s with lst := if s.lst = .open then .closed else s.lst, stops := s.stops.set i next }
        | .cancel => some { s with cancelled := true, stops := s.stops.set i next }
        | .waitConns => if s.connWg = 0 then some { s with stops := s.stops.set i next } else none
    | _ => none
  | .connExit c =>
    match findConn s.conns c with
    | some x => if x.gor = .serving then some { s with conns := modConn s.conns c (fun x => { x with gor := .exited 0 }) } else none
    | none => none
  | .handlerStart c =>
    match findConn s.conns c with
    | some x => if x.gor = .serving then some { s with conns := modConn s.conns c (fun x => { x with live := x.live + 1 }) } else none
    | none => none
  | .handlerEnd c =>
    match findConn s.conns c with
    | some x => if x.live > 0 then some { s with conns := modConn s.conns c (fun x => { x with live := x.live - 1 }) } else none
    | none => none
  | .teardown c =>
    match findConn s.conns c with
    | some x =>
      match x.gor with
      | .exited k =>
        match F.teardownSeq[k]? with
        | none => none
        | some op =>
          let g : Gor := if k + 1 = F.teardownSeq.length then .gone else .exited (k+1)
          match op with
          | .wgDone => some { s with connWg := s.connWg - 1, conns := modConn s.conns c (fun x => { x with gor := g }) }
          | .connClose =>
            if F.connCloseWaitsHandlers ∧ x.live > 0 then none
            else some { s with conns := modConn s.conns c (fun x => { x with gor := g, netClosed := x.netClosed + 1 }) }
          | .onClose => some { s with conns := modConn s.conns c (fun x => { x with gor := g, onClosed := x.onClosed + 1 }) }
      | _ => none
    | none => none
  | _ => none

/-- the full step relation: the fault / shutdown labels are defined through the core ones.
    A panic that is recovered behaves like the goroutine's normal exit (the deferred teardown
    still runs); an unrecovered panic on any goroutine kills the process. -/
def step (F : Facts) (s : Srv) : Label → Option Srv
  | .connExitShutdown c =>
    if s.cancelled ∧ F.cancelUnblocksReads then stepCore F s (.connExit c) else none
  | .connPanic c =>
    if F.recoverOnConn then stepCore F s (.connExit c)
    else match findConn s.conns c with
      | some x => if x.gor = .serving then some { s with alive := false } else none
      | none => none
  | .handlerPanic c =>
    if F.recoverOnRequest then stepCore F s (.handlerEnd c)
    else match findConn s.conns c with
      | some x => if x.live > 0 then some { s with alive := false } else none
      | none => none
  | l => stepCore F s l

def init (nStops : Nat) : Srv :=
  { run := .notStarted, stops := List.replicate nStops .idle, lst := .none, ready := false,
    cancelled := false, connWg := 0, nextConn := 0, conns := [], alive := true }

def run (F : Facts) : Srv → List Label → Option Srv
  | s, [] => some s
  | s, l :: ls => (step F s l).bind (run F · ls)

def quiescent (s : Srv) : Bool :=
  s.lst != .open && s.conns.all (fun c => c.gor == .gone && c.live == 0 && c.netClosed == 1 && c.onClosed == 1)
def bothReturned (s : Srv) : Bool :=
  (match s.run with | .returned _ => true | _ => false) &&
  s.stops.any (· == .returned) && s.stops.all (fun p => p == .returned || p == .idle)


end Server
