import GldapModel.Ber.Basic
namespace Ber

def posLen : Nat → Int → Nat
  | 0, _ => 1
  | f+1, i => if i > 127 then 1 + posLen f (i / 256) else 1
def negLen : Nat → Int → Nat
  | 0, _ => 1
  | f+1, i => if i < -128 then 1 + negLen f (i / 256) else 1
def int64Length (i : Int) : Nat :=
  if i > 127 then posLen 8 i else negLen 8 i

def byteOf (i : Int) : UInt8 := (i % 256).toNat.toUInt8
theorem byteOf_toNat (i : Int) : ((byteOf i).toNat : Int) = i % 256 := by
  unfold byteOf
  have : ((i % 256).toNat.toUInt8).toNat = (i % 256).toNat := by simp; omega
  rw [this]; omega

def encBE : Nat → Int → Bytes
  | 0, _ => []
  | n+1, i => encBE n (i / 256) ++ [byteOf i]

def encodeInteger (i : Int) : Bytes := encBE (int64Length i) i

def parseInt64 (bs : Bytes) : Option Int :=
  if bs.length > 8 then none else
  let u : Int := beNat bs
  if bs.length = 0 then some 0
  else if u < 2^(8 * bs.length - 1) then some u else some (u - 2^(8 * bs.length))

theorem beNat_snoc (a : Bytes) (b : UInt8) : (beNat (a ++ [b]) : Int) = beNat a * 256 + b.toNat := by
  simp [beNat, List.foldl_append]

theorem beNat_encBE_succ (n : Nat) (i : Int) :
    (beNat (encBE (n+1) i) : Int) = (beNat (encBE n (i/256)) : Int) * 256 + i % 256 := by
  simp only [encBE, beNat_snoc, byteOf_toNat]
theorem beNat_encBE_zero (i : Int) : (beNat (encBE 0 i) : Int) = 0 := by simp [encBE, beNat]
theorem encBE_length (n : Nat) (i : Int) : (encBE n i).length = n := by
  induction n generalizing i with
  | zero => simp [encBE]
  | succ n ih => simp [encBE, ih]

theorem parse_encBE (n : Nat) (i : Int) (hn : 1 ≤ n ∧ n ≤ 8)
    (hi : -(2^(8*n-1)) ≤ i ∧ i < 2^(8*n-1)) : parseInt64 (encBE n i) = some i := by
  unfold parseInt64
  simp only [encBE_length]
  have h8 : ¬ (n > 8) := by omega
  have h0 : ¬ (n = 0) := by omega
  simp only [h8, h0, if_false]
  obtain ⟨h1, h2⟩ := hn
  have : n = 1 ∨ n = 2 ∨ n = 3 ∨ n = 4 ∨ n = 5 ∨ n = 6 ∨ n = 7 ∨ n = 8 := by omega
  rcases this with rfl | rfl | rfl | rfl | rfl | rfl | rfl | rfl <;>
    simp only [beNat_encBE_succ, beNat_encBE_zero] <;>
    (simp only [Nat.reduceMul, Nat.reduceSub, Int.reducePow, Int.reduceNeg] at hi ⊢) <;>
    (split <;> (simp only [Option.some.injEq]) <;> omega)

theorem int64Length_spec (i : Int) (h : -(2^63) ≤ i ∧ i < 2^63) :
    1 ≤ int64Length i ∧ int64Length i ≤ 8 ∧
      -(2^(8 * int64Length i - 1)) ≤ i ∧ i < 2^(8 * int64Length i - 1) := by
  simp only [Int.reducePow, Int.reduceNeg] at h
  unfold int64Length
  split
  · simp only [posLen]
    repeat' split
    all_goals (simp only [Nat.reduceAdd, Nat.reduceMul, Nat.reduceSub, Int.reducePow, Int.reduceNeg]; omega)
  · simp only [negLen]
    repeat' split
    all_goals (simp only [Nat.reduceAdd, Nat.reduceMul, Nat.reduceSub, Int.reducePow, Int.reduceNeg]; omega)

theorem parseInt64_encodeInteger (i : Int) (h : -(2^63) ≤ i ∧ i < 2^63) :
    parseInt64 (encodeInteger i) = some i := by
  have := int64Length_spec i h
  exact parse_encBE _ i ⟨this.1, this.2.1⟩ this.2.2

end Ber
