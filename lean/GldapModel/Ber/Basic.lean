/-! Bytes and big-endian base-256 numerals (asn1-ber `encodeUnsignedInteger`). -/
namespace Ber

abbrev Bytes := List UInt8

/-- big-endian base-256 digits, minimal, at least one digit (`encodeUnsignedInteger`) -/
def natBE (n : Nat) : Bytes :=
  if h : n < 256 then [n.toUInt8] else natBE (n / 256) ++ [(n % 256).toUInt8]
decreasing_by omega

def beNat (bs : Bytes) : Nat := bs.foldl (fun acc b => acc * 256 + b.toNat) 0

theorem beNat_append (a b : Bytes) :
    beNat (a ++ b) = b.foldl (fun acc x => acc * 256 + x.toNat) (beNat a) := by
  simp [beNat, List.foldl_append]

theorem beNat_natBE (n : Nat) : beNat (natBE n) = n := by
  induction n using Nat.strongRecOn with
  | _ n ih =>
    unfold natBE
    split
    · rename_i h; simp [beNat]; omega
    · rename_i h
      rw [beNat_append, ih (n / 256) (by omega)]
      simp
      omega

theorem natBE_length_pos (n : Nat) : 0 < (natBE n).length := by
  unfold natBE; split <;> simp

theorem natBE_length_le (n : Nat) (k : Nat) (hk : 0 < k) (h : n < 256^k) : (natBE n).length ≤ k := by
  induction k generalizing n with
  | zero => omega
  | succ k ih =>
    unfold natBE
    split
    · simp
    · rename_i h256
      simp
      have : n / 256 < 256^k := by
        rw [Nat.pow_succ] at h
        exact Nat.div_lt_of_lt_mul (by rw [Nat.mul_comm]; exact h)
      cases k with
      | zero => simp at this; omega
      | succ k => exact ih _ (by omega) this

end Ber
