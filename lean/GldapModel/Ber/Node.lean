import GldapModel.Ber.Basic
/-! The BER tree as `ber.ReadPacket` delivers it, and asn1-ber's canonical serialisation
    (`Packet.Bytes`: identifier octets, minimal definite length, content). -/
namespace Ber

inductive Node where
  | prim (cls : Nat) (tag : Nat) (content : Bytes)
  | cons (cls : Nat) (tag : Nat) (kids : List Node)
  deriving Repr, Inhabited

def Node.cls : Node → Nat | .prim c _ _ => c | .cons c _ _ => c
def Node.tag : Node → Nat | .prim _ t _ => t | .cons _ t _ => t
def Node.constructed : Node → Bool | .prim .. => false | .cons .. => true
def Node.kids : Node → List Node | .prim .. => [] | .cons _ _ ks => ks

/-- `encodeLength` -/
def encLen (n : Nat) : Bytes :=
  if n ≤ 127 then [n.toUInt8] else
    let d := natBE n
    (0x80 + d.length).toUInt8 :: d

/-- continuation digits of `encodeHighTag` (all but the last, each with bit 8 set) -/
def hiCont (m : Nat) : Bytes :=
  if h : m = 0 then [] else hiCont (m / 128) ++ [(128 + m % 128).toUInt8]
decreasing_by omega

def highTag (t : Nat) : Bytes := hiCont (t / 128) ++ [(t % 128).toUInt8]

/-- `encodeIdentifier`; `cls` is the class number 0..3 -/
def encId (cls : Nat) (constructed : Bool) (tag : Nat) : Bytes :=
  let b := cls * 64 + (if constructed then 32 else 0)
  if tag < 31 then [(b + tag).toUInt8] else (b + 31).toUInt8 :: highTag tag

mutual
def ser : Node → Bytes
  | .prim c t content => encId c false t ++ encLen content.length ++ content
  | .cons c t kids => let body := serAll kids; encId c true t ++ encLen body.length ++ body
def serAll : List Node → Bytes
  | [] => []
  | n :: ns => ser n ++ serAll ns
end

/-- `Packet.Data` of a packet read from the wire: primitive content, or the canonical
    re-serialisation of the children (what `AppendChild` accumulates). -/
def Node.data : Node → Bytes | .prim _ _ c => c | .cons _ _ ks => serAll ks

theorem serAll_append (a b : List Node) : serAll (a ++ b) = serAll a ++ serAll b := by
  induction a with
  | nil => simp [serAll]
  | cons x xs ih => simp [serAll, ih]

end Ber
