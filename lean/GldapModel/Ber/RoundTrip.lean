import GldapModel.Ber.Parse
/-! The unbounded BER round trip: the reader model applied to the canonical serialisation of
    any well-formed tree returns that tree and the untouched rest of the stream. No bound on
    depth, width or content size (beyond asn1-ber's own 2^31-1 cap on primitive content). -/
namespace Ber

mutual
def Node.WF (ext : Nat → Bytes → Bool) : Node → Prop
  | .prim c t content => c < 4 ∧ t < 31 ∧ content.length ≤ maxPrim ∧ primOK ext c t content = true
  | .cons c t kids => c < 4 ∧ t < 31 ∧ (serAll kids).length < 2^63 ∧ WFAll ext kids
def WFAll (ext : Nat → Bytes → Bool) : List Node → Prop
  | [] => True
  | n :: ns => n.WF ext ∧ isEOC n = false ∧ WFAll ext ns
end

theorem readIdent_encId (c t : Nat) (k : Bool) (rest : Bytes) (hc : c < 4) (ht : t < 31) :
    readIdent (encId c k t ++ rest) = some (c, k, t, rest) := by
  have hb : (c * 64 + (if k then 32 else 0) + t).toUInt8.toNat = c * 64 + (if k then 32 else 0) + t := by
    simp; split <;> omega
  unfold encId
  simp only [ht, if_true, List.cons_append, List.nil_append, readIdent, hb]
  have h1 : (c * 64 + (if k then 32 else 0) + t) / 64 = c := by split <;> omega
  have h2 : (c * 64 + (if k then 32 else 0) + t) % 32 = t := by split <;> omega
  have h3 : ((c * 64 + (if k then 32 else 0) + t) / 32 % 2 == 1) = k := by
    cases k <;> simp <;> omega
  simp only [h1, h2, h3]
  have : (t != 31) = true := by simp; omega
  simp [this]

theorem readLen_encLen (n : Nat) (rest : Bytes) (h : n < 2^63) :
    readLen (encLen n ++ rest) = some (some n, rest) := by
  unfold encLen
  split
  · rename_i h127
    have hn : n.toUInt8.toNat = n := by simp; omega
    simp only [List.cons_append, List.nil_append, readLen, hn]
    have h1 : (n == 255) = false := by simp; omega
    have h2 : (n == 128) = false := by simp; omega
    have h3 : n < 128 := by omega
    simp [h1, h2, h3]
  · rename_i h127
    have hl := natBE_length_le n 8 (by omega) (by simp at h ⊢; omega)
    have hp := natBE_length_pos n
    have hb : (0x80 + (natBE n).length).toUInt8.toNat = 128 + (natBE n).length := by
      rw [Nat.toUInt8, UInt8.toNat_ofNat']; omega
    simp only [List.cons_append, readLen, hb]
    have h1 : (128 + (natBE n).length == 255) = false := by rw [beq_eq_false_iff_ne]; omega
    have h2 : (128 + (natBE n).length == 128) = false := by rw [beq_eq_false_iff_ne]; omega
    have h3 : ¬ (128 + (natBE n).length < 128) := by omega
    have h4 : ¬ (128 + (natBE n).length - 128 > 8) := by omega
    have h5 : ¬ ((natBE n ++ rest).length < 128 + (natBE n).length - 128) := by simp
    have h6 : 128 + (natBE n).length - 128 = (natBE n).length := by omega
    simp only [h1, h2, h3, h4, h5, if_false, Bool.false_eq_true]
    simp only [h6, List.take_left', List.drop_left', beNat_natBE]
    simp [h]

theorem encId_length_pos (c t : Nat) (k : Bool) : 1 ≤ (encId c k t).length := by
  unfold encId; by_cases h : t < 31 <;> simp [h]

theorem encLen_length_pos (n : Nat) : 1 ≤ (encLen n).length := by
  unfold encLen; split <;> simp

theorem ser_length_ge_two (n : Node) : 2 ≤ (ser n).length := by
  cases n with
  | prim c t content =>
    simp only [ser, List.length_append]
    have := encId_length_pos c t false
    have := encLen_length_pos content.length
    omega
  | cons c t kids =>
    simp only [ser, List.length_append]
    have := encId_length_pos c t true
    have := encLen_length_pos (serAll kids).length
    omega

mutual
theorem parse_ser (ext : Nat → Bytes → Bool) (n : Node) (rest : Bytes) (fuel : Nat) (hw : n.WF ext)
    (hf : 2 * (ser n).length + 1 ≤ fuel) : parse ext fuel (ser n ++ rest) = some (n, rest) := by
  match n, fuel with
  | .prim c t content, 0 => omega
  | .cons c t kids, 0 => omega
  | .prim c t content, fuel+1 =>
    simp only [Node.WF] at hw
    obtain ⟨hc, ht, hl, hok⟩ := hw
    have hl63 : content.length < 2^63 := by simp [maxPrim] at hl; omega
    simp only [ser, List.append_assoc, parse, readIdent_encId c t false _ hc ht,
      readLen_encLen _ _ hl63]
    have h1 : ¬ (content.length > maxPrim) := by omega
    have h2 : ¬ ((content ++ rest).length < content.length) := by simp
    simp [h1, h2, hok]
  | .cons c t kids, fuel+1 =>
    simp only [Node.WF] at hw
    obtain ⟨hc, ht, hl, hk⟩ := hw
    simp only [ser, List.append_assoc, parse, readIdent_encId c t true _ hc ht,
      readLen_encLen _ _ hl]
    have hlen : 2 ≤ (encId c true t ++ encLen (serAll kids).length).length := by
      have := encId_length_pos c t true
      have := encLen_length_pos (serAll kids).length
      simp only [List.length_append]; omega
    have hd : 2 * (serAll kids).length + 2 ≤ fuel := by
      simp only [ser, List.length_append] at hf hlen; omega
    have := kidsDef_serAll ext kids rest fuel hk hd
    simp [this]
theorem kidsDef_serAll (ext : Nat → Bytes → Bool) (ns : List Node) (rest : Bytes) (fuel : Nat) (hw : WFAll ext ns)
    (hf : 2 * (serAll ns).length + 2 ≤ fuel) :
    kidsDef ext fuel (serAll ns).length (serAll ns ++ rest) = some (ns, rest) := by
  match ns, fuel with
  | _, 0 => omega
  | [], fuel+1 => simp [serAll, kidsDef]
  | n :: ns, fuel+1 =>
    simp only [WFAll] at hw
    obtain ⟨hn, he, hns⟩ := hw
    have h2 := ser_length_ge_two n
    have hlen : (serAll (n :: ns)).length = (ser n).length + (serAll ns).length := by simp [serAll]
    rw [hlen] at hf
    have h1 := parse_ser ext n (serAll ns ++ rest) fuel hn (by omega)
    have h3 := kidsDef_serAll ext ns rest fuel hns (by omega)
    have hne : ((ser n).length + (serAll ns).length == 0) = false := by rw [beq_eq_false_iff_ne]; omega
    simp only [serAll, List.length_append, List.append_assoc, kidsDef, hne, h1, he]
    have hc : (ser n).length + ((serAll ns).length + rest.length) - ((serAll ns).length + rest.length) = (ser n).length := by omega
    simp only [hc]
    have : ¬ ((ser n).length > (ser n).length + (serAll ns).length) := by omega
    have hr : (ser n).length + (serAll ns).length - (ser n).length = (serAll ns).length := by omega
    simp [this, hr, h3]
end

/-- the reader recovers any well-formed tree from its canonical bytes, leaving the rest of
    the stream untouched -/
theorem readPacket_ser (ext : Nat → Bytes → Bool) (n : Node) (rest : Bytes) (hw : n.WF ext) :
    readPacket ext (ser n ++ rest) = some (n, rest) := by
  unfold readPacket fuelFor
  exact parse_ser ext n rest _ hw (by simp only [List.length_append]; omega)

end Ber

namespace Ber

/-- a client reading whole messages one after another from a stream -/
def readAll (ext : Nat → Bytes → Bool) : Nat → Bytes → Option (List Node)
  | 0, _ => none
  | _+1, [] => some []
  | fuel+1, b :: bs =>
    match readPacket ext (b :: bs) with
    | none => none
    | some (n, rest) => (readAll ext fuel rest).map (n :: ·)

/-- reading a concatenation of well-formed messages returns exactly those messages, in order:
    none torn, merged, lost or duplicated -/
theorem readAll_serAll (ext : Nat → Bytes → Bool) (ns : List Node) (hw : ∀ n ∈ ns, n.WF ext) :
    readAll ext (ns.length + 1) (serAll ns) = some ns := by
  induction ns with
  | nil => simp [serAll, readAll]
  | cons n ns ih =>
    have h2 := ser_length_ge_two n
    have hr := readPacket_ser ext n (serAll ns) (hw n (by simp))
    have ih' := ih (fun m hm => hw m (by simp [hm]))
    simp only [serAll, List.length_cons]
    cases hs : ser n ++ serAll ns with
    | nil =>
      have : (ser n ++ serAll ns).length = 0 := by rw [hs]; rfl
      rw [List.length_append] at this; omega
    | cons b bs =>
      rw [← hs]
      have : readAll ext (ns.length + 1 + 1) (ser n ++ serAll ns) =
          match readPacket ext (ser n ++ serAll ns) with
          | none => none
          | some (n', rest) => (readAll ext (ns.length + 1) rest).map (n' :: ·) := by
        rw [hs]; rfl
      rw [this, hr]
      simp [ih']

end Ber
