import GldapModel.Ber.Node
/-! A model of asn1-ber v1.5.5 `readPacket`: streaming, children are read from the same
    stream until the declared length is consumed, indefinite lengths run to the EOC marker,
    high tag numbers, the int64 arithmetic of `readLength`, the 2^31-1 cap on primitive
    content and the content validation of UTF8String / PrintableString / IA5String.
    Real and GeneralizedTime validation is a parameter `ext`. -/
namespace Ber

def readHighTag : Nat → Nat → Bytes → Option (Nat × Bytes)
  | _, _, [] => none
  | acc, cnt, b :: rest =>
    let acc' := acc * 128 + b.toNat % 128
    let cnt' := cnt + 1
    if cnt' == 1 && acc' == 0 then none
    else if cnt' > 9 then none
    else if b.toNat < 128 then some (acc', rest)
    else readHighTag acc' cnt' rest

/-- `readIdentifier`: class number, constructed flag, tag, rest -/
def readIdent : Bytes → Option (Nat × Bool × Nat × Bytes)
  | [] => none
  | b :: rest =>
    let cls := b.toNat / 64
    let cons := (b.toNat / 32) % 2 == 1
    let t := b.toNat % 32
    if t != 31 then some (cls, cons, t, rest)
    else match readHighTag 0 0 rest with
      | none => none
      | some (tag, rest') => some (cls, cons, tag, rest')

/-- `readLength` followed by `readHeader`'s `length < -1` rejection.
    `some (none, rest)` is the indefinite form (also what the 8-byte length 0xFF..FF = -1 yields). -/
def readLen : Bytes → Option (Option Nat × Bytes)
  | [] => none
  | b :: rest =>
    if b.toNat == 255 then none
    else if b.toNat == 128 then some (none, rest)
    else if b.toNat < 128 then some (some b.toNat, rest)
    else
      let k := b.toNat - 128
      if k > 8 then none
      else if rest.length < k then none
      else
        let v := beNat (rest.take k)
        if v < 2^63 then some (some v, rest.drop k)
        else if v == 2^64 - 1 then some (none, rest.drop k)
        else none

def utf8Cont (b : UInt8) : Bool := 0x80 ≤ b.toNat && b.toNat ≤ 0xBF

/-- Go's `utf8.Valid` -/
def utf8Valid : Bytes → Bool
  | [] => true
  | b0 :: rest =>
    let x := b0.toNat
    if x < 0x80 then utf8Valid rest
    else if 0xC2 ≤ x && x ≤ 0xDF then
      match rest with
      | b1 :: r => utf8Cont b1 && utf8Valid r
      | _ => false
    else if 0xE0 ≤ x && x ≤ 0xEF then
      match rest with
      | b1 :: b2 :: r =>
        let lo := if x == 0xE0 then 0xA0 else 0x80
        let hi := if x == 0xED then 0x9F else 0xBF
        lo ≤ b1.toNat && b1.toNat ≤ hi && utf8Cont b2 && utf8Valid r
      | _ => false
    else if 0xF0 ≤ x && x ≤ 0xF4 then
      match rest with
      | b1 :: b2 :: b3 :: r =>
        let lo := if x == 0xF0 then 0x90 else 0x80
        let hi := if x == 0xF4 then 0x8F else 0xBF
        lo ≤ b1.toNat && b1.toNat ≤ hi && utf8Cont b2 && utf8Cont b3 && utf8Valid r
      | _ => false
    else false

def printableByte (b : UInt8) : Bool :=
  let x := b.toNat
  (97 ≤ x && x ≤ 122) || (65 ≤ x && x ≤ 90) || (48 ≤ x && x ≤ 57) ||
  x == 39 || x == 40 || x == 41 || x == 43 || x == 44 || x == 45 || x == 46 ||
  x == 61 || x == 47 || x == 58 || x == 63 || x == 32

/-- content validation `readPacket` applies to universal primitives -/
def primOK (ext : Nat → Bytes → Bool) (cls tag : Nat) (content : Bytes) : Bool :=
  if cls != 0 then true
  else if tag == 12 then utf8Valid content
  else if tag == 19 then content.all printableByte
  else if tag == 22 then content.all (fun b => b.toNat < 0x7F)
  else if tag == 9 || tag == 24 then ext tag content
  else true

def isEOC : Node → Bool
  | .prim 0 0 [] => true
  | _ => false

def maxPrim : Nat := 2^31 - 1

mutual
def parse (ext : Nat → Bytes → Bool) : Nat → Bytes → Option (Node × Bytes)
  | 0, _ => none
  | fuel+1, bs =>
    match readIdent bs with
    | none => none
    | some (cls, cons, tag, r1) =>
      match readLen r1 with
      | none => none
      | some (len, r2) =>
        if cons then
          match len with
          | some n =>
            match kidsDef ext fuel n r2 with
            | none => none
            | some (kids, rest) => some (.cons cls tag kids, rest)
          | none =>
            match kidsIndef ext fuel r2 with
            | none => none
            | some (kids, rest) => some (.cons cls tag kids, rest)
        else
          match len with
          | none => none
          | some n =>
            if n > maxPrim then none
            else if r2.length < n then none
            else
              let content := r2.take n
              if primOK ext cls tag content then some (.prim cls tag content, r2.drop n) else none
def kidsDef (ext : Nat → Bytes → Bool) : Nat → Nat → Bytes → Option (List Node × Bytes)
  | 0, _, _ => none
  | fuel+1, remaining, bs =>
    if remaining == 0 then some ([], bs)
    else match parse ext fuel bs with
      | none => none
      | some (child, rest) =>
        let consumed := bs.length - rest.length
        if isEOC child then none
        else if consumed > remaining then none
        else match kidsDef ext fuel (remaining - consumed) rest with
          | none => none
          | some (ks, rest') => some (child :: ks, rest')
def kidsIndef (ext : Nat → Bytes → Bool) : Nat → Bytes → Option (List Node × Bytes)
  | 0, _ => none
  | fuel+1, bs =>
    match parse ext fuel bs with
    | none => none
    | some (child, rest) =>
      if isEOC child then some ([], rest)
      else match kidsIndef ext fuel rest with
        | none => none
        | some (ks, rest') => some (child :: ks, rest')
end

/-- enough fuel for any input: every node consumes at least two bytes and every level of
    the three mutually recursive functions burns one unit -/
def fuelFor (bs : Bytes) : Nat := 2 * bs.length + 4

def readPacket (ext : Nat → Bytes → Bool) (bs : Bytes) : Option (Node × Bytes) :=
  parse ext (fuelFor bs) bs

end Ber
