import GldapModel.Props.C08
#print axioms Server.C08_once
#print axioms Server.C08_ids
#print axioms Server.C08_current_facts
#print axioms Server.C08_current
#print axioms Server.C08_close_after_handlers
#print axioms Server.C08_counterexample_nowait
