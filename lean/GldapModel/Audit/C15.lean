import GldapModel.Props.C15
#print axioms Access.no_race_under_common_lock
#print axioms Access.justified_of_tableOK
#print axioms Access.C15_table_ok
#print axioms Access.C15_current
#print axioms Access.C15_counterexample
