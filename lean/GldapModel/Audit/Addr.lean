import GldapModel.Props.Addr
open Gldap.Addr
#print axioms lastIdx_split
#print axioms validate_needs_port
#print axioms validate_port_preserved
#print axioms validate_listen_sees_port
