import GldapModel.Props.C07
#print axioms Server.C07_survives
#print axioms Server.C07_others_untouched
#print axioms Server.C07_accept_error_tolerated
#print axioms Server.C07_counterexample_handler
#print axioms Server.C07_counterexample_accept
#print axioms Server.C07_current
