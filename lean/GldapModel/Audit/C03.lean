import GldapModel.Props.C03
#print axioms Gldap.C03_exactly_one
#print axioms Gldap.C03_first_match
#print axioms Gldap.C03_not_later
#print axioms Gldap.C03_refusal
#print axioms Gldap.C03_register_order
#print axioms Gldap.C03_last_default
#print axioms Gldap.C03_refusal_counterexample
#print axioms Gldap.C03_current
