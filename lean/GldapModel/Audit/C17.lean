import GldapModel.Props.C17
#print axioms Server.C17_ready
#print axioms Server.C17_listen_fails
#print axioms Server.C17_counterexample
#print axioms Server.C17_current
