import GldapModel.Props.C06
#print axioms ConnLoop.C06_ids_sequential
#print axioms ConnLoop.C06_current_number
#print axioms ConnLoop.C06_dispatch_nonblocking
#print axioms ConnLoop.C06_current
#print axioms ConnLoop.C06_current_dispatch
#print axioms ConnLoop.C06_counterexample_inline
