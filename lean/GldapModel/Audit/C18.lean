import GldapModel.Props.C18
#print axioms TlsGate.C18_gate
#print axioms TlsGate.C18_only_own_connection
#print axioms TlsGate.C18_counterexample
#print axioms TlsGate.C18_current_facts
#print axioms TlsGate.C18_current
