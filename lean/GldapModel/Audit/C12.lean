import GldapModel.Props.C12
#print axioms Server.C12_quiescent
#print axioms Server.C12_stop_returned
#print axioms Server.C12_current
#print axioms Server.C12_counterexample_doneFirst
#print axioms Server.C12_counterexample_stopBeforeRun
#print axioms Server.C12_counterexample_addAfterWait
