import GldapModel.Props.Filter
import GldapModel.Props.FilterSession
#print axioms Gldap.Filter.decompile_encode
#print axioms Gldap.C01_filter_roundtrip
#print axioms Gldap.filterDNAttrsDecoded_current
#print axioms Gldap.C01_current_filter
#print axioms Gldap.C01_filter_counterexample_prefix
#print axioms Gldap.C01_filter_counterexample_prefix_request
#print axioms Gldap.Filter.unescape_escape
#print axioms Gldap.C01_filter_value_faithful
#print axioms Gldap.sendable_current
#print axioms Gldap.session_requests_filter
#print axioms Gldap.C03_filter_criterion
#print axioms Gldap.C20_wire_add_then_read_filter
#print axioms Gldap.Filter.render_prefix
#print axioms Gldap.Filter.render_injective
#print axioms Gldap.C01_filter_faithful
#print axioms Gldap.C01_search_faithful
#print axioms Gldap.C01_filter_fix_conservative
#print axioms Gldap.C01_fix_conservative
#print axioms Gldap.filter_wf_needed_rule_dn
#print axioms Gldap.filter_wf_needed_subs_nonempty
#print axioms Gldap.filter_wf_needed_part_nonempty
#print axioms Gldap.filter_wf_needed_plain_attr
