import GldapModel.Props.Filter
#print axioms Gldap.Filter.decompile_encode
#print axioms Gldap.C01_filter_roundtrip
#print axioms Gldap.filterDNAttrsDecoded_current
#print axioms Gldap.C01_current_filter
#print axioms Gldap.C01_filter_counterexample_prefix
#print axioms Gldap.C01_filter_counterexample_prefix_request
