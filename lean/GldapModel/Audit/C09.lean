import GldapModel.Props.C09
#print axioms Server.C09_unique
#print axioms Server.C09_current
