import GldapModel.Props.C09
#print axioms Server.C09_unique
#print axioms Server.C09_current
#print axioms Server.C09_int64
#print axioms Server.wrapInt_faithful
