import GldapModel.Props.C20
#print axioms Directory.C20_refinement
#print axioms Directory.step_refines
#print axioms Directory.add_refines
#print axioms Directory.delete_refines
#print axioms Directory.modify_refines
#print axioms Directory.search_users_refines
#print axioms Directory.lookup_after_add
#print axioms Directory.add_existing
#print axioms Directory.lookup_after_delete
#print axioms Directory.missing_noSuchObject
#print axioms Directory.lookup_after_modify
#print axioms Directory.lookup_frame
#print axioms Directory.change_present
#print axioms Directory.change_absent
#print axioms Directory.substring_dn_breaks_add
#print axioms Directory.replace_dropped_counterexample
#print axioms Directory.matchFilter_paren
