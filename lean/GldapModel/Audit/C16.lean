import GldapModel.Props.C16
#print axioms Gldap.C16_convert_total
#print axioms Gldap.C16_convert_wrap
#print axioms Gldap.C16_convert_wrap_list
#print axioms Gldap.C16_modify_values_unwrap
#print axioms Gldap.C16_convert_witness_empty
#print axioms Gldap.C16_convert_witness_tag_only
#print axioms Gldap.C16_convert_witness_truncated
#print axioms Gldap.C16_sid_roundtrip
#print axioms Gldap.C16_newEntry_perm
#print axioms Gldap.C16_newEntry_sorted
#print axioms Gldap.C16_attr_values
#print axioms Gldap.C04_ctor_total
#print axioms Gldap.C04_ctor_witness
#print axioms Gldap.C16_current_convert
#print axioms Gldap.C16_current_ctor
