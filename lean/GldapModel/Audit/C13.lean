import GldapModel.Props.C13
#print axioms ConnLoop.C13_exclusive
#print axioms ConnLoop.C13_current_facts
#print axioms ConnLoop.C13_current
#print axioms ConnLoop.C13_counterexample
