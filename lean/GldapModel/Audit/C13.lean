import GldapModel.Props.C13
#print axioms ConnLoop.C13_exclusive
#print axioms ConnLoop.C13_current_facts
#print axioms ConnLoop.C13_current
#print axioms ConnLoop.C13_counterexample
#print axioms ConnLoop.C13_tunnel_writer
#print axioms ConnLoop.C13_tunnel_writer_current
#print axioms ConnLoop.C13_counterexample_stale_writer
