import GldapModel.Props.C14
#print axioms Gldap.parseDecimal_formatInt
#print axioms Gldap.encodeControl_spec
#print axioms Gldap.C14_request
#print axioms Gldap.C14_request_list
#print axioms Gldap.C14_request_wire
#print axioms Gldap.C14_current
#print axioms Gldap.C14_client
#print axioms Gldap.C14_behera_ctor
#print axioms Gldap.C14_behera_counterexample
#print axioms Gldap.C14_behera_current
