import GldapModel.Props.C19
#print axioms Directory.C19_bind_iff
#print axioms Directory.C19_otherwise_invalid
