import GldapModel.Props.C11
#print axioms Server.C11_progress
#print axioms Server.C11_counterexample
#print axioms Server.C11_current
#print axioms Server.C11_bounded
#print axioms Server.C11_terminates
#print axioms Server.C11_current_bounded
#print axioms Server.mu_step
