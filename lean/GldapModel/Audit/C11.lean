import GldapModel.Props.C11
#print axioms Server.C11_progress
#print axioms Server.C11_counterexample
#print axioms Server.C11_current
