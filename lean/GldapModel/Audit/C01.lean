import GldapModel.Props.C01
#print axioms Ber.readPacket_ser
#print axioms Gldap.decodeControl_encodeCtl
#print axioms Gldap.C01_roundtrip_tree
#print axioms Gldap.C01_roundtrip
#print axioms Gldap.C01_current
#print axioms Gldap.C01_kind
#print axioms Gldap.C01_unsupported
#print axioms Gldap.C01_bind_version
