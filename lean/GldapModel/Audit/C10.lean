import GldapModel.Props.C10
#print axioms ConnLoop.C10_nothing_after_unbind
#print axioms ConnLoop.C10_close_after_handlers
#print axioms ConnLoop.C10_unbind_once
#print axioms ConnLoop.C10_current
#print axioms ConnLoop.C10_current_facts
