import GldapModel.Props.C04
#print axioms Gldap.C04_wire_tree
#print axioms Gldap.C04_wire
#print axioms Gldap.C04_message_id
#print axioms Gldap.toInt16_id
#print axioms Gldap.toInt16_wraps
#print axioms Gldap.opts_last_code
#print axioms Gldap.opts_last_diag
#print axioms Gldap.opts_last_matched
#print axioms Gldap.opts_last_appCode
#print axioms Gldap.opts_code_frame
#print axioms Gldap.applySets_last_code
#print axioms Gldap.applySets_last_diag
#print axioms Gldap.applySets_last_matched
#print axioms Gldap.applySets_addAttr
#print axioms Gldap.applySets_kind
