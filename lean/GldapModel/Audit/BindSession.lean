import GldapModel.Props.BindSession
open Directory
#print axioms respond_bind
#print axioms C19_session
#print axioms C19_client_view
