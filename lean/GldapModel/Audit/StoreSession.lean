import GldapModel.Props.StoreSession
open Directory
#print axioms dirSession_cons
#print axioms dirSession_unbind
#print axioms dir_serve_search
#print axioms respond_add
#print axioms respond_modify
#print axioms respond_delete
#print axioms respond_search
#print axioms runScript_search
#print axioms addResp_code
#print axioms C20_wire_add_then_read
#print axioms C20_wire_add_then_read_current
#print axioms C20_wire_delete_then_read
#print axioms after_read
