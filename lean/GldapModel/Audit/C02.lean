import GldapModel.Props.C02
#print axioms Gldap.C02_total
#print axioms Gldap.C02_frames
#print axioms Gldap.C02_current
#print axioms Gldap.C02_witness_bindVersion
#print axioms Gldap.C02_witness_ctrlType
#print axioms Gldap.C02_witness_ctrlCrit
#print axioms Gldap.C02_witness_ctrlValue
#print axioms Gldap.C02_witness_pagingShape
#print axioms Gldap.C02_witness_pagingSize
#print axioms Gldap.C02_witness_beheraWarn
