import GldapModel.Props.C05
#print axioms Ber.readAll_serAll
#print axioms Writer.inv_step
#print axioms Writer.C05_whole_frames'
#print axioms Writer.C05_quiescent
#print axioms Writer.C05_client_view
#print axioms Writer.C05_current
#print axioms Writer.C05_current_shared_lock
#print axioms Writer.C05_counterexample_nolock
#print axioms Writer.C05_counterexample_unlock_before_flush
