import GldapModel.Props.Session
open Gldap.Session
#print axioms session_requests
#print axioms session_complete
#print axioms session_unbind
#print axioms session_requests_then_unbind
#print axioms session_frames
#print axioms respond_ids
#print axioms respond_wire_ids
#print axioms respond_refusal
#print axioms session_client_stream
#print axioms session_current
#print axioms session_fuel
#print axioms session_never_crashes
#print axioms session_never_crashes_current
#print axioms session_ids
#print axioms pipelined_session
#print axioms Ber.readPacket_len
#print axioms session_append
#print axioms Ber.readPacket_ext
