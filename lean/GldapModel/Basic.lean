def hello := "world"
