import GldapModel.Proofs.Server6
import GldapModel.Generated.Facts
/-! # C12 - when Stop returns the server is quiescent and its port is released -/
namespace Server

/-- For every interleaving of any number of Stop calls with Run's listen / accept / spawn steps,
    traffic, handler progress and teardown steps: once some Stop has returned and Run has
    returned, the listener is not open and every accepted connection's goroutine is gone, with no
    handler running, exactly one socket close and exactly one completed OnClose. Stop before Run and
    repeated Stop are covered (any number of Stop calls, in any position). -/
theorem C12_quiescent (n : Nat) (ls : List Label) (s : Srv) (hr : run goodFacts (init n) ls = some s)
    (hstop : ∃ p ∈ s.stops, p = .returned) (hrun : ∃ e, s.run = .returned e) :
    s.lst ≠ .open ∧ ∀ c ∈ s.conns, c.gor = .gone ∧ c.live = 0 ∧ c.netClosed = 1 ∧ c.onClosed = 1 :=
  C12_quiescent_good n ls s hr hstop hrun

/-- already when Stop alone has returned, every accepted connection is completely torn down -/
theorem C12_stop_returned (n : Nat) (ls : List Label) (s : Srv) (hr : run goodFacts (init n) ls = some s)
    (hstop : ∃ p ∈ s.stops, p = .returned) : ∀ c ∈ s.conns, c.gor = .gone :=
  (inv_run ls (init n) s (inv_init n) hr).done hstop

theorem C12_current_facts : Gldap.Generated.serverFacts = goodFacts := by decide

theorem C12_current (n : Nat) (ls : List Label) (s : Srv)
    (hr : run Gldap.Generated.serverFacts (init n) ls = some s)
    (hstop : ∃ p ∈ s.stops, p = .returned) (hrun : ∃ e, s.run = .returned e) :
    s.lst ≠ .open ∧ ∀ c ∈ s.conns, c.gor = .gone ∧ c.live = 0 ∧ c.netClosed = 1 ∧ c.onClosed = 1 := by
  rw [C12_current_facts] at hr
  exact C12_quiescent n ls s hr hstop hrun

/-! ### the pinned tree violates it three ways (kernel-checked traces) -/

/-- `connWg.Done()` first: Stop returns before the close and OnClose -/
theorem C12_counterexample_doneFirst :
    (run pinnedFacts (init 1) [.runListen true, .runLoopTop, .runAcceptOk, .runSpawn, .runLoopTop,
      .connExit 1, .teardown 1, .stopStep 0, .stopStep 0, .stopStep 0, .stopStep 0, .runAcceptClosed]).map
      (fun s => (bothReturned s, quiescent s)) = some (true, false) := by decide

/-- Stop before Run: the port stays bound after both returned -/
theorem C12_counterexample_stopBeforeRun :
    (run pinnedFacts (init 1) [.stopStep 0, .stopStep 0, .stopStep 0, .stopStep 0, .runListen true, .runLoopTop]).map
      (fun s => (bothReturned s, s.lst)) = some (true, .open) := by decide

/-- `connWg.Add(1)` for a just-accepted connection after Stop's `Wait` -/
theorem C12_counterexample_addAfterWait :
    (run pinnedFacts (init 1) [.runListen true, .runLoopTop, .runAcceptOk, .stopStep 0, .stopStep 0, .stopStep 0,
      .stopStep 0, .runSpawn, .runLoopTop]).map (fun s => (bothReturned s, quiescent s)) = some (true, false) := by decide

end Server
