import GldapModel.Props.C04
import GldapModel.Props.C01
/-! # C16 - exported helpers and constructors are total: errors, never panics -/
namespace Gldap
open Ber Spec Gldap.Generated

/-! ### ConvertString -/

theorem np_readLength (g : Guards) (h : g.readLenBounds = true) (bs : Bytes) : NoPanic (readLength g bs) := by
  unfold readLength
  cases bs with
  | nil => exact np_fail h
  | cons b rest =>
    simp only
    by_cases c1 : (b.toNat == 255) = true
    · simp [c1]
    by_cases c2 : (b.toNat == 128) = true
    · simp [c1, c2]
    by_cases c3 : b.toNat < 128
    · simp [c1, c2, c3]
    by_cases c4 : b.toNat - 128 > 8
    · simp [c1, c2, c3, c4]
    by_cases c5 : rest.length < b.toNat - 128
    · simp only [c1, c2, c3, c4, c5, if_true, if_false, Bool.false_eq_true]; exact np_fail h
    · simp [c1, c2, c3, c4, c5]

theorem np_convertOne (g : Guards) (h1 : g.convertEmpty = true) (h2 : g.readLenBounds = true) (s : Bytes) :
    NoPanic (convertOne g s) := by
  unfold convertOne
  split
  · exact np_fail h1
  · split
    · apply np_bind (np_readLength g h2 _); intro ⟨_, _⟩; simp
    · simp

/-- `ConvertString` never panics, for any strings (empty, one byte, truncated long forms, ...) -/
theorem C16_convert_total (g : Guards) (h1 : g.convertEmpty = true) (h2 : g.readLenBounds = true) (ss : List Bytes) :
    convertString g ss ≠ .panic := by
  induction ss with
  | nil => simp [convertString]
  | cons s ss ih =>
    unfold convertString
    apply np_bind (np_convertOne g h1 h2 s); intro x
    apply np_bind ih; intro xs; simp

theorem readLength_encLen (g : Guards) (n : Nat) (rest : Bytes) (h : n < 2^63) :
    ∃ v, readLength g (encLen n ++ rest) = .ok (v, (encLen n).length) := by
  unfold encLen
  split
  · rename_i h127
    have hn : n.toUInt8.toNat = n := by rw [Nat.toUInt8, UInt8.toNat_ofNat']; omega
    refine ⟨n, ?_⟩
    simp only [List.cons_append, List.nil_append, readLength, hn]
    have h1 : (n == 255) = false := by rw [beq_eq_false_iff_ne]; omega
    have h2 : (n == 128) = false := by rw [beq_eq_false_iff_ne]; omega
    have h3 : n < 128 := by omega
    simp [h1, h2, h3]
  · rename_i h127
    have hl := natBE_length_le n 8 (by omega) (by simp at h ⊢; omega)
    have hp := natBE_length_pos n
    have hb : (0x80 + (natBE n).length).toUInt8.toNat = 128 + (natBE n).length := by
      rw [Nat.toUInt8, UInt8.toNat_ofNat']; omega
    refine ⟨accInt64 ((natBE n ++ rest).take (natBE n).length), ?_⟩
    simp only [List.cons_append, readLength, hb]
    have h1 : (128 + (natBE n).length == 255) = false := by rw [beq_eq_false_iff_ne]; omega
    have h2 : (128 + (natBE n).length == 128) = false := by rw [beq_eq_false_iff_ne]; omega
    have h3 : ¬ (128 + (natBE n).length < 128) := by omega
    have h4 : ¬ (128 + (natBE n).length - 128 > 8) := by omega
    have h5 : ¬ ((natBE n ++ rest).length < 128 + (natBE n).length - 128) := by simp
    have h6 : 128 + (natBE n).length - 128 = (natBE n).length := by omega
    rw [if_neg (by simp [h1]), if_neg (by simp [h2]), if_neg h3, if_neg h4, if_neg h5, h6]
    simp only [List.length_cons, Nat.add_comm 1]

/-- `ConvertString` inverts BER octet-string wrapping, for every string -/
theorem C16_convert_wrap (g : Guards) (s : Bytes) (h : s.length < 2^63) : convertOne g (Spec.wrap s) = .ok s := by
  obtain ⟨v, hv⟩ := readLength_encLen g s.length s h
  have e4 : encId 0 false 4 = [4] := by decide
  simp only [Spec.wrap, Spec.octet, ser, e4, List.cons_append, List.nil_append, List.append_assoc, convertOne]
  have : ((4 : UInt8).toNat == 4 || (4 : UInt8).toNat == 27) = true := by decide
  simp [this, hv, bind, pure]

theorem C16_convert_wrap_list (g : Guards) (ss : List Bytes) (h : ∀ s ∈ ss, s.length < 2^63) :
    convertString g (ss.map Spec.wrap) = .ok ss := by
  induction ss with
  | nil => simp [convertString]
  | cons s ss ih =>
    have h1 := C16_convert_wrap g s (h s (by simp))
    have h2 := ih (fun s hs => h s (by simp [hs]))
    simp [convertString, h1, h2, bind, pure]

/-- together with C01: the values a Modify handler receives unwrap to the client's values -/
theorem C16_modify_values_unwrap (g : Guards) (c : CChange) (h : ∀ s ∈ c.vals, s.length < 2^63) :
    convertString g (expectedChange c).vals = .ok c.vals := C16_convert_wrap_list g c.vals h

theorem C16_convert_witness_empty : convertString noGuards [[]] = .panic := by decide
theorem C16_convert_witness_tag_only : convertString noGuards [[4]] = .panic := by decide
theorem C16_convert_witness_truncated : convertString noGuards [[4, 0x82, 1]] = .panic := by decide

/-! ### SIDs -/

theorem C16_sid_roundtrip (r a : Nat) (hr : r < 256) (ha : a < 65536) :
    sidToString (sidBytes r a) = some ([83, dash] ++ decDigits r ++ [dash] ++ decDigits a) := by
  have h1 : r.toUInt8.toNat = r := by rw [Nat.toUInt8, UInt8.toNat_ofNat']; omega
  have h2 : (a / 256).toUInt8.toNat = a / 256 := by rw [Nat.toUInt8, UInt8.toNat_ofNat']; omega
  have h3 : (a % 256).toUInt8.toNat = a % 256 := by rw [Nat.toUInt8, UInt8.toNat_ofNat']; omega
  have hb : beNat [0, 0, 0, 0, (a / 256).toUInt8, (a % 256).toUInt8] = a := by
    simp only [beNat, List.foldl_cons, List.foldl_nil, h2, h3]
    have : (0 : UInt8).toNat = 0 := rfl
    simp only [this]; omega
  have h0 : (0 : UInt8).toNat = 0 := rfl
  simp only [sidBytes, sidToString, h0, subAuthorities, hb, h1]
  simp

/-! ### NewEntry -/

theorem bytesLe_total (a b : Bytes) : (bytesLe a b || bytesLe b a) = true := by
  induction a generalizing b with
  | nil => simp [bytesLe]
  | cons x xs ih =>
    cases b with
    | nil => simp [bytesLe]
    | cons y ys =>
      simp only [bytesLe]
      by_cases h1 : x.toNat < y.toNat
      · simp [h1]
      · by_cases h2 : y.toNat < x.toNat
        · simp [h1, h2]
        · simp [h1, h2, ih ys]

theorem bytesLe_trans (a b c : Bytes) (h1 : bytesLe a b = true) (h2 : bytesLe b c = true) : bytesLe a c = true := by
  induction a generalizing b c with
  | nil => simp [bytesLe]
  | cons x xs ih =>
    cases b with
    | nil => simp [bytesLe] at h1
    | cons y ys =>
      cases c with
      | nil => simp [bytesLe] at h2
      | cons z zs =>
        simp only [bytesLe] at h1 h2 ⊢
        by_cases xy : x.toNat < y.toNat
        · by_cases yz : y.toNat < z.toNat
          · have : x.toNat < z.toNat := by omega
            simp [this]
          · by_cases zy : z.toNat < y.toNat
            · simp [yz, zy] at h2
            · have : x.toNat < z.toNat := by omega
              simp [this]
        · by_cases yx : y.toNat < x.toNat
          · simp [xy, yx] at h1
          · simp only [xy, yx, if_false] at h1
            by_cases yz : y.toNat < z.toNat
            · have : x.toNat < z.toNat := by omega
              simp [this]
            · by_cases zy : z.toNat < y.toNat
              · simp [yz, zy] at h2
              · simp only [yz, zy, if_false] at h2
                have e1 : ¬ x.toNat < z.toNat := by omega
                have e2 : ¬ z.toNat < x.toNat := by omega
                simp only [e1, e2, if_false]
                exact ih ys zs h1 h2

theorem bytesLe_antisymm (a b : Bytes) (h1 : bytesLe a b = true) (h2 : bytesLe b a = true) : a = b := by
  induction a generalizing b with
  | nil => cases b with
    | nil => rfl
    | cons y ys => simp [bytesLe] at h2
  | cons x xs ih =>
    cases b with
    | nil => simp [bytesLe] at h1
    | cons y ys =>
      simp only [bytesLe] at h1 h2
      by_cases xy : x.toNat < y.toNat
      · have : ¬ y.toNat < x.toNat := by omega
        simp [xy, this] at h2
      · by_cases yx : y.toNat < x.toNat
        · simp [xy, yx] at h1
        · simp only [xy, yx, if_false] at h1 h2
          have : x = y := UInt8.toNat_inj.mp (by omega)
          rw [this, ih ys h1 h2]

theorem eq_of_nodup_fst (l : List (Bytes × List Bytes)) (hk : (l.map (·.1)).Nodup)
    (a b : Bytes × List Bytes) (ha : a ∈ l) (hb : b ∈ l) (h : a.1 = b.1) : a = b := by
  induction l with
  | nil => cases ha
  | cons x xs ih =>
    simp only [List.map_cons, List.nodup_cons, List.mem_map, not_exists, not_and] at hk
    simp only [List.mem_cons] at ha hb
    rcases ha with rfl | ha <;> rcases hb with rfl | hb
    · rfl
    · exact absurd h.symm (hk.1 b hb)
    · exact absurd h (hk.1 a ha)
    · exact ih hk.2 ha hb

/-- `NewEntry` orders attributes by name identically whatever order the map is iterated in -/
theorem C16_newEntry_perm (dn : Bytes) (l₁ l₂ : List (Bytes × List Bytes)) (hp : l₁.Perm l₂)
    (hk : (l₁.map (·.1)).Nodup) : newEntry dn l₁ = newEntry dn l₂ := by
  unfold newEntry
  congr 2
  let le := fun (a b : Bytes × List Bytes) => bytesLe a.1 b.1
  have tr : ∀ a b c : Bytes × List Bytes, le a b = true → le b c = true → le a c = true :=
    fun a b c => bytesLe_trans a.1 b.1 c.1
  have tot : ∀ a b : Bytes × List Bytes, (le a b || le b a) = true := fun a b => bytesLe_total a.1 b.1
  have s1 := List.pairwise_mergeSort tr tot l₁
  have s2 := List.pairwise_mergeSort tr tot l₂
  have p : (l₁.mergeSort le).Perm (l₂.mergeSort le) :=
    (List.mergeSort_perm l₁ le).trans (hp.trans (List.mergeSort_perm l₂ le).symm)
  apply List.Perm.eq_of_pairwise (le := fun a b => le a b = true) _ s1 s2 p
  intro a b ha hb hab hba
  have hkeys : a.1 = b.1 := bytesLe_antisymm a.1 b.1 hab hba
  have ha1 : a ∈ l₁ := (List.mergeSort_perm l₁ le).subset ha
  have hb1 : b ∈ l₁ := hp.symm.subset ((List.mergeSort_perm l₂ le).subset hb)
  -- distinct keys: equal keys means the same pair
  exact eq_of_nodup_fst l₁ hk a b ha1 hb1 hkeys

/-- ... and the result is sorted by name -/
theorem C16_newEntry_sorted (dn : Bytes) (l : List (Bytes × List Bytes)) :
    ((newEntry dn l).2.map (·.name)).Pairwise (fun a b => bytesLe a b = true) := by
  unfold newEntry
  have tr : ∀ a b c : Bytes × List Bytes, bytesLe a.1 b.1 = true → bytesLe b.1 c.1 = true → bytesLe a.1 c.1 = true :=
    fun a b c => bytesLe_trans a.1 b.1 c.1
  have tot : ∀ a b : Bytes × List Bytes, (bytesLe a.1 b.1 || bytesLe b.1 a.1) = true := fun a b => bytesLe_total a.1 b.1
  have s := List.pairwise_mergeSort (le := fun a b => bytesLe a.1 b.1) tr tot l
  simp only [List.map_map]
  rw [List.pairwise_map]
  exact s.imp (fun h => by simpa [newEntryAttribute] using h)

/-- string and byte values stay equal element by element under any sequence of AddValue -/
theorem C16_attr_values (name : Bytes) (vs : List Bytes) (adds : List (List Bytes)) :
    (adds.foldl EAttr.addValue (newEntryAttribute name vs)).byteValues =
      (adds.foldl EAttr.addValue (newEntryAttribute name vs)).values := by
  have key : ∀ (e : EAttr), e.byteValues = e.values → ∀ adds : List (List Bytes),
      (adds.foldl EAttr.addValue e).byteValues = (adds.foldl EAttr.addValue e).values := by
    intro e he adds
    induction adds generalizing e with
    | nil => exact he
    | cons a as ih => exact ih _ (by simp [EAttr.addValue, he])
  exact key _ rfl adds

/-! ### the statements for the source as it is now -/

theorem C16_current_convert (ss : List Bytes) : convertString Generated.guards ss ≠ .panic :=
  C16_convert_total Generated.guards (by decide) (by decide) ss

theorem C16_current_ctor (mid : Int) (opts : List ROpt) : newModifyResponse Generated.guards mid opts ≠ .panic :=
  C04_ctor_total Generated.guards (by decide) mid opts

end Gldap
