import GldapModel.Runtime.TlsGate
import GldapModel.Generated.Facts
/-! # C18 - with TLS configured, only clients that satisfy it ever reach a handler (plumbing part) -/
namespace TlsGate

def GInv (beh : Nat → Bool) (cs : List Conn) : Prop :=
  ∀ x ∈ cs, x.wrapped = true ∧ (x.hsOK = true → beh x.id = true) ∧ (x.dispatched > 0 → beh x.id = true)

theorem upd_mem {cs : List Conn} {c : Nat} {f : Conn → Conn} {y : Conn} (h : y ∈ upd cs c f) :
    ∃ x ∈ cs, y = if x.id = c then f x else x := by
  simp only [upd, List.mem_map] at h
  obtain ⟨x, hx, rfl⟩ := h
  exact ⟨x, hx, rfl⟩

theorem find_mem {cs : List Conn} {c : Nat} {x : Conn} (h : cs.find? (·.id == c) = some x) : x ∈ cs ∧ x.id = c := by
  refine ⟨List.mem_of_find?_eq_some h, ?_⟩
  have := List.find?_some h
  simpa using this

theorem ginv_step (F : Facts) (hF : F.wrapBeforeLoop = true ∧ F.acceptOnServerListener = true) (beh : Nat → Bool)
    (cs cs' : List Conn) (e : Ev) (hi : GInv beh cs) (h : step F true beh cs e = some cs') : GInv beh cs' := by
  cases e with
  | accept c =>
    simp only [step] at h
    split at h
    · cases h
    · simp only [Option.some.injEq] at h; subst h
      intro x hx
      rcases List.mem_append.mp hx with hx | hx
      · exact hi x hx
      · simp at hx; subst hx; simp [hF.1, hF.2]
  | handshake c ok =>
    simp only [step] at h
    split at h
    · rename_i x hfx
      split at h
      · rename_i hc
        simp only [Option.some.injEq] at h; subst h
        intro y hy
        obtain ⟨z, hz, rfl⟩ := upd_mem hy
        have hzi := hi z hz
        by_cases hzc : z.id = c
        · simp only [hzc, if_true]
          refine ⟨hzi.1, ?_, ?_⟩
          · intro hok; rw [← hc.2.2.2]; exact hok
          · have := hzi.2.2; rw [hzc] at this; exact this
        · simp only [hzc, if_false]; exact hzi
      · cases h
    · cases h
  | dispatch c =>
    simp only [step] at h
    split at h
    · rename_i x hfx
      obtain ⟨hxm, hxid⟩ := find_mem hfx
      split at h
      · rename_i hc
        simp only [Option.some.injEq] at h; subst h
        intro y hy
        obtain ⟨z, hz, rfl⟩ := upd_mem hy
        have hzi := hi z hz
        by_cases hzc : z.id = c
        · simp only [hzc, if_true]
          refine ⟨hzi.1, ?_, ?_⟩
          · simpa [hzc] using hzi.2.1
          · intro _
            -- z and x are both entries with id c; wrapped holds for every entry, so hsOK of the found one gives beh
            have hx := hi x hxm
            have : x.hsOK = true := hc.2 hx.1
            rw [← hxid]; exact hx.2.1 this
        · simp only [hzc, if_false]; exact hzi
      · cases h
    · cases h
  | close c =>
    simp only [step, Option.some.injEq] at h; subst h
    intro y hy
    obtain ⟨z, hz, rfl⟩ := upd_mem hy
    have hzi := hi z hz
    by_cases hzc : z.id = c
    · simp only [hzc, if_true]; simpa [hzc] using hzi
    · simp only [hzc, if_false]; exact hzi

/-- When Run is given a TLS configuration and the listener is wrapped before the accept loop which
    accepts on it, then in every accepted history - any number of connections, any order of
    events - a handler is dispatched only for a connection whose client completed a handshake
    satisfying the configuration; plaintext senders, abandoned or failed handshakes, missing or
    foreign certificates (all `beh c = false`) never reach a handler. -/
theorem C18_gate (F : Facts) (hF : F.wrapBeforeLoop = true ∧ F.acceptOnServerListener = true) (beh : Nat → Bool)
    (es : List Ev) (cs : List Conn) (h : run F true beh [] es = some cs) :
    ∀ x ∈ cs, x.dispatched > 0 → beh x.id = true := by
  have key : ∀ (es : List Ev) (a b : List Conn), GInv beh a → run F true beh a es = some b → GInv beh b := by
    intro es
    induction es with
    | nil => intro a b ha hr; simp [run] at hr; subst hr; exact ha
    | cons e es ih =>
      intro a b ha hr
      simp only [run] at hr
      cases hs : step F true beh a e with
      | none => simp [hs] at hr
      | some a' => simp [hs] at hr; exact ih a' b (ginv_step F hF beh a a' e ha hs) hr
  intro x hx hd
  exact (key es [] cs (by intro x hx; cases hx) h x hx).2.2 hd

/-- an offender's failure ends only its own connection: other connections' entries are unchanged by
    its events -/
theorem C18_only_own_connection (F : Facts) (cfg : Bool) (beh : Nat → Bool) (cs cs' : List Conn) (c : Nat) (e : Ev)
    (he : e = .handshake c false ∨ e = .close c) (h : step F cfg beh cs e = some cs') :
    ∀ x ∈ cs, x.id ≠ c → x ∈ cs' := by
  intro x hx hne
  rcases he with rfl | rfl <;> simp only [step] at h
  · split at h
    · split at h
      · simp only [Option.some.injEq] at h; subst h
        simp only [upd, List.mem_map]; exact ⟨x, hx, by simp [hne]⟩
      · cases h
    · cases h
  · simp only [Option.some.injEq] at h; subst h
    simp only [upd, List.mem_map]; exact ⟨x, hx, by simp [hne]⟩

/-- without the wrap a plaintext client reaches a handler -/
theorem C18_counterexample :
    (run { goodFacts with wrapBeforeLoop := false } true (fun _ => false) [] [.accept 1, .dispatch 1]).map
      (fun cs => cs.map (·.dispatched)) = some [1] := by decide

theorem C18_current_facts : Gldap.Generated.tlsFacts = goodFacts := by decide

theorem C18_current (beh : Nat → Bool) (es : List Ev) (cs : List Conn)
    (h : run Gldap.Generated.tlsFacts true beh [] es = some cs) : ∀ x ∈ cs, x.dispatched > 0 → beh x.id = true := by
  rw [C18_current_facts] at h
  exact C18_gate goodFacts ⟨rfl, rfl⟩ beh es cs h

end TlsGate
