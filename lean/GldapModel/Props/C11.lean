import GldapModel.Proofs.ServerMeasure
import GldapModel.Generated.Facts
/-! # C11 - Stop returns in bounded time whatever clients are doing (the logic part)

"No client cooperation is needed": steps are split into *server-only* labels (the server's own
code, handlers returning, the teardown, and the exit of a read loop caused by the cancelled
context) and the rest (clients sending, closing, connecting; faults). The theorem is progress:
while some Stop call has not returned, a server-only step is enabled - in every reachable state,
so whatever the clients did before and whatever they refrain from doing now. Wall-clock time is
outside the model (partial): the bound is "a server-only step is always available", seconds are
measured by the harness. -/
namespace Server

theorem pending_pos {cs : List Conn} (h : pending cs ≠ 0) : ∃ c ∈ cs, c.gor ≠ .gone := by
  induction cs with
  | nil => simp [pending] at h
  | cons x xs ih =>
    simp only [pending] at h
    by_cases hx : x.gor = .gone
    · simp [hx] at h
      obtain ⟨c, hc, hg⟩ := ih h
      exact ⟨c, by simp [hc], hg⟩
    · exact ⟨x, by simp, hx⟩

theorem findConn_of_mem {cs : List Conn} (hn : (cs.map (·.id)).Nodup) {c : Conn} (hc : c ∈ cs) :
    findConn cs c.id = some c := by
  induction cs with
  | nil => cases hc
  | cons x xs ih =>
    simp only [List.map_cons, List.nodup_cons, List.mem_map, not_exists, not_and] at hn
    simp only [findConn, List.find?_cons]
    rcases List.mem_cons.mp hc with rfl | hc'
    · simp
    · have hne : x.id ≠ c.id := fun h => hn.1 c hc' h.symm
      simp only [decide_eq_true_eq, hne, if_false]
      have := ih hn.2 hc'
      simpa [findConn] using this

/-- Progress: in every state reachable under the repaired facts, if some Stop call is in
    progress then a server-only step is enabled. Hence Stop cannot be kept from returning by a
    client that merely holds a connection open, sends half a frame, never starts its TLS
    handshake or never reads. -/
theorem C11_progress (n : Nat) (ls : List Label) (s : Srv) (hr : run goodFacts (init n) ls = some s)
    (i k : Nat) (hi : s.stops[i]? = some (.at k)) :
    ∃ l, l.serverOnly = true ∧ (step goodFacts s l).isSome = true := by
  have h := inv_run ls (init n) s (inv_init n) hr
  have hmem : StopPc.at k ∈ s.stops := List.mem_of_getElem? hi
  have hk := h.stopAt _ hmem k rfl
  have hk3 : k = 0 ∨ k = 1 ∨ k = 2 := by omega
  rcases hk3 with rfl | rfl | rfl
  · exact ⟨.stopStep i, rfl, by simp [step, stepCore, hi, goodFacts]⟩
  · exact ⟨.stopStep i, rfl, by simp [step, stepCore, hi, goodFacts]⟩
  · by_cases hw : s.connWg = 0
    · exact ⟨.stopStep i, rfl, by simp [step, stepCore, hi, goodFacts, hw]⟩
    · have hc := h.canc _ hmem (by rfl)
      rw [h.wg] at hw
      obtain ⟨c, hcm, hg⟩ := pending_pos hw
      have hf := findConn_of_mem h.ids hcm
      have hok := h.ok c hcm
      cases hgor : c.gor with
      | gone => exact absurd hgor hg
      | serving =>
        exact ⟨.connExitShutdown c.id, rfl, by simp [step, stepCore, hc, goodFacts, hf, hgor]⟩
      | exited j =>
        simp only [ConnOK, hgor] at hok
        by_cases hl : c.live > 0
        · exact ⟨.handlerEnd c.id, rfl, by simp [step, stepCore, hf, hl]⟩
        · have hl0 : c.live = 0 := by omega
          match j, hok with
          | 0, _ => exact ⟨.teardown c.id, rfl, by simp [step, stepCore, hf, hgor, goodFacts, hl0]⟩
          | 1, _ => exact ⟨.teardown c.id, rfl, by simp [step, stepCore, hf, hgor, goodFacts]⟩
          | 2, _ => exact ⟨.teardown c.id, rfl, by simp [step, stepCore, hf, hgor, goodFacts]⟩
          | (j+3), hok => simp at hok

/-- the pinned tree: an idle connection blocks Stop for ever - Stop is at its Wait, the connection
    is still serving, and no server-only step is enabled -/
theorem C11_counterexample :
    (run pinnedFacts (init 1) [.runListen true, .runLoopTop, .runAcceptOk, .runSpawn, .runLoopTop,
      .stopStep 0, .stopStep 0, .stopStep 0]).map
      (fun s => (s.stops, (step pinnedFacts s (.stopStep 0)).isSome, (step pinnedFacts s (.connExitShutdown 1)).isSome,
        (step pinnedFacts s (.teardown 1)).isSome, (step pinnedFacts s (.handlerEnd 1)).isSome,
        (step pinnedFacts s .runAcceptClosed).isSome)) =
      some ([.at 2], false, false, false, false, true) := by decide

theorem run_append (F : Facts) (s : Srv) (a b : List Label) : run F s (a ++ b) = (run F s a).bind (run F · b) := by
  induction a generalizing s with
  | nil => rfl
  | cons l ls ih =>
    simp only [List.cons_append, run]
    cases step F s l with
    | none => rfl
    | some s1 => simp [ih]

/-- Bounded: from any reachable state, whatever the clients did before, the server's own steps (its code,
    handlers returning, teardowns, read loops ending because of the cancelled context) can follow one
    another at most `mu s` times - a number read off the state: 4 per Stop not yet called, 3 - k per Stop in
    progress, a few for Run, and for every connection its running handlers plus at most 4. -/
theorem C11_bounded (n : Nat) (ls : List Label) (s : Srv) (hr : run goodFacts (init n) ls = some s)
    (ls' : List Label) (s' : Srv) (hl : ∀ l ∈ ls', l.serverOnly = true) (hr' : run goodFacts s ls' = some s') :
    ls'.length ≤ mu s := by
  have h := inv_run ls (init n) s (inv_init n) hr
  have := mu_run ls' s s' h hl hr'
  omega

/-- Terminates: when the server's own steps have run out (none is enabled any more), no Stop call is still in
    progress. Together with `C11_bounded`: once Stop has been called, and without any help from the clients,
    Stop returns after at most `mu s` steps of the server. -/
theorem C11_terminates (n : Nat) (ls : List Label) (s : Srv) (hr : run goodFacts (init n) ls = some s)
    (ls' : List Label) (s' : Srv) (hr' : run goodFacts s ls' = some s')
    (hmax : ∀ l, l.serverOnly = true → step goodFacts s' l = none) :
    ∀ (i k : Nat), s'.stops[i]? ≠ some (StopPc.at k) := by
  intro i k hi
  have hreach : run goodFacts (init n) (ls ++ ls') = some s' := by rw [run_append, hr]; exact hr'
  obtain ⟨l, hso, hen⟩ := C11_progress n (ls ++ ls') s' hreach i k hi
  rw [hmax l hso] at hen
  simp at hen

/-- the bound on a concrete state: Run accepting, one Stop at its Wait, one idle connection and one connection with
    two handlers running - at most 12 more steps of the server -/
example : (run goodFacts (init 1) [.runListen true, .runLoopTop, .runAcceptOk, .runSpawn, .runLoopTop, .runAcceptOk, .runSpawn,
    .handlerStart 2, .handlerStart 2, .runLoopTop, .stopStep 0, .stopStep 0, .stopStep 0]).map mu = some 12 := by decide

theorem C11_current_facts : Gldap.Generated.serverFacts = goodFacts := by decide

theorem C11_current (n : Nat) (ls : List Label) (s : Srv) (hr : run Gldap.Generated.serverFacts (init n) ls = some s)
    (i k : Nat) (hi : s.stops[i]? = some (.at k)) :
    ∃ l, l.serverOnly = true ∧ (step Gldap.Generated.serverFacts s l).isSome = true := by
  rw [C11_current_facts] at hr ⊢
  exact C11_progress n ls s hr i k hi

theorem C11_current_bounded (n : Nat) (ls : List Label) (s : Srv) (hr : run Gldap.Generated.serverFacts (init n) ls = some s)
    (ls' : List Label) (s' : Srv) (hl : ∀ l ∈ ls', l.serverOnly = true) (hr' : run Gldap.Generated.serverFacts s ls' = some s') :
    ls'.length ≤ mu s ∧
    ((∀ l, l.serverOnly = true → step Gldap.Generated.serverFacts s' l = none) → ∀ (i k : Nat), s'.stops[i]? ≠ some (StopPc.at k)) := by
  rw [C11_current_facts] at hr hr' ⊢
  exact ⟨C11_bounded n ls s hr ls' s' hl hr', C11_terminates n ls s hr ls' s' hr'⟩

end Server
