import GldapModel.Proofs.ControlRT
import GldapModel.Generated.Facts
import GldapModel.Props.C02
/-! # C01 - a decoded request carries exactly what the client sent

`Spec.clientEncode` is the RFC 4511 encoder (independent of gldap's constants);
`newMessage` / `serveFrame` are gldap's decoder model with constants and guard flags
regenerated from the source. The theorems hold for every guard setting `g` and every
behaviour of the third-party validators; `DecompileFilter` is the parameter `env.decompile`. -/
namespace Gldap
open Ber Spec Gldap.Generated

/-- the client's request is within the property's quantifier -/
def _root_.Spec.CReq.WF : CReq → Prop
  | .bind id _ _ ctls => Int64 id ∧ ∀ c ∈ ctls, c.WF
  | .search id _ scope deref size time _ _ _ ctls =>
      Int64 id ∧ Int64 scope ∧ Int64 deref ∧ Int64 size ∧ Int64 time ∧ ∀ c ∈ ctls, c.WF
  | .extended id _ => Int64 id
  | .modify id _ chs ctls => Int64 id ∧ (∀ c ∈ chs, Int64 c.op) ∧ ∀ c ∈ ctls, c.WF
  | .add id _ _ ctls => Int64 id ∧ ∀ c ∈ ctls, c.WF
  | .delete id _ ctls => Int64 id ∧ ∀ c ∈ ctls, c.WF
  | .unbind id => Int64 id

def expectedChange (c : CChange) : Change := ⟨c.op, c.type, c.vals.map Spec.wrap⟩
def expectedAttr (a : CAttr) : Attr := ⟨a.type, a.vals⟩

/-- what the handler must receive. Modify values arrive one element per client value in the
    BER-wrapped form (`Spec.wrap`) that `ConvertString` unwraps (see C16). -/
def expected (decompiled : Bytes) : CReq → Msg
  | .bind id dn pw ctls => .bind id dn pw (ctls.map (expectedCtl decimalOf))
  | .search id base scope deref size time ty _ attrs ctls =>
      .search id base scope deref size time ty decompiled attrs (ctls.map (expectedCtl decimalOf))
  | .extended id name => .extended id name
  | .modify id dn chs ctls => .modify id dn (chs.map expectedChange) (ctls.map (expectedCtl decimalOf))
  | .add id dn attrs ctls => .add id dn (attrs.map expectedAttr) (ctls.map (expectedCtl decimalOf))
  | .delete id dn ctls => .delete id dn (ctls.map (expectedCtl decimalOf))
  | .unbind id => .unbind id

/-! ### the envelope -/

theorem envelope_kids (tt : UInt8) (id : Int) (op : Node) (ctls : List CCtl) :
    (envelope tt id op ctls).kids = [Spec.int 2 id, op] ++ (if ctls.isEmpty then [] else [.cons 2 0 (ctls.map (encodeCtl tt))]) := rfl

theorem envelope_basic (tt : UInt8) (id : Int) (op : Node) (ctls : List CCtl) : basicValidation (envelope tt id op ctls) = true := by
  simp only [basicValidation, envelope_kids]
  split <;> simp [envelope, Spec.seq, isKind, Node.cls, Node.constructed, Node.tag, basicValidation_childMinChildren]

theorem envelope_id (tt : UInt8) (id : Int) (op : Node) (ctls : List CCtl) (h : Int64 id) :
    requestMessageID (envelope tt id op ctls) = .ok id := by
  have hv := valueOf_int2 id h
  simp only [requestMessageID, envelope_basic, envelope_kids, requestMessageID_childMessageID]
  simp [hv]

theorem envelope_controls (env : Env) (g : Guards) (tt : UInt8) (htt : tt ≠ 0) (id : Int) (op : Node) (ctls : List CCtl) (h : ∀ c ∈ ctls, c.WF) :
    controlsOf env g (envelope tt id op ctls) = .ok (ctls.map (expectedCtl decimalOf)) := by
  simp only [controlsOf, envelope_kids, controlPacket_childControl]
  cases ctls with
  | nil => simp
  | cons c cs =>
    have := decodeControls_encode env g tt htt (c :: cs) h
    simp only [List.map_cons] at this
    simp [Node.cls, Node.constructed, this]

/-- `requestPacket` on a client envelope whose operation is not a Bind -/
theorem envelope_request (g : Guards) (tt : UInt8) (id : Int) (op : Node) (ctls : List CCtl)
    (hc : op.cls = 1) (hk : op.constructed = true ∨ op.tag = 10 ∨ op.tag = 2) (ht : op.tag ≠ 0) :
    requestPacket g (envelope tt id op ctls) = .ok op := by
  simp only [requestPacket, envelope_basic, assertApplicationRequest, envelope_kids,
    assertApplicationRequest_childApplicationRequest, requestPacket_childApplicationRequest,
    ApplicationBindRequest, ApplicationDelRequest, ApplicationUnbindRequest]
  have h1 : (op.tag == 0) = false := by simp [ht]
  rcases hk with hk | hk | hk <;> simp [hc, hk, h1]

theorem envelope_request_bind (g : Guards) (tt : UInt8) (id : Int) (dn pw : Bytes) (ctls : List CCtl) :
    requestPacket g (envelope tt id (.cons 1 0 [Spec.int 2 3, Spec.octet dn, .prim 2 0 pw]) ctls) =
      .ok (.cons 1 0 [Spec.int 2 3, Spec.octet dn, .prim 2 0 pw]) := by
  have h3 : valueOf (Spec.int 2 3) = .int 3 := valueOf_int2 3 (by constructor <;> decide)
  simp only [requestPacket, envelope_basic, assertApplicationRequest, envelope_kids,
    assertApplicationRequest_childApplicationRequest, requestPacket_childApplicationRequest,
    ApplicationBindRequest, requestPacket_childVersionNumber]
  simp [Node.cls, Node.constructed, Node.tag, childIs, h3]

/-! ### lists -/

theorem octetList_map (l : List Bytes) : octetList (l.map Spec.octet) = .ok l := by
  induction l with
  | nil => simp [octetList]
  | cons x xs ih => simp [octetList, ih, Spec.octet, isKind, Node.cls, Node.constructed, Node.tag, Node.data, bind, pure]

theorem intChild_at (r : Node) (i tag : Nat) (v : Int) (k : Node) (hk : r.kids[i]? = some k)
    (hkind : isKind k 0 false (some tag) = true) (hv : valueOf k = .int v) : intChild r i tag = .ok v := by
  simp [intChild, childIs, hk, hkind, hv]

theorem octetChild_at (r : Node) (i : Nat) (s : Bytes) (hk : r.kids[i]? = some (Spec.octet s)) :
    octetChild r i = .ok s := by
  simp [octetChild, childIs, hk, Spec.octet, isKind, Node.cls, Node.constructed, Node.tag, Node.data]

theorem decodeChange_encode (c : CChange) (h : Int64 c.op) : decodeChange (encodeChange c) = .ok (expectedChange c) := by
  have hv := valueOf_int10 c.op h
  have hop : intChild (encodeChange c) modifyParameters_childOperation 10 = .ok c.op :=
    intChild_at _ _ _ _ (Spec.int 10 c.op) rfl (isKind_int _ _) hv
  have hty : octetChild (Spec.seq [Spec.octet c.type, Spec.set (c.vals.map Spec.octet)]) modifyParameters_childModificationType = .ok c.type :=
    octetChild_at _ _ _ rfl
  have hk : isKind (encodeChange c) 0 true (some 16) = true := rfl
  simp only [decodeChange, hk, hop, bind]
  simp only [encodeChange, seq_kids, childIs, modifyParameters_childModification, modifyParameters_childModificationValues]
  simp only [List.getElem?_cons_succ, List.getElem?_cons_zero, hty]
  simp [Spec.seq, Spec.set, isKind, Node.cls, Node.constructed, Node.tag, Node.kids, modValues, expectedChange,
    Spec.wrap, pure, List.map_map]

theorem decodeChanges_encode (cs : List CChange) (h : ∀ c ∈ cs, Int64 c.op) :
    decodeChanges (cs.map encodeChange) = .ok (cs.map expectedChange) := by
  induction cs with
  | nil => simp [decodeChanges]
  | cons c cs ih =>
    have h1 := decodeChange_encode c (h c (by simp))
    have h2 := ih (fun c hc => h c (by simp [hc]))
    simp [decodeChanges, h1, h2, bind, pure]

theorem decodeAttribute_encode (a : CAttr) : decodeAttribute (encodeAttr a) = .ok (expectedAttr a) := by
  have hty : octetChild (encodeAttr a) decodeAttribute_childType = .ok a.type := octetChild_at _ _ _ rfl
  have hk : isKind (encodeAttr a) 0 true (some 16) = true := rfl
  simp only [decodeAttribute, hk, hty, bind]
  simp only [encodeAttr, seq_kids, childIs, decodeAttribute_childVals, List.getElem?_cons_succ, List.getElem?_cons_zero]
  simp [Spec.set, isKind, Node.cls, Node.constructed, Node.tag, Node.kids, octetList_map, expectedAttr, bind, pure]

theorem decodeAttributes_encode (l : List CAttr) : decodeAttributes (l.map encodeAttr) = .ok (l.map expectedAttr) := by
  induction l with
  | nil => simp [decodeAttributes]
  | cons a l ih => simp [decodeAttributes, decodeAttribute_encode, ih, bind, pure]

/-! ### the property, tree level -/

/-- every well-formed request of the seven operations reaches the handler as a message of
    the matching kind with exactly the client's fields, controls in order -/
theorem C01_roundtrip_tree (env : Env) (g : Guards) (tt : UInt8) (htt : tt ≠ 0) (r : CReq) (hw : r.WF)
    (decompiled : Bytes)
    (hf : ∀ id base sc de sz tm ty f attrs ctls, r = .search id base sc de sz tm ty f attrs ctls →
            env.decompile f = some decompiled) :
    newMessage env g (clientEncode tt r) = .ok (expected decompiled r) := by
  cases r with
  | bind id dn pw ctls =>
    obtain ⟨hid, hc⟩ := hw
    have hrp := envelope_request_bind g tt id dn pw ctls
    simp only [clientEncode, newMessage, requestType, hrp, bind, cons_tag, ApplicationBindRequest,
      envelope_id tt _ _ _ hid, simpleBindParameters, envelope_controls env g tt htt _ _ _ hc]
    simp [childIs, isKind, Spec.octet, Node.cls, Node.constructed, Node.tag, Node.kids, Node.data,
      simpleBindParameters_childBindUserName, simpleBindParameters_childBindPassword, expected, pure]
  | search id base sc de sz tm ty f attrs ctls =>
    obtain ⟨hid, h1, h2, h3, h4, hc⟩ := hw
    have hfd := hf _ _ _ _ _ _ _ _ _ _ rfl
    have hrp := envelope_request g tt id (.cons 1 3 [Spec.octet base, Spec.int 10 sc, Spec.int 10 de, Spec.int 2 sz,
      Spec.int 2 tm, Spec.bool tt ty, f, Spec.seq (attrs.map Spec.octet)]) ctls rfl (Or.inl rfl) (by simp)
    have hk10 : ∀ i, isKind (Spec.int 10 i) 0 false (some 10) = true := fun _ => isKind_int _ _
    have hk2 : ∀ i, isKind (Spec.int 2 i) 0 false (some 2) = true := fun _ => isKind_int _ _
    simp only [clientEncode, newMessage, requestType, hrp, bind, cons_tag, ApplicationBindRequest,
      ApplicationSearchRequest, envelope_id tt _ _ _ hid, searchParameters]
    have e0 := octetChild_at (.cons 1 3 [Spec.octet base, Spec.int 10 sc, Spec.int 10 de, Spec.int 2 sz,
      Spec.int 2 tm, Spec.bool tt ty, f, Spec.seq (attrs.map Spec.octet)]) searchParmeters_childBaseDN base rfl
    have e1 := intChild_at (.cons 1 3 [Spec.octet base, Spec.int 10 sc, Spec.int 10 de, Spec.int 2 sz,
      Spec.int 2 tm, Spec.bool tt ty, f, Spec.seq (attrs.map Spec.octet)]) searchParmeters_childScope 10 sc _ rfl (hk10 _) (valueOf_int10 _ h1)
    have e2 := intChild_at (.cons 1 3 [Spec.octet base, Spec.int 10 sc, Spec.int 10 de, Spec.int 2 sz,
      Spec.int 2 tm, Spec.bool tt ty, f, Spec.seq (attrs.map Spec.octet)]) searchParmeters_childDerefAliases 10 de _ rfl (hk10 _) (valueOf_int10 _ h2)
    have e3 := intChild_at (.cons 1 3 [Spec.octet base, Spec.int 10 sc, Spec.int 10 de, Spec.int 2 sz,
      Spec.int 2 tm, Spec.bool tt ty, f, Spec.seq (attrs.map Spec.octet)]) searchParmeters_childSizeLimit 2 sz _ rfl (hk2 _) (valueOf_int2 _ h3)
    have e4 := intChild_at (.cons 1 3 [Spec.octet base, Spec.int 10 sc, Spec.int 10 de, Spec.int 2 sz,
      Spec.int 2 tm, Spec.bool tt ty, f, Spec.seq (attrs.map Spec.octet)]) searchParmeters_childTimeLimit 2 tm _ rfl (hk2 _) (valueOf_int2 _ h4)
    have e5 : boolChild (.cons 1 3 [Spec.octet base, Spec.int 10 sc, Spec.int 10 de, Spec.int 2 sz,
      Spec.int 2 tm, Spec.bool tt ty, f, Spec.seq (attrs.map Spec.octet)]) searchParmeters_childTypesOnly = .ok ty := by
      simp [boolChild, childIs, searchParmeters_childTypesOnly, valueOf_bool tt htt]
    simp only [e0, e1, e2, e3, e4, e5]
    simp [searchParmeters_childFilter, searchParmeters_childAttributes, hfd, Spec.seq, isKind, Node.cls,
      Node.constructed, Node.tag, Node.kids, octetList_map, envelope_controls env g tt htt _ _ _ hc, expected, pure]
  | extended id name =>
    have hrp := envelope_request g tt id (.cons 1 23 [.prim 2 0 name]) [] rfl (Or.inl rfl) (by simp)
    simp only [clientEncode, newMessage, requestType, hrp, bind, cons_tag, ApplicationBindRequest,
      ApplicationSearchRequest, ApplicationExtendedRequest, envelope_id tt _ _ _ hw, extendedOperationName]
    simp [childIs, isKind, Node.cls, Node.constructed, Node.tag, Node.kids, Node.data,
      extendedOperationName_childExtendedOperationName, expected, pure]
  | modify id dn chs ctls =>
    obtain ⟨hid, hch, hc⟩ := hw
    have hrp := envelope_request g tt id (.cons 1 6 [Spec.octet dn, Spec.seq (chs.map encodeChange)]) ctls rfl (Or.inl rfl) (by simp)
    have e0 := octetChild_at (.cons 1 6 [Spec.octet dn, Spec.seq (chs.map encodeChange)]) modifyParameters_childDN dn rfl
    simp only [clientEncode, newMessage, requestType, hrp, bind, cons_tag, ApplicationBindRequest,
      ApplicationSearchRequest, ApplicationExtendedRequest, ApplicationModifyRequest, envelope_id tt _ _ _ hid,
      modifyParameters, e0]
    simp [childIs, isKind, Spec.seq, Node.cls, Node.constructed, Node.tag, Node.kids, modifyParameters_childChanges,
      decodeChanges_encode chs hch, envelope_controls env g tt htt _ _ _ hc, expected, pure]
  | add id dn attrs ctls =>
    obtain ⟨hid, hc⟩ := hw
    have hrp := envelope_request g tt id (.cons 1 8 [Spec.octet dn, Spec.seq (attrs.map encodeAttr)]) ctls rfl (Or.inl rfl) (by simp)
    have e0 := octetChild_at (.cons 1 8 [Spec.octet dn, Spec.seq (attrs.map encodeAttr)]) addParameters_childDN dn rfl
    simp only [clientEncode, newMessage, requestType, hrp, bind, cons_tag, ApplicationBindRequest,
      ApplicationSearchRequest, ApplicationExtendedRequest, ApplicationModifyRequest, ApplicationAddRequest,
      envelope_id tt _ _ _ hid, addParameters, e0]
    simp [childIs, isKind, Spec.seq, Node.cls, Node.constructed, Node.tag, Node.kids, addParameters_childAttributes,
      decodeAttributes_encode, envelope_controls env g tt htt _ _ _ hc, expected, pure]
  | delete id dn ctls =>
    obtain ⟨hid, hc⟩ := hw
    have hrp := envelope_request g tt id (.prim 1 10 dn) ctls rfl (Or.inr (Or.inl rfl)) (by simp)
    simp only [clientEncode, newMessage, requestType, hrp, bind, prim_tag, ApplicationBindRequest,
      ApplicationSearchRequest, ApplicationExtendedRequest, ApplicationModifyRequest, ApplicationAddRequest,
      ApplicationDelRequest, envelope_id tt _ _ _ hid, deleteParameters, envelope_controls env g tt htt _ _ _ hc]
    simp [expected, pure]
  | unbind id =>
    have hrp := envelope_request g tt id (.prim 1 2 []) [] rfl (Or.inr (Or.inr rfl)) (by simp)
    simp only [clientEncode, newMessage, requestType, hrp, bind, prim_tag, ApplicationBindRequest,
      ApplicationSearchRequest, ApplicationExtendedRequest, ApplicationModifyRequest, ApplicationAddRequest,
      ApplicationDelRequest, ApplicationUnbindRequest, envelope_id tt _ _ _ hw]
    simp [expected, pure]

/-! ### the property, byte level -/

/-- the same statement for the bytes on the wire: gldap's read path (`ber.ReadPacket` model,
    `basicValidation`, `newMessage`) applied to the canonical serialisation of the client's
    message, with anything whatsoever following it in the stream -/
theorem C01_roundtrip (env : Env) (g : Guards) (tt : UInt8) (htt : tt ≠ 0) (r : CReq) (hw : r.WF) (hber : (clientEncode tt r).WF env.ext)
    (decompiled : Bytes) (rest : Bytes)
    (hf : ∀ id base sc de sz tm ty f attrs ctls, r = .search id base sc de sz tm ty f attrs ctls →
            env.decompile f = some decompiled) :
    serveFrame env g (ser (clientEncode tt r) ++ rest) = .ok (expected decompiled r) := by
  have hb : basicValidation (clientEncode tt r) = true := by
    cases r <;> exact envelope_basic tt _ _ _
  simp [serveFrame, readPacket_ser env.ext _ rest hber, hb, C01_roundtrip_tree env g tt htt r hw decompiled hf]

/-- the statement for the source as it is now -/
theorem C01_current (env : Env) (tt : UInt8) (htt : tt ≠ 0) (r : CReq) (hw : r.WF) (hber : (clientEncode tt r).WF env.ext)
    (decompiled rest : Bytes)
    (hf : ∀ id base sc de sz tm ty f attrs ctls, r = .search id base sc de sz tm ty f attrs ctls →
            env.decompile f = some decompiled) :
    serveFrame env Generated.guards (ser (clientEncode tt r) ++ rest) = .ok (expected decompiled r) :=
  C01_roundtrip env Generated.guards tt htt r hw hber decompiled rest hf

/-! ### nothing is delivered as another kind (over ALL trees, not only the encoder's image) -/

def Msg.appTag : Msg → Nat
  | .bind .. => 0 | .unbind .. => 2 | .search .. => 3 | .modify .. => 6 | .add .. => 8
  | .delete .. => 10 | .extended .. => 23

def ReqType.appTag : ReqType → Nat
  | .bind => 0 | .unbind => 2 | .search => 3 | .modify => 6 | .add => 8 | .delete => 10 | .extended => 23

theorem requestPacket_ok (g : Guards) (p r : Node) (h : requestPacket g p = .ok r) :
    p.kids[1]? = some r ∧ (r.tag = 0 → ∃ v, r.kids[0]? = some v ∧ valueOf v = .int 3) := by
  unfold requestPacket at h
  by_cases hb : (!basicValidation p) = true
  · rw [if_pos hb] at h; simp at h
  rw [if_neg hb] at h
  by_cases ha : (!assertApplicationRequest p) = true
  · rw [if_pos ha] at h; simp at h
  rw [if_neg ha] at h
  cases hk : p.kids[requestPacket_childApplicationRequest]? with
  | none => simp [hk] at h
  | some r' =>
    simp only [hk] at h
    by_cases htag : (r'.tag == ApplicationBindRequest) = true
    · rw [if_pos htag] at h
      by_cases hc : (!childIs r' requestPacket_childVersionNumber 0 false (some 2)) = true
      · rw [if_pos hc] at h; simp at h
      rw [if_neg hc] at h
      cases hv : r'.kids[requestPacket_childVersionNumber]? with
      | none => simp [hv] at h
      | some v =>
        simp only [hv] at h
        cases hval : valueOf v with
        | int ver =>
          simp only [hval] at h
          by_cases h3 : (ver != 3) = true
          · rw [if_pos h3] at h
            cases hvr : valueOf r' <;> simp [hvr, fail] at h
            all_goals (split at h <;> simp at h)
          · rw [if_neg h3] at h
            simp only [Outcome.ok.injEq] at h
            subst h
            have : ver = 3 := by simpa using h3
            exact ⟨hk, fun _ => ⟨v, hv, by rw [hval, this]⟩⟩
        | none => simp [hval] at h
        | bool _ => simp [hval] at h
        | str _ => simp [hval] at h
        | other => simp [hval] at h
    · rw [if_neg htag] at h
      simp only [Outcome.ok.injEq] at h
      subst h
      refine ⟨hk, fun h0 => ?_⟩
      simp [h0, ApplicationBindRequest] at htag

theorem requestType_ok (g : Guards) (p : Node) (ty : ReqType) (h : requestType g p = .ok ty) :
    ∃ r, requestPacket g p = .ok r ∧ r.tag = ty.appTag := by
  unfold requestType at h
  cases hr : requestPacket g p with
  | err => simp [hr, bind] at h
  | panic => simp [hr, bind] at h
  | ok r =>
    refine ⟨r, rfl, ?_⟩
    simp only [hr, bind, ApplicationBindRequest, ApplicationSearchRequest, ApplicationExtendedRequest,
      ApplicationModifyRequest, ApplicationAddRequest, ApplicationDelRequest, ApplicationUnbindRequest, pure] at h
    by_cases h0 : r.tag = 0
    · simp [h0] at h; subst h; simp [ReqType.appTag, h0]
    by_cases h3 : r.tag = 3
    · simp [h3] at h; subst h; simp [ReqType.appTag, h3]
    by_cases h23 : r.tag = 23
    · simp [h23] at h; subst h; simp [ReqType.appTag, h23]
    by_cases h6 : r.tag = 6
    · simp [h6] at h; subst h; simp [ReqType.appTag, h6]
    by_cases h8 : r.tag = 8
    · simp [h8] at h; subst h; simp [ReqType.appTag, h8]
    by_cases h10 : r.tag = 10
    · simp [h10] at h; subst h; simp [ReqType.appTag, h10]
    by_cases h2 : r.tag = 2
    · simp [h2] at h; subst h; simp [ReqType.appTag, h2]
    simp [h0, h3, h23, h6, h8, h10, h2] at h

theorem newMessage_kind (env : Env) (g : Guards) (p : Node) (m : Msg) (h : newMessage env g p = .ok m) :
    ∃ ty, requestType g p = .ok ty ∧ m.appTag = ty.appTag := by
  unfold newMessage at h
  cases hty : requestType g p with
  | err => simp [hty, bind] at h
  | panic => simp [hty, bind] at h
  | ok ty =>
    refine ⟨ty, rfl, ?_⟩
    simp only [hty, bind] at h
    cases hid : requestMessageID p with
    | err => simp [hid] at h
    | panic => simp [hid] at h
    | ok id =>
      simp only [hid] at h
      cases ty <;> simp only at h
      · cases hx : simpleBindParameters env g p with
        | err => simp [hx] at h
        | panic => simp [hx] at h
        | ok x => obtain ⟨a, b, c⟩ := x; simp [hx, pure] at h; subst h; rfl
      · cases hx : searchParameters env g p with
        | err => simp [hx] at h
        | panic => simp [hx] at h
        | ok x => simp [hx, pure] at h; subst h; rfl
      · cases hx : extendedOperationName g p with
        | err => simp [hx] at h
        | panic => simp [hx] at h
        | ok x => simp [hx, pure] at h; subst h; rfl
      · cases hx : modifyParameters env g p with
        | err => simp [hx] at h
        | panic => simp [hx] at h
        | ok x => obtain ⟨a, b, c⟩ := x; simp [hx, pure] at h; subst h; rfl
      · cases hx : addParameters env g p with
        | err => simp [hx] at h
        | panic => simp [hx] at h
        | ok x => obtain ⟨a, b, c⟩ := x; simp [hx, pure] at h; subst h; rfl
      · cases hx : deleteParameters env g p with
        | err => simp [hx] at h
        | panic => simp [hx] at h
        | ok x => obtain ⟨a, b⟩ := x; simp [hx, pure] at h; subst h; rfl
      · simp [pure] at h; subst h; rfl

/-- Whatever tree arrives: if a message is delivered, its kind is the one of the protocolOp's
    application tag, so that tag is one of the seven supported ones; and a delivered Bind has
    version 3. A compare / modifyDN / abandon / unknown operation, or a Bind of another
    version, is never delivered as some other kind of request. -/
theorem C01_kind (env : Env) (g : Guards) (p : Node) (m : Msg) (h : newMessage env g p = .ok m) :
    ∃ r, p.kids[1]? = some r ∧ r.tag = m.appTag ∧ m.appTag ∈ [0, 2, 3, 6, 8, 10, 23] ∧
      (r.tag = 0 → ∃ v, r.kids[0]? = some v ∧ valueOf v = .int 3) := by
  obtain ⟨ty, hty, hm⟩ := newMessage_kind env g p m h
  obtain ⟨r, hr, htag⟩ := requestType_ok g p ty hty
  obtain ⟨hk, hv⟩ := requestPacket_ok g p r hr
  refine ⟨r, hk, by rw [htag, hm], ?_, hv⟩
  rw [hm]; cases ty <;> simp [ReqType.appTag]

theorem C01_unsupported (env : Env) (g : Guards) (p r : Node) (hr : p.kids[1]? = some r)
    (ht : r.tag ∉ [0, 2, 3, 6, 8, 10, 23]) (m : Msg) : newMessage env g p ≠ .ok m := by
  intro h
  obtain ⟨r', hr', htag, hmem, _⟩ := C01_kind env g p m h
  rw [hr] at hr'
  cases hr'
  rw [htag] at ht
  exact ht hmem

theorem C01_bind_version (env : Env) (g : Guards) (p r v : Node) (hr : p.kids[1]? = some r) (h0 : r.tag = 0)
    (hv : r.kids[0]? = some v) (hne : valueOf v ≠ .int 3) (m : Msg) : newMessage env g p ≠ .ok m := by
  intro h
  obtain ⟨r', hr', _, _, hver⟩ := C01_kind env g p m h
  rw [hr] at hr'
  cases hr'
  obtain ⟨v', hv', h3⟩ := hver h0
  rw [hv] at hv'
  cases hv'
  exact hne h3

/-! ### non-vacuity: concrete requests meet the hypotheses -/

def exBind : CReq := .bind 7 [99, 110, 61, 97] [112, 119] [.paging 100 [1, 2], .generic [49, 46, 50] true false [120]]

set_option maxRecDepth 8192 in
example : newMessage envNone allGuards (clientEncode 255 exBind) =
    .ok (.bind 7 [99, 110, 61, 97] [112, 119] [.paging 100 [1, 2], .str [49, 46, 50] true [120]]) := by decide

set_option maxRecDepth 8192 in
example : newMessage envNone allGuards
    (clientEncode 255 (.modify 9 [100] [⟨2, [109], [[97], [98, 99]]⟩] [])) =
    .ok (.modify 9 [100] [⟨2, [109], [[4, 1, 97], [4, 2, 98, 99]]⟩] []) := by decide

/-- a ModifyDN request (application tag 12) is rejected -/
example : newMessage envNone allGuards
    (Spec.seq [Spec.int 2 1, .cons 1 12 [Spec.octet [97]]]) = .err := by decide

end Gldap
