import GldapModel.Proofs.NoPanic
import GldapModel.Generated.Facts
/-! # C02 - no byte sequence from a client makes request decoding panic

`serveFrame` is conn.go's readPacket + readRequest on one frame: the asn1-ber reader model,
`basicValidation`, `newMessage`. Outcomes are `ok msg` (delivered), `err` (ordinary error
path) or `panic`. The theorems quantify over every byte string / every tree, every
behaviour of the third-party validators and of `DecompileFilter` (`env`). -/
namespace Gldap
open Ber

/-- with the decode-path guards in place, no tree makes `newMessage` panic -/
theorem C02_total (env : Env) (g : Guards) (hg : g.decodeAll = true) (n : Node) :
    newMessage env g n ≠ .panic := np_newMessage env g hg n

/-- ... hence no byte string does: each frame is delivered or rejected -/
theorem C02_frames (env : Env) (g : Guards) (hg : g.decodeAll = true) (bs : Bytes) :
    (∃ m, serveFrame env g bs = .ok m) ∨ serveFrame env g bs = .err := by
  have h : serveFrame env g bs ≠ .panic := by
    unfold serveFrame
    split
    · simp
    · split
      · simp
      · exact C02_total env g hg _
  cases hs : serveFrame env g bs with
  | ok m => exact Or.inl ⟨m, rfl⟩
  | err => exact Or.inr rfl
  | panic => exact absurd hs h

/-- the statement for the source as it is now: the guard flags regenerated from /repo -/
theorem C02_current (env : Env) (bs : Bytes) :
    (∃ m, serveFrame env Generated.guards bs = .ok m) ∨ serveFrame env Generated.guards bs = .err :=
  C02_frames env Generated.guards (by decide) bs

/-! ## Witnesses: every guard is needed. If a site loses its check, this tree panics. -/

def octet (s : Bytes) : Node := .prim 0 4 s
def seqN (ks : List Node) : Node := .cons 0 16 ks

/-- a bind request carrying one control -/
def bindWith (ctrl : Node) : Node :=
  seqN [.prim 0 2 [1], .cons 1 0 [.prim 0 2 [3], octet [], .prim 2 0 []], .cons 2 0 [ctrl]]

def witBindV2 : Node := seqN [.prim 0 2 [1], .cons 1 0 [.prim 0 2 [2], octet [], .prim 2 0 []]]
def witCtrlType : Node := seqN [.prim 0 2 [1]]
def witCtrlCrit : Node := seqN [octet [49], octet [], octet []]
def witCtrlValue : Node := seqN [octet [49], .prim 0 2 [1]]
def witPagingShape : Node := seqN [octet Generated.ControlTypePaging, .cons 0 16 [seqN [.prim 0 2 [5]]]]
def witPagingSize : Node := seqN [octet Generated.ControlTypePaging, .cons 0 16 [seqN [octet [], octet []]]]
def witBeheraWarn : Node := seqN [octet Generated.ControlTypeBeheraPasswordPolicy, .cons 0 16 [seqN [.cons 2 0 []]]]

def envNone : Env := { ext := fun _ _ => true, decompile := fun _ => none }

theorem C02_witness_bindVersion : newMessage envNone noGuards witBindV2 = .panic := by decide
theorem C02_witness_ctrlType : newMessage envNone noGuards (bindWith witCtrlType) = .panic := by decide
theorem C02_witness_ctrlCrit : newMessage envNone noGuards (bindWith witCtrlCrit) = .panic := by decide
theorem C02_witness_ctrlValue : newMessage envNone noGuards (bindWith witCtrlValue) = .panic := by decide
theorem C02_witness_pagingShape : newMessage envNone noGuards (bindWith witPagingShape) = .panic := by decide
theorem C02_witness_pagingSize : newMessage envNone noGuards (bindWith witPagingSize) = .panic := by decide
theorem C02_witness_beheraWarn : newMessage envNone noGuards (bindWith witBeheraWarn) = .panic := by decide

/-- non-vacuity: the guarded decoder rejects the same trees through the error path and still
    delivers a well-formed bind -/
example : newMessage envNone allGuards (bindWith witPagingShape) = .err := by decide
example : newMessage envNone allGuards (bindWith (seqN [octet [49]])) =
    .ok (.bind 1 [] [] [.str [49] false []]) := by decide

end Gldap
