import GldapModel.Props.Session
import GldapModel.Props.C19
import GldapModel.Directory.BindSession
/-! # C19 end to end: from the bytes of a simple bind to the bytes of the directory's answer

The test directory's bind handler as a handler script of the session model: `NewBindResponse`
with invalidCredentials, then `SetResultCode(success)` (and `SetControls(d.controls...)` after a
password match) exactly when directory.go does. Composed with `session_cons` (C01 decoding,
C03 routing, C04 encoding) this gives the property at the level a client sees it. -/
namespace Directory
open Ber Spec Gldap Gldap.Generated Gldap.Session

theorem respond_bind (table) (g : Guards) (users : List Entry) (allowAnon : Bool) (dctls : List Control)
    (id : Int) (dn pw : Bytes) (cs : List Control) :
    respondR table g (bindCfg users allowAnon dctls) (.bind id dn pw cs) = [bindAnswer users allowAnon dctls id dn pw] := by
  simp only [respondR, serve, bindCfg, Mux.build, List.foldl, Mux.register, Mux.empty, List.nil_append, serveLoop,
    matchesRoute, if_true, List.flatMap_cons, List.flatMap_nil, List.append_nil, effectResps, Msg.id, bindScript]
  by_cases h1 : (pw.isEmpty && allowAnon) = true
  · simp [h1, runScript, build, construct, newBindResponse, codeOnly, getResponseOpts, applyROpt, responseDefaults,
      applySets, applySet, bindAnswer, handleBind, baseResp, toInt16, ResultInvalidCredentials, ResultSuccess]
  · simp only [h1, Bool.false_eq_true, if_false]
    by_cases h2 : users.any (userAccepts dn pw) = true
    · by_cases h3 : dctls.isEmpty = true
      · have : dctls = [] := by simpa using h3
        subst this
        simp [h1, h2, runScript, build, construct, newBindResponse, codeOnly, getResponseOpts, applyROpt, responseDefaults,
          applySets, applySet, bindAnswer, handleBind, baseResp, toInt16, ResultInvalidCredentials, ResultSuccess]
      · simp [h1, h2, h3, runScript, build, construct, newBindResponse, codeOnly, getResponseOpts, applyROpt, responseDefaults,
          applySets, applySet, bindAnswer, handleBind, baseResp, toInt16, ResultInvalidCredentials, ResultSuccess]
    · simp [h1, h2, runScript, build, construct, newBindResponse, codeOnly, getResponseOpts, applyROpt, responseDefaults,
        applySets, applySet, bindAnswer, handleBind, baseResp, toInt16, ResultInvalidCredentials, ResultSuccess]

/-- **C19 on the wire.** A client sends a simple bind (any message id, DN, password and request
    controls) followed by anything; the directory's connection writes exactly one frame, the
    encoding of a BindResponse with that message id whose result code is success iff the
    credentials are right - and goes on with the rest of the stream. -/
theorem C19_session (env : Env) (table) (g : Guards) (tt : UInt8) (htt : tt ≠ 0)
    (users : List Entry) (allowAnon : Bool) (dctls : List Control)
    (id : Int) (dn pw : Bytes) (ctls : List CCtl) (dec : CReq → Bytes)
    (hs : Sendable env tt dec (.bind id dn pw ctls)) (fuel : Nat) (rest : Bytes) :
    session env table g (bindCfg users allowAnon dctls) (fuel + 1) (ser (clientEncode tt (.bind id dn pw ctls)) ++ rest) =
      (responseBytes (bindAnswer users allowAnon dctls id dn pw) ::
        (session env table g (bindCfg users allowAnon dctls) fuel rest).1,
       (session env table g (bindCfg users allowAnon dctls) fuel rest).2) := by
  rw [session_cons env table g _ tt htt dec (.bind id dn pw ctls) hs rfl fuel rest]
  simp [respond, expected, respond_bind]

/-- what the client reads from that frame: a BindResponse (tag 1) with its message id, and
    result code 0 exactly for the right credentials, 49 otherwise -/
theorem C19_client_view (ext : Nat → Bytes → Bool) (users : List Entry) (allowAnon : Bool) (dctls : List Control)
    (id : Int) (dn pw : Bytes) (hid : Int64 id) (hc : ∀ c ∈ dctls, c.WF)
    (hber : (packetOf (bindAnswer users allowAnon dctls id dn pw)).WF ext) (rest : Bytes) :
    ∃ code cv, (readPacket ext (responseBytes (bindAnswer users allowAnon dctls id dn pw) ++ rest)).map
        (fun p => (readResponse ext p.1, p.2)) = some (some (.result id 1 code [] [] cv), rest) ∧
      (code = 0 ∨ code = 49) ∧
      (code = 0 ↔ (pw = [] ∧ allowAnon = true) ∨
        ∃ u ∈ users, u.dn = dn ∧ (getAttributeValues u passwordAttr).head? = some pw) := by
  have hcode := C19_otherwise_invalid users allowAnon dn pw
  have hwf : (bindAnswer users allowAnon dctls id dn pw).WF := by
    refine ⟨hid, ?_, ?_⟩
    · simp only [bindAnswer]
      rcases hcode with h | h <;> rw [h] <;> simp [Gldap.Int64]
    · intro c hcm
      simp only [bindAnswer] at hcm
      split at hcm
      · simp at hcm
      · split at hcm
        · exact hc c hcm
        · simp at hcm
  have hw := C04_wire ext _ hwf hber rest
  refine ⟨handleBind users allowAnon dn pw, (bindAnswer users allowAnon dctls id dn pw).controls.map viewOf, ?_, ?_, ?_⟩
  · rw [hw]
    simp [viewOfResp, bindAnswer, baseResp, RKind.appTag]
  · rcases hcode with h | h
    · left; exact_mod_cast h
    · right; exact_mod_cast h
  · have := C19_bind_iff users allowAnon dn pw
    constructor
    · intro h; exact this.mp (by exact_mod_cast h)
    · intro h; exact_mod_cast this.mpr h

end Directory
