import GldapModel.Gldap.Mux
import GldapModel.Generated.Facts
/-! # C03 - each request is served by exactly one handler: the first matching route -/
namespace Gldap
open Ber Gldap.Generated

variable {H : Type}

/-- the response type belonging to each request operation (RFC 4511 section 4) -/
def responseTagOf : Msg → Nat
  | .bind .. => 1 | .search .. => 5 | .modify .. => 7 | .add .. => 9 | .delete .. => 11
  | .extended .. => 24 | .unbind .. => 24

theorem serveLoop_some (rs : List (RouteSpec × H)) (msg : Msg) (es : List (Effect H))
    (h : serveLoop rs msg = some es) :
    ∃ i, ∃ hi : i < rs.length, es = [.invoke (rs[i]).2] ∧ matchesRoute (rs[i]).1 msg = true ∧
      ∀ j, (hj : j < i) → matchesRoute (rs[j]'(by omega)).1 msg = false := by
  induction rs with
  | nil => simp [serveLoop] at h
  | cons r rs ih =>
    obtain ⟨s, hh⟩ := r
    simp only [serveLoop] at h
    by_cases hm : matchesRoute s msg = true
    · rw [if_pos hm] at h
      cases h
      exact ⟨0, by simp, rfl, hm, fun j hj => absurd hj (by omega)⟩
    · rw [if_neg hm] at h
      obtain ⟨i, hi, he, hmi, hlt⟩ := ih h
      refine ⟨i + 1, by simp; omega, by simpa using he, by simpa using hmi, ?_⟩
      intro j hj
      cases j with
      | zero => simpa using hm
      | succ j => simpa using hlt j (by omega)

theorem serveLoop_none (rs : List (RouteSpec × H)) (msg : Msg) :
    serveLoop rs msg = none ↔ ∀ p ∈ rs, matchesRoute p.1 msg = false := by
  induction rs with
  | nil => simp [serveLoop]
  | cons r rs ih =>
    obtain ⟨s, hh⟩ := r
    simp only [serveLoop]
    by_cases hm : matchesRoute s msg = true
    · simp [hm]
    · simp [hm, ih]

/-- exactly one effect per request: never handled twice, never silently dropped -/
theorem C03_exactly_one (table) (m : Mux H) (msg : Msg) : (serve table m msg).length = 1 := by
  unfold serve
  cases hl : serveLoop m.routes msg with
  | some es =>
    obtain ⟨i, hi, he, _, _⟩ := serveLoop_some _ _ _ hl
    simp [he]
  | none => cases m.dflt <;> simp

/-- a handler is invoked iff it is the first matching route in registration order, or no route
    matches and it is the default route -/
theorem C03_first_match (table) (m : Mux H) (msg : Msg) (es : List (Effect H)) (hs : serve table m msg = es) :
    (∃ i, ∃ hi : i < m.routes.length, es = [.invoke (m.routes[i]).2] ∧ matchesRoute (m.routes[i]).1 msg = true ∧
        ∀ j, (hj : j < i) → matchesRoute (m.routes[j]'(by omega)).1 msg = false)
    ∨ ((∀ p ∈ m.routes, matchesRoute p.1 msg = false) ∧ ∃ h, m.dflt = some h ∧ es = [.invoke h])
    ∨ ((∀ p ∈ m.routes, matchesRoute p.1 msg = false) ∧ m.dflt = none ∧
        es = [.refuse msg.id (refusalTag table msg) ResultUnwillingToPerform]) := by
  unfold serve at hs
  cases hl : serveLoop m.routes msg with
  | some es' =>
    rw [hl] at hs
    subst hs
    exact Or.inl (serveLoop_some _ _ _ hl)
  | none =>
    rw [hl] at hs
    have hn := (serveLoop_none _ _).mp hl
    cases hd : m.dflt with
    | some h => rw [hd] at hs; exact Or.inr (Or.inl ⟨hn, h, rfl, hs.symm⟩)
    | none => rw [hd] at hs; exact Or.inr (Or.inr ⟨hn, rfl, hs.symm⟩)

/-- a later matching route is never used -/
theorem C03_not_later (table) (m : Mux H) (msg : Msg) (i j : Nat) (hi : i < m.routes.length) (hj : j < m.routes.length)
    (hij : i < j) (hmi : matchesRoute (m.routes[i]).1 msg = true)
    (hdist : (m.routes[j]).2 ≠ (m.routes[i]).2 → True) :
    ∃ k, ∃ hk : k < m.routes.length, k ≤ i ∧ serve table m msg = [.invoke (m.routes[k]).2] := by
  rcases C03_first_match table m msg _ rfl with ⟨k, hk, he, hmk, hlt⟩ | ⟨hn, _⟩ | ⟨hn, _⟩
  · refine ⟨k, hk, ?_, he⟩
    by_cases hki : k ≤ i
    · exact hki
    · have := hlt i (by omega)
      rw [hmi] at this; cases this
  · have := hn _ (List.getElem_mem hi); rw [hmi] at this; cases this
  · have := hn _ (List.getElem_mem hi); rw [hmi] at this; cases this

/-- sample message of each kind: `refusalTag` only looks at the route operation -/
def sampleMsgs : List Msg :=
  [.bind 0 [] [] [], .search 0 [] 0 0 0 0 false [] [] [], .extended 0 [], .modify 0 [] [] [],
   .add 0 [] [] [], .delete 0 [] [], .unbind 0]

/-- decidable check of an extracted refusal table: every operation gets its own response type -/
def tableOK (table : Option (List (Bytes × Nat))) : Bool :=
  sampleMsgs.all fun m => refusalTag table m == responseTagOf m

theorem refusalTag_of_tableOK (table) (h : tableOK table = true) (msg : Msg) :
    refusalTag table msg = responseTagOf msg := by
  simp only [tableOK, sampleMsgs, List.all_cons, List.all_nil, Bool.and_true, Bool.and_eq_true, beq_iff_eq] at h
  obtain ⟨h1, h2, h3, h4, h5, h6, h7⟩ := h
  cases msg
  · simpa [refusalTag, Msg.routeOp, responseTagOf] using h1
  · simpa [refusalTag, Msg.routeOp, responseTagOf] using h2
  · simpa [refusalTag, Msg.routeOp, responseTagOf] using h3
  · simpa [refusalTag, Msg.routeOp, responseTagOf] using h4
  · simpa [refusalTag, Msg.routeOp, responseTagOf] using h5
  · simpa [refusalTag, Msg.routeOp, responseTagOf] using h6
  · simpa [refusalTag, Msg.routeOp, responseTagOf] using h7

/-- the refusal carries the request's message id, unwillingToPerform, and - when the source's
    per-operation table is right - the response type belonging to the request's operation -/
theorem C03_refusal (table) (htable : tableOK table = true)
    (m : Mux H) (msg : Msg) (h1 : ∀ p ∈ m.routes, matchesRoute p.1 msg = false) (h2 : m.dflt = none) :
    serve table m msg = [.refuse msg.id (responseTagOf msg) 53] := by
  have hl := (serveLoop_none m.routes msg).mpr h1
  simp only [serve, hl, h2, refusalTag_of_tableOK table htable msg]
  rfl

/-- registration: routes keep their order, the last default / unbind registration wins -/
theorem C03_register_order (rs : List (Reg H)) (m : Mux H) :
    (rs.foldl Mux.register m).routes =
      m.routes ++ rs.filterMap (fun r => match r with | .route s h => some (s, h) | _ => none) := by
  induction rs generalizing m with
  | nil => simp
  | cons r rs ih =>
    simp only [List.foldl_cons]
    rw [ih]
    cases r <;> simp [Mux.register]

theorem C03_last_default (rs : List (Reg H)) (h : H) : (Mux.build (rs ++ [.dflt h])).dflt = some h := by
  simp [Mux.build, List.foldl_append, Mux.register]

/-- the pinned tree's answer: always an ExtendedResponse, also to a Search -/
theorem C03_refusal_counterexample :
    serve (H := Nat) none Mux.empty (.search 7 [] 0 0 0 0 false [] [] []) = [.refuse 7 24 53] := by decide

/-- the statement for the source as it is now -/
theorem C03_current (m : Mux H) (msg : Msg) (h1 : ∀ p ∈ m.routes, matchesRoute p.1 msg = false) (h2 : m.dflt = none) :
    serve Generated.refusalTable m msg = [.refuse msg.id (responseTagOf msg) 53] :=
  C03_refusal Generated.refusalTable (by decide) m msg h1 h2

theorem C03_pinned_table_bad : tableOK none = false := by decide

/-- non-vacuity: a table where the second of two matching search routes is never used -/
example : serve (H := Nat) none
    (Mux.build [.route (.search [100, 99] [] 0) 1, .route (.search [] [] 2) 2, .dflt 9])
    (.search 1 [68, 67] 2 0 0 0 false [] [] []) = [.invoke 1] := by decide

end Gldap
