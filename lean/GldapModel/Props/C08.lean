import GldapModel.Proofs.Server6
import GldapModel.Proofs.ConnLoopInv
import GldapModel.Generated.Facts
/-! # C08 - each connection is closed and reported via OnClose once, after its handlers end -/
namespace Server

/-- however the read loop ends (`connExit`: EOF, reset, unbind, bad frame, unsupported op, timeout;
    `connPanic`: a recovered panic; `connExitShutdown`: server Stop), for any number of
    connections ending concurrently: at most one socket close and one OnClose per connection,
    OnClose only after the close, the close only with no handler left, and a connection whose
    goroutine is gone has had exactly one of each -/
theorem C08_once (n : Nat) (ls : List Label) (s : Srv) (hr : run goodFacts (init n) ls = some s) :
    ∀ c ∈ s.conns, c.netClosed ≤ 1 ∧ c.onClosed ≤ 1 ∧ (c.onClosed = 1 → c.netClosed = 1 ∧ c.live = 0) ∧
      (c.netClosed = 1 → c.live = 0) ∧ (c.gor = .gone → c.netClosed = 1 ∧ c.onClosed = 1 ∧ c.live = 0) := by
  have h := inv_run ls (init n) s (inv_init n) hr
  intro c hc
  have := h.ok c hc
  unfold ConnOK at this
  split at this <;> simp_all

/-- the id reported to OnClose is the one assigned at accept (ids never change) and is unique (C09) -/
theorem C08_ids (n : Nat) (ls : List Label) (s : Srv) (hr : run goodFacts (init n) ls = some s) :
    (s.conns.map (·.id)).Nodup := (inv_run ls (init n) s (inv_init n) hr).ids

theorem C08_current_facts : Gldap.Generated.serverFacts = goodFacts := by decide

theorem C08_current (n : Nat) (ls : List Label) (s : Srv)
    (hr : run Gldap.Generated.serverFacts (init n) ls = some s) :
    ∀ c ∈ s.conns, c.netClosed ≤ 1 ∧ c.onClosed ≤ 1 ∧ (c.onClosed = 1 → c.netClosed = 1 ∧ c.live = 0) ∧
      (c.netClosed = 1 → c.live = 0) ∧ (c.gor = .gone → c.netClosed = 1 ∧ c.onClosed = 1 ∧ c.live = 0) := by
  rw [C08_current_facts] at hr
  exact C08_once n ls s hr

/-- per connection, event by event: the close event is enabled only when every request that was
    handed a goroutine has finished -/
theorem C08_close_after_handlers (F : ConnLoop.Facts) (hF : F.closeWaitsHandlers = true) (s s' : ConnLoop.St)
    (h : ConnLoop.step F s .netclose = some s') : ∀ r ∈ s.spawned, r ∈ s.finished :=
  ConnLoop.netclose_after_handlers F hF s s' h

/-- if `conn.close` did not wait, the socket could be closed under a running handler -/
theorem C08_counterexample_nowait :
    (run { goodFacts with connCloseWaitsHandlers := false } (init 0)
      [.runListen true, .runLoopTop, .runAcceptOk, .runSpawn, .handlerStart 1, .connExit 1, .teardown 1]).map
      (fun s => s.conns.map (fun c => (c.netClosed, c.live))) = some [(1, 1)] := by decide

end Server
