import GldapModel.Props.Session
import GldapModel.Props.C20
import GldapModel.Directory.StoreSession
/-! # C20 end to end: from the bytes of add / modify / delete / search requests to the bytes of
    the directory's answers

The directory's handlers as scripts over its store (`Directory.dirScript`), composed with
`C01_roundtrip` (what the handler receives), the mux model (which of the nine handlers runs) and
`responseBytes` (what `Write` sends): the conversation of a client with a connection of the test
directory, for every store, every request and whatever follows it on the stream. -/
namespace Directory
open Ber Spec Gldap Gldap.Generated Gldap.Session

/-! ### one step of the read loop -/

/-- a request the client sent (not an Unbind), whatever follows it: the directory answers from
    the store as it is, and goes on with the store as the handler left it -/
theorem dirSession_cons (env : Env) (table) (g : Guards) (d : Dir) (tt : UInt8) (htt : tt ≠ 0)
    (dec : CReq → Bytes) (r : CReq) (hs : Sendable env tt dec r) (hu : r.isUnbind = false)
    (fuel : Nat) (rest : Bytes) :
    dirSession env table g d (fuel + 1) (ser (clientEncode tt r) ++ rest) =
      (respond table g (dirCfg d) (expected (dec r) r) ++
         (dirSession env table g (d.after (expected (dec r) r)) fuel rest).1,
       (dirSession env table g (d.after (expected (dec r) r)) fuel rest).2) := by
  have hd := C01_roundtrip env g tt htt r hs.wf hs.ber (dec r) rest hs.filter
  have hne := ser_append_not_empty (clientEncode tt r) rest
  have hu' : (expected (dec r) r).isUnbind = false := by rw [expected_isUnbind, hu]
  rw [dirSession]
  simp only [hne, hd, hu', frameRest_ser env _ rest hs.ber]
  simp

/-- nothing after an Unbind is served, and the store stays as it was -/
theorem dirSession_unbind (env : Env) (table) (g : Guards) (d : Dir) (tt : UInt8) (htt : tt ≠ 0)
    (id : Int) (hid : Int64 id) (hber : (clientEncode tt (.unbind id)).WF env.ext) (fuel : Nat) (rest : Bytes) :
    dirSession env table g d (fuel + 1) (ser (clientEncode tt (.unbind id)) ++ rest) = ([], .unbind, d) := by
  have hd := C01_roundtrip env g tt htt (.unbind id) hid hber [] rest (by intros; contradiction)
  have hne := ser_append_not_empty (clientEncode tt (.unbind id)) rest
  rw [dirSession]
  simp only [hne, hd, expected]
  simp [Msg.isUnbind, respondUnbind, respondUnbindR, dirCfg, dirRegs, Mux.build, Mux.register, Mux.empty]

/-! ### which handler the mux picks -/

theorem dir_routes (s : Store) :
    (Mux.build (dirRegs s)).routes =
      [(.bind, 1), (.extended startTLSOid, 2), (.search s.userDN [] 0, 3), (.search s.groupDN [] 0, 4),
       (.search [] [] 0, 5), (.modify, 6), (.add, 7), (.delete, 8)] := by
  simp [Mux.build, dirRegs, Mux.register, Mux.empty]

theorem dir_serve_add (table) (s : Store) (id : Int) (dn : Bytes) (as : List Attr) (cs : List Control) :
    serve table (Mux.build (dirRegs s)) (.add id dn as cs) = [.invoke 7] := by
  simp [serve, dir_routes, serveLoop, matchesRoute]

theorem dir_serve_modify (table) (s : Store) (id : Int) (dn : Bytes) (chs : List Change) (cs : List Control) :
    serve table (Mux.build (dirRegs s)) (.modify id dn chs cs) = [.invoke 6] := by
  simp [serve, dir_routes, serveLoop, matchesRoute]

theorem dir_serve_delete (table) (s : Store) (id : Int) (dn : Bytes) (cs : List Control) :
    serve table (Mux.build (dirRegs s)) (.delete id dn cs) = [.invoke 8] := by
  simp [serve, dir_routes, serveLoop, matchesRoute]

/-- the handler number of a search route -/
def SearchRoute.handler : SearchRoute → Nat
  | .users => 3 | .groups => 4 | .generic => 5

/-- the mux's choice among the three search routes is `routeSearch` -/
theorem dir_serve_search (table) (s : Store) (id : Int) (base : Bytes) (sc de sz tm : Int) (ty : Bool)
    (f : Bytes) (attrs : List Bytes) (cs : List Control) :
    serve table (Mux.build (dirRegs s)) (.search id base sc de sz tm ty f attrs cs) =
      [.invoke (routeSearch s base).handler] := by
  simp only [serve, dir_routes, serveLoop, matchesRoute, routeSearch]
  by_cases h1 : s.userDN.isEmpty = true <;> by_cases h2 : equalFold base s.userDN = true <;>
    by_cases h3 : s.groupDN.isEmpty = true <;> by_cases h4 : equalFold base s.groupDN = true <;>
    simp [h1, h2, h3, h4, SearchRoute.handler]

/-! ### what each request is answered with -/

theorem respond_add (table) (g : Guards) (d : Dir) (id : Int) (dn : Bytes) (as : List Attr) (cs : List Control) :
    respondR table g (dirCfg d) (.add id dn as cs) = runScript g id (addScript d.store dn) := by
  simp [respondR, dirCfg, dir_serve_add, effectResps, dirScript, Msg.id]

theorem respond_modify (table) (g : Guards) (d : Dir) (id : Int) (dn : Bytes) (chs : List Change) (cs : List Control) :
    respondR table g (dirCfg d) (.modify id dn chs cs) = runScript g id (modifyScript d.store dn) := by
  simp [respondR, dirCfg, dir_serve_modify, effectResps, dirScript, Msg.id]

theorem respond_delete (table) (g : Guards) (d : Dir) (id : Int) (dn : Bytes) (cs : List Control) :
    respondR table g (dirCfg d) (.delete id dn cs) = runScript g id (deleteScript d.store dn) := by
  simp [respondR, dirCfg, dir_serve_delete, effectResps, dirScript, Msg.id]

/-- a search is answered by the handler the mux picks, from `Directory.search` -/
theorem respond_search (table) (g : Guards) (d : Dir) (id : Int) (base : Bytes) (sc de sz tm : Int) (ty : Bool)
    (f : Bytes) (attrs : List Bytes) (cs : List Control) :
    respondR table g (dirCfg d) (.search id base sc de sz tm ty f attrs cs) =
      runScript g id (searchScript d.dctls (search d.store base f)) := by
  simp only [respondR, dirCfg, dir_serve_search, List.flatMap_cons, List.flatMap_nil, List.append_nil, effectResps, Msg.id, search]
  cases routeSearch d.store base <;> simp [SearchRoute.handler, dirScript]

/-! ### the responses, as objects -/

/-- a matching entry as the client gets it -/
def entryResp (id : Int) (e : Entry) : Resp :=
  applySets (newSearchResponseEntry id e.dn []) (e.attrs.map fun a => .addAttr a.name a.values)

/-- the SearchResultDone after at least one entry -/
def doneResp (id : Int) (dctls : List Control) (found : Bool) : Resp :=
  applySets (newSearchDoneResponse id [.code ResultNoSuchObject]) (doneSpec dctls found).sets

theorem runScript_append_ok (g : Guards) (id : Int) (a b : List RespSpec)
    (h : ∀ s ∈ a, ∃ r, build g id s = .ok r) :
    runScript g id (a ++ b) = (a.filterMap fun s => match build g id s with | .ok r => some r | _ => none) ++ runScript g id b := by
  induction a with
  | nil => simp
  | cons s a ih =>
    obtain ⟨r, hr⟩ := h s (by simp)
    simp only [List.cons_append, runScript, hr, List.filterMap_cons]
    rw [ih (fun x hx => h x (by simp [hx]))]

theorem build_entrySpec (g : Guards) (id : Int) (e : Entry) : build g id (entrySpec e) = .ok (entryResp id e) := by
  simp [build, construct, entrySpec, entryResp]

theorem filterMap_entries (g : Guards) (id : Int) (es : List Entry) :
    (es.map entrySpec).filterMap (fun s => match build g id s with | .ok r => some r | _ => none) =
      es.map (entryResp id) := by
  induction es with
  | nil => rfl
  | cons e es ih =>
    simp only [List.map_cons, List.filterMap_cons, build_entrySpec]
    rw [ih]

/-- a search handler's frames: one per entry found, in order, then the SearchResultDone -/
theorem runScript_search (g : Guards) (id : Int) (dctls : List Control) (r : Nat × List Entry) :
    runScript g id (searchScript dctls r) = r.2.map (entryResp id) ++ [doneResp id dctls (!r.2.isEmpty)] := by
  unfold searchScript
  rw [runScript_append_ok, filterMap_entries]
  · simp [runScript, build, construct, doneSpec, doneResp]
  · intro s hs
    obtain ⟨e, _, rfl⟩ := List.mem_map.mp hs
    exact ⟨_, build_entrySpec g id e⟩

/-- the answer to an add -/
def addResp (s : Store) (id : Int) (dn : Bytes) : Resp :=
  applySets (newResponse id [.appCode ApplicationAddResponse, .code ResultOperationsError])
    (if (findIdx (paren dn) s.users).isEmpty then [.code ResultSuccess]
     else [.code ResultEntryAlreadyExists, .diag (entryExistsDiag ++ dn)])

theorem runScript_add (g : Guards) (s : Store) (id : Int) (dn : Bytes) :
    runScript g id (addScript s dn) = [addResp s id dn] := by
  simp [addScript, runScript, build, construct, addResp]

/-- the result code of the add response is the one the store's `add` returns -/
theorem addResp_code (s : Store) (id : Int) (dn : Bytes) (attrs : List (Bytes × List Bytes)) :
    (addResp s id dn).code = toInt16 ((add s dn attrs).2 : Nat) ∧ (addResp s id dn).messageID = id ∧
      (addResp s id dn).kind = .general ApplicationAddResponse := by
  unfold addResp add
  split <;> simp [applySets, applySet, newResponse, getResponseOpts, applyROpt, responseDefaults, baseResp]

/-! ### the property, on the wire: what was added is what a later read returns -/

/-- **C20 on the wire: add, then read back.** Over a directory whose DNs come from a pool of
    clean DNs none of which is a substring of another, a client adds an entry under a DN not yet
    present and then searches with that DN as base (a base below the user base that the mux hands
    to the generic handler): the connection writes the add's success, then exactly one
    SearchResultEntry - the entry just added, with the attributes `NewEntry` builds from the
    request - then the SearchResultDone with success, then goes on with the rest of the stream
    over the grown store. -/
theorem C20_wire_add_then_read (env : Env) (table) (g : Guards) (tt : UInt8) (htt : tt ≠ 0)
    (pool : List Bytes) (hp : Pool pool) (d : Dir) (hg : Good pool d.store) (dn : Bytes) (hd : dn ∈ pool)
    (habs : hasDN d.store.users dn = false) (habsg : hasDN d.store.groups dn = false)
    (hroute : routeSearch d.store dn = .generic) (hsub : containsBytes dn d.store.userDN = true)
    (dec : CReq → Bytes) (id1 id2 : Int) (attrs : List CAttr) (c1 c2 : List CCtl)
    (sc de sz tm : Int) (ty : Bool) (f : Node) (want : List Bytes)
    (hs1 : Sendable env tt dec (.add id1 dn attrs c1))
    (hs2 : Sendable env tt dec (.search id2 dn sc de sz tm ty f want c2))
    (fuel : Nat) (rest : Bytes) :
    let e := mkEntry dn ((attrs.map expectedAttr).map attrOf)
    let d' : Dir := { d with store := { d.store with users := d.store.users ++ [e] } }
    dirSession env table g d (fuel + 2)
        (ser (clientEncode tt (.add id1 dn attrs c1)) ++ (ser (clientEncode tt (.search id2 dn sc de sz tm ty f want c2)) ++ rest)) =
      ([responseBytes (addResp d.store id1 dn), responseBytes (entryResp id2 e), responseBytes (doneResp id2 d.dctls true)] ++
         (dirSession env table g d' fuel rest).1,
       (dirSession env table g d' fuel rest).2) ∧
    (addResp d.store id1 dn).code = 0 := by
  intro e d'
  have hadd : add d.store dn ((attrs.map expectedAttr).map attrOf) =
      ({ d.store with users := d.store.users ++ [e] }, ResultSuccess) := by
    rw [add_refines pool hp d.store hg dn hd]
    exact (lookup_after_add d.store dn _ habs).1
  have hd1 : d.after (expected (dec (.add id1 dn attrs c1)) (.add id1 dn attrs c1)) = d' := by
    simp only [Dir.after, expected, dirUpdate, hadd, d']
  have hd2 : d'.after (expected (dec (.search id2 dn sc de sz tm ty f want c2)) (.search id2 dn sc de sz tm ty f want c2)) = d' := by
    simp [Dir.after, expected, dirUpdate]
  have hg' : Good pool d'.store := by
    have := specAdd_good pool d.store hg dn hd ((attrs.map expectedAttr).map attrOf)
    rw [← add_refines pool hp d.store hg dn hd, hadd] at this
    exact this
  have hroute' : routeSearch d'.store dn = .generic := by simpa [routeSearch, d'] using hroute
  have hsub' : containsBytes dn d'.store.userDN = true := by simpa [d'] using hsub
  have hsearch : search d'.store dn (dec (.search id2 dn sc de sz tm ty f want c2)) = (ResultSuccess, [e]) := by
    rw [search_generic_refines pool hp d'.store hg' dn hd _ hroute' hsub']
    have hu : (d.store.users ++ [e]).filter (fun x => x.dn == dn) = [e] := by
      unfold hasDN at habs
      rw [List.any_eq_false] at habs
      have h1 : d.store.users.filter (fun x => x.dn == dn) = [] := List.filter_eq_nil_iff.mpr (fun x hx => habs x hx)
      simp [List.filter_append, h1, e, mkEntry]
    have hgr : d.store.groups.filter (fun x => x.dn == dn) = [] := by
      unfold hasDN at habsg
      rw [List.any_eq_false] at habsg
      exact List.filter_eq_nil_iff.mpr (fun x hx => habsg x hx)
    simp [d', hu, hgr]
  have h2 : fuel + 2 = (fuel + 1) + 1 := rfl
  rw [h2, dirSession_cons env table g d tt htt dec _ hs1 rfl (fuel + 1), hd1,
    dirSession_cons env table g d' tt htt dec _ hs2 rfl fuel, hd2]
  refine ⟨?_, ?_⟩
  · simp only [respond, expected, respond_add, respond_search, runScript_add, hsearch, runScript_search]
    simp [d']
  · have := (addResp_code d.store id1 dn ((attrs.map expectedAttr).map attrOf)).1
    rw [this, hadd]
    simp [toInt16, ResultSuccess]

/-- **... and a delete makes it unreadable again.** A client deletes a user entry that is
    present and then searches with its DN as base: the delete is answered with success, the
    search with a bare SearchResultDone carrying noSuchObject. -/
theorem C20_wire_delete_then_read (env : Env) (table) (g : Guards) (tt : UInt8) (htt : tt ≠ 0)
    (pool : List Bytes) (hp : Pool pool) (d : Dir) (hg : Good pool d.store) (dn : Bytes) (hd : dn ∈ pool)
    (hpres : hasDN d.store.users dn = true) (habsg : hasDN d.store.groups dn = false)
    (hroute : routeSearch d.store dn = .generic) (hsub : containsBytes dn d.store.userDN = true)
    (dec : CReq → Bytes) (id1 id2 : Int) (c1 c2 : List CCtl)
    (sc de sz tm : Int) (ty : Bool) (f : Node) (want : List Bytes)
    (hs1 : Sendable env tt dec (.delete id1 dn c1))
    (hs2 : Sendable env tt dec (.search id2 dn sc de sz tm ty f want c2))
    (fuel : Nat) (rest : Bytes) :
    let d' : Dir := { d with store := (specDelete d.store dn).1 }
    (dirSession env table g d (fuel + 2)
        (ser (clientEncode tt (.delete id1 dn c1)) ++ (ser (clientEncode tt (.search id2 dn sc de sz tm ty f want c2)) ++ rest))).1 =
      (runScript g id1 (deleteScript d.store dn)).map responseBytes ++
        [responseBytes (doneResp id2 d.dctls false)] ++ (dirSession env table g d' fuel rest).1 := by
  intro d'
  have hdel : delete d.store dn = specDelete d.store dn := delete_refines pool hp d.store hg dn hd
  have hd1 : d.after (expected (dec (.delete id1 dn c1)) (.delete id1 dn c1)) = d' := by
    simp only [Dir.after, expected, dirUpdate, hdel, d']
  have hd2 : d'.after (expected (dec (.search id2 dn sc de sz tm ty f want c2)) (.search id2 dn sc de sz tm ty f want c2)) = d' := by
    simp [Dir.after, expected, dirUpdate]
  have hg' : Good pool d'.store := specDelete_good pool d.store hg dn
  have hdns : d'.store.userDN = d.store.userDN ∧ d'.store.groupDN = d.store.groupDN ∧ d'.store.groups = d.store.groups := by
    simp only [d', specDelete, hpres, if_true, and_self]
  have hroute' : routeSearch d'.store dn = .generic := by
    simpa [routeSearch, hdns.1, hdns.2.1] using hroute
  have hsub' : containsBytes dn d'.store.userDN = true := by rw [hdns.1]; exact hsub
  have hgone := (lookup_after_delete d.store dn).2
  have hsearch : search d'.store dn (dec (.search id2 dn sc de sz tm ty f want c2)) = (ResultNoSuchObject, []) := by
    rw [search_generic_refines pool hp d'.store hg' dn hd _ hroute' hsub']
    have hu : d'.store.users.filter (fun x => x.dn == dn) = [] := by
      have : hasDN d'.store.users dn = false := hgone
      unfold hasDN at this
      rw [List.any_eq_false] at this
      exact List.filter_eq_nil_iff.mpr (fun x hx => this x hx)
    have hgr : d'.store.groups.filter (fun x => x.dn == dn) = [] := by
      rw [hdns.2.2]
      unfold hasDN at habsg
      rw [List.any_eq_false] at habsg
      exact List.filter_eq_nil_iff.mpr (fun x hx => habsg x hx)
    simp [hu, hgr]
  have h2 : fuel + 2 = (fuel + 1) + 1 := rfl
  rw [h2, dirSession_cons env table g d tt htt dec _ hs1 rfl (fuel + 1), hd1,
    dirSession_cons env table g d' tt htt dec _ hs2 rfl fuel, hd2]
  simp only [respond, expected, respond_delete, respond_search, hsearch, runScript_search]
  simp [d']

/-! ### reads do not change the store -/

/-- requests other than add / modify / delete leave the directory as it is -/
theorem after_read (d : Dir) (msg : Msg)
    (h : match msg with | .add .. => False | .modify .. => False | .delete .. => False | _ => True) :
    d.after msg = d := by
  cases msg <;> simp_all [Dir.after, dirUpdate]

/-! ### the statements for the source as it is now, and non-vacuity -/

theorem C20_wire_add_then_read_current (env : Env) (tt : UInt8) (htt : tt ≠ 0)
    (pool : List Bytes) (hp : Pool pool) (d : Dir) (hg : Good pool d.store) (dn : Bytes) (hd : dn ∈ pool)
    (habs : hasDN d.store.users dn = false) (habsg : hasDN d.store.groups dn = false)
    (hroute : routeSearch d.store dn = .generic) (hsub : containsBytes dn d.store.userDN = true)
    (dec : CReq → Bytes) (id1 id2 : Int) (attrs : List CAttr) (c1 c2 : List CCtl)
    (sc de sz tm : Int) (ty : Bool) (f : Node) (want : List Bytes)
    (hs1 : Sendable env tt dec (.add id1 dn attrs c1))
    (hs2 : Sendable env tt dec (.search id2 dn sc de sz tm ty f want c2))
    (fuel : Nat) (rest : Bytes) :
    let e := mkEntry dn ((attrs.map expectedAttr).map attrOf)
    let d' : Dir := { d with store := { d.store with users := d.store.users ++ [e] } }
    dirSession env Generated.refusalTable Generated.guards d (fuel + 2)
        (ser (clientEncode tt (.add id1 dn attrs c1)) ++ (ser (clientEncode tt (.search id2 dn sc de sz tm ty f want c2)) ++ rest)) =
      ([responseBytes (addResp d.store id1 dn), responseBytes (entryResp id2 e), responseBytes (doneResp id2 d.dctls true)] ++
         (dirSession env Generated.refusalTable Generated.guards d' fuel rest).1,
       (dirSession env Generated.refusalTable Generated.guards d' fuel rest).2) ∧
    (addResp d.store id1 dn).code = 0 :=
  C20_wire_add_then_read env Generated.refusalTable Generated.guards tt htt pool hp d hg dn hd habs habsg hroute hsub
    dec id1 id2 attrs c1 c2 sc de sz tm ty f want hs1 hs2 fuel rest

def exUserDN : Bytes := [111, 117, 61, 112]                          -- "ou=p"
def exGroupDN : Bytes := [111, 117, 61, 103]                         -- "ou=g"
def exDN : Bytes := [99, 110, 61, 97, 44, 111, 117, 61, 112]         -- "cn=a,ou=p"
def exDir : Dir := { store := ⟨[], [], exUserDN, exGroupDN⟩, allowAnon := false, dctls := [] }
def exEnv : Env := { ext := fun _ _ => true, decompile := fun _ => some [40, 99, 110, 61, 42, 41] }   -- "(cn=*)"

theorem cleanDN_exDN : CleanDN exDN := by
  refine ⟨by decide, by decide, ?_, ?_⟩
  · intro a t e; cases e; decide
  · intro i z e
    have h1 : exDN.getLast? = some 112 := by decide
    have h2 : (i ++ [z]).getLast? = some z := by simp
    rw [e, h2] at h1
    have := Option.some.inj h1
    subst this; decide

/-- the premises of `C20_wire_add_then_read` hold of a concrete directory and DN -/
example : Pool [exDN] ∧ Good [exDN] exDir.store ∧ hasDN exDir.store.users exDN = false ∧
    hasDN exDir.store.groups exDN = false ∧ routeSearch exDir.store exDN = .generic ∧
    containsBytes exDN exDir.store.userDN = true := by
  refine ⟨⟨?_, ?_⟩, ⟨?_, ?_, ?_, ?_⟩, by decide, by decide, by decide, by decide⟩
  · intro d hd; simp at hd; subst hd; exact cleanDN_exDN
  · intro d hd d' hd' hne; simp at hd hd'; subst hd hd'; exact absurd rfl hne
  · intro e he; simp [exDir] at he
  · intro e he; simp [exDir] at he
  · simp [exDir]
  · simp [exDir]


/-- ... and the conversation itself, evaluated: add "cn=a,ou=p" with one attribute (id 1), search
    it (id 2), delete it (id 3), search again (id 4) - AddResponse 0; the entry and SearchResultDone 0;
    DelResponse 0; SearchResultDone 32 -/
example :
    let srch (id : Int) : CReq := .search id exDN 0 0 0 0 false (.prim 2 7 [99, 110]) [] []
    let input := ser (clientEncode 255 (.add 1 exDN [⟨[99, 110], [[97]]⟩] [])) ++ ser (clientEncode 255 (srch 2)) ++
      ser (clientEncode 255 (.delete 3 exDN [])) ++ ser (clientEncode 255 (srch 4))
    let out := dirSession exEnv none allGuards exDir 10 input
    out.2.1 = .eof ∧ out.2.2.store.users = [] ∧
      out.1.map (fun f => (readPacket exEnv.ext f).bind (fun p => (readResponse exEnv.ext p.1).map
        (fun v => (v.messageID, v.tag, match v with | .result _ _ c .. => c | .entry .. => -1)))) =
        [some (1, 9, 0), some (2, 4, -1), some (2, 5, 0), some (3, 11, 0), some (4, 5, 32)] := by
  decide +kernel

end Directory
