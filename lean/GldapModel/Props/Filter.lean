import GldapModel.Props.C01
import GldapModel.Proofs.FilterRT
import GldapModel.Proofs.FilterInj
/-! # C01, the filter: "filter (semantically) ... equal what the client encoded"

Until now go-ldap's `DecompileFilter` was a parameter of the decode model (`Env.decompile`) and the
round trip was stated for whatever string it returns. `Gldap/Filter.lean` models the function
itself, as gldap calls it; here the parameter is instantiated with it:

* `C01_filter_roundtrip` - for EVERY filter of RFC 4511's Filter CHOICE (any nesting of and / or /
  not, all seven matches, substrings with any sequence of initial / any / final parts, extensible
  matches with every combination of matching rule, type and dnAttributes; attribute descriptions
  and assertion values arbitrary byte strings) the handler-side string is the filter's RFC 4515
  string with assertion values escaped.
* `C01_current_filter` - the byte-level round trip of C01 with nothing left as a parameter but
  asn1-ber's Real / GeneralizedTime validators.
* `C01_filter_counterexample_prefix` - with the source as it was before commit 374d8a1 (the
  dnAttributes flag not decoded, `Generated.filterDNAttrsDecoded = false`) the RFC 4515 example
  `(cn:dn:=foo)` is not delivered at all: the search request is rejected. -/
namespace Gldap
open Ber Spec Gldap.Generated

/-- the decode environment of the current source: `DecompileFilter` as `searchParmeters` calls it -/
def currentEnv (ext : Nat → Bytes → Bool) : Env :=
  { ext := ext, decompile := Filter.decompile filterDNAttrsDecoded }

/-- go-ldap's `DecompileFilter`, applied to what a client puts on the wire for the filter `f` (with
    any non-zero octet for TRUE), returns the RFC 4515 string of `f` -/
theorem C01_filter_roundtrip (tt : UInt8) (htt : tt ≠ 0) (f : Filter.Filter) :
    Filter.decompile true (Filter.encode tt f) = some (Filter.render f) :=
  Filter.decompile_encode tt htt f

/-- the current source decodes the dnAttributes flag before it decompiles -/
theorem filterDNAttrsDecoded_current : filterDNAttrsDecoded = true := by decide

/-- C01 at byte level for the source as it is now, the filter included: a search whose filter is
    the RFC 4511 encoding of `fl` reaches the handler with `Filter.render fl` -/
theorem C01_current_filter (ext : Nat → Bytes → Bool) (tt : UInt8) (htt : tt ≠ 0) (r : CReq) (hw : r.WF)
    (hber : (clientEncode tt r).WF ext) (fl : Filter.Filter) (rest : Bytes)
    (hfl : ∀ id base sc de sz tm ty f attrs ctls, r = .search id base sc de sz tm ty f attrs ctls →
            f = Filter.encode tt fl) :
    serveFrame (currentEnv ext) Generated.guards (ser (clientEncode tt r) ++ rest) =
      .ok (expected (Filter.render fl) r) := by
  apply C01_current (currentEnv ext) tt htt r hw hber (Filter.render fl) rest
  intro id base sc de sz tm ty f attrs ctls h
  rw [hfl id base sc de sz tm ty f attrs ctls h]
  show Filter.decompile filterDNAttrsDecoded (Filter.encode tt fl) = some (Filter.render fl)
  rw [filterDNAttrsDecoded_current]
  exact Filter.decompile_encode tt htt fl

/-- value fidelity: equality filters on one attribute that reach the handler as the same string were the same
    filter (likewise for >=, <=, ~=: `Filter.ava_render_injective`); `Filter.escape` has the left inverse
    `Filter.unescape`, so no two assertion values are ever confused by the escaping -/
theorem C01_filter_value_faithful (a v v' : Bytes) (h : Filter.render (.eq a v) = Filter.render (.eq a v')) : v = v' :=
  Filter.ava_render_injective a [61] v v' (by simpa [Filter.render] using h)

/-- C01's "filter (semantically)": two filters within RFC 4511 / 4515's grammar (`Filter.WF`: attribute
    descriptions, matching rules and types of letters, digits, `-`, `.`, `;`; substring parts non-empty with
    `initial` only first and `final` only last; matching rule not spelled `dn`) that reach the handler as the same
    string are the same filter - whatever their depth and width. So the string a handler, a route criterion or the
    test directory sees determines the client's filter completely (`Filter.render_injective`; more is true:
    `Filter.render_prefix`, the rendering is a prefix code, which is why lists of sub-filters need no separator). -/
theorem C01_filter_faithful (tt : UInt8) (htt : tt ≠ 0) (f g : Filter.Filter) (wf : Filter.WF f) (wg : Filter.WF g)
    (h : Filter.decompile true (Filter.encode tt f) = Filter.decompile true (Filter.encode tt g)) : f = g := by
  rw [Filter.decompile_encode tt htt f, Filter.decompile_encode tt htt g] at h
  exact Filter.render_injective f g wf wg (by simpa using h)

/-- the same on the wire, for the source as it is now: two search requests whose filters are within the grammar and
    which the handler cannot tell apart carried the same filter (and, by `C01_current_filter`, the same everything) -/
theorem C01_search_faithful (ext : Nat → Bytes → Bool) (tt : UInt8) (htt : tt ≠ 0)
    (id id' : Int) (base base' : Bytes) (sc sc' de de' sz sz' tm tm' : Int) (ty ty' : Bool) (f g : Filter.Filter)
    (attrs attrs' : List Bytes) (ctls ctls' : List CCtl) (rest rest' : Bytes)
    (wf : Filter.WF f) (wg : Filter.WF g)
    (hw : (CReq.search id base sc de sz tm ty (Filter.encode tt f) attrs ctls).WF)
    (hw' : (CReq.search id' base' sc' de' sz' tm' ty' (Filter.encode tt g) attrs' ctls').WF)
    (hb : (clientEncode tt (.search id base sc de sz tm ty (Filter.encode tt f) attrs ctls)).WF ext)
    (hb' : (clientEncode tt (.search id' base' sc' de' sz' tm' ty' (Filter.encode tt g) attrs' ctls')).WF ext)
    (h : serveFrame (currentEnv ext) Generated.guards
           (ser (clientEncode tt (.search id base sc de sz tm ty (Filter.encode tt f) attrs ctls)) ++ rest) =
         serveFrame (currentEnv ext) Generated.guards
           (ser (clientEncode tt (.search id' base' sc' de' sz' tm' ty' (Filter.encode tt g) attrs' ctls')) ++ rest')) :
    f = g := by
  rw [C01_current_filter ext tt htt _ hw hb f rest (by
        intro _ _ _ _ _ _ _ x _ _ e; injection e with _ _ _ _ _ _ _ e _ _; exact e.symm),
      C01_current_filter ext tt htt _ hw' hb' g rest' (by
        intro _ _ _ _ _ _ _ x _ _ e; injection e with _ _ _ _ _ _ _ e _ _; exact e.symm)] at h
  simp only [expected, Outcome.ok.injEq, Msg.search.injEq] at h
  exact Filter.render_injective f g wf wg h.2.2.2.2.2.2.2.1

/-- the repair 374d8a1 is conservative: over ALL element trees (hostile ones included), whatever string the pre-fix
    source decompiled a filter element to, the repaired source decompiles it to as well - it only turns errors into
    answers (the `:dn` filters) -/
theorem C01_filter_fix_conservative (n : Node) (s : Bytes) (h : Filter.decompile false n = some s) :
    Filter.decompile true n = some s :=
  Filter.decompile_mono n s h

/-- "(cn:dn:=foo)" -/
def exDnFilter : Filter.Filter := .ext none (some [99, 110]) [102, 111, 111] true

/-- before the repair: the flag was read with `child.Value.(bool)` from an element whose value
    asn1-ber had not decoded, go-ldap recovered the panic and returned an error -/
theorem C01_filter_counterexample_prefix : Filter.decompile false (Filter.encode 255 exDnFilter) = none := by decide

/-- ... and the whole search request was refused (tree level, every guard on) -/
theorem C01_filter_counterexample_prefix_request :
    newMessage { ext := fun _ _ => true, decompile := Filter.decompile false } allGuards
      (clientEncode 255 (.search 7 [100, 99, 61, 120] 2 0 0 0 false (Filter.encode 255 exDnFilter) [] [])) = .err := by
  decide

/-- the same request with the flag decoded -/
example : Filter.decompile true (Filter.encode 255 exDnFilter) = some [40, 99, 110, 58, 100, 110, 58, 61, 102, 111, 111, 41] := by
  decide

/-- non-vacuity: a nested filter with every kind of part -
    (&(cn:dn:2.5.13.2:=a(b)(|(sn=x*y*z)(!(uid>=1)))(mail=*)) -/
def exNested : Filter.Filter :=
  .and [.ext (some [50, 46, 53, 46, 49, 51, 46, 50]) (some [99, 110]) [97, 40, 98] true,
        .or [.substr [115, 110] [.initial [120], .any [121], .final [122]], .not (.ge [117, 105, 100] [49])],
        .present [109, 97, 105, 108]]

example : Filter.decompile true (Filter.encode 1 exNested) = some (Filter.render exNested) := by decide
/-- ... and it is within the grammar (the hypotheses of `C01_filter_faithful` are satisfiable by a filter with
    every kind of part) -/
example : Filter.WF exNested := by
  simp [exNested, Filter.WF, Filter.WFAll, Filter.LeafWF, Filter.SubsWF, Filter.Plain, Filter.plainByte]
example : Filter.render exNested =
    [40, 38, 40, 99, 110, 58, 100, 110, 58, 50, 46, 53, 46, 49, 51, 46, 50, 58, 61, 97, 92, 50, 56, 98, 41,
     40, 124, 40, 115, 110, 61, 120, 42, 121, 42, 122, 41, 40, 33, 40, 117, 105, 100, 62, 61, 49, 41, 41, 41,
     40, 109, 97, 105, 108, 61, 42, 41, 41] := by decide

end Gldap
