import GldapModel.Props.C01
import GldapModel.Proofs.FilterRT
import GldapModel.Proofs.FilterInj
/-! # C01, the filter: "filter (semantically) ... equal what the client encoded"

Until now go-ldap's `DecompileFilter` was a parameter of the decode model (`Env.decompile`) and the
round trip was stated for whatever string it returns. `Gldap/Filter.lean` models the function
itself, as gldap calls it; here the parameter is instantiated with it:

* `C01_filter_roundtrip` - for EVERY filter of RFC 4511's Filter CHOICE (any nesting of and / or /
  not, all seven matches, substrings with any sequence of initial / any / final parts, extensible
  matches with every combination of matching rule, type and dnAttributes; attribute descriptions
  and assertion values arbitrary byte strings) the handler-side string is the filter's RFC 4515
  string with assertion values escaped.
* `C01_current_filter` - the byte-level round trip of C01 with nothing left as a parameter but
  asn1-ber's Real / GeneralizedTime validators.
* `C01_filter_counterexample_prefix` - with the source as it was before commit 374d8a1 (the
  dnAttributes flag not decoded, `Generated.filterDNAttrsDecoded = false`) the RFC 4515 example
  `(cn:dn:=foo)` is not delivered at all: the search request is rejected. -/
namespace Gldap
open Ber Spec Gldap.Generated

/-- the decode environment of the current source: `DecompileFilter` as `searchParmeters` calls it -/
def currentEnv (ext : Nat → Bytes → Bool) : Env :=
  { ext := ext, decompile := Filter.decompile filterDNAttrsDecoded }

/-- go-ldap's `DecompileFilter`, applied to what a client puts on the wire for the filter `f` (with
    any non-zero octet for TRUE), returns the RFC 4515 string of `f` -/
theorem C01_filter_roundtrip (tt : UInt8) (htt : tt ≠ 0) (f : Filter.Filter) :
    Filter.decompile true (Filter.encode tt f) = some (Filter.render f) :=
  Filter.decompile_encode tt htt f

/-- the current source decodes the dnAttributes flag before it decompiles -/
theorem filterDNAttrsDecoded_current : filterDNAttrsDecoded = true := by decide

/-- C01 at byte level for the source as it is now, the filter included: a search whose filter is
    the RFC 4511 encoding of `fl` reaches the handler with `Filter.render fl` -/
theorem C01_current_filter (ext : Nat → Bytes → Bool) (tt : UInt8) (htt : tt ≠ 0) (r : CReq) (hw : r.WF)
    (hber : (clientEncode tt r).WF ext) (fl : Filter.Filter) (rest : Bytes)
    (hfl : ∀ id base sc de sz tm ty f attrs ctls, r = .search id base sc de sz tm ty f attrs ctls →
            f = Filter.encode tt fl) :
    serveFrame (currentEnv ext) Generated.guards (ser (clientEncode tt r) ++ rest) =
      .ok (expected (Filter.render fl) r) := by
  apply C01_current (currentEnv ext) tt htt r hw hber (Filter.render fl) rest
  intro id base sc de sz tm ty f attrs ctls h
  rw [hfl id base sc de sz tm ty f attrs ctls h]
  show Filter.decompile filterDNAttrsDecoded (Filter.encode tt fl) = some (Filter.render fl)
  rw [filterDNAttrsDecoded_current]
  exact Filter.decompile_encode tt htt fl

/-- value fidelity: equality filters on one attribute that reach the handler as the same string were the same
    filter (likewise for >=, <=, ~=: `Filter.ava_render_injective`); `Filter.escape` has the left inverse
    `Filter.unescape`, so no two assertion values are ever confused by the escaping -/
theorem C01_filter_value_faithful (a v v' : Bytes) (h : Filter.render (.eq a v) = Filter.render (.eq a v')) : v = v' :=
  Filter.ava_render_injective a [61] v v' (by simpa [Filter.render] using h)

/-- C01's "filter (semantically)": two filters within RFC 4511 / 4515's grammar (`Filter.WF`: attribute
    descriptions, matching rules and types of letters, digits, `-`, `.`, `;`; substring parts non-empty with
    `initial` only first and `final` only last; matching rule not spelled `dn`) that reach the handler as the same
    string are the same filter - whatever their depth and width. So the string a handler, a route criterion or the
    test directory sees determines the client's filter completely (`Filter.render_injective`; more is true:
    `Filter.render_prefix`, the rendering is a prefix code, which is why lists of sub-filters need no separator). -/
theorem C01_filter_faithful (tt : UInt8) (htt : tt ≠ 0) (f g : Filter.Filter) (wf : Filter.WF f) (wg : Filter.WF g)
    (h : Filter.decompile true (Filter.encode tt f) = Filter.decompile true (Filter.encode tt g)) : f = g := by
  rw [Filter.decompile_encode tt htt f, Filter.decompile_encode tt htt g] at h
  exact Filter.render_injective f g wf wg (by simpa using h)

/-- the same on the wire, for the source as it is now: two search requests whose filters are within the grammar and
    which the handler cannot tell apart carried the same filter (and, by `C01_current_filter`, the same everything) -/
theorem C01_search_faithful (ext : Nat → Bytes → Bool) (tt : UInt8) (htt : tt ≠ 0)
    (id id' : Int) (base base' : Bytes) (sc sc' de de' sz sz' tm tm' : Int) (ty ty' : Bool) (f g : Filter.Filter)
    (attrs attrs' : List Bytes) (ctls ctls' : List CCtl) (rest rest' : Bytes)
    (wf : Filter.WF f) (wg : Filter.WF g)
    (hw : (CReq.search id base sc de sz tm ty (Filter.encode tt f) attrs ctls).WF)
    (hw' : (CReq.search id' base' sc' de' sz' tm' ty' (Filter.encode tt g) attrs' ctls').WF)
    (hb : (clientEncode tt (.search id base sc de sz tm ty (Filter.encode tt f) attrs ctls)).WF ext)
    (hb' : (clientEncode tt (.search id' base' sc' de' sz' tm' ty' (Filter.encode tt g) attrs' ctls')).WF ext)
    (h : serveFrame (currentEnv ext) Generated.guards
           (ser (clientEncode tt (.search id base sc de sz tm ty (Filter.encode tt f) attrs ctls)) ++ rest) =
         serveFrame (currentEnv ext) Generated.guards
           (ser (clientEncode tt (.search id' base' sc' de' sz' tm' ty' (Filter.encode tt g) attrs' ctls')) ++ rest')) :
    f = g := by
  rw [C01_current_filter ext tt htt _ hw hb f rest (by
        intro _ _ _ _ _ _ _ x _ _ e; injection e with _ _ _ _ _ _ _ e _ _; exact e.symm),
      C01_current_filter ext tt htt _ hw' hb' g rest' (by
        intro _ _ _ _ _ _ _ x _ _ e; injection e with _ _ _ _ _ _ _ e _ _; exact e.symm)] at h
  simp only [expected, Outcome.ok.injEq, Msg.search.injEq] at h
  exact Filter.render_injective f g wf wg h.2.2.2.2.2.2.2.1

/-- the repair 374d8a1 is conservative: over ALL element trees (hostile ones included), whatever string the pre-fix
    source decompiled a filter element to, the repaired source decompiles it to as well - it only turns errors into
    answers (the `:dn` filters) -/
theorem C01_filter_fix_conservative (n : Node) (s : Bytes) (h : Filter.decompile false n = some s) :
    Filter.decompile true n = some s :=
  Filter.decompile_mono n s h

/-! Each side condition of `Filter.WF` excludes a real collision of the string form (kernel-checked): -/

/-- a matching rule spelled `dn` reads like the dnAttributes flag: `(cn:dn:=v)` -/
theorem filter_wf_needed_rule_dn :
    Filter.render (.ext (some [100, 110]) (some [99, 110]) [118] false) = Filter.render (.ext none (some [99, 110]) [118] true) := by decide
/-- a substring filter without parts reads like an equality match with the empty value: `(cn=)` -/
theorem filter_wf_needed_subs_nonempty : Filter.render (.substr [99, 110] []) = Filter.render (.eq [99, 110] []) := by decide
/-- an empty substring part reads like a missing one: `(cn=*)` is also the presence filter -/
theorem filter_wf_needed_part_nonempty : Filter.render (.substr [99, 110] [.initial []]) = Filter.render (.present [99, 110]) := by decide
/-- an attribute description containing an operator byte reads like a shorter one: `(a=b=c)` -/
theorem filter_wf_needed_plain_attr : Filter.render (.eq [97, 61, 98] [99]) = Filter.render (.eq [97] [98, 61, 99]) := by decide

/-- "(cn:dn:=foo)" -/
def exDnFilter : Filter.Filter := .ext none (some [99, 110]) [102, 111, 111] true

/-- before the repair: the flag was read with `child.Value.(bool)` from an element whose value
    asn1-ber had not decoded, go-ldap recovered the panic and returned an error -/
theorem C01_filter_counterexample_prefix : Filter.decompile false (Filter.encode 255 exDnFilter) = none := by decide

/-- ... and the whole search request was refused (tree level, every guard on) -/
theorem C01_filter_counterexample_prefix_request :
    newMessage { ext := fun _ _ => true, decompile := Filter.decompile false } allGuards
      (clientEncode 255 (.search 7 [100, 99, 61, 120] 2 0 0 0 false (Filter.encode 255 exDnFilter) [] [])) = .err := by
  decide

/-- the same request with the flag decoded -/
example : Filter.decompile true (Filter.encode 255 exDnFilter) = some [40, 99, 110, 58, 100, 110, 58, 61, 102, 111, 111, 41] := by
  decide

/-- non-vacuity: a nested filter with every kind of part -
    (&(cn:dn:2.5.13.2:=a(b)(|(sn=x*y*z)(!(uid>=1)))(mail=*)) -/
def exNested : Filter.Filter :=
  .and [.ext (some [50, 46, 53, 46, 49, 51, 46, 50]) (some [99, 110]) [97, 40, 98] true,
        .or [.substr [115, 110] [.initial [120], .any [121], .final [122]], .not (.ge [117, 105, 100] [49])],
        .present [109, 97, 105, 108]]

example : Filter.decompile true (Filter.encode 1 exNested) = some (Filter.render exNested) := by decide
/-- ... and it is within the grammar (the hypotheses of `C01_filter_faithful` are satisfiable by a filter with
    every kind of part) -/
example : Filter.WF exNested := by
  simp [exNested, Filter.WF, Filter.WFAll, Filter.LeafWF, Filter.SubsWF, Filter.Plain, Filter.plainByte]
example : Filter.render exNested =
    [40, 38, 40, 99, 110, 58, 100, 110, 58, 50, 46, 53, 46, 49, 51, 46, 50, 58, 61, 97, 92, 50, 56, 98, 41,
     40, 124, 40, 115, 110, 61, 120, 42, 121, 42, 122, 41, 40, 33, 40, 117, 105, 100, 62, 61, 49, 41, 41, 41,
     40, 109, 97, 105, 108, 61, 42, 41, 41] := by decide

/-! ### the repair is conservative, frame by frame

The decode functions use `Env.decompile` in exactly one place (`searchParameters`); everything else depends on the
environment through `Env.ext` only. So a decompiler that answers wherever another one answers, with the same answer,
gives a decoder that delivers wherever the other one delivers, the same message. -/

section
variable (ext : Nat → Bytes → Bool) (d₁ d₂ : Node → Option Bytes)

theorem decodeControl_dec (g : Guards) (n : Node) : decodeControl ⟨ext, d₁⟩ g n = decodeControl ⟨ext, d₂⟩ g n := rfl

theorem decodeControls_dec (g : Guards) : ∀ ns : List Node, decodeControls ⟨ext, d₁⟩ g ns = decodeControls ⟨ext, d₂⟩ g ns
  | [] => rfl
  | n :: ns => by simp only [decodeControls, decodeControl_dec ext d₁ d₂ g n, decodeControls_dec g ns]

theorem controlsOf_dec (g : Guards) (p : Node) : controlsOf ⟨ext, d₁⟩ g p = controlsOf ⟨ext, d₂⟩ g p := by
  simp only [controlsOf, decodeControls_dec ext d₁ d₂]

theorem simpleBind_dec (g : Guards) (p : Node) : simpleBindParameters ⟨ext, d₁⟩ g p = simpleBindParameters ⟨ext, d₂⟩ g p := by
  simp only [simpleBindParameters, controlsOf_dec ext d₁ d₂]
theorem modify_dec (g : Guards) (p : Node) : modifyParameters ⟨ext, d₁⟩ g p = modifyParameters ⟨ext, d₂⟩ g p := by
  simp only [modifyParameters, controlsOf_dec ext d₁ d₂]
theorem add_dec (g : Guards) (p : Node) : addParameters ⟨ext, d₁⟩ g p = addParameters ⟨ext, d₂⟩ g p := by
  simp only [addParameters, controlsOf_dec ext d₁ d₂]
theorem delete_dec (g : Guards) (p : Node) : deleteParameters ⟨ext, d₁⟩ g p = deleteParameters ⟨ext, d₂⟩ g p := by
  simp only [deleteParameters, controlsOf_dec ext d₁ d₂]

end

theorem bind_mono {α β} (x : Outcome α) (k₁ k₂ : α → Outcome β) (b : β)
    (hk : ∀ a, k₁ a = .ok b → k₂ a = .ok b) (h : (x >>= k₁) = .ok b) : (x >>= k₂) = .ok b := by
  cases x with
  | ok a => exact hk a h
  | err => simp [bind] at h
  | panic => simp [bind] at h

theorem search_mono (ext : Nat → Bytes → Bool) (d₁ d₂ : Node → Option Bytes)
    (hm : ∀ f s, d₁ f = some s → d₂ f = some s) (g : Guards) (p : Node) (s : SearchParams)
    (h : searchParameters ⟨ext, d₁⟩ g p = .ok s) : searchParameters ⟨ext, d₂⟩ g p = .ok s := by
  unfold searchParameters at h ⊢
  refine bind_mono _ _ _ _ ?_ h
  intro r h
  split at h
  · simp at h
  rename_i htag
  rw [if_neg htag]
  refine bind_mono _ _ _ _ ?_ h; intro baseDN h
  refine bind_mono _ _ _ _ ?_ h; intro scope h
  refine bind_mono _ _ _ _ ?_ h; intro deref h
  refine bind_mono _ _ _ _ ?_ h; intro size h
  refine bind_mono _ _ _ _ ?_ h; intro time h
  refine bind_mono _ _ _ _ ?_ h; intro ty h
  cases hf : r.kids[Generated.searchParmeters_childFilter]? with
  | none => simp [hf] at h
  | some f =>
    simp only [hf] at h ⊢
    cases hd : d₁ f with
    | none => simp [hd] at h
    | some flt =>
      rw [hm f flt hd]
      simp only [hd] at h ⊢
      rw [← controlsOf_dec ext d₁ d₂]
      exact h


theorem bind_mono_left {α β} (x₁ x₂ : Outcome α) (k : α → Outcome β) (b : β)
    (hx : ∀ a, x₁ = .ok a → x₂ = .ok a) (h : (x₁ >>= k) = .ok b) : (x₂ >>= k) = .ok b := by
  cases x₁ with
  | ok a => rw [hx a rfl]; exact h
  | err => simp [bind] at h
  | panic => simp [bind] at h

theorem newMessage_mono (ext : Nat → Bytes → Bool) (d₁ d₂ : Node → Option Bytes)
    (hm : ∀ f s, d₁ f = some s → d₂ f = some s) (g : Guards) (p : Node) (m : Msg)
    (h : newMessage ⟨ext, d₁⟩ g p = .ok m) : newMessage ⟨ext, d₂⟩ g p = .ok m := by
  unfold newMessage at h ⊢
  refine bind_mono _ _ _ _ ?_ h; intro ty h
  refine bind_mono _ _ _ _ ?_ h; intro id h
  cases ty with
  | unbind => exact h
  | bind => simp only [] at h ⊢; rw [← simpleBind_dec ext d₁ d₂]; exact h
  | search => simp only [] at h ⊢; exact bind_mono_left _ _ _ _ (fun s hs => search_mono ext d₁ d₂ hm g p s hs) h
  | extended => exact h
  | modify => simp only [] at h ⊢; rw [← modify_dec ext d₁ d₂]; exact h
  | add => simp only [] at h ⊢; rw [← add_dec ext d₁ d₂]; exact h
  | delete => simp only [] at h ⊢; rw [← delete_dec ext d₁ d₂]; exact h

/-- whatever message the pre-fix source delivered for a frame - ANY byte string, hostile ones included - the
    repaired source delivers the same message: the repair only turns rejections into deliveries -/
theorem C01_fix_conservative (ext : Nat → Bytes → Bool) (g : Guards) (bs : Bytes) (m : Msg)
    (h : serveFrame ⟨ext, Filter.decompile false⟩ g bs = .ok m) : serveFrame ⟨ext, Filter.decompile true⟩ g bs = .ok m := by
  unfold serveFrame at h ⊢
  cases hr : readPacket ext bs with
  | none => simp [hr] at h
  | some pr =>
    simp only [hr] at h ⊢
    split at h
    · simp at h
    · rename_i hb
      rw [if_neg hb]
      exact newMessage_mono ext _ _ Filter.decompile_mono g pr.1 m h


end Gldap
