import GldapModel.Proofs.ConnLoopInv
import GldapModel.Generated.Facts
/-! # C10 - Unbind ends the connection: nothing after it is served -/
namespace ConnLoop

/-- After an Unbind has been read - whatever precedes it, whatever is already buffered behind
    it - no request is numbered, read or dispatched on that connection any more. -/
theorem C10_nothing_after_unbind (F : Facts) (pre post : List Ev) (r : Nat) (s : St)
    (h : run F init (pre ++ [.unbind r] ++ post) = some s) : ∀ e ∈ post, e.servesRequest = false := by
  rw [List.append_assoc] at h
  obtain ⟨m, h1, h2⟩ := run_append F pre ([.unbind r] ++ post) init s h
  simp only [List.singleton_append, run] at h2
  cases hs : step F m (.unbind r) with
  | none => simp [hs] at h2
  | some m' =>
    simp [hs] at h2
    have hp : m'.phase.isLoop = false := by rw [unbind_exits F m m' r hs]; rfl
    exact (after_loop_run F post m' s hp h2).2

/-- the socket is closed only after every earlier handler has finished -/
theorem C10_close_after_handlers (F : Facts) (hF : F.closeWaitsHandlers = true) (s s' : St)
    (h : step F s .netclose = some s') : ∀ r ∈ s.spawned, r ∈ s.finished :=
  netclose_after_handlers F hF s s' h

/-- the unbind event exists only under inline-then-return dispatch, and exactly one per unbind
    request is possible: a second one is never enabled -/
theorem C10_unbind_once (F : Facts) (pre post : List Ev) (r r' : Nat) (s : St)
    (h : run F init (pre ++ [.unbind r] ++ post) = some s) : Ev.unbind r' ∉ post := by
  intro hm
  have := C10_nothing_after_unbind F pre post r s h _ hm
  simp [Ev.servesRequest] at this

theorem C10_current (pre post : List Ev) (r : Nat) (s : St)
    (h : run Gldap.Generated.connFacts init (pre ++ [.unbind r] ++ post) = some s) :
    ∀ e ∈ post, e.servesRequest = false := C10_nothing_after_unbind _ pre post r s h

theorem C10_current_facts :
    Gldap.Generated.connFacts.unbind = .inlineThenReturn ∧ Gldap.Generated.connFacts.closeWaitsHandlers = true := by decide

/-- why inline-then-return matters: if an unbind were dispatched like an ordinary request the loop
    would go on reading -/
theorem C10_counterexample :
    (run goodFacts init [.start, .head 1, .read 1, .spawn 1, .head 2, .read 2]).isSome = true := by decide

/-- non-vacuity: a pipeline <search> <unbind> with the search handler still running at the unbind -/
example : (run goodFacts init [.start, .head 1, .read 1, .spawn 1, .reqStart 1, .head 2, .read 2, .unbind 2,
    .teardown, .reqDone 1, .netclose, .closed, .onclose, .oncloseend, .wgdone, .gone]).map (·.phase) = some .gone := by decide

end ConnLoop
