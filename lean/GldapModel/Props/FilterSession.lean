import GldapModel.Props.Filter
import GldapModel.Props.Session
import GldapModel.Props.StoreSession
import GldapModel.Props.C03
/-! # The filter model composed with routing, the session and the test directory

With `DecompileFilter` inside the model (`Gldap/Filter.lean`) the end-to-end statements no longer
need a hypothesis about what go-ldap returns: for conversations whose searches carry the RFC 4511
encoding of a filter tree, the decode environment is `currentEnv` (the current source) and the
filter string the handler, the route criteria and the test directory see is `Filter.render`. -/
namespace Gldap
open Ber Spec Gldap.Generated Session

/-- the filter string the current source delivers for a request (searches only) -/
def currentDec : CReq → Bytes
  | .search _ _ _ _ _ _ _ f _ _ => (Filter.decompile filterDNAttrsDecoded f).getD []
  | _ => []

/-- a search that carries the encoding of the filter tree `fl` -/
def carries (tt : UInt8) (r : CReq) : Prop :=
  ∀ id base sc de sz tm ty f attrs ctls, r = .search id base sc de sz tm ty f attrs ctls →
    ∃ fl : Filter.Filter, f = Filter.encode tt fl

theorem currentDec_search (tt : UInt8) (htt : tt ≠ 0) (id : Int) (base : Bytes) (sc de sz tm : Int) (ty : Bool)
    (fl : Filter.Filter) (attrs : List Bytes) (ctls : List CCtl) :
    currentDec (.search id base sc de sz tm ty (Filter.encode tt fl) attrs ctls) = Filter.render fl := by
  simp [currentDec, filterDNAttrsDecoded_current, Filter.decompile_encode tt htt fl]

/-- every well-formed request whose filter (if it is a search) encodes a filter tree can be sent
    to the current source: nothing about go-ldap is assumed any more -/
theorem sendable_current (ext : Nat → Bytes → Bool) (tt : UInt8) (htt : tt ≠ 0) (r : CReq) (hw : r.WF)
    (hb : (clientEncode tt r).WF ext) (hc : carries tt r) : Sendable (currentEnv ext) tt currentDec r := by
  refine ⟨hw, hb, ?_⟩
  intro id base sc de sz tm ty f attrs ctls h
  obtain ⟨fl, hfl⟩ := hc id base sc de sz tm ty f attrs ctls h
  subst h; subst hfl
  show Filter.decompile filterDNAttrsDecoded (Filter.encode tt fl) = _
  rw [currentDec_search tt htt, filterDNAttrsDecoded_current]
  exact Filter.decompile_encode tt htt fl

/-- C01 / C03 / C04 end to end with the filter inside: a client that sends any list of well-formed
    non-Unbind requests (searches carrying encoded filter trees), followed by anything, receives
    request by request exactly the frames of the first matching route's script / the default route /
    the refusal - for the decode path, guards and refusal table of the current source -/
theorem session_requests_filter (ext : Nat → Bytes → Bool) (cfg : Cfg) (tt : UInt8) (htt : tt ≠ 0)
    (rs : List CReq) (hw : ∀ r ∈ rs, r.WF) (hb : ∀ r ∈ rs, (clientEncode tt r).WF ext) (hc : ∀ r ∈ rs, carries tt r)
    (hu : ∀ r ∈ rs, r.isUnbind = false) (fuel : Nat) (tail : Bytes) :
    session (currentEnv ext) Generated.refusalTable Generated.guards cfg (rs.length + fuel) (wire tt rs ++ tail) =
      (rs.flatMap (fun r => respond Generated.refusalTable Generated.guards cfg (expected (currentDec r) r)) ++
         (session (currentEnv ext) Generated.refusalTable Generated.guards cfg fuel tail).1,
       (session (currentEnv ext) Generated.refusalTable Generated.guards cfg fuel tail).2) :=
  session_requests (currentEnv ext) Generated.refusalTable Generated.guards cfg tt htt currentDec rs
    (fun r hr => sendable_current ext tt htt r (hw r hr) (hb r hr) (hc r hr)) hu fuel tail

/-- C03's filter criterion, in terms of the client's filter tree: a search route registered
    `WithFilter(c)` (no base DN, no scope) matches the decoded search iff `c` is empty or equals the
    RFC 4515 string of the tree up to ASCII case -/
theorem C03_filter_criterion (c : Bytes) (id : Int) (base : Bytes) (sc de sz tm : Int) (ty : Bool)
    (fl : Filter.Filter) (attrs : List Bytes) (ctls : List Control) :
    matchesRoute (.search [] c 0) (.search id base sc de sz tm ty (Filter.render fl) attrs ctls) =
      (c.isEmpty || equalFold (Filter.render fl) c) := by
  simp [matchesRoute]

/-- C20 at the level of bytes with nothing assumed about go-ldap: over a clean pool, an add of an absent DN
    followed by a search with that DN as base - whatever filter tree `fl` the search carries - writes AddResponse
    success, the one entry, SearchResultDone success, and goes on over the grown store -/
theorem C20_wire_add_then_read_filter (ext : Nat → Bytes → Bool) (tt : UInt8) (htt : tt ≠ 0)
    (pool : List Bytes) (hp : Directory.Pool pool) (d : Directory.Dir) (hg : Directory.Good pool d.store) (dn : Bytes) (hd : dn ∈ pool)
    (habs : Directory.hasDN d.store.users dn = false) (habsg : Directory.hasDN d.store.groups dn = false)
    (hroute : Directory.routeSearch d.store dn = .generic) (hsub : Directory.containsBytes dn d.store.userDN = true)
    (id1 id2 : Int) (attrs : List CAttr) (c1 c2 : List CCtl)
    (sc de sz tm : Int) (ty : Bool) (fl : Filter.Filter) (want : List Bytes)
    (hw1 : (CReq.add id1 dn attrs c1).WF) (hb1 : (clientEncode tt (.add id1 dn attrs c1)).WF ext)
    (hw2 : (CReq.search id2 dn sc de sz tm ty (Filter.encode tt fl) want c2).WF)
    (hb2 : (clientEncode tt (.search id2 dn sc de sz tm ty (Filter.encode tt fl) want c2)).WF ext)
    (fuel : Nat) (rest : Bytes) :
    let e := Directory.mkEntry dn ((attrs.map expectedAttr).map Directory.attrOf)
    let d' : Directory.Dir := { d with store := { d.store with users := d.store.users ++ [e] } }
    Directory.dirSession (currentEnv ext) Generated.refusalTable Generated.guards d (fuel + 2)
        (ser (clientEncode tt (.add id1 dn attrs c1)) ++
          (ser (clientEncode tt (.search id2 dn sc de sz tm ty (Filter.encode tt fl) want c2)) ++ rest)) =
      ([responseBytes (Directory.addResp d.store id1 dn), responseBytes (Directory.entryResp id2 e),
        responseBytes (Directory.doneResp id2 d.dctls true)] ++
         (Directory.dirSession (currentEnv ext) Generated.refusalTable Generated.guards d' fuel rest).1,
       (Directory.dirSession (currentEnv ext) Generated.refusalTable Generated.guards d' fuel rest).2) ∧
    (Directory.addResp d.store id1 dn).code = 0 :=
  Directory.C20_wire_add_then_read_current (currentEnv ext) tt htt pool hp d hg dn hd habs habsg hroute hsub
    currentDec id1 id2 attrs c1 c2 sc de sz tm ty (Filter.encode tt fl) want
    (sendable_current ext tt htt _ hw1 hb1 (by intro _ _ _ _ _ _ _ _ _ _ h; cases h))
    (sendable_current ext tt htt _ hw2 hb2 (by
      intro _ _ _ _ _ _ _ f _ _ h
      injection h with _ _ _ _ _ _ _ hf _ _
      exact ⟨fl, hf.symm⟩))
    fuel rest

end Gldap
