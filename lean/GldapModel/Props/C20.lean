import GldapModel.Proofs.StoreIdx
/-! # C20 - the test directory behaves like a consistent store

The model (`Directory.Store`) follows `testdirectory/directory.go` literally: every lookup goes
through `match`, i.e. a regular expression over the filter text and a *substring* test on DNs.
The property restricts attention to directories whose DNs are "not substrings of one another";
under exactly that hypothesis (`Pool`) the theorems below show that the handlers refine a plain
DN-keyed store (`spec*`), for every history, and derive the statements of the property from the
refinement. The hypothesis is necessary: `substring_dn_breaks_add` exhibits the failure without it.
-/
namespace Directory
open Ber Gldap Gldap.Generated

/-- the DNs the history draws from: clean (no `( ) * |`, newline or outer blanks, non-empty) and
    none of them a substring of another -/
structure Pool (pool : List Bytes) : Prop where
  clean : ∀ d ∈ pool, CleanDN d
  nosub : ∀ d ∈ pool, ∀ d' ∈ pool, d ≠ d' → containsBytes d' d = false

/-- a directory over the pool: DNs from the pool, no DN twice among users or among groups -/
structure Good (pool : List Bytes) (s : Store) : Prop where
  udn : ∀ e ∈ s.users, e.dn ∈ pool
  gdn : ∀ e ∈ s.groups, e.dn ∈ pool
  unodup : (s.users.map (·.dn)).Nodup
  gnodup : (s.groups.map (·.dn)).Nodup

/-! ## the reference store -/

def hasDN (es : List Entry) (d : Bytes) : Bool := es.any (fun e => e.dn == d)

def specAdd (s : Store) (d : Bytes) (attrs : List (Bytes × List Bytes)) : Store × Nat :=
  if hasDN s.users d then (s, ResultEntryAlreadyExists)
  else ({ s with users := s.users ++ [mkEntry d attrs] }, ResultSuccess)

def specDelete (s : Store) (d : Bytes) : Store × Nat :=
  if hasDN s.users d then ({ s with users := s.users.filter (fun e => e.dn != d) }, ResultSuccess)
  else if hasDN s.groups d then ({ s with groups := s.groups.filter (fun e => e.dn != d) }, ResultSuccess)
  else (s, ResultNoSuchObject)

/-- user entries only: the directory looks groups up with the bare DN, which never matches -/
def specModify (s : Store) (d : Bytes) (chs : List (Int × Bytes × List Bytes)) : Store × Nat :=
  if hasDN s.users d then
    ({ s with users := s.users.map fun e => if e.dn == d then { e with attrs := applyChanges e.attrs chs } else e },
     ResultSuccess)
  else (s, ResultNoSuchObject)

def specLookup (es : List Entry) (d : Bytes) : Nat × List Entry :=
  let r := es.filter (fun e => e.dn == d)
  if r.isEmpty then (ResultNoSuchObject, []) else (ResultSuccess, r)

/-! ## `find "(dn)"` is the exact-DN lookup -/

theorem match_exact (pool : List Bytes) (hp : Pool pool) (d : Bytes) (hd : d ∈ pool)
    (x : Bytes) (hx : x ∈ pool) : matchFilter (paren d) x = (x == d) := by
  rw [matchFilter_paren d x (hp.clean d hd)]
  by_cases e : x = d
  · subst e; simp [containsBytes_refl]
  · rw [hp.nosub d hd x hx (fun h => e h.symm)]; simp [e]

theorem find_exact (pool : List Bytes) (hp : Pool pool) (d : Bytes) (hd : d ∈ pool)
    (es : List Entry) (hes : ∀ e ∈ es, e.dn ∈ pool) :
    findIdx (paren d) es = idxs (fun e => e.dn == d) 0 es := by
  rw [findIdx_eq_idxs]
  exact idxs_congr _ _ 0 es (fun e he => match_exact pool hp d hd e.dn (hes e he))

theorem find_absent (pool : List Bytes) (hp : Pool pool) (d : Bytes) (hd : d ∈ pool)
    (es : List Entry) (hes : ∀ e ∈ es, e.dn ∈ pool) (h : hasDN es d = false) :
    findIdx (paren d) es = [] := by
  rw [find_exact pool hp d hd es hes]
  apply idxs_none
  intro e he
  unfold hasDN at h
  rw [List.any_eq_false] at h
  simpa using h e he

theorem hasDN_split {es : List Entry} {d : Bytes} (h : hasDN es d = true) (hn : (es.map (·.dn)).Nodup) :
    ∃ l x r, es = l ++ x :: r ∧ x.dn = d ∧ (∀ e ∈ l, e.dn ≠ d) ∧ (∀ e ∈ r, e.dn ≠ d) := by
  unfold hasDN at h
  rw [List.any_eq_true] at h
  obtain ⟨x, hx, hxd⟩ := h
  have hxd : x.dn = d := by simpa using hxd
  obtain ⟨l, r, e, hl, hr⟩ := split_at_dn es hn x hx
  exact ⟨l, x, r, e, hxd, fun y hy => hxd ▸ hl y hy, fun y hy => hxd ▸ hr y hy⟩

theorem find_present (pool : List Bytes) (hp : Pool pool) (d : Bytes) (hd : d ∈ pool)
    (l r : List Entry) (x : Entry) (hes : ∀ e ∈ l ++ x :: r, e.dn ∈ pool)
    (hx : x.dn = d) (hl : ∀ e ∈ l, e.dn ≠ d) (hr : ∀ e ∈ r, e.dn ≠ d) :
    findIdx (paren d) (l ++ x :: r) = [l.length] := by
  rw [find_exact pool hp d hd _ hes]
  have := idxs_unique (fun e : Entry => e.dn == d) 0 l r x
    (fun e he => by simp [hl e he]) (by simp [hx]) (fun e he => by simp [hr e he])
  simpa using this

/-- a clean DN without parentheses is no filter at all: `find dn` finds nothing -/
theorem findParens_none (f : Nat) (s : Bytes) (h : ∀ b ∈ s, b.toNat ≠ 40) : findParens f s = [] := by
  induction f generalizing s with
  | zero => rfl
  | succ f ih =>
    cases s with
    | nil => rfl
    | cons b bs =>
      have hb : (b.toNat == 40) = false := by simp [h b (by simp)]
      simp only [findParens, hb, Bool.false_eq_true, if_false]
      exact ih bs (fun x hx => h x (by simp [hx]))

theorem find_bare (d : Bytes) (hc : CleanDN d) (es : List Entry) : findIdx d es = [] := by
  rw [findIdx_eq_idxs]
  apply idxs_none
  intro e _
  unfold matchFilter
  rw [findParens_none _ d (fun b hb => (hc.chars b hb).1)]
  rfl

/-! ## refinement, operation by operation -/

theorem add_refines (pool : List Bytes) (hp : Pool pool) (s : Store) (hg : Good pool s) (d : Bytes) (hd : d ∈ pool)
    (attrs : List (Bytes × List Bytes)) : add s d attrs = specAdd s d attrs := by
  unfold add specAdd
  cases h : hasDN s.users d with
  | false => rw [find_absent pool hp d hd s.users hg.udn h]; rfl
  | true =>
    obtain ⟨l, x, r, e, hx, hl, hr⟩ := hasDN_split h hg.unodup
    rw [e, find_present pool hp d hd l r x (e ▸ hg.udn) hx hl hr]
    rfl

theorem delete_refines (pool : List Bytes) (hp : Pool pool) (s : Store) (hg : Good pool s) (d : Bytes) (hd : d ∈ pool) :
    delete s d = specDelete s d := by
  unfold delete specDelete
  cases h : hasDN s.users d with
  | true =>
    obtain ⟨l, x, r, e, hx, hl, hr⟩ := hasDN_split h hg.unodup
    rw [e, find_present pool hp d hd l r x (e ▸ hg.udn) hx hl hr]
    subst hx
    simp only [if_true]
    rw [filter_ne_split l r x hl hr, eraseIdx_split]
  | false =>
    rw [find_absent pool hp d hd s.users hg.udn h]
    simp only [Bool.false_eq_true, if_false]
    cases h2 : hasDN s.groups d with
    | true =>
      obtain ⟨l, x, r, e, hx, hl, hr⟩ := hasDN_split h2 hg.gnodup
      rw [e, find_present pool hp d hd l r x (e ▸ hg.gdn) hx hl hr]
      subst hx
      simp only [if_true]
      rw [filter_ne_split l r x hl hr, eraseIdx_split]
    | false =>
      rw [find_absent pool hp d hd s.groups hg.gdn h2]
      rfl

theorem modify_refines (pool : List Bytes) (hp : Pool pool) (s : Store) (hg : Good pool s) (d : Bytes) (hd : d ∈ pool)
    (chs : List (Int × Bytes × List Bytes)) : modify s d chs = specModify s d chs := by
  unfold modify specModify
  cases h : hasDN s.users d with
  | true =>
    obtain ⟨l, x, r, e, hx, hl, hr⟩ := hasDN_split h hg.unodup
    rw [e, find_present pool hp d hd l r x (e ▸ hg.udn) hx hl hr]
    subst hx
    simp only [if_true]
    rw [map_if_split l r x (fun e => { e with attrs := applyChanges e.attrs chs }) hl hr, modify_split]
  | false =>
    rw [find_absent pool hp d hd s.users hg.udn h, find_bare d (hp.clean d hd)]
    rfl

/-- a search the mux hands to the user handler, with the filter "(dn)" -/
theorem search_users_refines (pool : List Bytes) (hp : Pool pool) (s : Store) (hg : Good pool s) (d : Bytes) (hd : d ∈ pool)
    (base : Bytes) (hroute : routeSearch s base = .users) :
    search s base (paren d) = specLookup s.users d := by
  unfold search searchVia specLookup
  rw [hroute]
  simp only
  cases h : hasDN s.users d with
  | true =>
    obtain ⟨l, x, r, e, hx, hl, hr⟩ := hasDN_split h hg.unodup
    rw [e, find_present pool hp d hd l r x (e ▸ hg.udn) hx hl hr]
    have hf : (l ++ x :: r).filter (fun e => e.dn == d) = [x] := by
      have h1 : l.filter (fun e => e.dn == d) = [] := List.filter_eq_nil_iff.mpr (fun e he => by simp [hl e he])
      have h2 : r.filter (fun e => e.dn == d) = [] := List.filter_eq_nil_iff.mpr (fun e he => by simp [hr e he])
      simp [List.filter_append, List.filter_cons, h1, h2, hx]
    rw [hf]
    simp
  | false =>
    rw [find_absent pool hp d hd s.users hg.udn h]
    have hf : s.users.filter (fun e => e.dn == d) = [] := by
      unfold hasDN at h
      rw [List.any_eq_false] at h
      exact List.filter_eq_nil_iff.mpr (fun e he => h e he)
    rw [hf]
    rfl


/-! ## the group and the generic search handlers -/

theorem findMembers_none (f : Bytes) (gs : List Entry)
    (h : ∀ g ∈ gs, ∀ m ∈ getAttributeValues g memberAttr, matchFilter f (memberEq ++ m) = false) :
    findMembers f gs = [] := by
  unfold findMembers
  suffices H : ∀ k, (gs.zipIdx k).flatMap (fun (x : Entry × Nat) =>
      ((getAttributeValues x.1 memberAttr).filter fun m => matchFilter f (memberEq ++ m)).map fun _ => x.2) = [] from H 0
  intro k
  induction gs generalizing k with
  | nil => rfl
  | cons g gs ih =>
    simp only [List.zipIdx_cons, List.flatMap_cons]
    have hg : (getAttributeValues g memberAttr).filter (fun m => matchFilter f (memberEq ++ m)) = [] :=
      List.filter_eq_nil_iff.mpr (fun m hm => by simp [h g (by simp) m hm])
    rw [hg, ih (fun g' hg' => h g' (by simp [hg'])) (k + 1)]
    rfl

/-- no member value of any group mentions the DN (as the text "member=<value>") -/
def NoMemberHit (d : Bytes) (gs : List Entry) : Prop :=
  ∀ g ∈ gs, ∀ m ∈ getAttributeValues g memberAttr, matchFilter (paren d) (memberEq ++ m) = false

theorem lookup_eq (pool : List Bytes) (hp : Pool pool) (d : Bytes) (hd : d ∈ pool) (es : List Entry)
    (hes : ∀ e ∈ es, e.dn ∈ pool) (hn : (es.map (·.dn)).Nodup) :
    (findIdx (paren d) es).filterMap (es[·]?) = es.filter (fun e => e.dn == d) := by
  cases h : hasDN es d with
  | true =>
    obtain ⟨l, x, r, e, hx, hl, hr⟩ := hasDN_split h hn
    subst e
    rw [find_present pool hp d hd l r x hes hx hl hr]
    have h1 : l.filter (fun e => e.dn == d) = [] := List.filter_eq_nil_iff.mpr (fun e he => by simp [hl e he])
    have h2 : r.filter (fun e => e.dn == d) = [] := List.filter_eq_nil_iff.mpr (fun e he => by simp [hr e he])
    simp [List.filter_append, h1, h2, hx]
  | false =>
    rw [find_absent pool hp d hd es hes h]
    unfold hasDN at h
    rw [List.any_eq_false] at h
    have : es.filter (fun e => e.dn == d) = [] := List.filter_eq_nil_iff.mpr (fun e he => h e he)
    rw [this]; rfl

/-- a search the mux hands to the group handler, with the filter "(dn)" of a DN no member value mentions -/
theorem search_groups_refines (pool : List Bytes) (hp : Pool pool) (s : Store) (hg : Good pool s) (d : Bytes) (hd : d ∈ pool)
    (base : Bytes) (hroute : routeSearch s base = .groups) (hm : NoMemberHit d s.groups) :
    search s base (paren d) = specLookup s.groups d := by
  unfold search searchVia specLookup
  rw [hroute]
  simp only
  rw [findMembers_none (paren d) s.groups hm]
  have hf : (findIdx (paren d) s.groups).filter (fun i => !([] : List Nat).contains i) = findIdx (paren d) s.groups :=
    List.filter_eq_self.mpr (fun i _ => by simp)
  simp only [List.nil_append, hf]
  rw [lookup_eq pool hp d hd s.groups hg.gdn hg.gnodup]

/-- a search below the user base handed to the generic handler looks the base DN itself up, among users and groups -/
theorem search_generic_refines (pool : List Bytes) (hp : Pool pool) (s : Store) (hg : Good pool s) (d : Bytes) (hd : d ∈ pool)
    (filter : Bytes) (hroute : routeSearch s d = .generic) (hsub : containsBytes d s.userDN = true) :
    search s d filter =
      (let es := s.users.filter (fun e => e.dn == d) ++ s.groups.filter (fun e => e.dn == d)
       if es.isEmpty then (ResultNoSuchObject, []) else (ResultSuccess, es)) := by
  unfold search searchVia
  rw [hroute]
  simp only [hsub, if_true]
  rw [lookup_eq pool hp d hd s.users hg.udn hg.unodup, lookup_eq pool hp d hd s.groups hg.gdn hg.gnodup]

/-! ## the invariant is kept -/

theorem specAdd_good (pool : List Bytes) (s : Store) (hg : Good pool s) (d : Bytes) (hd : d ∈ pool)
    (attrs : List (Bytes × List Bytes)) : Good pool (specAdd s d attrs).1 := by
  unfold specAdd
  cases h : hasDN s.users d with
  | true => exact hg
  | false =>
    simp only [Bool.false_eq_true, if_false]
    refine ⟨?_, hg.gdn, ?_, hg.gnodup⟩
    · intro e he
      rcases List.mem_append.mp he with he | he
      · exact hg.udn e he
      · simp at he; subst he; exact hd
    · simp only [List.map_append, List.map_cons, List.map_nil]
      rw [List.nodup_append]
      refine ⟨hg.unodup, by simp, ?_⟩
      intro a ha b hb
      simp at hb; subst hb
      obtain ⟨e, he, rfl⟩ := List.mem_map.mp ha
      unfold hasDN at h
      rw [List.any_eq_false] at h
      have := h e he
      simpa [mkEntry] using this

theorem specDelete_good (pool : List Bytes) (s : Store) (hg : Good pool s) (d : Bytes) : Good pool (specDelete s d).1 := by
  unfold specDelete
  split
  · exact ⟨fun e he => hg.udn e (List.mem_filter.mp he).1, hg.gdn,
      (hg.unodup.sublist (List.Sublist.map _ List.filter_sublist)), hg.gnodup⟩
  · split
    · exact ⟨hg.udn, fun e he => hg.gdn e (List.mem_filter.mp he).1, hg.unodup,
        (hg.gnodup.sublist (List.Sublist.map _ List.filter_sublist))⟩
    · exact hg

theorem specModify_good (pool : List Bytes) (s : Store) (hg : Good pool s) (d : Bytes)
    (chs : List (Int × Bytes × List Bytes)) : Good pool (specModify s d chs).1 := by
  unfold specModify
  split
  · have hm : (s.users.map fun e => if e.dn == d then { e with attrs := applyChanges e.attrs chs } else e).map (·.dn)
        = s.users.map (·.dn) := by
      rw [List.map_map]
      apply List.map_congr_left
      intro e _
      simp only [Function.comp]
      split <;> rfl
    refine ⟨?_, hg.gdn, by rw [hm]; exact hg.unodup, hg.gnodup⟩
    intro e he
    obtain ⟨x, hx, rfl⟩ := List.mem_map.mp he
    have := hg.udn x hx
    split <;> exact this
  · exact hg

/-! ## every history -/

/-- what a client can do to the directory, one operation at a time -/
inductive Op where
  | add (dn : Bytes) (attrs : List (Bytes × List Bytes))
  | modify (dn : Bytes) (chs : List (Int × Bytes × List Bytes))
  | delete (dn : Bytes)
  | searchUser (base dn : Bytes)
  | setUsers (us : List Entry)
  | setGroups (gs : List Entry)

inductive Out where
  | code (c : Nat)
  | found (c : Nat) (es : List Entry)
  | unit
  deriving DecidableEq, Repr

def stepModel (s : Store) : Op → Store × Out
  | .add d a => let r := add s d a; (r.1, .code r.2)
  | .modify d c => let r := modify s d c; (r.1, .code r.2)
  | .delete d => let r := delete s d; (r.1, .code r.2)
  | .searchUser b d => let r := search s b (paren d); (s, .found r.1 r.2)
  | .setUsers us => ({ s with users := us }, .unit)
  | .setGroups gs => ({ s with groups := gs }, .unit)

def stepSpec (s : Store) : Op → Store × Out
  | .add d a => let r := specAdd s d a; (r.1, .code r.2)
  | .modify d c => let r := specModify s d c; (r.1, .code r.2)
  | .delete d => let r := specDelete s d; (r.1, .code r.2)
  | .searchUser _ d => let r := specLookup s.users d; (s, .found r.1 r.2)
  | .setUsers us => ({ s with users := us }, .unit)
  | .setGroups gs => ({ s with groups := gs }, .unit)

def runModel (s : Store) : List Op → Store × List Out
  | [] => (s, [])
  | o :: os => let r := stepModel s o; let q := runModel r.1 os; (q.1, r.2 :: q.2)

def runSpec (s : Store) : List Op → Store × List Out
  | [] => (s, [])
  | o :: os => let r := stepSpec s o; let q := runSpec r.1 os; (q.1, r.2 :: q.2)

/-- the operation stays inside the pool (and a search is one the mux gives to the user handler) -/
def Op.Within (pool : List Bytes) (userDN groupDN : Bytes) : Op → Prop
  | .add d _ => d ∈ pool
  | .modify d _ => d ∈ pool
  | .delete d => d ∈ pool
  | .searchUser b d => d ∈ pool ∧ ∀ us gs, routeSearch ⟨us, gs, userDN, groupDN⟩ b = .users
  | .setUsers us => (∀ e ∈ us, e.dn ∈ pool) ∧ (us.map (·.dn)).Nodup
  | .setGroups gs => (∀ e ∈ gs, e.dn ∈ pool) ∧ (gs.map (·.dn)).Nodup

theorem stepSpec_dns (s : Store) (o : Op) : (stepSpec s o).1.userDN = s.userDN ∧ (stepSpec s o).1.groupDN = s.groupDN := by
  cases o <;> simp only [stepSpec, specAdd, specModify, specDelete] <;> (repeat' split) <;> simp

theorem step_refines (pool : List Bytes) (hp : Pool pool) (s : Store) (hg : Good pool s) (o : Op)
    (hw : o.Within pool s.userDN s.groupDN) :
    stepModel s o = stepSpec s o ∧ Good pool (stepSpec s o).1 := by
  cases o with
  | add d a => exact ⟨by simp only [stepModel, stepSpec, add_refines pool hp s hg d hw], specAdd_good pool s hg d hw a⟩
  | modify d c => exact ⟨by simp only [stepModel, stepSpec, modify_refines pool hp s hg d hw], specModify_good pool s hg d c⟩
  | delete d => exact ⟨by simp only [stepModel, stepSpec, delete_refines pool hp s hg d hw], specDelete_good pool s hg d⟩
  | searchUser b d =>
    refine ⟨?_, hg⟩
    simp only [stepModel, stepSpec]
    rw [search_users_refines pool hp s hg d hw.1 b (hw.2 s.users s.groups)]
  | setUsers us => exact ⟨rfl, ⟨hw.1, hg.gdn, hw.2, hg.gnodup⟩⟩
  | setGroups gs => exact ⟨rfl, ⟨hg.udn, hw.1, hg.unodup, hw.2⟩⟩

/-- **C20, refinement**: for every history over a pool of clean, pairwise non-substring DNs, the
    directory's handlers answer exactly as the DN-keyed reference store does, operation by
    operation, and leave the same contents. -/
theorem C20_refinement (pool : List Bytes) (hp : Pool pool) (ops : List Op) (s : Store) (hg : Good pool s)
    (hw : ∀ o ∈ ops, o.Within pool s.userDN s.groupDN) :
    runModel s ops = runSpec s ops ∧ Good pool (runSpec s ops).1 := by
  induction ops generalizing s with
  | nil => exact ⟨rfl, hg⟩
  | cons o os ih =>
    obtain ⟨e, hg'⟩ := step_refines pool hp s hg o (hw o (by simp))
    have hd := stepSpec_dns s o
    have := ih (stepSpec s o).1 hg' (fun o' ho' => by rw [hd.1, hd.2]; exact hw o' (by simp [ho']))
    simp only [runModel, runSpec, e]
    exact ⟨by rw [this.1], this.2⟩

/-! ## the statements of the property, on the reference store -/

theorem lookup_after_add (s : Store) (d : Bytes) (attrs : List (Bytes × List Bytes))
    (h : hasDN s.users d = false) :
    specAdd s d attrs = ({ s with users := s.users ++ [mkEntry d attrs] }, ResultSuccess) ∧
    specLookup (specAdd s d attrs).1.users d = (ResultSuccess, [mkEntry d attrs]) := by
  unfold specAdd
  simp only [h, Bool.false_eq_true, if_false, true_and]
  unfold specLookup
  have hf : (s.users ++ [mkEntry d attrs]).filter (fun e => e.dn == d) = [mkEntry d attrs] := by
    unfold hasDN at h
    rw [List.any_eq_false] at h
    have h1 : s.users.filter (fun e => e.dn == d) = [] := List.filter_eq_nil_iff.mpr (fun e he => h e he)
    simp [List.filter_append, h1, mkEntry]
  simp only [hf]
  rfl

theorem add_existing (s : Store) (d : Bytes) (attrs : List (Bytes × List Bytes))
    (h : hasDN s.users d = true) : specAdd s d attrs = (s, ResultEntryAlreadyExists) := by
  simp [specAdd, h]

theorem lookup_after_delete (s : Store) (d : Bytes) :
    specLookup (specDelete s d).1.users d = (ResultNoSuchObject, []) ∧
    hasDN (specDelete s d).1.users d = false := by
  have key : hasDN (specDelete s d).1.users d = false := by
    unfold specDelete
    split
    · simp [hasDN]
    · rename_i h
      split <;> simpa using h
  refine ⟨?_, key⟩
  unfold specLookup
  have : (specDelete s d).1.users.filter (fun e => e.dn == d) = [] := by
    unfold hasDN at key
    rw [List.any_eq_false] at key
    exact List.filter_eq_nil_iff.mpr (fun e he => key e he)
  simp only [this]
  rfl

theorem missing_noSuchObject (s : Store) (d : Bytes) (chs : List (Int × Bytes × List Bytes))
    (hu : hasDN s.users d = false) (hgr : hasDN s.groups d = false) :
    specDelete s d = (s, ResultNoSuchObject) ∧ specModify s d chs = (s, ResultNoSuchObject) := by
  simp [specDelete, specModify, hu, hgr]

theorem lookup_after_modify (s : Store) (hn : (s.users.map (·.dn)).Nodup) (d : Bytes)
    (chs : List (Int × Bytes × List Bytes)) (x : Entry) (hx : x ∈ s.users) (hxd : x.dn = d) :
    (specModify s d chs).2 = ResultSuccess ∧
    specLookup (specModify s d chs).1.users d = (ResultSuccess, [{ x with attrs := applyChanges x.attrs chs }]) := by
  have h : hasDN s.users d = true := by
    unfold hasDN; rw [List.any_eq_true]; exact ⟨x, hx, by simp [hxd]⟩
  obtain ⟨l, r, e, hl, hr⟩ := split_at_dn s.users hn x hx
  subst hxd
  unfold specModify
  simp only [h, if_true, true_and]
  rw [e, map_if_split l r x (fun e => { e with attrs := applyChanges e.attrs chs }) hl hr]
  unfold specLookup
  have h1 : l.filter (fun e => e.dn == x.dn) = [] := List.filter_eq_nil_iff.mpr (fun e he => by simp [hl e he])
  have h2 : r.filter (fun e => e.dn == x.dn) = [] := List.filter_eq_nil_iff.mpr (fun e he => by simp [hr e he])
  have hf : (l ++ { x with attrs := applyChanges x.attrs chs } :: r).filter (fun e => e.dn == x.dn)
      = [{ x with attrs := applyChanges x.attrs chs }] := by
    simp [List.filter_append, List.filter_cons, h1, h2]
  simp only [hf]
  rfl

/-- operations on another DN leave what a lookup of `d` sees untouched -/
theorem lookup_frame (s : Store) (d d' : Bytes) (hne : d' ≠ d) (attrs : List (Bytes × List Bytes))
    (chs : List (Int × Bytes × List Bytes)) :
    specLookup (specAdd s d' attrs).1.users d = specLookup s.users d ∧
    specLookup (specDelete s d').1.users d = specLookup s.users d ∧
    specLookup (specModify s d' chs).1.users d = specLookup s.users d := by
  refine ⟨?_, ?_, ?_⟩
  · unfold specAdd
    split
    · rfl
    · simp [specLookup, List.filter_append, mkEntry, hne]
  · unfold specDelete
    split
    · simp only [specLookup, List.filter_filter]
      have : (fun e : Entry => (e.dn == d && e.dn != d')) = (fun e => e.dn == d) := by
        funext e
        by_cases h : e.dn = d
        · subst h
          have : e.dn ≠ d' := fun h' => hne h'.symm
          simp [this]
        · simp [h]
      rw [this]
    · split <;> rfl
  · unfold specModify
    split
    · simp only [specLookup]
      have : (s.users.map fun e => if e.dn == d' then { e with attrs := applyChanges e.attrs chs } else e).filter
            (fun e => e.dn == d) = s.users.filter (fun e => e.dn == d) := by
        induction s.users with
        | nil => rfl
        | cons a as ih =>
          simp only [List.map_cons, List.filter_cons, ih]
          by_cases h2 : a.dn = d'
          · have h3 : (a.dn == d') = true := by simp [h2]
            have h4 : (a.dn == d) = false := by simp [h2, hne]
            simp only [h3, if_true, h4, Bool.false_eq_true, if_false]
          · have h3 : (a.dn == d') = false := by simp [h2]
            simp only [h3, Bool.false_eq_true, if_false]
      rw [this]
    · rfl

/-! ## modifications of one entry's attributes -/

def valsOf (attrs : List EAttr) (name : Bytes) : List Bytes :=
  match attrs.find? (fun a => a.name == name) with
  | some a => a.values
  | none => []

theorem lastIdxOf_eq (name : Bytes) (attrs : List EAttr) :
    lastIdxOf name attrs = (idxs (fun a : EAttr => a.name == name) 0 attrs).getLast? := by
  unfold lastIdxOf
  rw [← zipIdx_filter_idxs (fun a : EAttr => a.name == name) 0 attrs, List.getLast?_map]

theorem lastIdxOf_split (name : Bytes) (l r : List EAttr) (a : EAttr) (ha : a.name = name)
    (hl : ∀ x ∈ l, x.name ≠ name) (hr : ∀ x ∈ r, x.name ≠ name) :
    lastIdxOf name (l ++ a :: r) = some l.length := by
  rw [lastIdxOf_eq, idxs_unique (fun a : EAttr => a.name == name) 0 l r a
    (fun x hx => by simp [hl x hx]) (by simp [ha]) (fun x hx => by simp [hr x hx])]
  simp

theorem lastIdxOf_none (name : Bytes) (attrs : List EAttr) (h : ∀ x ∈ attrs, x.name ≠ name) :
    lastIdxOf name attrs = none := by
  rw [lastIdxOf_eq, idxs_none _ 0 attrs (fun x hx => by simp [h x hx])]
  rfl

theorem valsOf_split (name : Bytes) (l r : List EAttr) (a : EAttr) (ha : a.name = name)
    (hl : ∀ x ∈ l, x.name ≠ name) : valsOf (l ++ a :: r) name = a.values := by
  unfold valsOf
  have : (l ++ a :: r).find? (fun a => a.name == name) = some a := by
    rw [List.find?_append]
    have : l.find? (fun a => a.name == name) = none := List.find?_eq_none.mpr (fun x hx => by simp [hl x hx])
    rw [this]
    simp [ha]
  rw [this]

theorem valsOf_absent (name : Bytes) (attrs : List EAttr) (h : ∀ x ∈ attrs, x.name ≠ name) : valsOf attrs name = [] := by
  unfold valsOf
  rw [List.find?_eq_none.mpr (fun x hx => by simp [h x hx])]

/-- add-value, delete-attribute and replace on an entry whose attribute names are distinct:
    what a later read of that attribute returns -/
theorem change_present (l r : List EAttr) (a : EAttr) (vals : List Bytes)
    (hl : ∀ x ∈ l, x.name ≠ a.name) (hr : ∀ x ∈ r, x.name ≠ a.name) :
    valsOf (applyChange (l ++ a :: r) 0 a.name vals) a.name = a.values ++ vals ∧
    valsOf (applyChange (l ++ a :: r) 1 a.name vals) a.name = [] ∧
    valsOf (applyChange (l ++ a :: r) 2 a.name vals) a.name = vals := by
  have hi := lastIdxOf_split a.name l r a rfl hl hr
  refine ⟨?_, ?_, ?_⟩
  · simp only [applyChange, hi]
    have : (l ++ a :: r).modify l.length (fun a => a.addValue vals) = l ++ a.addValue vals :: r :=
      modify_split l r a _
    simp only [beq_self_eq_true, if_true, this]
    rw [valsOf_split a.name l r (a.addValue vals) rfl hl]
    rfl
  · simp only [applyChange, hi]
    have : (l ++ a :: r).eraseIdx l.length = l ++ r := eraseIdx_split l r a
    have h01 : ((1 : Int) == 0) = false := by decide
    simp only [h01, Bool.false_eq_true, if_false, beq_self_eq_true, if_true, this]
    apply valsOf_absent
    intro x hx
    rcases List.mem_append.mp hx with h | h
    · exact hl x h
    · exact hr x h
  · simp only [applyChange, hi]
    have : (l ++ a :: r).set l.length (newEntryAttribute a.name vals) = l ++ newEntryAttribute a.name vals :: r :=
      set_split l r a _
    have h20 : ((2 : Int) == 0) = false := by decide
    have h21 : ((2 : Int) == 1) = false := by decide
    simp only [h20, h21, Bool.false_eq_true, if_false, beq_self_eq_true, if_true, this]
    rw [valsOf_split a.name l r (newEntryAttribute a.name vals) rfl hl]
    rfl

theorem change_absent (attrs : List EAttr) (name : Bytes) (vals : List Bytes) (h : ∀ x ∈ attrs, x.name ≠ name) :
    valsOf (applyChange attrs 0 name vals) name = vals ∧
    applyChange attrs 1 name vals = attrs ∧ applyChange attrs 2 name vals = attrs := by
  have hi := lastIdxOf_none name attrs h
  refine ⟨?_, ?_, ?_⟩
  · simp only [applyChange, hi, beq_self_eq_true, if_true]
    exact valsOf_split name attrs [] (newEntryAttribute name vals) rfl h
  · simp [applyChange, hi]
  · simp [applyChange, hi]

/-! ## the hypothesis is needed, and a replace that does not reach the directory is visible -/

def dnAl : Bytes := [99, 110, 61, 97, 108]                       -- "cn=al"
def dnAlice : Bytes := [99, 110, 61, 97, 108, 105, 99, 101]      -- "cn=alice"

/-- with one DN a substring of another the directory refuses to add the shorter one although
    no entry has that DN -/
theorem substring_dn_breaks_add :
    (add ⟨[⟨dnAlice, []⟩], [], [], []⟩ dnAl []).2 = ResultEntryAlreadyExists ∧
    hasDN [⟨dnAlice, []⟩] dnAl = false := by decide

/-- the defect repaired in testdirectory (`foundAttr = NewEntryAttribute(..)` rebinding a local):
    a replace that leaves the attribute untouched contradicts `change_present` -/
def applyChangeNoReplace (attrs : List EAttr) (op : Int) (ty : Bytes) (vals : List Bytes) : List EAttr :=
  if op == 2 then attrs else applyChange attrs op ty vals

theorem replace_dropped_counterexample :
    valsOf (applyChangeNoReplace [⟨[99, 110], [[1]], [[1]]⟩] 2 [99, 110] [[2]]) [99, 110] ≠ [[2]] := by decide

/-! ## the premises are satisfiable -/

theorem cleanDN_dnAlice : CleanDN dnAlice := by
  refine ⟨by decide, by decide, ?_, ?_⟩
  · intro a t e; cases e; decide
  · intro i z e
    have h1 : dnAlice.getLast? = some 101 := by decide
    have h2 : (i ++ [z]).getLast? = some z := by simp
    rw [e, h2] at h1
    have := Option.some.inj h1
    subst this; decide

example : Pool [dnAlice] ∧ Good [dnAlice] ⟨[⟨dnAlice, []⟩], [], [], []⟩ := by
  refine ⟨⟨?_, ?_⟩, ⟨?_, ?_, ?_, ?_⟩⟩
  · intro d hd; simp at hd; subst hd; exact cleanDN_dnAlice
  · intro d hd d' hd' hne; simp at hd hd'; subst hd hd'; exact absurd rfl hne
  · intro e he; simp at he; subst he; simp
  · intro e he; simp at he
  · simp
  · simp

end Directory
