import GldapModel.Proofs.Server6
import GldapModel.Generated.Facts
/-! # C07 - a failure on one connection or request never takes the server down (the logic part)

Go's rule: a panic that is not recovered on its own goroutine's stack kills the process. The
model has one label per fault: `handlerPanic c` (a handler on its own goroutine), `connPanic c`
(gldap's own decoding or an inline handler on the connection goroutine), `connExit c` (reset,
truncated frame, failed write), `runAcceptErr` (descriptor exhaustion at accept). -/
namespace Server

/-- If every goroutine that runs handler or decode code defers a recover, then whatever faults
    are injected, wherever, in whatever order and amid whatever traffic, the process stays alive. -/
theorem C07_survives (F : Facts) (hc : F.recoverOnConn = true) (hr : F.recoverOnRequest = true)
    (n : Nat) (ls : List Label) (s : Srv) (h : run F (init n) ls = some s) : s.alive = true := by
  rw [run_alive F hc hr ls (init n) s h]; rfl

/-- a fault on connection c leaves every other connection's state untouched -/
theorem C07_others_untouched (F : Facts) (s s' : Srv) (c : Nat) (l : Label)
    (hl : l = .handlerPanic c ∨ l = .connPanic c ∨ l = .connExit c) (hs : step F s l = some s') :
    ∀ x ∈ s.conns, x.id ≠ c → x ∈ s'.conns := by
  intro x hx hne
  rcases hl with rfl | rfl | rfl <;> simp only [step, stepCore] at hs
  all_goals (repeat' split at hs)
  all_goals first
    | (cases hs; done)
    | (simp only [Option.some.injEq] at hs; subst hs
       first
        | exact hx
        | (simp only [modConn, List.mem_map]; exact ⟨x, hx, by simp [hne]⟩))

/-- an accept error does not end the accept loop (when the source `continue`s) -/
theorem C07_accept_error_tolerated (F : Facts) (hF : F.acceptErrContinues = true) (s s' : Srv)
    (hs : step F s .runAcceptErr = some s') : s'.run = .loopTop := by
  simp only [step, stepCore] at hs
  split at hs
  · simp only [Option.some.injEq] at hs; subst hs; simp [hF]
  · cases hs

/-- the pinned tree: a panic in a search handler kills the process (no recover on the request goroutine) -/
theorem C07_counterexample_handler :
    (run pinnedFacts (init 0) [.runListen true, .runLoopTop, .runAcceptOk, .runSpawn, .handlerStart 1, .handlerPanic 1]).map
      (·.alive) = some false := by decide

/-- the pinned tree: a non-"closed" accept error makes Run return -/
theorem C07_counterexample_accept :
    (run pinnedFacts (init 0) [.runListen true, .runLoopTop, .runAcceptErr]).map (·.run) = some (.returned true) := by decide

theorem C07_current (n : Nat) (ls : List Label) (s : Srv) (h : run Gldap.Generated.serverFacts (init n) ls = some s) :
    s.alive = true := C07_survives _ (by decide) (by decide) n ls s h

end Server
