import GldapModel.Proofs.ServerGeneric
import GldapModel.Generated.Facts
/-! # C17 - Ready is true only while the server is really listening -/
namespace Server

/-- whenever Ready() can be observed true the listening socket has been bound - for every
    schedule of pollers, Run, Stop, and for every value of the other facts -/
theorem C17_ready (F : Facts) (hF : F.readyOnlyOnSuccess = true) (n : Nat) (ls : List Label) (s : Srv)
    (hr : run F (init n) ls = some s) : s.ready = true → s.lst ≠ .none :=
  (rinv_run F hF ls (init n) s (rinv_init n) hr).rdy

/-- if Run cannot listen it returns an error and Ready never becomes true -/
theorem C17_listen_fails (F : Facts) (hF : F.readyOnlyOnSuccess = true) (n : Nat) (pre post : List Label) (s : Srv)
    (hr : run F (init n) (pre ++ [.runListen false] ++ post) = some s) : s.ready = false := by
  have h := rinv_run F hF _ (init n) s (rinv_init n) hr
  cases hrd : s.ready with
  | false => rfl
  | true =>
    exfalso
    -- the listener is never created after a failed listen: `lst` stays `none`
    have key : ∀ (ls : List Label) (a b : Srv), a.lst = .none → (∀ e, a.run = .returned e → True) →
        a.run ≠ .notStarted → run F a ls = some b → b.lst = .none ∧ b.run ≠ .notStarted := by
      intro ls
      induction ls with
      | nil => intro a b h1 _ h3 hb; simp [run] at hb; subst hb; exact ⟨h1, h3⟩
      | cons l ls ih =>
        intro a b h1 h2 h3 hb
        simp only [run] at hb
        cases hs : step F a l with
        | none => simp [hs] at hb
        | some a' =>
          simp [hs] at hb
          have : a'.lst = .none ∧ a'.run ≠ .notStarted := by
            cases l <;> simp only [step, stepCore] at hs
            all_goals (repeat' split at hs)
            all_goals first
              | (cases hs; done)
              | (simp at hs; done)
              | (simp only [Option.some.injEq] at hs; subst hs; simp_all; done)
          exact ih a' b this.1 (fun _ _ => trivial) this.2 hb
    rw [List.append_assoc] at hr
    have : ∃ m, run F (init n) pre = some m ∧ run F m ([.runListen false] ++ post) = some s := by
      clear h key hrd
      induction pre generalizing n with
      | nil => exact ⟨init n, rfl, hr⟩
      | cons e es _ =>
        -- generic split of a run
        have split : ∀ (a : List Label) (x : Srv), run F x (a ++ ([.runListen false] ++ post)) = some s →
            ∃ m, run F x a = some m ∧ run F m ([.runListen false] ++ post) = some s := by
          intro a
          induction a with
          | nil => intro x hx; exact ⟨x, rfl, hx⟩
          | cons e' es' ih' =>
            intro x hx
            simp only [List.cons_append, run] at hx ⊢
            cases hs : step F x e' with
            | none => simp [hs] at hx
            | some x1 => simp [hs] at hx ⊢; exact ih' x1 hx
        exact split (e :: es) (init n) hr
    obtain ⟨m, _, hm⟩ := this
    simp only [List.singleton_append, run] at hm
    cases hs : step F m (.runListen false) with
    | none => simp [hs] at hm
    | some m' =>
      simp [hs] at hm
      have hm' : m'.lst = .none ∧ m'.run ≠ .notStarted := by
        have hrm := (rinv_run F hF pre (init n) m (rinv_init n) (by assumption)).notStarted
        simp only [step, stepCore] at hs
        split at hs
        · rename_i hc
          simp only [Option.some.injEq] at hs; subst hs
          simp [hrm hc.1]
        · cases hs
      have := key post m' s hm'.1 (fun _ _ => trivial) hm'.2 hm
      exact h.rdy hrd this.1

/-- the pinned tree set the flag before looking at the error -/
theorem C17_counterexample :
    (run pinnedFacts (init 0) [.runListen false]).map (fun s => (s.ready, s.lst)) = some (true, .none) := by decide

theorem C17_current (n : Nat) (ls : List Label) (s : Srv) (hr : run Gldap.Generated.serverFacts (init n) ls = some s) :
    s.ready = true → s.lst ≠ .none := C17_ready _ (by decide) n ls s hr

end Server
