import GldapModel.Proofs.ConnLoopInv
import GldapModel.Generated.Facts
/-! # C06 - requests on a connection are numbered in order and dispatched concurrently -/
namespace ConnLoop

/-- In every event sequence the connection automaton accepts - any pipeline, any mix of
    operations, any progress of the handlers - the loop heads are numbered 1, 2, 3, ... in
    arrival order. -/
theorem C06_ids_sequential (F : Facts) (es : List Ev) (s : St) (h : run F init es = some s) :
    es.filterMap headNo = List.range' 1 s.reqs := by
  have := heads_run F es init s rfl h
  rwa [run_log F es init s h] at this

/-- ... and the request that is read, dispatched or handled inline is the one just numbered -/
theorem C06_current_number (F : Facts) (es : List Ev) (s : St) (h : run F init es = some s) (r : Nat)
    (hp : s.phase = .reading r ∨ s.phase = .gotRequest r ∨ s.phase = .inHandler r) : r = s.reqs :=
  cur_run F es init s (by intro r hr; simp [init] at hr) h r hp

/-- Dispatch never waits: at the loop head the next request can be numbered, read and handed
    to its own goroutine whatever the earlier handlers are doing - the guards of `head`, `read`
    and `spawn` mention no handler's status, and these steps leave it untouched. -/
theorem C06_head_enabled (F : Facts) (hinc : F.idIncrementAtHead = true) (s : St) (hp : s.phase = .atHead) :
    ∃ s2, step F s (.head (s.reqs + 1)) = some s2 ∧ s2.phase = .reading (s.reqs + 1) ∧
      s2.running = s.running ∧ s2.finished = s.finished ∧ s2.spawned = s.spawned := by
  simp [step, hp, hinc]

theorem C06_read_enabled (F : Facts) (s : St) (r : Nat) (hp : s.phase = .reading r) :
    ∃ s2, step F s (.read r) = some s2 ∧ s2.phase = .gotRequest r ∧
      s2.running = s.running ∧ s2.finished = s.finished ∧ s2.spawned = s.spawned := by
  simp [step, hp]

theorem C06_spawn_enabled (F : Facts) (hother : F.other = .goroutine) (s : St) (r : Nat) (hp : s.phase = .gotRequest r) :
    ∃ s2, step F s (.spawn r) = some s2 ∧ s2.phase = .atHead ∧
      s2.running = s.running ∧ s2.finished = s.finished ∧ s2.spawned = s.spawned ++ [r] := by
  simp [step, hp, hother]

/-- hence with handlers 1..k all blocked, request k+1 is still dispatched: from any state at the
    loop head the next `head; read; spawn` is accepted -/
theorem C06_dispatch_nonblocking (F : Facts) (hinc : F.idIncrementAtHead = true) (hother : F.other = .goroutine)
    (s : St) (hp : s.phase = .atHead) :
    ∃ s', run F s [.head (s.reqs + 1), .read (s.reqs + 1), .spawn (s.reqs + 1)] = some s' ∧
      s'.phase = .atHead ∧ s'.running = s.running ∧ s'.finished = s.finished ∧ (s.reqs + 1) ∈ s'.spawned := by
  obtain ⟨s2, h2, p2, a2, b2, c2⟩ := C06_head_enabled F hinc s hp
  obtain ⟨s3, h3, p3, a3, b3, c3⟩ := C06_read_enabled F s2 _ p2
  obtain ⟨s4, h4, p4, a4, b4, c4⟩ := C06_spawn_enabled F hother s3 _ p3
  refine ⟨s4, by simp [run, h2, h3, h4], p4, by rw [a4, a3, a2], by rw [b4, b3, b2], by rw [c4]; simp⟩

/-- the statement for the source as it is now -/
theorem C06_current (es : List Ev) (s : St) (h : run Gldap.Generated.connFacts init es = some s) :
    es.filterMap headNo = List.range' 1 s.reqs := C06_ids_sequential _ es s h

theorem C06_current_dispatch :
    Gldap.Generated.connFacts.idIncrementAtHead = true ∧ Gldap.Generated.connFacts.other = .goroutine ∧
    Gldap.Generated.connFacts.startTLS = .inline ∧ Gldap.Generated.connFacts.unbind = .inlineThenReturn := by decide

/-- why the dispatch kind matters: with inline dispatch of ordinary requests the next read is
    not enabled while the handler runs -/
theorem C06_counterexample_inline :
    (run { goodFacts with other := .inline } init [.start, .head 1, .read 1, .spawn 1]) = none := by decide

/-- non-vacuity: three pipelined requests, the first handler still running when the third is dispatched -/
example : (run goodFacts init [.start, .head 1, .read 1, .spawn 1, .reqStart 1, .head 2, .read 2, .spawn 2,
    .head 3, .read 3, .spawn 3, .reqStart 3, .reqDone 3]).map (fun s => (s.reqs, s.running)) = some (3, [1]) := by decide

end ConnLoop
