import GldapModel.Gldap.Response
import GldapModel.Props.C14
/-! # C04 - responses reach the client with the request's message ID and the values set

`packetOf` is the `packet()` of each response type; `Spec.readResponse` is an independent
strict RFC 4511 reader. -/
namespace Gldap
open Ber Spec Gldap.Generated

/-- the application tag belonging to each constructor -/
def RKind.appTag : RKind → Nat
  | .general app => tagOfInt app
  | .bind => 1 | .extended => 24 | .searchDone => 5 | .entry => 4 | .modify => 7

/-- what the client must learn from a response object -/
def viewOfResp (r : Resp) : RView :=
  match r.kind with
  | .entry => .entry r.messageID r.entryDN (r.attrs.map fun a => (a.name, a.values))
  | k => .result r.messageID k.appTag r.code r.matched r.diag
      (if k = .bind ∨ k = .searchDone then r.controls.map viewOf else [])

def Resp.WF (r : Resp) : Prop :=
  Int64 r.messageID ∧ Int64 r.code ∧ (∀ c ∈ r.controls, c.WF)

theorem octetContent_map (vs : List Bytes) : (vs.map octetNode).mapM octetContent = some vs := by
  induction vs with
  | nil => rfl
  | cons v vs ih => simp [List.mapM_cons, octetNode, octetContent, ih]

theorem readAttr_encode (a : EAttr) : readAttr (encodeEAttr a) = some (a.name, a.values) := by
  simp only [encodeEAttr, seqNode, octetNode, readAttr, octetContent_map, Option.map_some]

theorem readAttrs_encode (as : List EAttr) :
    (as.map encodeEAttr).mapM readAttr = some (as.map fun a => (a.name, a.values)) := by
  induction as with
  | nil => rfl
  | cons a as ih => simp [List.mapM_cons, readAttr_encode, ih]

theorem readAttrs_encode' (as : List EAttr) :
    as.mapM (readAttr ∘ encodeEAttr) = some (as.map fun a => (a.name, a.values)) := by
  induction as with
  | nil => rfl
  | cons a as ih => simp [List.mapM_cons, readAttr_encode, ih]

theorem readControls_encode (ext) (cs : List Control) (hw : ∀ c ∈ cs, c.WF) :
    (cs.map encodeControl).mapM (readCtl ext) = some (cs.map viewOf) := by
  induction cs with
  | nil => rfl
  | cons c cs ih =>
    have h1 := C14_client ext c (hw c (by simp))
    have h2 := ih (fun c hc => hw c (by simp [hc]))
    simp [List.mapM_cons, h1, h2]

theorem readControls_with (ext) (cs : List Control) (hw : ∀ c ∈ cs, c.WF) (a b : Node) :
    ∃ rest, withControls [a, b] cs = a :: b :: rest ∧ readControls ext rest = some (cs.map viewOf) := by
  unfold withControls
  cases cs with
  | nil => exact ⟨[], by simp, rfl⟩
  | cons c cs =>
    refine ⟨[encodeControls (c :: cs)], by simp, ?_⟩
    have := readControls_encode ext (c :: cs) hw
    simp only [encodeControls, readControls]
    exact this

/-- the result-carrying response types: message id, tag of the constructor, code, matched DN,
    diagnostic message and (Bind / SearchDone) controls arrive exactly as set -/
theorem C04_wire_tree (ext : Nat → Bytes → Bool) (r : Resp) (hw : r.WF) :
    readResponse ext (packetOf r) = some (viewOfResp r) := by
  obtain ⟨hid, hcode, hctl⟩ := hw
  have pid := parseInt64_encodeInteger r.messageID hid
  have pc := parseInt64_encodeInteger r.code hcode
  cases hk : r.kind with
  | entry =>
    simp [packetOf, hk, viewOfResp, seqNode, octetNode, readResponse, pid, readAttrs_encode',
      ApplicationSearchResultEntry]
  | extended =>
    simp [packetOf, hk, viewOfResp, seqNode, octetNode, resultNode, readResponse, pid, pc, readControls,
      RKind.appTag, ApplicationExtendedResponse]
  | general app =>
    simp [packetOf, hk, viewOfResp, seqNode, octetNode, resultNode, readResponse, pid, pc, readControls,
      RKind.appTag]
  | modify =>
    simp [packetOf, hk, viewOfResp, seqNode, octetNode, resultNode, readResponse, pid, pc, readControls,
      RKind.appTag, ApplicationModifyResponse, tagOfInt]
  | bind =>
    obtain ⟨rest, h1, h2⟩ := readControls_with ext r.controls hctl (.prim 0 2 (encodeInteger r.messageID))
      (resultNode ApplicationBindResponse r)
    simp only [packetOf, hk, seqNode, h1]
    simp [resultNode, octetNode, readResponse, pid, pc, h2, viewOfResp, hk, RKind.appTag, ApplicationBindResponse]
  | searchDone =>
    obtain ⟨rest, h1, h2⟩ := readControls_with ext r.controls hctl (.prim 0 2 (encodeInteger r.messageID))
      (resultNode ApplicationSearchResultDone r)
    simp only [packetOf, hk, seqNode, h1]
    simp [resultNode, octetNode, readResponse, pid, pc, h2, viewOfResp, hk, RKind.appTag, ApplicationSearchResultDone]

/-- ... and from the bytes `ResponseWriter.Write` sends, whatever follows them on the stream:
    one well-formed LDAPMessage, then the untouched rest -/
theorem C04_wire (ext : Nat → Bytes → Bool) (r : Resp) (hw : r.WF) (hber : (packetOf r).WF ext) (rest : Bytes) :
    (readPacket ext (responseBytes r ++ rest)).map (fun p => (readResponse ext p.1, p.2)) =
      some (some (viewOfResp r), rest) := by
  simp [responseBytes, readPacket_ser ext _ rest hber, C04_wire_tree ext r hw]

/-! ### the values are the ones set: constructors, option order, setters -/

theorem toInt16_id (c : Int) (h : 0 ≤ c ∧ c < 32768) : toInt16 c = c := by
  unfold toInt16; simp only; split <;> omega

/-- codes beyond int16 are altered (why the property's quantifier stops at 32767) -/
theorem toInt16_wraps : toInt16 40000 = -25536 := by decide

theorem opts_last_code (opts : List ROpt) (c : Int) : (getResponseOpts (opts ++ [.code c])).code = some c := by
  simp [getResponseOpts, List.foldl_append, applyROpt]
theorem opts_last_diag (opts : List ROpt) (s : Bytes) : (getResponseOpts (opts ++ [.diag s])).diag = s := by
  simp [getResponseOpts, List.foldl_append, applyROpt]
theorem opts_last_matched (opts : List ROpt) (s : Bytes) : (getResponseOpts (opts ++ [.matched s])).matched = s := by
  simp [getResponseOpts, List.foldl_append, applyROpt]
theorem opts_last_appCode (opts : List ROpt) (c : Int) : (getResponseOpts (opts ++ [.appCode c])).appCode = some c := by
  simp [getResponseOpts, List.foldl_append, applyROpt]

/-- an option of another kind does not disturb a field -/
theorem opts_code_frame (opts : List ROpt) (o : ROpt) (h : ∀ c, o ≠ .code c) :
    (getResponseOpts (opts ++ [o])).code = (getResponseOpts opts).code := by
  cases o <;> simp_all [getResponseOpts, List.foldl_append, applyROpt]

theorem applySets_messageID (r : Resp) (ss : List RSet) : (applySets r ss).messageID = r.messageID := by
  induction ss generalizing r with
  | nil => rfl
  | cons s ss ih =>
    simp only [applySets, List.foldl_cons] at ih ⊢
    rw [ih]
    cases s <;> simp [applySet] <;> split <;> rfl

theorem applySets_kind (r : Resp) (ss : List RSet) : (applySets r ss).kind = r.kind := by
  induction ss generalizing r with
  | nil => rfl
  | cons s ss ih =>
    simp only [applySets, List.foldl_cons] at ih ⊢
    rw [ih]
    cases s <;> simp [applySet] <;> split <;> rfl

/-- every constructor takes the request's message id, and no setter changes it or the kind -/
theorem C04_message_id (g : Guards) (mid : Int) (dn : Bytes) (opts : List ROpt) (ss : List RSet) :
    (applySets (newResponse mid opts) ss).messageID = mid ∧
    (applySets (newBindResponse mid opts) ss).messageID = mid ∧
    (applySets (newExtendedResponse mid opts) ss).messageID = mid ∧
    (applySets (newSearchDoneResponse mid opts) ss).messageID = mid ∧
    (applySets (newSearchResponseEntry mid dn opts) ss).messageID = mid ∧
    (∀ r, newModifyResponse g mid opts = .ok r → (applySets r ss).messageID = mid) := by
  refine ⟨by rw [applySets_messageID]; rfl, by rw [applySets_messageID]; rfl, by rw [applySets_messageID]; rfl,
    by rw [applySets_messageID]; rfl, by rw [applySets_messageID]; rfl, ?_⟩
  intro r hr
  rw [applySets_messageID]
  unfold newModifyResponse at hr
  simp only at hr
  cases hc : (getResponseOpts opts).code with
  | none =>
    rw [hc] at hr
    by_cases hg : g.modifyRespCode = true
    · simp [hg] at hr; subst hr; rfl
    · simp [hg] at hr
  | some c => rw [hc] at hr; simp at hr; subst hr; rfl

theorem applySets_last_code (r : Resp) (ss : List RSet) (c : Int) :
    (applySets r (ss ++ [.code c])).code = toInt16 c := by
  simp [applySets, List.foldl_append, applySet]
theorem applySets_last_diag (r : Resp) (ss : List RSet) (s : Bytes) :
    (applySets r (ss ++ [.diag s])).diag = s := by
  simp [applySets, List.foldl_append, applySet]
theorem applySets_last_matched (r : Resp) (ss : List RSet) (s : Bytes) :
    (applySets r (ss ++ [.matched s])).matched = s := by
  simp [applySets, List.foldl_append, applySet]

/-- attributes added with AddAttribute appear after the constructor's, in the order added -/
theorem applySets_addAttr (r : Resp) (hk : r.kind = .entry) (ss : List RSet) (n : Bytes) (vs : List Bytes) :
    (applySets r (ss ++ [.addAttr n vs])).attrs = (applySets r ss).attrs ++ [newEntryAttribute n vs] := by
  have hk' := applySets_kind r ss
  simp only [applySets, List.foldl_append, List.foldl_cons, List.foldl_nil] at hk' ⊢
  simp [applySet, hk', hk]

/-- C16: no constructor panics, for any option list, once the nil code is defaulted -/
theorem C04_ctor_total (g : Guards) (hg : g.modifyRespCode = true) (mid : Int) (opts : List ROpt) :
    newModifyResponse g mid opts ≠ .panic := by
  unfold newModifyResponse
  simp only
  cases (getResponseOpts opts).code <;> simp [hg]

theorem C04_ctor_witness (mid : Int) : newModifyResponse noGuards mid [] = .panic := by
  simp [newModifyResponse, getResponseOpts, responseDefaults, noGuards]

/-- non-vacuity -/
example : readResponse (fun _ _ => true)
    (packetOf (applySets (newBindResponse 7 [.code 49]) [.matched [100], .controls [.paging 5 [1]]])) =
    some (.result 7 1 49 [100] [] [.paging 5 [1]]) := by decide

end Gldap
